//go:build verif

// Two-request interleavings through the REAL SessionManager.HandlePacket, at the granularity of the cloud-control /
// storage reads a TunnelOpen performs (HandleTunnelOpen -> ValidateMapping/GetPortMapping, isSourceClient -> GetPortMapping,
// startSourceBridge -> GetPortMapping).  The fixture's storage is wrapped in a gated double: request B is started on its
// own goroutine and PARKED at its n-th read of the mapping it names (no sleeps for ordering), request A then runs to
// completion, B is released.  n = 1, 2, 3 ... walks B's park point from "before validation" past "after the
// tunnelBridges lookup, before create/attach" to "never parked" (= B entirely before A).
// Afterwards: who holds the bridge registered under the (shared, client-chosen) tunnel id, did the bridge's mapping
// change, and who can read what the other end writes.
package main

import (
	"bytes"
	"encoding/json"
	"fmt"
	"runtime"
	"strings"
	"sync"
	"time"

	"tunnox-core/internal/cloud/models"
	"tunnox-core/internal/core/storage"
	"tunnox-core/internal/core/types"
	"tunnox-core/internal/packet"
)

type gatedStorage struct {
	storage.FullStorage
	mu        sync.Mutex
	armed     bool
	afterRead bool // park AFTER the underlying read (the caller then returns the value read before it was parked)
	anyCaller bool // do not require handleTunnelOpen on the caller's stack
	substr    string
	skip      int
	parked    chan struct{}
	release   chan struct{}
	// one-shot gate on Set (parks BEFORE the write)
	setArmed   bool
	setSubstr  string
	setParked  chan struct{}
	setRelease chan struct{}
}

func (g *gatedStorage) armAfterRead(substr string) {
	g.mu.Lock()
	g.armed, g.afterRead, g.anyCaller, g.substr, g.skip = true, true, true, substr, 1
	g.parked, g.release = make(chan struct{}), make(chan struct{})
	g.mu.Unlock()
}
func (g *gatedStorage) armSet(substr string) {
	g.mu.Lock()
	g.setArmed, g.setSubstr = true, substr
	g.setParked, g.setRelease = make(chan struct{}), make(chan struct{})
	g.mu.Unlock()
}
func (g *gatedStorage) Set(key string, value interface{}, ttl time.Duration) error {
	g.mu.Lock()
	if g.setArmed && strings.HasSuffix(key, g.setSubstr) {
		g.setArmed = false
		p, r := g.setParked, g.setRelease
		g.mu.Unlock()
		close(p)
		<-r
		return g.FullStorage.Set(key, value, ttl)
	}
	g.mu.Unlock()
	return g.FullStorage.Set(key, value, ttl)
}

func (g *gatedStorage) arm(substr string, nth int) {
	g.mu.Lock()
	g.armed, g.afterRead, g.anyCaller, g.substr, g.skip = true, false, false, substr, nth
	g.parked, g.release = make(chan struct{}), make(chan struct{})
	g.mu.Unlock()
}
func (g *gatedStorage) disarm() {
	g.mu.Lock()
	g.armed = false
	g.mu.Unlock()
}
func (g *gatedStorage) Get(key string) (interface{}, error) {
	g.mu.Lock()
	// only the request's own synchronous flow (SessionManager.handleTunnelOpen on the calling goroutine's stack) is gated: the
	// asynchronous notifyTargetClientToOpenTunnel of a just-created bridge reads the same mapping and must not be parked instead
	if g.armed && strings.HasSuffix(key, g.substr) && (g.anyCaller || onStack("handleTunnelOpen")) {
		g.skip--
		if g.skip <= 0 {
			g.armed = false
			p, r, after := g.parked, g.release, g.afterRead
			g.mu.Unlock()
			if after {
				v, err := g.FullStorage.Get(key)
				close(p)
				<-r
				return v, err
			}
			close(p)
			<-r
			return g.FullStorage.Get(key)
		}
	}
	g.mu.Unlock()
	return g.FullStorage.Get(key)
}

func onStack(fn string) bool {
	pcs := make([]uintptr, 48)
	n := runtime.Callers(2, pcs)
	frames := runtime.CallersFrames(pcs[:n])
	for {
		f, more := frames.Next()
		if strings.HasSuffix(f.Function, "."+fn) {
			return true
		}
		if !more {
			return false
		}
	}
}

type raceReq struct {
	Who    string `json:"who"`    // L | T | S | X | none
	Mid    string `json:"mid"`    // m1 | m2 | none
	Secret string `json:"secret"` // see secretFor
}
type raceIn struct {
	Mode string  `json:"mode"`
	A    raceReq `json:"a"`    // runs atomically while B is parked
	B    raceReq `json:"b"`    // parked at its Gate-th read of the mapping it names
	Pre    *raceReq `json:"pre,omitempty"` // bridge replacement: a request that runs first (normally creating the bridge B will look up) ...
	EndPre bool     `json:"end_pre"`       // ... and, while B is parked, the bridge registered under the tunnel id ENDS before A runs
	Gate int     `json:"gate"` // n>0: B parks at its n-th storage read of the mapping it names; 0: at its ack write; -1: never (B entirely first)
}
type raceOut struct {
	BParked   bool     `json:"b_parked"`
	AckA      int      `json:"ack_a"`
	AckB      int      `json:"ack_b"`
	Bridge    bool     `json:"bridge"`
	MidMid    int      `json:"mid_mid"`  // mapping of the bridge right after A finished (0 none, 1 m1, 2 m2)
	MidEnd    int      `json:"mid_end"`  // ... and after B finished
	Src       int      `json:"src"`      // 0 nobody, 1 A, 2 B
	Tgt       int      `json:"tgt"`
	Readers   []string `json:"readers"`  // which of A / B read bytes written into the tunnel by the other side
	Ended     bool     `json:"ended"`     // a registered bridge was ended while B was parked
	LegitTgt  bool     `json:"legit_tgt"` // a legitimate target of the bridge's mapping was attached afterwards for the byte test
	PropOK    bool     `json:"prop_ok"`
	PropMsg   string   `json:"prop_msg"`
	Class     string   `json:"class"`
	SetupErr  string   `json:"setup_err"`
}

func runRace(w *world, in raceIn) (out raceOut) {
	out.PropOK = true
	cellSeq++
	base := cellSeq
	defer func() {
		if r := recover(); r != nil {
			w.gate.disarm()
			out.SetupErr = fmt.Sprintf("%v", r)
			out.PropOK, out.Class = false, "setup"
			out.PropMsg = "harness: interleaving could not be driven: " + out.SetupErr
		}
	}()
	tunnelID := fmt.Sprintf("vr%d", base)
	mk := func(listen, target int64, key string) *models.PortMapping {
		m, err := w.fx.Cloud.CreatePortMapping(&models.PortMapping{ListenClientID: listen, TargetClientID: target, SecretKey: key,
			Protocol: models.ProtocolTCP, SourcePort: 18000, TargetHost: "127.0.0.1", TargetPort: 18001, Status: models.MappingStatusActive})
		must(err)
		return m
	}
	keys := map[string]string{"m1": fmt.Sprintf("rk%d-one", base), "m2": fmt.Sprintf("rk%d-two", base), "m3": fmt.Sprintf("rk%d-srv", base)}
	maps := map[string]*models.PortMapping{"m1": mk(w.L.id, w.T.id, keys["m1"]), "m2": mk(w.S.id, w.X.id, keys["m2"]), "m3": mk(0, w.T.id, keys["m3"])}
	idOf := map[string]int{maps["m1"].ID: 1, maps["m2"].ID: 2, maps["m3"].ID: 3}
	nameOf := map[int]string{0: "", 1: "m1", 2: "m2", 3: "m3"}
	clients := map[string]client{"L": w.L, "T": w.T, "S": w.S, "X": w.X}
	listenOf := map[string]string{"m1": "L", "m2": "S", "m3": "-"}
	targetOf := map[string]string{"m1": "T", "m2": "X", "m3": "T"}

	type side struct {
		fc   *fakeConn
		c    *types.Connection
		req  *packet.TunnelOpenRequest
		rr   raceReq
		ent  bool
		skip int
	}
	var fakes []*fakeConn
	var conns []*types.Connection
	prep := func(rr raceReq) *side {
		fc, c := w.nextConn()
		fakes, conns = append(fakes, fc), append(conns, c)
		if cl, ok := clients[rr.Who]; ok {
			w.authTunnelConn(fc, c, cl, 2)
		} else if rr.Who == "half" {
			w.authTunnelConn(fc, c, w.S, 1) // only the first handshake message: a record with client id 0
		}
		req := &packet.TunnelOpenRequest{TunnelID: tunnelID}
		right, other := keys["m1"], keys["m2"]
		if rr.Mid == "m1" || rr.Mid == "m2" || rr.Mid == "m3" {
			req.MappingID = maps[rr.Mid].ID
			if rr.Mid == "m2" {
				right, other = keys["m2"], keys["m1"]
			} else if rr.Mid == "m3" {
				right = keys["m3"]
			}
		}
		req.SecretKey = secretFor(rr.Secret, right, other)
		s := &side{fc: fc, c: c, req: req, rr: rr, skip: len(fc.output())}
		if _, ok := clients[rr.Who]; ok && req.MappingID != "" {
			isL, isT := listenOf[rr.Mid] == rr.Who, targetOf[rr.Mid] == rr.Who
			s.ent = (isL && rr.Secret == "none") || ((isL || isT) && rr.Secret == "right")
		}
		return s
	}
	defer func() {
		w.gate.disarm()
		w.fx.Session.VerifForgetBridge(tunnelID)
		for _, f := range fakes {
			f.Close()
		}
		for _, c := range conns {
			{
				id := c.ID
				bounded(func() { _ = w.fx.Session.CloseConnection(id) })
			}
		}
	}()
	ackOf := func(s *side) int {
		last := 0
		for _, p := range s.fc.packets(s.skip) {
			if p.PacketType&0x3F != packet.TunnelOpenAck {
				break
			}
			var r packet.TunnelOpenAckResponse
			if json.Unmarshal(p.Payload, &r) == nil {
				last = 2
				if r.Success {
					last = 1
				}
			}
		}
		return last
	}
	send := func(s *side) error {
		body, _ := json.Marshal(s.req)
		return w.send(s.c, &packet.TransferPacket{PacketType: packet.TunnelOpen, TunnelID: tunnelID, Payload: body})
	}
	var P *side
	if in.Pre != nil {
		P = prep(*in.Pre)
		done := make(chan error, 1)
		go func() { done <- send(P) }()
		select {
		case <-done:
		case <-time.After(10 * time.Second):
			panic("the preliminary request did not return within 10 s")
		}
	}
	A, B := prep(in.A), prep(in.B)

	// B runs until its Gate-th read of the mapping it names, or to completion
	doneB := make(chan error, 1)
	gateKey := "\x00never"
	if B.req.MappingID != "" {
		gateKey = B.req.MappingID
	}
	var parkedCh, releaseCh chan struct{}
	switch {
	case in.Gate > 0: // park at the Gate-th storage read of the mapping B names
		w.gate.arm(gateKey, in.Gate)
		parkedCh, releaseCh = w.gate.parked, w.gate.release
	case in.Gate == 0: // park at B's acknowledgement write: after the tunnelBridges lookup, before create/attach
		parkedCh, releaseCh = make(chan struct{}), make(chan struct{})
		B.fc.mu.Lock()
		B.fc.wgateParked, B.fc.wgateRelease = parkedCh, releaseCh
		B.fc.mu.Unlock()
	default: // no gate: B entirely before A
		parkedCh, releaseCh = make(chan struct{}), make(chan struct{})
	}
	released := false
	defer func() {
		if !released {
			func() { defer func() { recover() }(); close(releaseCh) }()
		}
	}()
	go func() { doneB <- send(B) }()
	bDone := false
	select {
	case <-parkedCh:
		out.BParked = true
	case <-doneB:
		bDone = true
		w.gate.disarm()
		B.fc.mu.Lock()
		B.fc.wgateParked = nil
		B.fc.mu.Unlock()
	case <-time.After(10 * time.Second):
		panic("request B neither parked nor returned within 10 s")
	}
	// bridge replacement: the bridge B looked up ends now (its lifecycle goroutine removes it from tunnelBridges)
	if in.EndPre {
		if ob := w.fx.Session.VerifBridge(tunnelID); ob != nil {
			bounded(func() { ob.Close() })
			dl := time.Now().Add(5 * time.Second)
			for w.fx.Session.VerifBridge(tunnelID) != nil {
				if time.Now().After(dl) {
					panic("the closed bridge was not removed from tunnelBridges within 5 s")
				}
				time.Sleep(200 * time.Microsecond)
			}
			out.Ended = true
		}
	}
	// A runs to completion (the gate is one-shot: A's own reads pass)
	doneA := make(chan error, 1)
	go func() { doneA <- send(A) }()
	select {
	case <-doneA:
	case <-time.After(10 * time.Second):
		panic("request A did not return within 10 s")
	}
	midOf := func() int {
		if b := w.fx.Session.VerifBridge(tunnelID); b != nil {
			return idOf[b.GetMappingID()]
		}
		return 0
	}
	out.MidMid = midOf()
	bridgeMid := w.fx.Session.VerifBridge(tunnelID)
	released = true
	close(releaseCh) // whoever is parked (B's own flow) goes on now
	if !bDone {
		select {
		case <-doneB:
		case <-time.After(10 * time.Second):
			panic("request B did not return within 10 s after its release")
		}
	}
	out.AckA, out.AckB = ackOf(A), ackOf(B)
	b := w.fx.Session.VerifBridge(tunnelID)
	out.Bridge = b != nil
	out.MidEnd = midOf()
	who := func(st interface{}) int {
		switch st {
		case interface{}(A.c.Stream):
			return 1
		case interface{}(B.c.Stream):
			return 2
		}
		if P != nil && st == interface{}(P.c.Stream) {
			return 3
		}
		return 0
	}
	fail := func(class, msg string) {
		if out.PropOK {
			out.PropOK, out.Class, out.PropMsg = false, class, msg
		}
	}
	sides := map[int]*side{1: A, 2: B}
	label := map[int]string{1: "A", 2: "B", 3: "PRE"}
	if P != nil {
		sides[3] = P
	}
	check := func(k int, how string) {
		s := sides[k]
		tm := nameOf[out.MidEnd]
		if s.rr.Mid != tm || !s.ent {
			why := "is not entitled to the mapping it named"
			if s.rr.Mid != tm {
				why = fmt.Sprintf("presented mapping %q but the tunnel belongs to %q", s.rr.Mid, tm)
			}
			fail("race-attach", fmt.Sprintf("request %s (%s, %s, secret %s) %s and %s", label[k], s.rr.Who, s.rr.Mid, s.rr.Secret, how, why))
		}
	}
	if b != nil {
		if bridgeMid != nil && bridgeMid == b && out.MidMid != out.MidEnd {
			fail("race-bridge-mapping-changed", fmt.Sprintf("the bridge's mapping changed from %q to %q", nameOf[out.MidMid], nameOf[out.MidEnd]))
		}
		if s := b.GetSourceTunnelConn(); s != nil {
			out.Src = who(s.GetStream())
		}
		if t := b.GetTargetTunnelConn(); t != nil {
			out.Tgt = who(t.GetStream())
		}
		if out.Src != 0 {
			check(out.Src, "is the bridge's source")
		}
		if out.Tgt != 0 {
			check(out.Tgt, "is the bridge's target")
		}
		// byte test: make sure the bridge has a target, then write from both ends
		var legit *fakeConn
		if !b.IsTargetReady() && out.MidEnd != 0 {
			tm := nameOf[out.MidEnd]
			fc, c := w.nextConn()
			fakes, conns = append(fakes, fc), append(conns, c)
			w.authTunnelConn(fc, c, clients[targetOf[tm]], 2)
			a, _ := w.tunnelOpen(fc, c, &packet.TunnelOpenRequest{MappingID: maps[tm].ID, TunnelID: tunnelID, SecretKey: keys[tm]})
			if a.N == 1 && a.Success {
				legit = fc
				out.LegitTgt = true
			}
		}
		if b.IsTargetReady() {
			mS := []byte("FROM-SOURCE-SIDE-" + tunnelID)
			mT := []byte("FROM-TARGET-SIDE-" + tunnelID)
			// every connection that might be wired into the bridge gets both markers as input; a reader of a marker it did
			// not write itself is receiving tunnel traffic
			if legit != nil {
				legit.feed(mT)
			}
			for k, s := range sides {
				if out.Src == k {
					s.fc.feed(mS)
				} else if out.Tgt == k {
					s.fc.feed(mT)
				}
			}
			if out.Src == 0 {
				// the source is somebody the harness does not know: nothing to feed
			}
			deadline := time.Now().Add(1500 * time.Millisecond)
			if out.Src == 0 || (legit == nil && out.Tgt == 0) {
				deadline = time.Now() // nobody the harness controls is on both ends: nothing to wait for
			}
			seen := func() bool {
				for k, s := range sides {
					o := s.fc.output()
					if (out.Src != k && bytes.Contains(o, mS)) || (out.Tgt != k && bytes.Contains(o, mT)) {
						return true
					}
				}
				return legit != nil && bytes.Contains(legit.output(), mS)
			}
			for !seen() && time.Now().Before(deadline) {
				time.Sleep(300 * time.Microsecond)
			}
			time.Sleep(2 * time.Millisecond)
			for k, s := range sides {
				o := s.fc.output()
				if (out.Src != k && bytes.Contains(o, mS)) || (out.Tgt != k && bytes.Contains(o, mT)) {
					out.Readers = append(out.Readers, label[k])
					check(k, "read bytes written by the other end of the tunnel")
				}
			}
		}
	}
	// not entitled to anything => failure ack (when it was decided sequentially, i.e. the request saw the final state)
	for k, s := range sides {
		if !s.ent && ackOf(s) == 1 {
			fail("race-ack", fmt.Sprintf("request %s (%s, %s, secret %s) is not entitled to the mapping it named but was acknowledged with success", label[k], s.rr.Who, s.rr.Mid, s.rr.Secret))
		}
	}
	return out
}

// ---------------------------------------------------------------------------------------------------------------
// stale read after a completed update (deterministic witness): GenericRepository.Get wraps every read in a singleflight
// group; a reader that STARTS after UpdatePortMapping has returned can join a flight whose storage read happened BEFORE the
// write, and validates the TunnelOpen against the mapping as it was before the revocation / expiry / deactivation.
//   U : UpdatePortMapping(M1 := changed) parked at its storage Set          R2: GetPortMapping(M1) read the OLD value, parked in flight
//   release U (update complete)     O2: TunnelOpen on M1 starts now and joins R2's flight     release R2
// ---------------------------------------------------------------------------------------------------------------
type staleIn struct {
	Mode   string `json:"mode"`
	Change string `json:"change"` // revoked | exp2s | inactive
	Secret string `json:"secret"` // none | right
}
type staleOut struct {
	Ack      int    `json:"ack"`       // of the open that started after the update had completed
	Bridge   bool   `json:"bridge"`    // it created a bridge
	AckAfter int    `json:"ack_after"` // control: a further open once nothing is in flight (must be refused)
	PropOK   bool   `json:"prop_ok"`
	PropMsg  string `json:"prop_msg"`
	Class    string `json:"class"`
	SetupErr string `json:"setup_err"`
}

func runStale(w *world, in staleIn) (out staleOut) {
	out.PropOK = true
	cellSeq++
	base := cellSeq
	var toRelease []chan struct{}
	defer func() {
		for _, c := range toRelease {
			func() { defer func() { recover() }(); close(c) }()
		}
		w.gate.disarm()
		if r := recover(); r != nil {
			out.SetupErr = fmt.Sprintf("%v", r)
			out.PropOK, out.Class, out.PropMsg = false, "setup", "harness: stale-read witness could not be driven: "+fmt.Sprintf("%v", r)
		}
	}()
	key := fmt.Sprintf("sk%d-secret", base)
	m, err := w.fx.Cloud.CreatePortMapping(&models.PortMapping{ListenClientID: w.L.id, TargetClientID: w.T.id, SecretKey: key,
		Protocol: models.ProtocolTCP, SourcePort: 18000, TargetHost: "127.0.0.1", TargetPort: 18001, Status: models.MappingStatusActive})
	must(err)
	obj, err := w.fx.Cloud.GetPortMapping(m.ID)
	must(err)
	switch in.Change {
	case "revoked":
		obj.IsRevoked = true
	case "exp2s":
		t := time.Now().Add(-2 * time.Second)
		obj.ExpiresAt = &t
	case "inactive":
		obj.Status = models.MappingStatusInactive
	default:
		panic("bad change")
	}
	wait := func(c chan struct{}, what string) {
		select {
		case <-c:
		case <-time.After(5 * time.Second):
			panic(what + " did not happen within 5 s")
		}
	}
	// U parks at its Set (its own existence check has completed)
	w.gate.armSet(m.ID)
	setParked, setRelease := w.gate.setParked, w.gate.setRelease
	toRelease = append(toRelease, setRelease)
	doneU := make(chan error, 1)
	go func() { doneU <- w.fx.Cloud.UpdatePortMapping(obj) }()
	wait(setParked, "the update reaching its storage write")
	// R2 reads the old value and stays in flight
	w.gate.armAfterRead(m.ID)
	rdParked, rdRelease := w.gate.parked, w.gate.release
	toRelease = append(toRelease, rdRelease)
	doneR := make(chan struct{})
	go func() { _, _ = w.fx.Cloud.GetPortMapping(m.ID); close(doneR) }()
	wait(rdParked, "the concurrent reader finishing its storage read")
	// the update completes
	close(setRelease)
	toRelease = toRelease[1:]
	select {
	case e := <-doneU:
		must(e)
	case <-time.After(5 * time.Second):
		panic("UpdatePortMapping did not return")
	}
	// only NOW does the open start
	fc, c := w.nextConn()
	defer func() { fc.Close(); id := c.ID; bounded(func() { _ = w.fx.Session.CloseConnection(id) }) }()
	w.authTunnelConn(fc, c, w.L, 2)
	tunnelID := fmt.Sprintf("vs%d", base)
	req := &packet.TunnelOpenRequest{MappingID: m.ID, TunnelID: tunnelID, SecretKey: secretFor(in.Secret, key, "")}
	type res struct {
		a ackObs
	}
	doneO := make(chan res, 1)
	go func() { a, _ := w.tunnelOpen(fc, c, req); doneO <- res{a} }()
	time.Sleep(40 * time.Millisecond) // let it reach the repository read (it joins the flight or, if it is slow, reads fresh: then nothing is shown)
	close(rdRelease)
	toRelease = nil
	<-doneR
	select {
	case r := <-doneO:
		if r.a.N > 0 {
			out.Ack = 2
			if r.a.Success {
				out.Ack = 1
			}
		}
	case <-time.After(8 * time.Second):
		panic("the open did not return")
	}
	out.Bridge = w.fx.Session.VerifBridge(tunnelID) != nil
	w.fx.Session.VerifForgetBridge(tunnelID)
	// control: with nothing in flight the changed mapping is refused
	fc2, c2 := w.nextConn()
	defer func() { fc2.Close(); id := c2.ID; bounded(func() { _ = w.fx.Session.CloseConnection(id) }) }()
	w.authTunnelConn(fc2, c2, w.L, 2)
	t2 := tunnelID + "b"
	a2, _ := w.tunnelOpen(fc2, c2, &packet.TunnelOpenRequest{MappingID: m.ID, TunnelID: t2, SecretKey: secretFor(in.Secret, key, "")})
	if a2.N > 0 {
		out.AckAfter = 2
		if a2.Success {
			out.AckAfter = 1
		}
	}
	w.fx.Session.VerifForgetBridge(t2)
	if out.Ack == 1 || out.Bridge {
		out.PropOK, out.Class = false, "stale-read"
		out.PropMsg = fmt.Sprintf("mapping %s: UpdatePortMapping had RETURNED before the TunnelOpen (listening client, mapping id%s) started, yet the request was validated against the mapping as it was before (ack=%d, bridge created=%v): it joined the singleflight read of a concurrent GetPortMapping that had read storage before the write",
			in.Change, map[string]string{"none": "", "right": " + secret"}[in.Secret], out.Ack, out.Bridge)
	}
	if out.AckAfter == 1 {
		out.PropOK, out.Class, out.PropMsg = false, "stale-control", "the changed mapping is accepted even with no read in flight"
	}
	return out
}

//go:build verif

// Two-request interleavings through the REAL SessionManager.HandlePacket, at the granularity of the cloud-control /
// storage reads a TunnelOpen performs (HandleTunnelOpen -> ValidateMapping/GetPortMapping, isSourceClient -> GetPortMapping,
// startSourceBridge -> GetPortMapping).  The fixture's storage is wrapped in a gated double: request B is started on its
// own goroutine and PARKED at its n-th read of the mapping it names (no sleeps for ordering), request A then runs to
// completion, B is released.  n = 1, 2, 3 ... walks B's park point from "before validation" past "after the
// tunnelBridges lookup, before create/attach" to "never parked" (= B entirely before A).
// Afterwards: who holds the bridge registered under the (shared, client-chosen) tunnel id, did the bridge's mapping
// change, and who can read what the other end writes.
package main

import (
	"bytes"
	"encoding/json"
	"fmt"
	"runtime"
	"strings"
	"sync"
	"time"

	"tunnox-core/internal/cloud/models"
	"tunnox-core/internal/core/storage"
	"tunnox-core/internal/core/types"
	"tunnox-core/internal/packet"
)

type gatedStorage struct {
	storage.FullStorage
	mu      sync.Mutex
	armed   bool
	substr  string
	skip    int
	parked  chan struct{}
	release chan struct{}
}

func (g *gatedStorage) arm(substr string, nth int) {
	g.mu.Lock()
	g.armed, g.substr, g.skip = true, substr, nth
	g.parked, g.release = make(chan struct{}), make(chan struct{})
	g.mu.Unlock()
}
func (g *gatedStorage) disarm() {
	g.mu.Lock()
	g.armed = false
	g.mu.Unlock()
}
func (g *gatedStorage) Get(key string) (interface{}, error) {
	g.mu.Lock()
	// only the request's own synchronous flow (SessionManager.handleTunnelOpen on the calling goroutine's stack) is gated: the
	// asynchronous notifyTargetClientToOpenTunnel of a just-created bridge reads the same mapping and must not be parked instead
	if g.armed && strings.HasSuffix(key, g.substr) && onStack("handleTunnelOpen") {
		g.skip--
		if g.skip <= 0 {
			g.armed = false
			p, r := g.parked, g.release
			g.mu.Unlock()
			close(p)
			<-r
			return g.FullStorage.Get(key)
		}
	}
	g.mu.Unlock()
	return g.FullStorage.Get(key)
}

func onStack(fn string) bool {
	pcs := make([]uintptr, 48)
	n := runtime.Callers(2, pcs)
	frames := runtime.CallersFrames(pcs[:n])
	for {
		f, more := frames.Next()
		if strings.HasSuffix(f.Function, "."+fn) {
			return true
		}
		if !more {
			return false
		}
	}
}

type raceReq struct {
	Who    string `json:"who"`    // L | T | S | X | none
	Mid    string `json:"mid"`    // m1 | m2 | none
	Secret string `json:"secret"` // see secretFor
}
type raceIn struct {
	Mode string  `json:"mode"`
	A    raceReq `json:"a"`    // runs atomically while B is parked
	B    raceReq `json:"b"`    // parked at its Gate-th read of the mapping it names
	Gate int     `json:"gate"` // n>0: B parks at its n-th storage read of the mapping it names; 0: at its ack write; -1: never (B entirely first)
}
type raceOut struct {
	BParked   bool     `json:"b_parked"`
	AckA      int      `json:"ack_a"`
	AckB      int      `json:"ack_b"`
	Bridge    bool     `json:"bridge"`
	MidMid    int      `json:"mid_mid"`  // mapping of the bridge right after A finished (0 none, 1 m1, 2 m2)
	MidEnd    int      `json:"mid_end"`  // ... and after B finished
	Src       int      `json:"src"`      // 0 nobody, 1 A, 2 B
	Tgt       int      `json:"tgt"`
	Readers   []string `json:"readers"`  // which of A / B read bytes written into the tunnel by the other side
	LegitTgt  bool     `json:"legit_tgt"` // a legitimate target of the bridge's mapping was attached afterwards for the byte test
	PropOK    bool     `json:"prop_ok"`
	PropMsg   string   `json:"prop_msg"`
	Class     string   `json:"class"`
	SetupErr  string   `json:"setup_err"`
}

func runRace(w *world, in raceIn) (out raceOut) {
	out.PropOK = true
	cellSeq++
	base := cellSeq
	defer func() {
		if r := recover(); r != nil {
			w.gate.disarm()
			out.SetupErr = fmt.Sprintf("%v", r)
			out.PropOK, out.Class = false, "setup"
			out.PropMsg = "harness: interleaving could not be driven: " + out.SetupErr
		}
	}()
	tunnelID := fmt.Sprintf("vr%d", base)
	mk := func(listen, target int64, key string) *models.PortMapping {
		m, err := w.fx.Cloud.CreatePortMapping(&models.PortMapping{ListenClientID: listen, TargetClientID: target, SecretKey: key,
			Protocol: models.ProtocolTCP, SourcePort: 18000, TargetHost: "127.0.0.1", TargetPort: 18001, Status: models.MappingStatusActive})
		must(err)
		return m
	}
	keys := map[string]string{"m1": fmt.Sprintf("rk%d-one", base), "m2": fmt.Sprintf("rk%d-two", base)}
	maps := map[string]*models.PortMapping{"m1": mk(w.L.id, w.T.id, keys["m1"]), "m2": mk(w.S.id, w.X.id, keys["m2"])}
	idOf := map[string]int{maps["m1"].ID: 1, maps["m2"].ID: 2}
	nameOf := map[int]string{0: "", 1: "m1", 2: "m2"}
	clients := map[string]client{"L": w.L, "T": w.T, "S": w.S, "X": w.X}
	listenOf := map[string]string{"m1": "L", "m2": "S"}
	targetOf := map[string]string{"m1": "T", "m2": "X"}

	type side struct {
		fc   *fakeConn
		c    *types.Connection
		req  *packet.TunnelOpenRequest
		rr   raceReq
		ent  bool
		skip int
	}
	var fakes []*fakeConn
	var conns []*types.Connection
	prep := func(rr raceReq) *side {
		fc, c := w.nextConn()
		fakes, conns = append(fakes, fc), append(conns, c)
		if cl, ok := clients[rr.Who]; ok {
			w.authTunnelConn(fc, c, cl, 2)
		}
		req := &packet.TunnelOpenRequest{TunnelID: tunnelID}
		right, other := keys["m1"], keys["m2"]
		if rr.Mid == "m1" || rr.Mid == "m2" {
			req.MappingID = maps[rr.Mid].ID
			if rr.Mid == "m2" {
				right, other = keys["m2"], keys["m1"]
			}
		}
		req.SecretKey = secretFor(rr.Secret, right, other)
		s := &side{fc: fc, c: c, req: req, rr: rr, skip: len(fc.output())}
		if _, ok := clients[rr.Who]; ok && req.MappingID != "" {
			isL, isT := listenOf[rr.Mid] == rr.Who, targetOf[rr.Mid] == rr.Who
			s.ent = (isL && rr.Secret == "none") || ((isL || isT) && rr.Secret == "right")
		}
		return s
	}
	defer func() {
		w.gate.disarm()
		w.fx.Session.VerifForgetBridge(tunnelID)
		for _, f := range fakes {
			f.Close()
		}
		for _, c := range conns {
			{
				id := c.ID
				bounded(func() { _ = w.fx.Session.CloseConnection(id) })
			}
		}
	}()
	ackOf := func(s *side) int {
		last := 0
		for _, p := range s.fc.packets(s.skip) {
			if p.PacketType&0x3F != packet.TunnelOpenAck {
				break
			}
			var r packet.TunnelOpenAckResponse
			if json.Unmarshal(p.Payload, &r) == nil {
				last = 2
				if r.Success {
					last = 1
				}
			}
		}
		return last
	}
	send := func(s *side) error {
		body, _ := json.Marshal(s.req)
		return w.send(s.c, &packet.TransferPacket{PacketType: packet.TunnelOpen, TunnelID: tunnelID, Payload: body})
	}
	A, B := prep(in.A), prep(in.B)

	// B runs until its Gate-th read of the mapping it names, or to completion
	doneB := make(chan error, 1)
	gateKey := "\x00never"
	if B.req.MappingID != "" {
		gateKey = B.req.MappingID
	}
	var parkedCh, releaseCh chan struct{}
	switch {
	case in.Gate > 0: // park at the Gate-th storage read of the mapping B names
		w.gate.arm(gateKey, in.Gate)
		parkedCh, releaseCh = w.gate.parked, w.gate.release
	case in.Gate == 0: // park at B's acknowledgement write: after the tunnelBridges lookup, before create/attach
		parkedCh, releaseCh = make(chan struct{}), make(chan struct{})
		B.fc.mu.Lock()
		B.fc.wgateParked, B.fc.wgateRelease = parkedCh, releaseCh
		B.fc.mu.Unlock()
	default: // no gate: B entirely before A
		parkedCh, releaseCh = make(chan struct{}), make(chan struct{})
	}
	released := false
	defer func() {
		if !released {
			func() { defer func() { recover() }(); close(releaseCh) }()
		}
	}()
	go func() { doneB <- send(B) }()
	bDone := false
	select {
	case <-parkedCh:
		out.BParked = true
	case <-doneB:
		bDone = true
		w.gate.disarm()
		B.fc.mu.Lock()
		B.fc.wgateParked = nil
		B.fc.mu.Unlock()
	case <-time.After(10 * time.Second):
		panic("request B neither parked nor returned within 10 s")
	}
	// A runs to completion (the gate is one-shot: A's own reads pass)
	doneA := make(chan error, 1)
	go func() { doneA <- send(A) }()
	select {
	case <-doneA:
	case <-time.After(10 * time.Second):
		panic("request A did not return within 10 s")
	}
	midOf := func() int {
		if b := w.fx.Session.VerifBridge(tunnelID); b != nil {
			return idOf[b.GetMappingID()]
		}
		return 0
	}
	out.MidMid = midOf()
	bridgeMid := w.fx.Session.VerifBridge(tunnelID)
	released = true
	close(releaseCh) // whoever is parked (B's own flow) goes on now
	if !bDone {
		select {
		case <-doneB:
		case <-time.After(10 * time.Second):
			panic("request B did not return within 10 s after its release")
		}
	}
	out.AckA, out.AckB = ackOf(A), ackOf(B)
	b := w.fx.Session.VerifBridge(tunnelID)
	out.Bridge = b != nil
	out.MidEnd = midOf()
	who := func(st interface{}) int {
		switch st {
		case interface{}(A.c.Stream):
			return 1
		case interface{}(B.c.Stream):
			return 2
		}
		return 0
	}
	fail := func(class, msg string) {
		if out.PropOK {
			out.PropOK, out.Class, out.PropMsg = false, class, msg
		}
	}
	sides := map[int]*side{1: A, 2: B}
	label := map[int]string{1: "A", 2: "B"}
	check := func(k int, how string) {
		s := sides[k]
		tm := nameOf[out.MidEnd]
		if s.rr.Mid != tm || !s.ent {
			why := "is not entitled to the mapping it named"
			if s.rr.Mid != tm {
				why = fmt.Sprintf("presented mapping %q but the tunnel belongs to %q", s.rr.Mid, tm)
			}
			fail("race-attach", fmt.Sprintf("request %s (%s, %s, secret %s) %s and %s", label[k], s.rr.Who, s.rr.Mid, s.rr.Secret, how, why))
		}
	}
	if b != nil {
		if bridgeMid != nil && bridgeMid == b && out.MidMid != out.MidEnd {
			fail("race-bridge-mapping-changed", fmt.Sprintf("the bridge's mapping changed from %q to %q", nameOf[out.MidMid], nameOf[out.MidEnd]))
		}
		if s := b.GetSourceTunnelConn(); s != nil {
			out.Src = who(s.GetStream())
		}
		if t := b.GetTargetTunnelConn(); t != nil {
			out.Tgt = who(t.GetStream())
		}
		if out.Src != 0 {
			check(out.Src, "is the bridge's source")
		}
		if out.Tgt != 0 {
			check(out.Tgt, "is the bridge's target")
		}
		// byte test: make sure the bridge has a target, then write from both ends
		var legit *fakeConn
		if !b.IsTargetReady() && out.MidEnd != 0 {
			tm := nameOf[out.MidEnd]
			fc, c := w.nextConn()
			fakes, conns = append(fakes, fc), append(conns, c)
			w.authTunnelConn(fc, c, clients[targetOf[tm]], 2)
			a, _ := w.tunnelOpen(fc, c, &packet.TunnelOpenRequest{MappingID: maps[tm].ID, TunnelID: tunnelID, SecretKey: keys[tm]})
			if a.N == 1 && a.Success {
				legit = fc
				out.LegitTgt = true
			}
		}
		if b.IsTargetReady() {
			mS := []byte("FROM-SOURCE-SIDE-" + tunnelID)
			mT := []byte("FROM-TARGET-SIDE-" + tunnelID)
			// every connection that might be wired into the bridge gets both markers as input; a reader of a marker it did
			// not write itself is receiving tunnel traffic
			if legit != nil {
				legit.feed(mT)
			}
			for k, s := range sides {
				if out.Src == k {
					s.fc.feed(mS)
				} else if out.Tgt == k {
					s.fc.feed(mT)
				}
			}
			if out.Src == 0 {
				// the source is somebody the harness does not know: nothing to feed
			}
			deadline := time.Now().Add(1500 * time.Millisecond)
			if out.Src == 0 || (legit == nil && out.Tgt == 0) {
				deadline = time.Now() // nobody the harness controls is on both ends: nothing to wait for
			}
			seen := func() bool {
				for k, s := range sides {
					o := s.fc.output()
					if (out.Src != k && bytes.Contains(o, mS)) || (out.Tgt != k && bytes.Contains(o, mT)) {
						return true
					}
				}
				return legit != nil && bytes.Contains(legit.output(), mS)
			}
			for !seen() && time.Now().Before(deadline) {
				time.Sleep(300 * time.Microsecond)
			}
			time.Sleep(2 * time.Millisecond)
			for k, s := range sides {
				o := s.fc.output()
				if (out.Src != k && bytes.Contains(o, mS)) || (out.Tgt != k && bytes.Contains(o, mT)) {
					out.Readers = append(out.Readers, label[k])
					check(k, "read bytes written by the other end of the tunnel")
				}
			}
		}
	}
	// not entitled to anything => failure ack (when it was decided sequentially, i.e. the request saw the final state)
	for k, s := range sides {
		if !s.ent && ackOf(s) == 1 {
			fail("race-ack", fmt.Sprintf("request %s (%s, %s, secret %s) is not entitled to the mapping it named but was acknowledged with success", label[k], s.rr.Who, s.rr.Mid, s.rr.Secret))
		}
	}
	return out
}

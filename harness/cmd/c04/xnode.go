//go:build verif

// Two-node scenarios through the REAL code of a two-node cluster: two SessionManagers (node-A, node-B) over ONE storage,
// each with the real TunnelRoutingTable, TunnelConnectionManager (dedicated TCP connections over loopback) and the real
// CrossNodeListener.  A scenario is a list of steps on client-chosen tunnel ids:
//   open    a TunnelOpen on node A or B; with gate=true the request is parked at its acknowledgement write (after the
//           tunnelBridges / routing lookups, before create / attach) until a later `release` step
//   release lets a gated request go on
// Afterwards, on both nodes: which bridge is registered under each tunnel id, for which mapping, who its source / target
// is, what the cluster-wide waiting-tunnel record of the id says, and who reads the bytes each bridge's source writes
// (across nodes).  Predicate: whoever holds or reads a tunnel opened THAT tunnel id, named the mapping the bridge belongs
// to and was entitled to it; the waiting-tunnel record of an id names the mapping of the bridge registered under that id
// on the node the record points to; a request that is not entitled is not acknowledged with success.
package main

import (
	"bytes"
	"context"
	"encoding/json"
	"fmt"
	"strings"
	"time"

	"tunnox-core/internal/cloud/models"
	"tunnox-core/internal/core/types"
	"tunnox-core/internal/packet"
)

type xStep struct {
	Op     string `json:"op"`   // open | release | srv | expire
	Node   string `json:"node"` // A | B
	Who    string `json:"who"`  // L | T | S | X | none
	Mid    string `json:"mid"`  // m1 | m2 | none
	Secret string `json:"secret"`
	Tun    int    `json:"tun"`
	Gate   bool   `json:"gate"`
	Step   int    `json:"step"` // release: index of the gated open
}
type xIn struct {
	Mode  string   `json:"mode"`
	Tids  []string `json:"tids"` // shape of each tunnel id: short | 15 | 16 | 17 | long | +x (the previous id plus "-x")
	Steps []xStep  `json:"steps"`
}
type xTun struct {
	BridgeA, BridgeB int `json:"-"`
	A       []int `json:"a"`   // node A: [bridge?, mapping, source step+1, target step+1, cross-node connection?]
	B       []int `json:"b"`   // node B
	C       []int `json:"c"`   // node C
	Rec     []int `json:"rec"` // waiting-tunnel record: [present, node (1 A, 2 B, 3 other), mapping]
}
type xOut struct {
	Opens    [][]int  `json:"opens"` // per step: [ack, role] (role: 0 none 1 source of existing 2 target 3 new bridge 4 forwarded 6 polling 7 still gated); release steps [0,0]
	Tuns     []xTun   `json:"tuns"`
	Readers  []string `json:"readers"`
	PropOK   bool     `json:"prop_ok"`
	PropMsg  string   `json:"prop_msg"`
	Class    string   `json:"class"`
	SetupErr string   `json:"setup_err"`
}

var clusterA, clusterB, clusterC *world

func runXnode(in xIn) (out xOut) {
	if clusterA == nil {
		clusterA, clusterB, clusterC = newCluster()
	}
	wA, wB, wC := clusterA, clusterB, clusterC
	nodes := []*world{wA, wB, wC}
	out.PropOK = true
	cellSeq++
	base := fmt.Sprintf("vx%d", cellSeq)
	defer func() {
		if r := recover(); r != nil {
			out.SetupErr = fmt.Sprintf("%v", r)
			out.PropOK, out.Class = false, "setup"
			out.PropMsg = "harness: two-node scenario could not be driven: " + out.SetupErr
		}
	}()
	pad := func(n int) string { return base + strings.Repeat("p", n-len(base)) }
	var tunID []string
	for k, sh := range in.Tids {
		switch sh {
		case "short":
			tunID = append(tunID, base+fmt.Sprintf("s%d", k))
		case "15":
			tunID = append(tunID, pad(15))
		case "16":
			tunID = append(tunID, pad(16))
		case "17":
			tunID = append(tunID, pad(17))
		case "long":
			tunID = append(tunID, pad(24)+fmt.Sprintf("%d", k))
		case "+x":
			tunID = append(tunID, tunID[k-1]+"-x")
		case "+|x": // the previous id followed by the separator the TargetReady message uses
			tunID = append(tunID, tunID[k-1]+"|x")
		case "63", "64", "65", "100":
			n := map[string]int{"63": 63, "64": 64, "65": 65, "100": 100}[sh]
			tunID = append(tunID, pad(n))
		case "cut63+x", "cut64+x", "cut65+x": // the first N bytes of the previous id, plus "-x"
			n := map[string]int{"cut63+x": 63, "cut64+x": 64, "cut65+x": 65}[sh]
			prev := tunID[k-1]
			if n > len(prev) {
				n = len(prev)
			}
			tunID = append(tunID, prev[:n]+"-x")
		default:
			panic("bad tid shape " + sh)
		}
	}
	mk := func(listen, target int64, key string) *models.PortMapping {
		m, err := wA.fx.Cloud.CreatePortMapping(&models.PortMapping{ListenClientID: listen, TargetClientID: target, SecretKey: key,
			Protocol: models.ProtocolTCP, SourcePort: 18000, TargetHost: "127.0.0.1", TargetPort: 18001, Status: models.MappingStatusActive})
		must(err)
		return m
	}
	keys := map[string]string{"m1": base + "-one", "m2": base + "-two", "m3": base + "-srv"}
	maps := map[string]*models.PortMapping{"m1": mk(wA.L.id, wA.T.id, keys["m1"]), "m2": mk(wA.S.id, wA.X.id, keys["m2"]), "m3": mk(0, wA.T.id, keys["m3"])}
	idOf := map[string]int{maps["m1"].ID: 1, maps["m2"].ID: 2, maps["m3"].ID: 3}
	nameOf := map[int]string{0: "", 1: "m1", 2: "m2", 3: "m3"}
	clients := map[string]client{"L": wA.L, "T": wA.T, "S": wA.S, "X": wA.X}
	listenOf := map[string]string{"m1": "L", "m2": "S", "m3": "-"}
	targetOf := map[string]string{"m1": "T", "m2": "X", "m3": "T"}

	type xo struct {
		step     int
		w        *world
		fc       *fakeConn
		c        *types.Connection
		tun      int
		named    string
		ent      bool
		skip     int
		done     chan error
		herr     error
		finished bool
		release  chan struct{}
		gated    bool
		polling  bool
	}
	opens := map[int]*xo{}
	var srvFakes []*fakeConn
	defer func() {
		for _, f := range srvFakes {
			f.Close()
		}
	}()
	var order []*xo
	fail := func(class, msg string) {
		if out.PropOK {
			out.PropOK, out.Class, out.PropMsg = false, class, msg
		}
	}
	defer func() {
		for _, o := range order {
			if o.gated && o.release != nil {
				func() { defer func() { recover() }(); close(o.release) }()
			}
		}
		for _, t := range tunID {
			for _, w := range nodes {
				w.fx.Session.VerifForgetBridge(t)
				w.connMgr.CloseTunnel(t)
			}
			_ = wA.routing.RemoveWaitingTunnel(context.Background(), t)
		}
		for _, o := range order {
			o.fc.Close()
			id, w := o.c.ID, o.w
			bounded(func() { _ = w.fx.Session.CloseConnection(id) })
		}
	}()
	finish := func(o *xo, d time.Duration) bool {
		if o.finished {
			return true
		}
		select {
		case e := <-o.done:
			o.herr, o.finished = e, true
			return true
		default:
		}
		if d <= 0 {
			return false
		}
		select {
		case e := <-o.done:
			o.herr, o.finished = e, true
			return true
		case <-time.After(d):
			return false
		}
	}
	ackOf := func(o *xo) int {
		last := 0
		for _, p := range o.fc.packets(o.skip) {
			if p.PacketType&0x3F != packet.TunnelOpenAck {
				break
			}
			var r packet.TunnelOpenAckResponse
			if json.Unmarshal(p.Payload, &r) == nil {
				last = 2
				if r.Success {
					last = 1
				}
			}
		}
		return last
	}
	recordOf := func(tun int) (bool, string, string) {
		st, err := wA.routing.LookupWaitingTunnel(context.Background(), tunID[tun])
		if err != nil {
			return false, "", ""
		}
		return true, st.SourceNodeID, st.MappingID
	}
	// the mapping the tunnel id belongs to for a request arriving on node w: the bridge registered under it on w; else the bridge on
	// the node its waiting-tunnel record points to (or the record's mapping); else nothing yet (tunnel ids are per node once the
	// record of an older tunnel has expired)
	realMapping := func(tun int, w *world) (string, bool) {
		if b := w.fx.Session.VerifBridge(tunID[tun]); b != nil {
			return nameOf[idOf[b.GetMappingID()]], true
		}
		if ok, node, mid := recordOf(tun); ok {
			for _, n := range nodes {
				if n.node == node {
					if b := n.fx.Session.VerifBridge(tunID[tun]); b != nil {
						return nameOf[idOf[b.GetMappingID()]], true
					}
				}
			}
			return nameOf[idOf[mid]], true
		}
		return "", false
	}

	out.Opens = make([][]int, len(in.Steps))
	for i, st := range in.Steps {
		out.Opens[i] = []int{0, 0}
		switch st.Op {
		case "srv":
			// node A's server starts a tunnel itself on the server-side-listener mapping m3 (it chooses the tunnel id)
			wA.seq++
			sf := newFakeConn("198.51.99.7", 30000+wA.seq%20000)
			srvFakes = append(srvFakes, sf)
			id, err := wA.fx.Session.StartServerTunnel(maps["m3"].ID, sf)
			must(err)
			tunID[st.Tun] = id
		case "expire":
			// the waiting-tunnel record of the id reaches its TTL (30 s in production): any tunnel older than that
			_ = wA.routing.RemoveWaitingTunnel(context.Background(), tunID[st.Tun])
		case "release":
			o := opens[st.Step]
			if o == nil || !o.gated {
				panic("generator: release of a step that is not gated")
			}
			close(o.release)
			o.gated = false
			if !finish(o, 400*time.Millisecond) {
				o.polling = true // it went on into the routing poll
			}
		case "open":
			w := wA
			if st.Node == "B" {
				w = wB
			} else if st.Node == "C" {
				w = wC
			}
			fc, c := w.nextConn()
			o := &xo{step: i, w: w, fc: fc, c: c, tun: st.Tun, done: make(chan error, 1)}
			opens[i] = o
			order = append(order, o)
			authed := false
			if cl, ok := clients[st.Who]; ok {
				w.authTunnelConn(fc, c, cl, 2)
				authed = true
			} else if st.Who == "half" {
				w.authTunnelConn(fc, c, w.S, 1)
			}
			req := &packet.TunnelOpenRequest{TunnelID: tunID[st.Tun]}
			right, other := keys["m1"], keys["m2"]
			if st.Mid == "m1" || st.Mid == "m2" || st.Mid == "m3" {
				o.named = st.Mid
				req.MappingID = maps[st.Mid].ID
				if st.Mid == "m2" {
					right, other = keys["m2"], keys["m1"]
				} else if st.Mid == "m3" {
					right = keys["m3"]
				}
			}
			req.SecretKey = secretFor(st.Secret, right, other)
			if authed && o.named != "" {
				isL, isT := listenOf[o.named] == st.Who, targetOf[o.named] == st.Who
				o.ent = (isL && st.Secret == "none") || ((isL || isT) && st.Secret == "right")
			}
			tm, exists := realMapping(st.Tun, w)
			entitledNow := o.ent && (!exists || tm == o.named)
			o.skip = len(fc.output())
			var parked chan struct{}
			if st.Gate {
				parked, o.release = make(chan struct{}), make(chan struct{})
				fc.mu.Lock()
				fc.wgateParked, fc.wgateRelease = parked, o.release
				fc.mu.Unlock()
				o.gated = true
			}
			body, _ := json.Marshal(req)
			go func() {
				o.done <- w.send(c, &packet.TransferPacket{PacketType: packet.TunnelOpen, TunnelID: req.TunnelID, Payload: body})
			}()
			if st.Gate {
				select {
				case <-parked:
				case e := <-o.done:
					o.herr, o.finished, o.gated = e, true, false
				case <-time.After(10 * time.Second):
					panic(fmt.Sprintf("step %d: gated request neither parked nor returned within 10 s", i))
				}
			} else {
				start := time.Now()
				for !finish(o, 2*time.Millisecond) {
					if ackOf(o) == 1 && time.Since(start) > 150*time.Millisecond {
						if rec, _, _ := recordOf(st.Tun); !rec {
							o.polling = true // acknowledged, nothing to attach to, no record: it polls the routing table
							break
						}
					}
					if time.Since(start) > 12*time.Second {
						panic(fmt.Sprintf("step %d: HandlePacket(TunnelOpen) did not return within 12 s", i))
					}
				}
				if !entitledNow && o.finished && ackOf(o) == 1 {
					fail("xnode-ack", fmt.Sprintf("step %d (node %s, %s, %s, secret %s, tunnel %d): not entitled to the tunnel's mapping (tunnel belongs to %q) but acknowledged with success",
						i, st.Node, st.Who, st.Mid, st.Secret, st.Tun, tm))
				}
			}
		default:
			panic("bad op " + st.Op)
		}
	}
	// requests still polling get their chance once a record is visible
	for _, o := range order {
		if o.polling && !o.finished {
			if rec, _, _ := recordOf(o.tun); rec {
				finish(o, 6*time.Second)
			}
		}
	}
	time.Sleep(5 * time.Millisecond) // let the peer node's listener goroutine wire an accepted forward into its bridge

	byStream := func(tc interface{ GetStream() interface{} }) int { return 0 }
	_ = byStream
	stepOf := func(st interface{}) int {
		for _, o := range order {
			if interface{}(o.c.Stream) == st {
				return o.step + 1
			}
		}
		return 0
	}
	describe := func(o *xo) string {
		s := in.Steps[o.step]
		return fmt.Sprintf("step %d (node %s, %s, %s, secret %s, tunnel id #%d %q)", o.step, s.Node, s.Who, s.Mid, s.Secret, s.Tun, tunID[s.Tun])
	}
	checkHolder := func(o *xo, tun int, mapping string, how string) {
		if o.tun != tun {
			fail("xnode-attach", fmt.Sprintf("%s %s of tunnel id #%d %q, which it never named", describe(o), how, tun, tunID[tun]))
			return
		}
		if o.named != mapping || !o.ent {
			why := "is not entitled to the mapping it named"
			if o.named != mapping {
				why = fmt.Sprintf("presented mapping %q but the tunnel belongs to %q", o.named, mapping)
			}
			fail("xnode-attach", fmt.Sprintf("%s %s and %s", describe(o), how, why))
		}
	}
	for k := range tunID {
		t := xTun{}
		for ni, w := range nodes {
			row := []int{0, 0, 0, 0, 0}
			if b := w.fx.Session.VerifBridge(tunID[k]); b != nil {
				row[0], row[1] = 1, idOf[b.GetMappingID()]
				if s := b.GetSourceTunnelConn(); s != nil {
					row[2] = stepOf(s.GetStream())
				}
				if tg := b.GetTargetTunnelConn(); tg != nil {
					row[3] = stepOf(tg.GetStream())
				}
				if b.GetCrossNodeConnection() != nil {
					row[4] = 1
				}
				for _, idx := range []int{row[2], row[3]} {
					if idx != 0 {
						checkHolder(opens[idx-1], k, nameOf[row[1]], "is wired into the bridge")
					}
				}
			}
			switch ni {
			case 0:
				t.A = row
			case 1:
				t.B = row
			default:
				t.C = row
			}
		}
		t.Rec = []int{0, 0, 0}
		if ok, node, mid := recordOf(k); ok {
			n := 3
			var rw *world
			if node == "node-A" {
				n, rw = 1, wA
			} else if node == "node-B" {
				n, rw = 2, wB
			} else if node == "node-C" {
				n, rw = 4, wC
			}
			t.Rec = []int{1, n, idOf[mid]}
			if rw != nil {
				if b := rw.fx.Session.VerifBridge(tunID[k]); b != nil && b.GetMappingID() != mid {
					fail("xnode-record", fmt.Sprintf("the cluster-wide waiting-tunnel record of tunnel id %q says mapping %q on %s, but the bridge registered under that id on %s belongs to mapping %q: a target arriving on another node is checked against the record and forwarded into the bridge",
						tunID[k], nameOf[idOf[mid]], node, node, nameOf[idOf[b.GetMappingID()]]))
				}
			}
		}
		out.Tuns = append(out.Tuns, t)
	}
	for i, st := range in.Steps {
		if st.Op != "open" {
			continue
		}
		o := opens[i]
		role := 0
		switch {
		case o.gated:
			role = 7
		case o.polling && !o.finished:
			role = 6
		case o.herr != nil && strings.Contains(o.herr.Error(), "cross-node forwarding"):
			role = 4
		default:
			for _, t := range out.Tuns {
				for _, row := range [][]int{t.A, t.B, t.C} {
					if row[3] == i+1 {
						role = 2
					} else if row[2] == i+1 {
						role = 3
						if o.herr != nil && strings.Contains(o.herr.Error(), "existing bridge") {
							role = 1
						}
					}
				}
			}
		}
		out.Opens[i] = []int{ackOf(o), role}
	}
	// bytes: every bridge's source writes; whoever reads them (on any node) must be entitled to THAT tunnel
	for k := range tunID {
		for _, w := range nodes {
			b := w.fx.Session.VerifBridge(tunID[k])
			if b == nil || !b.IsTargetReady() {
				continue
			}
			var src *xo
			if s := b.GetSourceTunnelConn(); s != nil {
				if idx := stepOf(s.GetStream()); idx != 0 {
					src = opens[idx-1]
				}
			}
			marker := []byte(fmt.Sprintf("SECRET-OF-%s-ON-%s", tunID[k], w.node))
			if src == nil {
				if len(srvFakes) == 0 || idOf[b.GetMappingID()] != 3 {
					continue
				}
				for _, f := range srvFakes { // the server's own source of a StartServerTunnel bridge writes
					f.feed(marker)
				}
			} else {
				src.fc.feed(marker)
			}
			deadline := time.Now().Add(2 * time.Second)
			seen := func() bool {
				for _, o := range order {
					if o != src && bytes.Contains(o.fc.output(), marker) {
						return true
					}
				}
				return false
			}
			for !seen() && time.Now().Before(deadline) {
				time.Sleep(300 * time.Microsecond)
			}
			for _, o := range order {
				if o != src && bytes.Contains(o.fc.output(), marker) {
					out.Readers = append(out.Readers, fmt.Sprintf("step%d<-tun%d@%s", o.step, k, w.node))
					checkHolder(o, k, nameOf[idOf[b.GetMappingID()]], "reads the bytes written by the source")
				}
			}
		}
	}
	// the other direction: what a FORWARDED requester writes is delivered to the source of some bridge — it must be the bridge
	// of the tunnel id it named, of the mapping it presented (a dedicated connection that still leads to another node's bridge
	// would deliver it into somebody else's tunnel)
	for _, o := range order {
		if !(o.herr != nil && strings.Contains(o.herr.Error(), "cross-node forwarding")) {
			continue
		}
		marker := []byte(fmt.Sprintf("WRITTEN-BY-STEP-%d-%s", o.step, base))
		o.fc.feed(marker)
		deadline := time.Now().Add(600 * time.Millisecond)
		got := func() *xo {
			for _, r := range order {
				if r != o && bytes.Contains(r.fc.output(), marker) {
					return r
				}
			}
			return nil
		}
		for got() == nil && time.Now().Before(deadline) {
			time.Sleep(300 * time.Microsecond)
		}
		r := got()
		if r == nil {
			continue
		}
		// r is the source of which bridge?
		for k := range tunID {
			for _, w := range nodes {
				b := w.fx.Session.VerifBridge(tunID[k])
				if b == nil {
					continue
				}
				if s := b.GetSourceTunnelConn(); s != nil && stepOf(s.GetStream()) == r.step+1 {
					out.Readers = append(out.Readers, fmt.Sprintf("step%d->tun%d@%s", o.step, k, w.node))
					checkHolder(o, k, nameOf[idOf[b.GetMappingID()]], fmt.Sprintf("has what it writes delivered to the source (step %d) on %s", r.step, w.node))
				}
			}
		}
	}
	return out
}

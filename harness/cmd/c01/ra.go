//go:build verif

package main

// ReadAvailable (raw forwarding after the switch to stream mode) against a ReadPacket that is in the middle of a packet on
// the SAME processor: the read lock must keep the second caller away from the transport until the packet is complete —
// otherwise it takes the rest of the packet's body and the stream is misaligned for good.  Packet A = Pkts[0], followed on
// the wire by the raw bytes Wire; ReadPacket is parked before its Park-th transport read, then ReadAvailable is called.

import (
	"bytes"
	"context"
	"fmt"
	"time"

	"tunnox-core/internal/stream"
)

func runRA(c caseIn) interface{} {
	out := &caseOut{PropOK: true, Obs: []obs{}}
	var buf bytes.Buffer
	wsp := stream.NewStreamProcessor(bytes.NewReader(nil), &buf, context.Background())
	tp, body := mkPkt(c.Pkts[0])
	if _, err := wsp.WritePacket(tp, c.Pkts[0].Compress, 0); err != nil {
		out.PropOK, out.PropMsg = false, "WritePacket: "+err.Error()
		return out
	}
	wsp.Close()
	tail := unhx(c.Wire)
	wire := append(append([]byte(nil), buf.Bytes()...), tail...)
	out.WireLen = len(wire)
	// the packet arrives in small pieces (so that ReadPacket makes several transport reads), the tail in one piece
	cuts := []int{}
	for left := buf.Len(); left > 0; {
		k := 3
		if len(cuts) == 0 {
			k = 1
		}
		if k > left {
			k = left
		}
		cuts = append(cuts, k)
		left -= k
	}
	gr := &gateReader{inner: &chunkReader{data: wire, cuts: cuts}, parkAt: c.Park, parked: make(chan struct{}), resume: make(chan struct{})}
	sp := stream.NewStreamProcessor(gr, &bytes.Buffer{}, context.Background())
	defer sp.Close()
	type pres struct {
		ty   byte
		body []byte
		n    int
		err  error
	}
	aDone := make(chan pres, 1)
	go func() {
		p, n, err := sp.ReadPacket()
		r := pres{n: n, err: err}
		if err == nil {
			r.ty, r.body = byte(p.PacketType), p.Payload
			if p.CommandPacket != nil {
				r.body = nil
			}
		}
		aDone <- r
	}()
	select {
	case <-gr.parked:
	case r := <-aDone: // fewer transport reads than Park: nothing to interleave with
		aDone <- r
		close(gr.resume)
		gr.parkAt = -1
	case <-time.After(5 * time.Second):
		out.PropOK, out.PropMsg = false, "ReadPacket neither parked nor finished"
		return out
	}
	type rres struct {
		data []byte
		err  error
	}
	bDone := make(chan rres, 1)
	go func() {
		d, err := sp.ReadAvailable(64)
		bDone <- rres{d, err}
	}()
	early := false
	if gr.parkAt > 0 {
		select {
		case r := <-bDone: // the second caller got to the transport while the packet was incomplete
			early = true
			bDone <- r
		case <-time.After(60 * time.Millisecond):
		}
		close(gr.resume)
	}
	var a pres
	var b rres
	select {
	case a = <-aDone:
	case <-time.After(5 * time.Second):
		out.PropOK, out.PropMsg = false, "ReadPacket did not finish"
		return out
	}
	select {
	case b = <-bDone:
	case <-time.After(5 * time.Second):
		out.PropOK, out.PropMsg = false, "ReadAvailable did not finish"
		return out
	}
	wantTy := byte(c.Pkts[0].Ty)
	if c.Pkts[0].Compress {
		wantTy |= 0x40
	}
	switch {
	case a.err != nil:
		out.PropOK, out.PropMsg = false, fmt.Sprintf("ReadPacket (parked before transport read #%d while ReadAvailable was called on the same processor) failed: %v; ReadAvailable returned %q (early=%v)", c.Park, a.err, b.data, early)
	case a.ty != wantTy || (c.Pkts[0].Cmd == nil && !bytes.Equal(a.body, body)) || a.n != buf.Len():
		out.PropOK, out.PropMsg = false, fmt.Sprintf("ReadPacket (parked before transport read #%d while ReadAvailable was called on the same processor) returned type %#x body %q consumed %d, want type %#x body %q consumed %d; ReadAvailable returned %q", c.Park, a.ty, a.body, a.n, wantTy, body, buf.Len(), b.data)
	case !bytes.HasPrefix(tail, b.data) || (len(tail) > 0 && len(b.data) == 0 && b.err == nil):
		out.PropOK, out.PropMsg = false, fmt.Sprintf("ReadAvailable returned %q (err=%v), want a prefix of the bytes that follow the packet %q", b.data, b.err, tail)
	}
	return out
}

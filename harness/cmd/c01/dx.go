//go:build verif

package main

// Full-duplex use of ONE StreamProcessor: a WritePacket (packet A) and the ReadPacket calls for the incoming packets
// B1.. run on the same processor.  pside "w": the writer is parked before its Park-th transport write while every
// incoming packet is read; pside "r": the reader is parked before its Park-th transport read while A is written
// completely.  Neither direction may disturb the other: the outgoing wire must decode to exactly A, and the reads
// must return exactly B1.. (Properties/C01.v C01_full_duplex_any_schedule).

import (
	"bytes"
	"context"
	"encoding/json"
	"fmt"
	"io"
	"time"

	"tunnox-core/internal/packet"
	"tunnox-core/internal/stream"
)

type dxIn struct {
	Wire   string   `json:"wire"`
	Obs    []obs    `json:"obs"`
	Bodies []string `json:"bodies"`
}

type gateReader struct {
	inner  *chunkReader
	calls  int
	parkAt int
	parked chan struct{}
	resume chan struct{}
}

func (g *gateReader) Read(p []byte) (int, error) {
	g.calls++
	if g.calls == g.parkAt {
		close(g.parked)
		<-g.resume
	}
	return g.inner.Read(p)
}

func mkPkt(p pktIn) (*packet.TransferPacket, []byte) {
	tp := &packet.TransferPacket{PacketType: packet.Type(p.Ty)}
	body := pktBody(p)
	if p.Cmd != nil {
		tp.CommandPacket = p.Cmd
		body, _ = json.Marshal(p.Cmd)
	} else {
		tp.Payload = body
	}
	if byte(p.Ty)&0x3F == 3 {
		body = nil
	}
	return tp, body
}

func readLoop(sp *stream.StreamProcessor, limit int) []obs {
	var out []obs
	for i := 0; i < limit; i++ {
		p, n, err := sp.ReadPacket()
		if err != nil {
			return append(out, obs{Ok: false, N: n, Err: err.Error()})
		}
		o := obs{Ok: true, Ty: int(p.PacketType), N: n}
		if p.CommandPacket != nil {
			b, _ := json.Marshal(p.CommandPacket)
			o.Body = hx(b)
		} else {
			o.Body = hx(p.Payload)
		}
		out = append(out, o)
	}
	return append(out, obs{Ok: false, N: -1, Err: "harness: reader did not stop"})
}

func runDX(c caseIn) interface{} {
	out := &caseOut{PropOK: true}
	if len(c.Pkts) < 2 {
		panic("dx needs A and at least one incoming packet")
	}
	// the incoming stream: B1.. encoded by a separate processor
	var inbuf bytes.Buffer
	enc := stream.NewStreamProcessor(bytes.NewReader(nil), &inbuf, context.Background())
	in := &dxIn{}
	for _, p := range c.Pkts[1:] {
		tp, body := mkPkt(p)
		before := inbuf.Len()
		if _, err := enc.WritePacket(tp, p.Compress, 0); err != nil {
			panic(err)
		}
		in.Bodies = append(in.Bodies, hx(body))
		if p.Compress && byte(p.Ty)&0x3F != 3 {
			out.Defl = append(out.Defl, [2]string{hx(body), hx(inbuf.Bytes()[before+5:])})
		}
	}
	enc.Close()
	inwire := append([]byte(nil), inbuf.Bytes()...)
	in.Wire = hx(inwire)

	a, abody := mkPkt(c.Pkts[0])
	var rdr io.Reader
	cr := &chunkReader{data: append([]byte(nil), inwire...), cuts: append([]int(nil), c.Cuts...)}
	gw := &gateWriter{parkAt: -1, parked: make(chan struct{}), resume: make(chan struct{})}
	var gr *gateReader
	if c.PSide == "r" {
		gr = &gateReader{inner: cr, parkAt: c.Park, parked: make(chan struct{}), resume: make(chan struct{})}
		rdr = gr
	} else {
		gw.parkAt = c.Park
		rdr = cr
	}
	sp := stream.NewStreamProcessor(rdr, gw, context.Background())
	wDone := make(chan error, 1)
	rDone := make(chan []obs, 1)
	write := func() {
		if c.PSide != "r" {
			gw.owner = goidC01()
		}
		_, err := sp.WritePacket(a, c.Pkts[0].Compress, 0)
		wDone <- err
	}
	read := func() { rDone <- readLoop(sp, len(inwire)+2) }
	var werr error
	if c.PSide == "r" {
		go read()
		select {
		case <-gr.parked:
			go write()
			select {
			case werr = <-wDone:
			case <-time.After(10 * time.Second):
				out.PropOK, out.PropMsg = false, "WritePacket did not finish while a ReadPacket was waiting for the transport (the directions block each other)"
				return out
			}
			close(gr.resume)
			in.Obs = <-rDone
		case in.Obs = <-rDone: // fewer transport reads than Park
			go write()
			werr = <-wDone
		}
	} else {
		started := make(chan struct{})
		go func() { gw.owner = goidC01(); close(started); _, err := sp.WritePacket(a, c.Pkts[0].Compress, 0); wDone <- err }()
		<-started
		parked := false
		select {
		case <-gw.parked:
			parked = true
		case werr = <-wDone:
		case <-time.After(5 * time.Second):
			out.PropOK, out.PropMsg = false, "writer neither parked nor finished"
			return out
		}
		go read()
		select {
		case in.Obs = <-rDone:
		case <-time.After(10 * time.Second):
			out.PropOK, out.PropMsg = false, "ReadPacket did not finish while a WritePacket was waiting for the transport (the directions block each other)"
			return out
		}
		if parked {
			close(gw.resume)
			werr = <-wDone
		}
	}
	if werr != nil {
		out.PropOK, out.PropMsg = false, "WritePacket failed: "+werr.Error()
	}
	gw.mu.Lock()
	wire := append([]byte(nil), gw.buf.Bytes()...)
	gw.mu.Unlock()
	sp.Close()
	if c.Pkts[0].Compress && byte(c.Pkts[0].Ty)&0x3F != 3 && len(wire) >= 5 {
		out.Defl = append(out.Defl, [2]string{hx(abody), hx(wire[5:])})
	}
	obsv, pkts := readAll(wire, nil, false)
	out.Obs, out.Wire, out.WireLen = obsv, hx(wire), len(wire)
	out.Bodies = []string{hx(abody)}
	tables(wire, out)
	tables(inwire, out)
	out.In = in
	if out.PropOK {
		ty := byte(c.Pkts[0].Ty)
		if c.Pkts[0].Compress {
			ty |= 0x40
		}
		switch {
		case len(pkts) != 1 || byte(pkts[0].PacketType) != ty || len(obsv) != 2 || obsv[1].Ok || obsv[1].N != 0:
			out.PropOK, out.PropMsg = false, fmt.Sprintf("full duplex (%s side parked before its transport call #%d while the other direction ran): the outgoing wire does not decode to the one packet written (%d decoded; last %+v)", sideName(c.PSide), c.Park, len(pkts), obsv[len(obsv)-1])
		case c.Pkts[0].Cmd == nil && ty&0x3F != 3 && !bytes.Equal(pkts[0].Payload, abody):
			out.PropOK, out.PropMsg = false, fmt.Sprintf("full duplex (%s side parked before its transport call #%d while the other direction ran): the body written is not the body on the wire", sideName(c.PSide), c.Park)
		}
	}
	if out.PropOK {
		// incoming direction: exactly B1.. then a clean end
		ok := len(in.Obs) == len(c.Pkts)
		for i := 0; ok && i < len(c.Pkts)-1; i++ {
			p := c.Pkts[i+1]
			ty := byte(p.Ty)
			if p.Compress {
				ty |= 0x40
			}
			want := in.Bodies[i]
			ok = in.Obs[i].Ok && byte(in.Obs[i].Ty) == ty && (p.Cmd != nil || in.Obs[i].Body == want)
		}
		if ok {
			last := in.Obs[len(in.Obs)-1]
			ok = !last.Ok && last.N == 0
		}
		if !ok {
			out.PropOK, out.PropMsg = false, fmt.Sprintf("full duplex (%s side parked before its transport call #%d while the other direction ran): the %d incoming packets were not read back intact", sideName(c.PSide), c.Park, len(c.Pkts)-1)
		}
	}
	return out
}

func sideName(s string) string {
	if s == "r" {
		return "reader"
	}
	return "writer"
}

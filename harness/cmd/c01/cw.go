//go:build verif

package main

// Two concurrent WritePacket callers on ONE StreamProcessor: writer A is parked inside WritePacket before one of its
// transport writes (type | length | body), then writer B writes its packet.  The write lock must keep B's bytes out
// of A's packet: whatever the timing, the wire must decode to A's packet followed by B's packet.

import (
	"bytes"
	"runtime"
	"context"
	"fmt"
	"sync"
	"time"

	"tunnox-core/internal/packet"
	"tunnox-core/internal/stream"
)

type gateWriter struct {
	mu     sync.Mutex
	buf    bytes.Buffer
	calls  int
	parkAt int
	parked chan struct{}
	resume chan struct{}
	owner  int64 // goroutine id of writer A: only its calls are counted/parked
	nowait bool  // race mode: signal at the parkAt-th write of A but do not hold it
}

func (g *gateWriter) Write(p []byte) (int, error) {
	if goidC01() == g.owner {
		g.mu.Lock()
		g.calls++
		n := g.calls
		g.mu.Unlock()
		if n == g.parkAt {
			close(g.parked)
			if !g.nowait {
				<-g.resume
			}
		}
	}
	g.mu.Lock()
	defer g.mu.Unlock()
	return g.buf.Write(p)
}

func goidC01() int64 {
	b := make([]byte, 64)
	b = b[:runtime.Stack(b, false)]
	var id int64
	fmt.Sscanf(string(b), "goroutine %d ", &id)
	return id
}

func runCW(c caseIn) interface{} {
	out := &caseOut{PropOK: true}
	if len(c.Pkts) != 2 {
		panic("cw needs two packets")
	}
	if c.Park < 0 {
		return runCWRace(c)
	}
	gw := &gateWriter{parkAt: c.Park, parked: make(chan struct{}), resume: make(chan struct{})}
	sp := stream.NewStreamProcessor(bytes.NewReader(nil), gw, context.Background())
	mk := func(p pktIn) *packet.TransferPacket {
		tp := &packet.TransferPacket{PacketType: packet.Type(p.Ty)}
		if p.Cmd != nil {
			tp.CommandPacket = p.Cmd
		} else {
			tp.Payload = unhx(p.Body)
		}
		return tp
	}
	aDone, bDone := make(chan error, 1), make(chan error, 1)
	started := make(chan struct{})
	go func() {
		gw.owner = goidC01()
		close(started)
		_, err := sp.WritePacket(mk(c.Pkts[0]), c.Pkts[0].Compress, c.Pkts[0].Rate)
		aDone <- err
	}()
	<-started
	parkedOK := true
	select {
	case <-gw.parked:
	case err := <-aDone: // A made fewer transport writes than Park: nothing to interleave with
		parkedOK = false
		aDone <- err
	case <-time.After(5 * time.Second):
		out.PropOK, out.PropMsg = false, "writer A neither parked nor finished"
		return out
	}
	go func() {
		_, err := sp.WritePacket(mk(c.Pkts[1]), c.Pkts[1].Compress, c.Pkts[1].Rate)
		bDone <- err
	}()
	if parkedOK {
		time.Sleep(60 * time.Millisecond) // give B every chance to run while A is inside its packet
		close(gw.resume)
	}
	for i := 0; i < 2; i++ {
		select {
		case err := <-aDone:
			if err != nil {
				out.PropOK, out.PropMsg = false, "writer A failed: "+err.Error()
			}
		case err := <-bDone:
			if err != nil {
				out.PropOK, out.PropMsg = false, "writer B failed: "+err.Error()
			}
		case <-time.After(10 * time.Second):
			out.PropOK, out.PropMsg = false, "a writer did not finish"
			return out
		}
	}
	gw.mu.Lock()
	wire := append([]byte(nil), gw.buf.Bytes()...)
	gw.mu.Unlock()
	sp.Close()
	obsv, pkts := readAll(wire, nil, false)
	out.Obs = obsv
	out.Wire = hx(wire)
	out.WireLen = len(wire)
	tables(wire, out)
	if out.PropOK {
		ok := len(pkts) == 2
		if ok && parkedOK {
			// A held the lock first: order is A then B
			for i, p := range c.Pkts {
				ty := byte(p.Ty)
				if p.Compress {
					ty |= 0x40
				}
				if byte(pkts[i].PacketType) != ty || (p.Cmd == nil && ty&0x3F != 3 && !bytes.Equal(pkts[i].Payload, unhx(p.Body))) {
					ok = false
				}
			}
		}
		if !ok || obsv[len(obsv)-1].Ok || obsv[len(obsv)-1].N != 0 {
			out.PropOK = false
			out.PropMsg = fmt.Sprintf("two concurrent writers (A parked before its transport write #%d): the wire does not decode to A's packet followed by B's packet (%d packets decoded, wire %s)", c.Park, len(pkts), hx(wire[:min(len(wire), 24)]))
		}
	}
	return out
}

// runCWRace: no parking.  Writer A sends a large packet (compression may take milliseconds); the moment A's type byte reaches the
// transport, writer B sends its packet.  Whatever A does between its transport writes (compress, pace), B's bytes must not land
// inside A's packet: the wire decodes to the two packets, in either order.  Repeated a few times.
func runCWRace(c caseIn) interface{} {
	out := &caseOut{PropOK: true}
	bodyA, bodyB := pktBody(c.Pkts[0]), pktBody(c.Pkts[1])
	for rep := 0; rep < 4 && out.PropOK; rep++ {
		gw := &gateWriter{parkAt: 1, nowait: true, parked: make(chan struct{}), resume: make(chan struct{})}
		sp := stream.NewStreamProcessor(bytes.NewReader(nil), gw, context.Background())
		aDone, bDone := make(chan error, 1), make(chan error, 1)
		started := make(chan struct{})
		go func() {
			gw.owner = goidC01()
			close(started)
			_, err := sp.WritePacket(&packet.TransferPacket{PacketType: packet.Type(c.Pkts[0].Ty), Payload: bodyA}, c.Pkts[0].Compress, c.Pkts[0].Rate)
			aDone <- err
		}()
		<-started
		select {
		case <-gw.parked:
		case <-time.After(5 * time.Second):
			out.PropOK, out.PropMsg = false, "writer A made no transport write"
			return out
		}
		go func() {
			_, err := sp.WritePacket(&packet.TransferPacket{PacketType: packet.Type(c.Pkts[1].Ty), Payload: bodyB}, c.Pkts[1].Compress, c.Pkts[1].Rate)
			bDone <- err
		}()
		for i := 0; i < 2; i++ {
			select {
			case err := <-aDone:
				if err != nil {
					out.PropOK, out.PropMsg = false, "writer A failed: "+err.Error()
				}
			case err := <-bDone:
				if err != nil {
					out.PropOK, out.PropMsg = false, "writer B failed: "+err.Error()
				}
			case <-time.After(20 * time.Second):
				out.PropOK, out.PropMsg = false, "a writer did not finish"
				return out
			}
		}
		gw.mu.Lock()
		wire := append([]byte(nil), gw.buf.Bytes()...)
		gw.mu.Unlock()
		sp.Close()
		obsv, pkts := readAll(wire, nil, true)
		out.WireLen = len(wire)
		match := func(p *packet.TransferPacket, in pktIn, body []byte) bool {
			ty := byte(in.Ty)
			if in.Compress {
				ty |= 0x40
			}
			return byte(p.PacketType) == ty && (ty&0x3F == 3 || bytes.Equal(p.Payload, body))
		}
		ok := len(pkts) == 2 && ((match(pkts[0], c.Pkts[0], bodyA) && match(pkts[1], c.Pkts[1], bodyB)) || (match(pkts[0], c.Pkts[1], bodyB) && match(pkts[1], c.Pkts[0], bodyA)))
		if !ok || obsv[len(obsv)-1].Ok || obsv[len(obsv)-1].N != 0 {
			head := wire
			if len(head) > 16 {
				head = head[:16]
			}
			out.PropOK = false
			out.PropMsg = fmt.Sprintf("two concurrent writers (B started when A's type byte reached the transport, A's body %d bytes, compress=%v): the wire does not decode to the two packets (%d packets read, wire starts % x, last %+v)", len(bodyA), c.Pkts[0].Compress, len(pkts), head, obsv[len(obsv)-1])
		}
	}
	out.Obs = []obs{}
	return out
}

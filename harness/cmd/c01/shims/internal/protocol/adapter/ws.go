//go:build verif

package adapter

import (
	"net"

	"github.com/gorilla/websocket"
)

// VerifNewWSServerConn / VerifNewWSClientConn expose the unexported WebSocket message->stream adapters.
func VerifNewWSServerConn(conn *websocket.Conn, remote string) net.Conn { return newWSServerConn(conn, remote) }
func VerifNewWSClientConn(conn *websocket.Conn) net.Conn               { return newWSClientConn(conn) }

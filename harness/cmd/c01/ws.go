//go:build verif

package main

// WebSocket message->stream adapters: the wire bytes of a packet sequence are sent as binary messages
// cut at the given message lengths; the receiving side wraps its *websocket.Conn in the real adapter
// (server: wsServerConn, client: wsClientConn, transport: client/transport.WebSocketStreamConn) and
// decodes with the real StreamProcessor.ReadPacket.

import (
	"context"
	"encoding/json"
	"fmt"
	"io"
	"net/http"
	"net/http/httptest"
	"strings"
	"time"

	"github.com/gorilla/websocket"

	"tunnox-core/internal/client/transport"
	"tunnox-core/internal/packet"
	"tunnox-core/internal/protocol/adapter"
	"tunnox-core/internal/stream"
)

func splitMsgs(wire []byte, lens []int) [][]byte {
	var out [][]byte
	i := 0
	for len(wire) > 0 {
		k := len(wire)
		if i < len(lens) {
			k = lens[i]
			if k < 1 {
				k = 1
			}
			if k > len(wire) {
				k = len(wire)
			}
		}
		i++
		out = append(out, wire[:k])
		wire = wire[k:]
	}
	return out
}

func readAllFrom(r io.Reader, limit int) ([]obs, []*packet.TransferPacket) {
	sp := stream.NewStreamProcessor(r, io.Discard, context.Background())
	var out []obs
	var pkts []*packet.TransferPacket
	for i := 0; i < limit; i++ {
		p, n, err := sp.ReadPacket()
		if err != nil {
			out = append(out, obs{Ok: false, N: n, Err: err.Error()})
			return out, pkts
		}
		o := obs{Ok: true, Ty: int(p.PacketType), N: n}
		if p.CommandPacket != nil {
			b, _ := json.Marshal(p.CommandPacket)
			o.Body = hx(b)
		} else {
			o.Body = hx(p.Payload)
		}
		out = append(out, o)
		pkts = append(pkts, p)
	}
	out = append(out, obs{Ok: false, N: -1, Err: "harness: reader did not stop"})
	return out, pkts
}

type wsResult struct {
	obs  []obs
	pkts []*packet.TransferPacket
}

// runWS delivers wire as messages to the chosen adapter and returns what ReadPacket decoded
func runWS(side string, wire []byte, lens []int) (res wsResult, err error) {
	msgs := splitMsgs(wire, lens)
	up := websocket.Upgrader{CheckOrigin: func(*http.Request) bool { return true }}
	done := make(chan wsResult, 1)
	sendAll := func(c *websocket.Conn) {
		for _, m := range msgs {
			if e := c.WriteMessage(websocket.BinaryMessage, m); e != nil {
				return
			}
		}
		c.WriteControl(websocket.CloseMessage, websocket.FormatCloseMessage(websocket.CloseNormalClosure, ""), time.Now().Add(time.Second))
	}
	srv := httptest.NewServer(http.HandlerFunc(func(w http.ResponseWriter, r *http.Request) {
		c, e := up.Upgrade(w, r, nil)
		if e != nil {
			return
		}
		if side == "server" {
			nc := adapter.VerifNewWSServerConn(c, r.RemoteAddr)
			o, p := readAllFrom(nc, len(wire)+2)
			nc.Close()
			done <- wsResult{o, p}
		} else {
			sendAll(c)
			time.Sleep(50 * time.Millisecond)
			// keep the connection until the peer has read the close frame
			c.SetReadDeadline(time.Now().Add(2 * time.Second))
			for {
				if _, _, e := c.ReadMessage(); e != nil {
					break
				}
			}
			c.Close()
		}
	}))
	defer srv.Close()
	url := "ws" + strings.TrimPrefix(srv.URL, "http")
	switch side {
	case "server":
		c, _, e := websocket.DefaultDialer.Dial(url, nil)
		if e != nil {
			return res, e
		}
		sendAll(c)
		defer c.Close()
	case "client":
		c, _, e := websocket.DefaultDialer.Dial(url, nil)
		if e != nil {
			return res, e
		}
		go func() {
			nc := adapter.VerifNewWSClientConn(c)
			o, p := readAllFrom(nc, len(wire)+2)
			nc.Close()
			done <- wsResult{o, p}
		}()
	case "transport":
		tc, e := transport.NewWebSocketStreamConn(url)
		if e != nil {
			return res, e
		}
		go func() {
			o, p := readAllFrom(tc, len(wire)+2)
			tc.Close()
			done <- wsResult{o, p}
		}()
	default:
		return res, fmt.Errorf("bad side %q", side)
	}
	select {
	case res = <-done:
		return res, nil
	case <-time.After(10 * time.Second):
		return res, fmt.Errorf("adapter %s: reader still blocked after 10s (bytes lost or over-read)", side)
	}
}

//go:build verif

// verif_c01: drives the real StreamProcessor.WritePacket / ReadPacket over a chunk-controlled reader.
package main

import (
	"bytes"
	"compress/gzip"
	"context"
	"encoding/binary"
	"encoding/json"
	"fmt"
	"io"
	"os"
	"reflect"
	"runtime/debug"
	"time"

	"tunnox-core/internal/constants"
	"tunnox-core/internal/packet"
	"tunnox-core/internal/stream"
)

type chunkReader struct {
	data []byte
	cuts []int
	eofWithData bool // the transport hands its LAST bytes over together with io.EOF (allowed by io.Reader; QUIC FIN, some adapters)
}

func (c *chunkReader) Read(p []byte) (int, error) {
	if len(p) == 0 {
		return 0, nil
	}
	if len(c.data) == 0 {
		return 0, io.EOF
	}
	k := len(c.data)
	if len(c.cuts) > 0 {
		k = c.cuts[0]
		if k < 1 {
			k = 1
		}
		c.cuts = c.cuts[1:]
	}
	if k > len(p) {
		k = len(p)
	}
	if k > len(c.data) {
		k = len(c.data)
	}
	copy(p, c.data[:k])
	c.data = c.data[k:]
	if c.eofWithData && len(c.data) == 0 {
		return k, io.EOF
	}
	return k, nil
}

type pktIn struct {
	Ty       int    `json:"ty"`
	Compress bool   `json:"compress"`
	Body     string `json:"body"` // hex; for command types: ignored when Cmd != nil
	Cmd      *packet.CommandPacket `json:"cmd,omitempty"`
	Rate     int64  `json:"rate"` // rateLimitBytesPerSecond handed to WritePacket (0 = unlimited)
	Fill     []int  `json:"fill,omitempty"` // [byte, n]: body = n copies of byte (large bodies without shipping them as hex)
	Rnd      bool   `json:"rnd,omitempty"`  // with Fill: n pseudo-random bytes seeded by byte (incompressible: gzip takes milliseconds)
	RawCmd   bool   `json:"rawcmd,omitempty"` // pk, with cmd: the caller hands the command PRE-SERIALISED in Payload and leaves CommandPacket nil
	Reuse    bool   `json:"reuse,omitempty"` // pk: write the SAME *TransferPacket object as the previous packet again (type and body are the previous packet's)
}

func pktBody(p pktIn) []byte {
	if len(p.Fill) == 2 && p.Rnd {
		b := make([]byte, p.Fill[1])
		x := uint32(p.Fill[0])*2654435761 + 12345
		for i := range b {
			x ^= x << 13
			x ^= x >> 17
			x ^= x << 5
			b[i] = byte(x)
		}
		return b
	}
	if len(p.Fill) == 2 {
		return bytes.Repeat([]byte{byte(p.Fill[0])}, p.Fill[1])
	}
	return unhx(p.Body)
}
type caseIn struct {
	Mode string  `json:"mode"` // "pk" | "raw" | "ws" (pk over a WebSocket adapter; Cuts = message lengths) | "cw" (two concurrent writers)
	Park int     `json:"park"` // cw: writer A is parked before its Park-th transport Write call
	PSide string `json:"pside"` // dx: which direction is parked ("w" | "r")
	Side string  `json:"side"` // ws: server | client | transport
	Pkts []pktIn `json:"pkts"`
	Wire string  `json:"wire"`
	Cuts []int   `json:"cuts"`
	Big  bool    `json:"big"` // do not echo bodies (large case; Go-side predicate only)
	EOFData bool `json:"eofdata,omitempty"` // pk/raw: the transport returns its last bytes together with io.EOF
}
type obs struct {
	Ok   bool   `json:"ok"`
	Ty   int    `json:"ty"`
	Body string `json:"body"`
	N    int    `json:"n"`
	Err  string `json:"err,omitempty"`
}
type caseOut struct {
	Wire    string      `json:"wire"`
	Obs     []obs       `json:"obs"`
	Bodies  []string    `json:"bodies"` // pk mode: the raw body the model should expect per packet (JSON for cmd packets)
	Defl    [][2]string `json:"defl"`
	Infl    [][]interface{} `json:"infl"`
	Json    [][]interface{} `json:"json"`
	PropOK  bool        `json:"prop_ok"`
	PropMsg string      `json:"prop_msg"`
	WireLen int         `json:"wire_len"`
	In      *dxIn       `json:"in,omitempty"` // dx: the incoming direction
	Panicked string     `json:"panicked,omitempty"` // the real code panicked while this case ran (value + top frames)
}

func isJSONType(t byte) bool { return packet.Type(t).IsJsonCommand() || packet.Type(t).IsCommandResp() }

var eofWithDataMode bool // set around a case by runCase1 (caseIn.EOFData)

func readAll(wire []byte, cuts []int, big bool) ([]obs, []*packet.TransferPacket) {
	r := &chunkReader{data: wire, cuts: append([]int(nil), cuts...), eofWithData: eofWithDataMode}
	sp := stream.NewStreamProcessor(r, io.Discard, context.Background())
	defer sp.Close()
	var out []obs
	var pkts []*packet.TransferPacket
	for i := 0; i < len(wire)+2; i++ {
		p, n, err := sp.ReadPacket()
		if err != nil {
			out = append(out, obs{Ok: false, N: n, Err: err.Error()})
			return out, pkts
		}
		o := obs{Ok: true, Ty: int(p.PacketType), N: n}
		if p.CommandPacket != nil {
			b, _ := json.Marshal(p.CommandPacket)
			o.Body = hx(b)
		} else if !big {
			o.Body = hx(p.Payload)
		}
		out = append(out, o)
		pkts = append(pkts, p)
	}
	out = append(out, obs{Ok: false, N: -1, Err: "harness: reader did not stop"})
	return out, pkts
}

// independent walk of the wire format, only to build the oracle tables (inflate / json) the model needs
func tables(wire []byte, out *caseOut) {
	seenI := map[string]bool{}
	seenJ := map[string]bool{}
	s := wire
	for len(s) > 0 {
		ty := s[0]
		s = s[1:]
		if ty&0x3F == 3 {
			continue
		}
		if len(s) < 4 {
			return
		}
		n := binary.BigEndian.Uint32(s[:4])
		s = s[4:]
		if n > uint32(constants.MaxPacketBodySize) || uint32(len(s)) < n {
			return
		}
		body := s[:n]
		s = s[n:]
		if ty&0x80 != 0 {
			return
		}
		raw := body
		if ty&0x40 != 0 {
			k := hx(body)
			var res interface{}
			zr, err := gzip.NewReader(bytes.NewReader(body))
			var dec []byte
			if err == nil {
				dec, err = io.ReadAll(io.LimitReader(zr, 64<<20))
			}
			if err == nil {
				res = hx(dec)
				raw = dec
			} else {
				res = nil
				raw = nil
			}
			if !seenI[k] {
				seenI[k] = true
				out.Infl = append(out.Infl, []interface{}{k, res})
			}
			if err != nil {
				return
			}
		}
		if isJSONType(ty) {
			var cp packet.CommandPacket
			ok := json.Unmarshal(raw, &cp) == nil
			k := hx(raw)
			if !seenJ[k] {
				seenJ[k] = true
				var norm interface{}
				if ok {
					nb, _ := json.Marshal(&cp)
					norm = hx(nb)
				}
				out.Json = append(out.Json, []interface{}{k, norm})
			}
			if !ok {
				return
			}
		}
	}
}

func runCase(raw json.RawMessage) (res interface{}) {
	// a panic of the real code is a failure of the case, not of the harness process
	defer func() {
		if r := recover(); r != nil {
			st := string(debug.Stack())
			if len(st) > 1500 {
				st = st[:1500]
			}
			msg := fmt.Sprintf("panic: %v", r)
			res = &caseOut{PropOK: false, PropMsg: "the real StreamProcessor panicked: " + msg, Panicked: msg + "\n" + st,
				Obs: []obs{{Ok: false, N: -1, Err: msg}}, Bodies: []string{}}
		}
	}()
	// ... and so is a call that never returns (blocked on its own lock, spinning): the watchdog also keeps the Go runtime
	// from declaring a global deadlock and killing the harness
	done := make(chan interface{}, 1)
	go func() {
		defer func() {
			if r := recover(); r != nil {
				st := string(debug.Stack())
				if len(st) > 1500 {
					st = st[:1500]
				}
				msg := fmt.Sprintf("panic: %v", r)
				done <- &caseOut{PropOK: false, PropMsg: "the real StreamProcessor panicked: " + msg, Panicked: msg + "\n" + st,
					Obs: []obs{{Ok: false, N: -1, Err: msg}}, Bodies: []string{}}
			}
		}()
		done <- runCase1(raw)
	}()
	select {
	case r := <-done:
		return r
	case <-time.After(60 * time.Second):
		msg := "the real StreamProcessor did not return within 60 s on a finite stream (blocked or spinning)"
		return &caseOut{PropOK: false, PropMsg: msg, Panicked: "timeout: " + msg, Obs: []obs{{Ok: false, N: -1, Err: msg}}, Bodies: []string{}}
	}
}

func runCase1(raw json.RawMessage) interface{} {
	var c caseIn
	must(json.Unmarshal(raw, &c))
	eofWithDataMode = c.EOFData
	defer func() { eofWithDataMode = false }()
	out := &caseOut{PropOK: true}
	var wire []byte
	switch c.Mode {
	case "pk", "ws":
		var buf bytes.Buffer
		sp := stream.NewStreamProcessor(bytes.NewReader(nil), &buf, context.Background())
		type want struct {
			ty   byte
			body []byte
			cmd  *packet.CommandPacket
			n    int
		}
		var wants []want
		stopAt := -1 // index of the first packet the reader must refuse (encryption flag), -1 = none
		var prevTp *packet.TransferPacket
		for _, p := range c.Pkts {
			tp := &packet.TransferPacket{PacketType: packet.Type(p.Ty)}
			body := pktBody(p)
			if p.Cmd != nil {
				tp.CommandPacket = p.Cmd
				body, _ = json.Marshal(p.Cmd)
				if p.RawCmd {
					tp.CommandPacket, tp.Payload = nil, body
				}
			} else {
				tp.Payload = body
			}
			if p.Reuse && prevTp != nil {
				tp = prevTp // the caller sends one packet value twice (re-send / broadcast), possibly with another compression choice
			}
			prevTp = tp
			before := buf.Len()
			n, err := sp.WritePacket(tp, p.Compress, p.Rate)
			wrote := buf.Len() - before
			if p.Ty&0x80 != 0 && p.Ty&0x3F != 3 { // (a flagged heartbeat is still a 1-byte heartbeat for writer and reader)
				// a type byte carrying the (unimplemented) encryption flag: the writer may refuse it — then it must not have
				// put a single byte on the wire — or accept it, in which case the reader refuses the packet (EEncrypted) and stops
				if err != nil {
					if wrote != 0 && out.PropOK {
						out.PropOK = false
						out.PropMsg = fmt.Sprintf("WritePacket refused packet %d (type %#x) but left %d byte(s) on the wire: every following packet is misaligned", len(wants), p.Ty, wrote)
					}
					buf.Truncate(before) // judge the rest of the sequence as if nothing had been written
					continue
				}
				if stopAt < 0 {
					stopAt = len(wants)
				}
			} else if err != nil {
				out.PropOK = false
				out.PropMsg = fmt.Sprintf("WritePacket refused a well-formed packet: %v", err)
			}
			if n != wrote && out.PropOK {
				out.PropOK = false
				out.PropMsg = fmt.Sprintf("WritePacket reported %d bytes but wrote %d", n, wrote)
			}
			ty := byte(p.Ty)
			if p.Compress {
				ty |= 0x40
			}
			w := want{ty: ty, body: body, cmd: p.Cmd, n: wrote}
			if ty&0x3F == 3 {
				w.body = nil
			}
			wants = append(wants, w)
			if !c.Big {
				out.Bodies = append(out.Bodies, hx(body))
			}
			// deflate table: what the writer produced for this raw body
			if p.Compress && ty&0x3F != 3 && !c.Big {
				seg := buf.Bytes()[before:]
				if len(seg) >= 5 {
					out.Defl = append(out.Defl, [2]string{hx(body), hx(seg[5:])})
				}
			}
		}
		wire = append([]byte(nil), buf.Bytes()...)
		sp.Close()
		var obsv []obs
		var pkts []*packet.TransferPacket
		if c.Mode == "ws" {
			r, err := runWS(c.Side, wire, c.Cuts)
			if err != nil {
				out.PropOK, out.PropMsg = false, err.Error()
				r.obs = []obs{{Ok: false, N: -1, Err: err.Error()}}
			}
			obsv, pkts = r.obs, r.pkts
		} else {
			obsv, pkts = readAll(wire, c.Cuts, c.Big)
		}
		out.Obs = obsv
		// the property itself, evaluated on the implementation's own outputs
		if out.PropOK && stopAt >= 0 {
			// packets before the flagged one round-trip; the flagged one is refused
			if len(pkts) != stopAt || len(obsv) != stopAt+1 || obsv[stopAt].Ok {
				out.PropOK = false
				out.PropMsg = fmt.Sprintf("a packet with the encryption flag was accepted by the writer at position %d: expected %d packets then a refusal, read %d (last %+v)", stopAt, stopAt, len(pkts), obsv[len(obsv)-1])
			}
			wants = wants[:stopAt]
		}
		if out.PropOK {
			if len(pkts) != len(wants) {
				out.PropOK = false
				out.PropMsg = fmt.Sprintf("wrote %d packets, read back %d (last: %+v)", len(wants), len(pkts), obsv[len(obsv)-1])
			} else {
				for i, w := range wants {
					p := pkts[i]
					switch {
					case byte(p.PacketType) != w.ty:
						out.PropOK, out.PropMsg = false, fmt.Sprintf("packet %d: type %#x read back as %#x", i, w.ty, byte(p.PacketType))
					case obsv[i].N != w.n:
						out.PropOK, out.PropMsg = false, fmt.Sprintf("packet %d: %d bytes written, %d consumed", i, w.n, obsv[i].N)
					case w.cmd != nil && (p.CommandPacket == nil || !reflect.DeepEqual(*p.CommandPacket, *w.cmd)):
						out.PropOK, out.PropMsg = false, fmt.Sprintf("packet %d: command packet differs", i)
					case w.cmd == nil && !bytes.Equal(p.Payload, w.body):
						out.PropOK, out.PropMsg = false, fmt.Sprintf("packet %d: body differs (%d vs %d bytes)", i, len(w.body), len(p.Payload))
					}
					if !out.PropOK {
						break
					}
				}
				last := obsv[len(obsv)-1]
				if out.PropOK && stopAt < 0 && (last.Ok || last.N != 0) {
					out.PropOK, out.PropMsg = false, fmt.Sprintf("no clean end of stream after the last packet: %+v", last)
				}
			}
		}
	case "cw":
		return runCW(c)
	case "dx":
		return runDX(c)
	case "ra":
		return runRA(c)
	case "raw":
		wire = unhx(c.Wire)
		obsv, _ := readAll(wire, c.Cuts, c.Big)
		out.Obs = obsv
		// chunk independence evaluated directly on the implementation: one-shot delivery (end of stream reported separately) must agree
		eofWithDataMode = false
		ref, _ := readAll(wire, nil, c.Big)
		if !sameObs(obsv, ref) {
			out.PropOK = false
			out.PropMsg = "results differ between this chunking and one-shot delivery"
		}
	default:
		panic("bad mode")
	}
	out.WireLen = len(wire)
	if !c.Big {
		out.Wire = hx(wire)
		tables(wire, out)
	}
	return out
}

func sameObs(a, b []obs) bool {
	if len(a) != len(b) {
		return false
	}
	for i := range a {
		if a[i].Ok != b[i].Ok || a[i].N != b[i].N || a[i].Ty != b[i].Ty || a[i].Body != b[i].Body {
			return false
		}
	}
	return true
}

func gen() {
	fmt.Println("(* generated by verif_c01 gen from /repo's working tree — do not edit *)")
	fmt.Println("From Coq Require Import NArith List. Import ListNotations. Open Scope N_scope.")
	fmt.Printf("Definition MaxPacketBodySize : N := %d.\n", constants.MaxPacketBodySize)
	fmt.Printf("Definition PacketTypeSize : N := %d.\n", constants.PacketTypeSize)
	fmt.Printf("Definition PacketBodySizeBytes : N := %d.\n", constants.PacketBodySizeBytes)
	fmt.Printf("Definition T_Heartbeat : N := %d.\nDefinition F_Compressed : N := %d.\nDefinition F_Encrypted : N := %d.\n",
		packet.Heartbeat, packet.Compressed, packet.Encrypted)
	// the real predicate methods tabulated over every byte value: (heartbeat, compressed, encrypted, json-or-resp)
	fmt.Println("Definition type_table : list (bool * bool * bool * bool) := [")
	b := func(x bool) string {
		if x {
			return "true"
		}
		return "false"
	}
	for i := 0; i < 256; i++ {
		t := packet.Type(byte(i))
		sep := ";"
		if i == 255 {
			sep = ""
		}
		fmt.Printf(" (%s,%s,%s,%s)%s\n", b(t.IsHeartbeat()), b(t.IsCompressed()), b(t.IsEncrypted()), b(t.IsJsonCommand() || t.IsCommandResp()), sep)
	}
	fmt.Println("].")
}

func main() {
	if len(os.Args) > 1 && os.Args[1] == "gen" {
		gen()
		return
	}
	forEachCase(runCase)
}

//go:build verif

// verif_c17: configured limits and quotas under concurrency, driven on the REAL code.
//
//	server   SessionManager.CreateConnection / CloseConnection — a schedule of callers is replayed deterministically:
//	         the harness reader's GetConnectionID() (called by the code between its count check and its insert) is a gate.
//	reg      TunnelRegistry / ClientRegistry (direct, and through SessionManager) — operation sequences (every operation
//	         runs under the registry's one mutex, so a schedule of callers IS a sequence) + a contention run.
//	maprace  BaseMappingHandler.handleConnection — barrier-released arrivals; admitted ones park in PrepareConnection.
//	mapseq   BaseMappingHandler.handleConnection with real tunnels — open/close histories, live tunnels vs the limit.
//	quota    conncode.Service CreateConnectionCode / ActivateConnectionCode over a gated store — every caller parks at its
//	         first storage WRITE, i.e. between "count active" and "create" (and before the SetNX of the per-client admission
//	         marker where the tree has one); schedules are replayed deterministically.
//	qfault   the same two requests at a FULL quota while exactly one storage read of the count fails, for every read position.
package main

import (
	"bytes"
	"context"
	"encoding/json"
	"errors"
	"fmt"
	"io"
	"net"
	"os"
	"runtime"
	"sort"
	"strconv"
	"strings"
	"sync"
	"sync/atomic"
	"time"

	"tunnox-core/internal/app/server"
	"tunnox-core/internal/client/mapping"
	"tunnox-core/internal/client/tunnel"
	"tunnox-core/internal/cloud/models"
	"tunnox-core/internal/cloud/repos"
	"tunnox-core/internal/cloud/services"
	"tunnox-core/internal/config"
	"tunnox-core/internal/constants"
	coreerrors "tunnox-core/internal/core/errors"
	"tunnox-core/internal/core/idgen"
	"tunnox-core/internal/core/storage/memory"
	"tunnox-core/internal/packet"
	"tunnox-core/internal/protocol/session"
	"tunnox-core/internal/stream"
	"tunnox-core/internal/utils/random"
)

type caseIn struct {
	Mode    string  `json:"mode"`
	Max     int     `json:"max"`
	Pre     int     `json:"pre"`
	Closes  []bool  `json:"closes"` // server: per caller, does it CloseConnection after being admitted
	Sched   []int   `json:"sched"`
	Kind    string  `json:"kind"` // reg: tunnel | control | control-sm ; quota: code | mapping
	Ops     [][]int `json:"ops"`  // reg: [0,id,created(,client)] register, [1,id] remove, [2,id,client] UpdateAuth ; mapseq: [0] open, [1,k] close k-th arrival
	N       int     `json:"n"`
	Trials  int     `json:"trials"`
	Threads int     `json:"threads"`
}

type caseOut struct {
	PropOK   bool     `json:"prop_ok"`
	PropKey  string   `json:"prop_key"`
	PropMsg  string   `json:"prop_msg"`
	Sched    []int    `json:"sched"`    // macro schedule actually executed
	Counts   [][2]int `json:"counts"`   // after every macro step / operation
	Outcomes []int    `json:"outcomes"` // per caller / per operation
	Keys     [][]int  `json:"keys"`     // reg: key set after every operation
	MaxSeen  int      `json:"max_seen"`
	Admitted []int    `json:"admitted"` // maprace: per trial
	Final    int      `json:"final"`
}

func (o *caseOut) fail(key, msg string) {
	if o.PropOK {
		o.PropOK, o.PropKey, o.PropMsg = false, key, msg
	}
}

func newOut() *caseOut {
	return &caseOut{PropOK: true, Sched: []int{}, Counts: [][2]int{}, Outcomes: []int{}, Keys: [][]int{}, Admitted: []int{}}
}

// ------------------------------------------------------------------------------------------------ server

const (
	oPending  = 0
	oAdmitted = 1
	oRefused  = 2
	oClosed   = 3
	oError    = 4
)

// gateRW is the transport handed to CreateConnection.  CreateConnection asks it for its connection id AFTER the
// count check and BEFORE CreateStream + insert: the call parks until the scheduler releases this caller.
type gateRW struct {
	id      string
	arrived chan struct{}
	release chan struct{}
}

func (g *gateRW) Read(p []byte) (int, error)  { return 0, io.EOF }
func (g *gateRW) Write(p []byte) (int, error) { return len(p), nil }
func (g *gateRW) GetConnectionID() string {
	g.arrived <- struct{}{}
	<-g.release
	return g.id
}

type plainRW struct{ id string }

func (g *plainRW) Read(p []byte) (int, error)  { return 0, io.EOF }
func (g *plainRW) Write(p []byte) (int, error) { return len(p), nil }
func (g *plainRW) GetConnectionID() string     { return g.id }

func newSession(ctx context.Context, maxConn, maxCtl int) *session.SessionManager {
	st := memory.New(ctx)
	idm := idgen.NewIDManager(st, ctx)
	return session.NewSessionManagerWithConfig(idm, ctx, &session.SessionConfig{
		HeartbeatTimeout: time.Hour, CleanupInterval: time.Hour, MaxConnections: maxConn, MaxControlConnections: maxCtl})
}

func isQuotaErr(err error) bool {
	return coreerrors.IsCode(err, coreerrors.CodeQuotaExceeded)
}

func runServer(c caseIn) *caseOut {
	out := newOut()
	ctx, cancel := context.WithCancel(context.Background())
	defer cancel()
	sm := newSession(ctx, c.Max, 0)
	for k := 0; k < c.Pre; k++ {
		rw := &plainRW{id: fmt.Sprintf("pre-%d", k)}
		if _, err := sm.CreateConnection(rw, rw); err != nil {
			out.fail("harness", fmt.Sprintf("pre-existing connection %d refused: %v", k, err))
		}
	}
	n := len(c.Closes)
	gates := make([]*gateRW, n)
	done := make([]chan error, n)
	phase := make([]int, n) // 0 not started, 1 parked at GetConnectionID, 2 returned
	outcome := make([]int, n)
	conns := func() int { return sm.GetConnectionStats().TotalConnections }
	streams := func() int { return len(sm.GetStreamManager().ListStreams()) }
	sample := func(what string) {
		cn, st := conns(), streams()
		out.Counts = append(out.Counts, [2]int{cn, st})
		if cn > out.MaxSeen {
			out.MaxSeen = cn
		}
		if c.Max > 0 && cn > c.Max {
			out.fail("server-cap", fmt.Sprintf("MaxConnections=%d but connMap holds %d connections after %s", c.Max, cn, what))
		}
	}
	settle := func(i int, before [2]int) {
		select {
		case <-gates[i].arrived:
			phase[i] = 1
		case err := <-done[i]:
			phase[i] = 2
			id := gates[i].id
			if err == nil {
				outcome[i] = oAdmitted
				if _, ok := sm.GetConnection(id); !ok {
					out.fail("server-admitted-not-registered", fmt.Sprintf("caller %d admitted but %s is not in connMap", i, id))
				}
			} else if isQuotaErr(err) {
				outcome[i] = oRefused
				// a refused request changes no state
				if _, ok := sm.GetConnection(id); ok {
					out.fail("server-refused-left-connection", fmt.Sprintf("caller %d refused but %s is in connMap", i, id))
				}
				if _, ok := sm.GetStreamManager().GetStream(id); ok {
					out.fail("server-refused-left-stream", fmt.Sprintf("caller %d refused but stream %s is still registered", i, id))
				}
				if conns() != before[0] {
					out.fail("server-refused-changed-count", fmt.Sprintf("caller %d refused; connection count %d -> %d", i, before[0], conns()))
				}
			} else {
				outcome[i] = oError
				out.fail("server-unexpected-error", fmt.Sprintf("caller %d: %v", i, err))
			}
		case <-time.After(20 * time.Second):
			phase[i] = 2
			outcome[i] = oError
			out.fail("harness", fmt.Sprintf("caller %d neither parked nor returned within 20s", i))
		}
	}
	step := func(i int) bool {
		if i < 0 || i >= n {
			return false
		}
		before := [2]int{conns(), streams()}
		switch {
		case phase[i] == 0:
			gates[i] = &gateRW{id: fmt.Sprintf("conn-%d", i), arrived: make(chan struct{}), release: make(chan struct{})}
			done[i] = make(chan error, 1)
			go func(g *gateRW, d chan error) {
				_, err := sm.CreateConnection(g, g)
				d <- err
			}(gates[i], done[i])
			settle(i, before)
		case phase[i] == 1:
			// the streams of this caller exist only after this point; for the refusal check the baseline is the count
			gates[i].release <- struct{}{}
			select {
			case err := <-done[i]:
				done[i] <- err
			case <-time.After(20 * time.Second):
				out.fail("harness", fmt.Sprintf("caller %d did not return within 20s", i))
				done[i] <- errors.New("timeout")
			}
			settle(i, before)
		case outcome[i] == oAdmitted && c.Closes[i]:
			if err := sm.CloseConnection(gates[i].id); err != nil {
				out.fail("server-close-error", err.Error())
			}
			outcome[i] = oClosed
		default:
			return false
		}
		out.Sched = append(out.Sched, i)
		sample(fmt.Sprintf("step of caller %d", i))
		return true
	}
	for _, i := range c.Sched {
		step(i)
	}
	for i := 0; i < n; i++ { // completion: every caller runs its CreateConnection to the end (no further closes)
		for phase[i] < 2 {
			step(i)
		}
	}
	out.Outcomes = outcome
	out.Final = conns()
	return out
}

// ------------------------------------------------------------------------------------------------ registries

func sortedInts(m map[int]bool) []int {
	r := make([]int, 0, len(m))
	for k := range m {
		r = append(r, k)
	}
	sort.Ints(r)
	return r
}

func cid(id int) string {
	if id == 0 {
		return ""
	}
	return "c" + strconv.Itoa(id)
}
func cnum(s string) int {
	n, _ := strconv.Atoi(s[1:])
	return n
}

var epoch = time.Unix(1_700_000_000, 0)

func runReg(c caseIn) *caseOut {
	out := newOut()
	ctx, cancel := context.WithCancel(context.Background())
	defer cancel()
	var treg *session.TunnelRegistry
	var creg *session.ClientRegistry
	var sm *session.SessionManager
	switch c.Kind {
	case "tunnel":
		treg = session.NewTunnelRegistry(&session.TunnelRegistryConfig{MaxTunnels: c.Max})
	case "control":
		creg = session.NewClientRegistry(&session.ClientRegistryConfig{MaxConnections: c.Max})
	case "control-sm":
		sm = newSession(ctx, 0, c.Max)
	}
	created := map[int]int{}
	keys := func() map[int]bool {
		r := map[int]bool{}
		switch {
		case treg != nil:
			for _, t := range treg.List() {
				r[cnum(t.ConnID)] = true
			}
		case creg != nil:
			for _, t := range creg.List() {
				r[cnum(t.ConnID)] = true
			}
		default:
			for k := 1; k < 64; k++ { // the id universe of the generated cases
				if sm.GetControlConnection(cid(k)) != nil {
					r[k] = true
				}
			}
		}
		return r
	}
	count := func() int {
		switch {
		case treg != nil:
			return treg.Count()
		case creg != nil:
			return creg.Count()
		default:
			return sm.GetConnectionStats().ControlConnections
		}
	}
	for _, op := range c.Ops {
		before := keys()
		res := 0
		if op[0] == 0 {
			id, at := op[1], op[2]
			var err error
			switch {
			case treg != nil:
				tc := session.NewTunnelConnection(cid(id), nil, nil, "tcp")
				if len(op) > 3 && op[3] > 0 { // the second leg / a re-dial of tunnel op[3]: a TunnelID that may already be registered
					tc.TunnelID = fmt.Sprintf("t%d", op[3])
				}
				err = treg.Register(tc)
			case creg != nil:
				cc := session.NewControlConnection(cid(id), nil, nil, "tcp")
				cc.CreatedAt = epoch.Add(time.Duration(at) * time.Second)
				if len(op) > 3 && op[3] > 0 { // a connection that arrives already authenticated as client op[3] (re-login)
					cc.ClientID, cc.Authenticated = int64(op[3]), true
				}
				err = creg.Register(cc)
			default:
				cc := session.NewControlConnection(cid(id), nil, nil, "tcp")
				cc.CreatedAt = epoch.Add(time.Duration(at) * time.Second)
				if len(op) > 3 && op[3] > 0 {
					cc.ClientID, cc.Authenticated = int64(op[3]), true
				}
				sm.RegisterControlConnection(cc) // logs the error; a refusal shows as "not registered"
				if id != 0 && sm.GetControlConnection(cid(id)) != cc {
					err = errors.New("not registered")
				}
				if id == 0 {
					err = errors.New("empty id")
				}
			}
			after := keys()
			if err != nil {
				res = 1
				// a refused registration changes nothing
				if !sameSet(before, after) {
					out.fail(c.Kind+"-refused-changed-state", fmt.Sprintf("Register(%d) refused but the key set changed %v -> %v", id, sortedInts(before), sortedInts(after)))
				}
				if c.Kind != "tunnel" && id != 0 {
					out.fail("control-refused-valid", fmt.Sprintf("control registry refused valid connection %d (it should evict the oldest)", id))
				}
				if c.Kind == "tunnel" && id != 0 && !(c.Max > 0 && len(before) >= c.Max) {
					out.fail("tunnel-refused-below-cap", fmt.Sprintf("tunnel registry refused %d at occupancy %d/%d", id, len(before), c.Max))
				}
			} else {
				if !after[id] {
					out.fail(c.Kind+"-accepted-not-registered", fmt.Sprintf("Register(%d) accepted but not present", id))
				}
				// eviction must hit an entry with the minimal CreatedAt
				for k := range before {
					if !after[k] && k != id && before[id] && c.Kind != "tunnel" {
						// a ConnID that already has a record is replaced: the count does not grow, nobody else may go
						out.fail("control-replacement-evicted", fmt.Sprintf("Register(%d) replaced its own record but %d was dropped as well", id, k))
					}
					if !after[k] && k != id {
						for j := range before {
							if created[j] < created[k] {
								out.fail("control-evicted-not-oldest", fmt.Sprintf("evicted %d (t=%d) although %d (t=%d) is older", k, created[k], j, created[j]))
							}
						}
						if c.Kind == "tunnel" {
							out.fail("tunnel-evicted", fmt.Sprintf("tunnel registry dropped %d on Register(%d)", k, id))
						}
					}
				}
			}
			if id != 0 { // only now: the eviction check above must see the stamps as they were before this call
				created[id] = at
			}
		} else if op[0] == 2 {
			// UpdateAuth(id, client): the same client may end up authenticated on two registered connections
			id, client := op[1], op[2]
			var err error
			holder := 0 // the connection the client id resolves to before the call (control registry only)
			switch {
			case treg != nil:
				err = treg.UpdateAuth(cid(id), fmt.Sprintf("t%d", client), "m1")
			case creg != nil:
				if h := creg.GetByClientID(int64(client)); h != nil {
					holder = cnum(h.ConnID)
				}
				err = creg.UpdateAuth(cid(id), int64(client), "u")
			default:
				if h := sm.GetControlConnectionByClientID(int64(client)); h != nil {
					holder = cnum(h.ConnID)
				}
				err = sm.UpdateControlConnectionAuth(cid(id), int64(client), "u")
			}
			if err != nil {
				res = 1
			}
			if (err != nil) != !before[id] {
				out.fail(c.Kind+"-updateauth-result", fmt.Sprintf("UpdateAuth(%d,%d) returned %v, connection registered: %v", id, client, err, before[id]))
			}
			// UpdateAuth(c, k) never adds a connection and removes at most the previous holder of k (another connection of the
			// same client, /repo eb41b39); a failed call and the tunnel registry change nothing
			after := keys()
			for k := range after {
				if !before[k] {
					out.fail(c.Kind+"-updateauth-changed-keys", fmt.Sprintf("UpdateAuth(%d,%d) added connection %d: %v -> %v", id, client, k, sortedInts(before), sortedInts(after)))
				}
			}
			for k := range before {
				if !after[k] && !(err == nil && k == holder && k != id) {
					out.fail(c.Kind+"-updateauth-changed-keys", fmt.Sprintf("UpdateAuth(%d,%d) dropped connection %d, which is not the previous holder of client %d (%d): %v -> %v", id, client, k, client, holder, sortedInts(before), sortedInts(after)))
				}
			}
		} else {
			id := op[1]
			switch {
			case treg != nil:
				treg.Remove(cid(id))
			case creg != nil:
				creg.Remove(cid(id))
			default:
				sm.RemoveControlConnection(cid(id))
			}
			if keys()[id] {
				out.fail(c.Kind+"-remove-left-entry", fmt.Sprintf("Remove(%d) returned but the connection is still registered", id))
			}
		}
		after := keys()
		out.Outcomes = append(out.Outcomes, res)
		out.Keys = append(out.Keys, sortedInts(after))
		n := count()
		out.Counts = append(out.Counts, [2]int{n, len(after)})
		if n > out.MaxSeen {
			out.MaxSeen = n
		}
		if n != len(after) {
			out.fail(c.Kind+"-count-mismatch", fmt.Sprintf("Count()=%d but %d entries listed", n, len(after)))
		}
		if c.Max > 0 && n > c.Max {
			out.fail(c.Kind+"-cap", fmt.Sprintf("limit %d but %d registered after op %v", c.Max, n, op))
		}
	}
	out.Final = count()
	return out
}

func sameSet(a, b map[int]bool) bool {
	if len(a) != len(b) {
		return false
	}
	for k := range a {
		if !b[k] {
			return false
		}
	}
	return true
}

// contention: N goroutines register distinct connections at once while a sampler reads Count()
func runRegRace(c caseIn) *caseOut {
	out := newOut()
	for t := 0; t < c.Trials; t++ {
		var treg *session.TunnelRegistry
		var creg *session.ClientRegistry
		if c.Kind == "tunnel" || c.Kind == "tunnel-tid" {
			treg = session.NewTunnelRegistry(&session.TunnelRegistryConfig{MaxTunnels: c.Max})
		} else {
			creg = session.NewClientRegistry(&session.ClientRegistryConfig{MaxConnections: c.Max})
		}
		count := func() int {
			if treg != nil {
				return treg.Count()
			}
			return creg.Count()
		}
		for k := 0; k < c.Pre; k++ {
			if treg != nil {
				tc := session.NewTunnelConnection(cid(1000+k), nil, nil, "tcp")
				if c.Kind == "tunnel-tid" {
					tc.TunnelID = fmt.Sprintf("t%d", k)
				}
				treg.Register(tc)
			} else {
				cc := session.NewControlConnection(cid(1000+k), nil, nil, "tcp")
				cc.CreatedAt = epoch.Add(time.Duration(k) * time.Second)
				creg.Register(cc)
			}
		}
		start := make(chan struct{})
		stop := make(chan struct{})
		var wg sync.WaitGroup
		var peak atomic.Int64
		var ok atomic.Int64
		samplerDone := make(chan struct{})
		go func() {
			defer close(samplerDone)
			for {
				if n := int64(count()); n > peak.Load() {
					peak.Store(n)
				}
				select {
				case <-stop:
					return
				default:
					runtime.Gosched()
				}
			}
		}()
		for i := 0; i < c.N; i++ {
			wg.Add(1)
			go func(i int) {
				defer wg.Done()
				<-start
				var err error
				if treg != nil {
					tc := session.NewTunnelConnection(cid(1+i), nil, nil, "tcp")
					if c.Kind == "tunnel-tid" && c.Pre > 0 { // a NEW ConnID carrying the TunnelID of a registered tunnel
						tc.TunnelID = fmt.Sprintf("t%d", i%c.Pre)
					}
					err = treg.Register(tc)
				} else {
					cc := session.NewControlConnection(cid(1+i), nil, nil, "tcp")
					cc.CreatedAt = epoch.Add(time.Duration(100+i) * time.Second)
					err = creg.Register(cc)
				}
				if err == nil {
					ok.Add(1)
				}
			}(i)
		}
		close(start)
		wg.Wait()
		close(stop)
		<-samplerDone
		final := count()
		if int(peak.Load()) > out.MaxSeen {
			out.MaxSeen = int(peak.Load())
		}
		if final > out.MaxSeen {
			out.MaxSeen = final
		}
		out.Admitted = append(out.Admitted, int(ok.Load()))
		out.Final = final
		if c.Max > 0 && (int(peak.Load()) > c.Max || final > c.Max) {
			out.fail(strings.TrimSuffix(c.Kind, "-tid")+"-cap", fmt.Sprintf("limit %d, %d pre-registered, %d concurrent Register (%s): peak %d, final %d", c.Max, c.Pre, c.N, c.Kind, peak.Load(), final))
		}
		want := c.Pre + c.N
		if c.Max > 0 && want > c.Max {
			want = c.Max
		}
		if final != want {
			out.fail(strings.TrimSuffix(c.Kind, "-tid")+"-final-count", fmt.Sprintf("limit %d, %d pre-registered, %d concurrent Register (%s): final count %d, expected %d", c.Max, c.Pre, c.N, c.Kind, final, want))
		}
		if treg != nil && int(ok.Load()) != want-c.Pre {
			out.fail("tunnel-accepted-count", fmt.Sprintf("%d registrations accepted, %d free slots", ok.Load(), want-c.Pre))
		}
		if treg == nil && int(ok.Load()) != c.N {
			out.fail("control-refused-valid", fmt.Sprintf("%d of %d control registrations accepted (the control cap evicts, it never refuses)", ok.Load(), c.N))
		}
	}
	return out
}

// gatedStream: the stream of a registered control connection; Close() parks until the scheduler lets it go.  The clean
// Register closes the evicted connection's stream INSIDE its critical section (everybody else waits on the registry
// mutex); a Register that drops the mutex around the Close lets others in between its eviction and its insert.
type gatedStream struct {
	id      int
	arrived chan int
	release chan struct{}
	closed  atomic.Bool
}

func (g *gatedStream) GetReader() io.Reader { return nil }
func (g *gatedStream) GetWriter() io.Writer { return nil }
func (g *gatedStream) ReadPacket() (*packet.TransferPacket, int, error) {
	return nil, 0, io.EOF
}
func (g *gatedStream) WritePacket(*packet.TransferPacket, bool, int64) (int, error) { return 0, nil }
func (g *gatedStream) ReadExact(int) ([]byte, error)                              { return nil, io.EOF }
func (g *gatedStream) WriteExact([]byte) error                                    { return nil }
func (g *gatedStream) Close() {
	if g.closed.Swap(true) {
		return
	}
	g.arrived <- g.id
	<-g.release
}

// runRegSched: a FULL control registry (max connections, each with a gated stream) and k <= max concurrent Registers of
// new connections.  Sched lists caller indices: the first occurrence starts the caller's Register, later occurrences let
// go the Close() the caller is parked in.  A caller that is neither parked nor finished after a short wait is waiting on
// the registry mutex (clean code) and is simply left alone.  After every step the count is sampled (when the registry
// answers at all — a parked critical section holds the write lock) and must be <= max; at the end count and key set are final.
func runRegSched(c caseIn) *caseOut {
	out := newOut()
	ctx, cancel := context.WithCancel(context.Background())
	defer cancel()
	var creg *session.ClientRegistry
	var sm *session.SessionManager
	if c.Kind == "control-sm" {
		sm = newSession(ctx, 0, c.Max)
	} else {
		creg = session.NewClientRegistry(&session.ClientRegistryConfig{MaxConnections: c.Max})
	}
	register := func(cc *session.ControlConnection) {
		if creg != nil {
			creg.Register(cc)
		} else {
			sm.RegisterControlConnection(cc)
		}
	}
	count := func() int {
		if creg != nil {
			return creg.Count()
		}
		return sm.GetConnectionStats().ControlConnections
	}
	present := func(id int) bool {
		if creg != nil {
			return creg.GetByConnID(cid(id)) != nil
		}
		return sm.GetControlConnection(cid(id)) != nil
	}
	arrived := make(chan int, 64)
	var streams []*gatedStream
	mk := func(id, at int) *session.ControlConnection {
		gs := &gatedStream{id: id, arrived: arrived, release: make(chan struct{}, 1)}
		streams = append(streams, gs)
		cc := session.NewControlConnection(cid(id), gs, nil, "tcp")
		cc.CreatedAt = epoch.Add(time.Duration(at) * time.Second)
		return cc
	}
	for k := 0; k < c.Max; k++ { // pre-fill: ids 100.., the oldest first
		register(mk(100+k, k))
	}
	n := c.N
	done := make([]chan struct{}, n)
	started := make([]bool, n)
	finished := make([]bool, n)
	parkedIn := map[int]*gatedStream{} // stream id -> parked Close
	byID := map[int]*gatedStream{}
	for _, g := range streams {
		byID[g.id] = g
	}
	sample := func(what string) {
		res := make(chan int, 1)
		go func() { res <- count() }()
		select {
		case k := <-res:
			out.Counts = append(out.Counts, [2]int{k, 1})
			if k > out.MaxSeen {
				out.MaxSeen = k
			}
			if c.Max > 0 && k > c.Max {
				out.fail("control-cap", fmt.Sprintf("limit %d (registry full, evicted streams park in Close), %d concurrent Register of new connections: %d registered after %s", c.Max, n, k, what))
			}
		case <-time.After(30 * time.Millisecond):
			out.Counts = append(out.Counts, [2]int{0, 0}) // a critical section is parked: the registry does not answer
			go func() { <-res }()
		}
	}
	// absorb whatever becomes visible within a short while: new parked Close()s and finished callers
	absorb := func(wait time.Duration) {
		deadline := time.After(wait)
		for {
			progressed := false
			select {
			case id := <-arrived:
				parkedIn[id] = byID[id]
				progressed = true
			default:
			}
			for i := 0; i < n; i++ {
				if started[i] && !finished[i] {
					select {
					case <-done[i]:
						finished[i] = true
						progressed = true
					default:
					}
				}
			}
			if progressed {
				continue
			}
			select {
			case <-deadline:
				return
			case <-time.After(200 * time.Microsecond):
			}
		}
	}
	releaseOne := func() bool { // let go the oldest parked Close
		best := -1
		for id := range parkedIn {
			if best < 0 || id < best {
				best = id
			}
		}
		if best < 0 {
			return false
		}
		parkedIn[best].release <- struct{}{}
		delete(parkedIn, best)
		return true
	}
	for _, i := range c.Sched {
		if i < 0 || i >= n {
			continue
		}
		if !started[i] {
			started[i] = true
			done[i] = make(chan struct{})
			cc := mk(1+i, 1000+i)
			byID[1+i] = streams[len(streams)-1]
			go func(d chan struct{}) { register(cc); close(d) }(done[i])
		} else if !releaseOne() {
			continue
		}
		absorb(40 * time.Millisecond)
		out.Sched = append(out.Sched, i)
		sample(fmt.Sprintf("step %d", len(out.Sched)))
	}
	// completion: start everybody, then let every parked Close go until all callers have returned
	for i := 0; i < n; i++ {
		if !started[i] {
			started[i] = true
			done[i] = make(chan struct{})
			cc := mk(1+i, 1000+i)
			byID[1+i] = streams[len(streams)-1]
			go func(d chan struct{}) { register(cc); close(d) }(done[i])
		}
	}
	deadline := time.Now().Add(10 * time.Second)
	for {
		absorb(5 * time.Millisecond)
		all := true
		for i := 0; i < n; i++ {
			all = all && finished[i]
		}
		if all {
			break
		}
		releaseOne()
		if time.Now().After(deadline) {
			out.fail("harness", "concurrent Register calls did not finish within 10s")
			break
		}
	}
	final := count()
	out.Final = final
	if final > out.MaxSeen {
		out.MaxSeen = final
	}
	if c.Max > 0 && final > c.Max {
		out.fail("control-cap", fmt.Sprintf("limit %d (registry full, evicted streams park in Close), %d concurrent Register of new connections: %d registered in the end", c.Max, n, final))
	}
	keys := map[int]bool{}
	for k := 0; k < c.Max; k++ {
		if present(100 + k) {
			keys[100+k] = true
		}
	}
	for i := 0; i < n; i++ {
		if present(1 + i) {
			keys[1+i] = true
		} else {
			out.fail("control-refused-valid", fmt.Sprintf("new control connection %d is not registered after its Register returned", 1+i))
		}
	}
	out.Keys = append(out.Keys, sortedInts(keys))
	for _, g := range streams { // unpark anything still waiting (evictions of the final cleanup)
		select {
		case g.release <- struct{}{}:
		default:
		}
	}
	return out
}

// ------------------------------------------------------------------------------------------------ client mapping cap

var barrierBroken atomic.Bool

type spinBarrier struct {
	n        int64
	arrived  atomic.Int64
	timedOut atomic.Bool
}

type fakeClient struct {
	ctx       context.Context
	userQuota int
	barrier   atomic.Pointer[spinBarrier]
	quotaFail atomic.Bool // GetUserQuota() fails (quota service unreachable) while set
	mu        sync.Mutex
	peers     []net.Conn
}

func (f *fakeClient) DialTunnel(tunnelID, mappingID, secretKey string) (net.Conn, stream.PackageStreamer, error) {
	a, b := net.Pipe()
	f.mu.Lock()
	f.peers = append(f.peers, b)
	f.mu.Unlock()
	go io.Copy(io.Discard, b)
	return a, stream.NewStreamProcessor(a, a, f.ctx), nil
}
func (f *fakeClient) DialTunnelPooled(mappingID, secretKey string) (mapping.PooledTunnelConnInterface, error) {
	return nil, nil
}
func (f *fakeClient) ReturnTunnelToPool(conn mapping.PooledTunnelConnInterface)  {}
func (f *fakeClient) CloseTunnelFromPool(conn mapping.PooledTunnelConnInterface) {}
func (f *fakeClient) IsTunnelPoolEnabled() bool                                   { return false }
func (f *fakeClient) GetContext() context.Context                                 { return f.ctx }
func (f *fakeClient) CheckMappingQuota(mappingID string) error                    { return nil }
func (f *fakeClient) TrackTraffic(mappingID string, s, r int64) error             { return nil }
func (f *fakeClient) GetUserQuota() (*models.UserQuota, error) {
	// kind "user": checkConnectionQuota calls this immediately BEFORE activeConnCount.Load(); the racing arrivals
	// rendezvous here (spin barrier) so that they reach the Load within nanoseconds of each other
	if b := f.barrier.Load(); b != nil && !barrierBroken.Load() {
		b.arrived.Add(1)
		deadline := time.Now().Add(500 * time.Millisecond) // watchdog: a tree that asks for the quota only once never fills the barrier
		for spins := 0; b.arrived.Load() < b.n; spins++ {
			if spins%1024 == 1023 {
				runtime.Gosched()
				if time.Now().After(deadline) {
					b.timedOut.Store(true)
					barrierBroken.Store(true) // do not wait again in this process: the remaining trials run without rendezvous
					break
				}
			}
		}
	}
	if f.quotaFail.Load() {
		return nil, errors.New("verif: quota service unreachable")
	}
	return &models.UserQuota{MaxConnections: f.userQuota}, nil
}
func (f *fakeClient) GetServerProtocol() string { return "tcp" }
func (f *fakeClient) SendTunnelCloseNotify(targetClientID int64, tunnelID, mappingID, reason string) error {
	return nil
}

type fakeAdapter struct {
	inside  atomic.Int64
	settled chan int // 1 = admitted (entered PrepareConnection)
	release chan error
	park    bool
}

func (a *fakeAdapter) StartListener(config.MappingConfig) error { return nil }
func (a *fakeAdapter) Accept() (io.ReadWriteCloser, error)      { select {} }
func (a *fakeAdapter) PrepareConnection(conn io.ReadWriteCloser) error {
	if !a.park {
		return nil
	}
	a.inside.Add(1)
	a.settled <- 1
	err := <-a.release
	a.inside.Add(-1)
	return err
}
func (a *fakeAdapter) GetProtocol() string { return "tcp" }
func (a *fakeAdapter) Close() error        { return nil }

// local connection of one arrival: reports when the handler closes it (that is what a refusal does)
type localConn struct {
	closed  chan struct{}
	once    sync.Once
	onClose func()
	// parkClose: Close() does not return (lingering socket / close handshake) until letClose is signalled; the connection
	// counts as OPEN until then
	parkClose atomic.Bool
	closing   chan struct{}
	letClose  chan struct{}
}

func (l *localConn) Read(p []byte) (int, error) {
	<-l.closed
	return 0, io.EOF
}
func (l *localConn) Write(p []byte) (int, error) { return len(p), nil }
func (l *localConn) Close() error {
	l.once.Do(func() {
		if l.parkClose.Load() {
			l.closing <- struct{}{}
			<-l.letClose
		}
		close(l.closed)
		if l.onClose != nil {
			l.onClose()
		}
	})
	return nil
}

// limit source: kind "mapping" = MappingConfig.MaxConnections, kind "user" = UserQuota.MaxConnections (config 0)
func newHandler(ctx context.Context, c caseIn, ad *fakeAdapter) (*mapping.BaseMappingHandler, *fakeClient) {
	fc := &fakeClient{ctx: ctx}
	cfg := config.MappingConfig{MappingID: "m1", Protocol: "tcp", LocalPort: 1, TargetClientID: 0}
	if c.Kind == "user" {
		fc.userQuota = c.Max
	} else {
		cfg.MaxConnections = c.Max
	}
	return mapping.NewBaseMappingHandler(fc, cfg, ad), fc
}

// newHandlerWith: a NEW handler generation for the same mapping and the same client (what a config push installs)
func newHandlerWith(fc *fakeClient, c caseIn, ad *fakeAdapter) *mapping.BaseMappingHandler {
	cfg := config.MappingConfig{MappingID: "m1", Protocol: "tcp", LocalPort: 1, TargetClientID: 0}
	if c.Kind != "user" {
		cfg.MaxConnections = c.Max
	}
	return mapping.NewBaseMappingHandler(fc, cfg, ad)
}

func runMapRace(c caseIn) *caseOut {
	out := newOut()
	for t := 0; t < c.Trials; t++ {
		ctx, cancel := context.WithCancel(context.Background())
		ad := &fakeAdapter{settled: make(chan int, c.N+c.Pre), release: make(chan error, c.N+c.Pre), park: true}
		h, fc := newHandler(ctx, c, ad)
		arrive := func(start chan struct{}, wg *sync.WaitGroup) {
			wg.Add(1)
			lc := &localConn{closed: make(chan struct{})}
			lc.onClose = func() { ad.settled <- 0 }
			go func() {
				defer wg.Done()
				<-start
				h.VerifHandleConnection(lc)
			}()
		}
		var wg sync.WaitGroup
		open := make(chan struct{})
		close(open)
		admitted := 0
		for k := 0; k < c.Pre; k++ { // bring the mapping to the wanted occupancy, one by one
			arrive(open, &wg)
			admitted += <-ad.settled
		}
		if c.Max > 0 && c.Pre <= c.Max && admitted != c.Pre {
			out.fail("harness", fmt.Sprintf("pre-fill admitted %d of %d", admitted, c.Pre))
		}
		start := make(chan struct{})
		if c.Kind == "user" {
			fc.barrier.Store(&spinBarrier{n: int64(c.N)})
		}
		for i := 0; i < c.N; i++ {
			arrive(start, &wg)
		}
		close(start)
		for i := 0; i < c.N; i++ {
			select {
			case v := <-ad.settled:
				admitted += v
			case <-time.After(20 * time.Second):
				out.fail("harness", "arrivals did not settle within 20s")
			}
		}
		parked := int(ad.inside.Load())
		counter := h.VerifActiveConnCount()
		out.Admitted = append(out.Admitted, admitted)
		if admitted > out.MaxSeen {
			out.MaxSeen = admitted
		}
		if parked != admitted {
			out.fail("harness", fmt.Sprintf("parked %d != admitted %d", parked, admitted))
		}
		if c.Max > 0 && admitted > c.Max {
			out.fail("mapping-cap", fmt.Sprintf("MaxConnections=%d (%s), %d already active, %d arrivals at once: %d admitted simultaneously", c.Max, c.Kind, c.Pre, c.N, admitted))
		}
		want := c.Pre + c.N
		if c.Max > 0 && want > c.Max {
			want = c.Max
		}
		if admitted < want {
			out.fail("mapping-spurious-refusal", fmt.Sprintf("MaxConnections=%d, %d active, %d arrivals: only %d admitted although %d fit", c.Max, c.Pre, c.N, admitted, want))
		}
		// refused arrivals have changed nothing: the counter accounts for exactly the admitted ones
		if counter != admitted {
			out.fail("mapping-refused-changed-counter", fmt.Sprintf("activeConnCount=%d with %d admitted connections in flight", counter, admitted))
		}
		for i := 0; i < admitted; i++ {
			ad.release <- errors.New("verif: stop here")
		}
		wg.Wait()
		if got := h.VerifActiveConnCount(); got != 0 {
			out.fail("mapping-counter-leak", fmt.Sprintf("activeConnCount=%d after every connection ended", got))
		}
		out.Final = h.VerifActiveConnCount()
		h.Close()
		cancel()
	}
	return out
}

var slowSeen atomic.Bool // after the first timed-out wait of this process the remaining waits are short

func waitFor(cond func() bool) bool {
	limit := 5 * time.Second
	if slowSeen.Load() {
		limit = 100 * time.Millisecond
	}
	deadline := time.Now().Add(limit)
	for !cond() {
		if time.Now().After(deadline) {
			slowSeen.Store(true)
			return false
		}
		time.Sleep(200 * time.Microsecond)
	}
	return true
}

// earlyCloseManager: the handler's real tunnel manager; when armed, the peer's close notification for a tunnel is
// delivered immediately after that tunnel has been registered (before the handler starts it).
type earlyCloseManager struct {
	tunnel.TunnelManager
	armed, fired bool
}

func (m *earlyCloseManager) RegisterTunnel(t *tunnel.Tunnel) error {
	if err := m.TunnelManager.RegisterTunnel(t); err != nil {
		return err
	}
	if m.armed {
		m.armed, m.fired = false, true
		m.TunnelManager.OnTunnelClosed(t.GetID(), "m1", "target_unreachable", 0, 0, 0)
	}
	return nil
}

// histories of whole connections: open = one arrival carried through to a started tunnel; close k = the local side of
// the k-th arrival hangs up.  Live tunnels of the mapping must never exceed the limit.
func runMapSeq(c caseIn) *caseOut {
	out := newOut()
	ctx, cancel := context.WithCancel(context.Background())
	defer cancel()
	ad := &fakeAdapter{}
	h, fc := newHandler(ctx, c, ad)
	defer func() { h.Close() }()
	countsHolders := c.Pre == 0 // python sets pre=1 on a tree whose counter only covers connections being set up (pre-5fae32e)
	ecm := &earlyCloseManager{}
	h.VerifWrapTunnelManager(func(real tunnel.TunnelManager) tunnel.TunnelManager {
		ecm.TunnelManager = real
		return ecm
	})
	tm := h.GetTunnelManager()
	var conns []*localConn
	state := []int{} // per arrival: 1 live, 2 refused, 3 closed (also: closed by the peer before it was started)
	peerOf := map[int]net.Conn{}
	tunnelOf := map[int]string{}
	knownTunnel := map[string]bool{}
	survivors := 0 // connections that outlived a Stop() of their handler (they belong to no current tunnel manager)
	live := 0      // OPEN connections of the MAPPING: running tunnels, including one whose Close() is parked
	for _, op := range c.Ops {
		res := 0
		if op[0] == 0 || op[0] == 3 {
			lc := &localConn{closed: make(chan struct{})}
			conns = append(conns, lc)
			// [3]: the user-quota lookup fails for this arrival only (limit source = user quota: the limit is unknown to it)
			fc.quotaFail.Store(op[0] == 3)
			h.VerifHandleConnection(lc) // returns after tun.Start() or after a refusal
			fc.quotaFail.Store(false)
			select {
			case <-lc.closed:
				state = append(state, 2)
				res = 2
			default:
				state = append(state, 1)
				res = 1
				live++
				fc.mu.Lock()
				peerOf[len(conns)-1] = fc.peers[len(fc.peers)-1]
				fc.mu.Unlock()
				for _, t := range tm.ListTunnels() { // remember which tunnel carries this arrival
					if !knownTunnel[t.GetID()] {
						knownTunnel[t.GetID()] = true
						tunnelOf[len(conns)-1] = t.GetID()
					}
				}
			}
		} else if op[0] == 6 {
			// config push: the mapping's handler is stopped and replaced by a new one.  Stop() must take the mapping's running
			// connections down with it; whatever survives still counts against the MAPPING's limit, across handler generations
			for k, lc := range conns {
				if state[k] == 5 {
					lc.letClose <- struct{}{}
					state[k] = 1
				}
			}
			h.Stop()
			for k, lc := range conns {
				if state[k] != 1 {
					continue
				}
				closedNow := waitFor(func() bool {
					select {
					case <-lc.closed:
						return true
					default:
						return false
					}
				})
				if closedNow {
					state[k] = 3
					live--
					if p := peerOf[k]; p != nil {
						p.Close()
					}
				} else {
					survivors++ // still open: a connection of the mapping that the new handler does not know about
				}
			}
			h = newHandlerWith(fc, c, ad)
			ecm = &earlyCloseManager{}
			h.VerifWrapTunnelManager(func(real tunnel.TunnelManager) tunnel.TunnelManager {
				ecm.TunnelManager = real
				return ecm
			})
			tm = h.GetTunnelManager()
			res = 6
		} else if op[0] == 4 {
			// the tunnel of arrival k is closed from OUTSIDE the copy loop (peer-closed notification) and the local socket's
			// Close() does not return yet: the connection is still open and must keep its slot
			k := op[1]
			if k < len(conns) && state[k] == 1 {
				lc := conns[k]
				lc.closing, lc.letClose = make(chan struct{}, 1), make(chan struct{}, 1)
				lc.parkClose.Store(true)
				go tm.OnTunnelClosed(tunnelOf[k], "m1", "peer_closed", 0, 0, 0)
				select {
				case <-lc.closing:
					state[k] = 5
					res = 5
				case <-time.After(5 * time.Second):
					out.fail("harness", fmt.Sprintf("closing the tunnel of arrival %d never reached localConn.Close()", k))
				}
			}
		} else if op[0] == 5 {
			k := op[1]
			if k < len(conns) && state[k] == 5 {
				conns[k].letClose <- struct{}{}
				peerOf[k].Close()
				state[k] = 3
				live--
				res = 3
			}
		} else if op[0] == 2 {
			// the peer's "tunnel closed" notification for this connection's tunnel arrives right after RegisterTunnel,
			// i.e. before tun.Start(): Tunnel.Close runs OnClosed, Start then fails, the failure path cleans up
			lc := &localConn{closed: make(chan struct{})}
			conns = append(conns, lc)
			ecm.armed, ecm.fired = true, false
			h.VerifHandleConnection(lc)
			ecm.armed = false
			select {
			case <-lc.closed:
			default:
				out.fail("harness", "connection closed by its peer before Start is still open")
				lc.Close()
			}
			if ecm.fired {
				state = append(state, 3)
				res = 4
				fc.mu.Lock()
				fc.peers[len(fc.peers)-1].Close()
				fc.mu.Unlock()
			} else {
				state = append(state, 2) // refused at admission: the tunnel was never built
				res = 2
			}
		} else {
			k := op[1]
			if k < len(conns) && state[k] == 1 {
				conns[k].Close() // the local side hangs up ...
				peerOf[k].Close() // ... and the far side of the tunnel goes away with it
				state[k] = 3
				live--
				res = 3
			}
		}
		if res == 5 {
			// while Close() is parked the code still has the tunnel registered; a tree that unregisters first is caught by the
			// slot predicates below, not by the harness's own bookkeeping
			if got := h.VerifActiveConnCount(); got < live && countsHolders {
				out.fail("mapping-slot-returned-before-connection-closed", fmt.Sprintf("activeConnCount=%d but %d connections of the mapping are still open after %v (localConn.Close() has not returned)", got, live, op))
			}
		} else if !waitFor(func() bool { return tm.CountTunnels() == live-survivors }) {
			out.fail("harness", fmt.Sprintf("tunnel manager reports %d tunnels, harness expects %d", tm.CountTunnels(), live-survivors))
		}
		if res == 3 { // OnClosed runs after UnregisterTunnel; give the release a moment to land before sampling
			waitFor(func() bool { return h.VerifActiveConnCount() <= live-survivors })
		}
		out.Counts = append(out.Counts, [2]int{h.VerifActiveConnCount(), live})
		if live > out.MaxSeen {
			out.MaxSeen = live
		}
		if got := h.VerifActiveConnCount(); got < 0 {
			out.fail("mapping-slot-double-release", fmt.Sprintf("activeConnCount=%d (below zero) with %d live tunnels after %v: a slot was released twice", got, live, op))
		}
		if got := h.VerifActiveConnCount(); got > live-survivors {
			// no arrival is in flight here: slots may only be held by live tunnels
			out.fail("mapping-slot-leak", fmt.Sprintf("activeConnCount=%d but only %d tunnels of the mapping are live after %v", got, live, op))
		}
		if got := h.VerifActiveConnCount(); got >= 0 && got < live-survivors && countsHolders {
			// every live tunnel holds a slot: nobody may be let through uncounted (not even during a quota fault)
			out.fail("mapping-slot-not-counted", fmt.Sprintf("activeConnCount=%d but %d tunnels of the mapping are live after %v: a connection was admitted without taking a slot", got, live, op))
		}
		// the cap binds admissions decided against a KNOWN limit; an arrival during a quota fault is let through (and counted)
		if c.Max > 0 && live > c.Max && res == 1 && op[0] == 0 {
			out.fail("mapping-cap-live", fmt.Sprintf("MaxConnections=%d but %d tunnels of the mapping are live after %v", c.Max, live, op))
		}
	}
	for k, lc := range conns { // let every parked Close() go
		if state[k] == 5 {
			lc.letClose <- struct{}{}
		}
	}
	out.Final = live
	out.Outcomes = state // per arrival: 1 live, 2 refused, 3 closed
	for _, lc := range conns {
		lc.Close()
	}
	fc.mu.Lock()
	for _, p := range fc.peers {
		p.Close()
	}
	fc.mu.Unlock()
	return out
}

// ------------------------------------------------------------------------------------------------ storage-level quotas

func gid() int64 {
	var buf [64]byte
	n := runtime.Stack(buf[:], false)
	f := bytes.Fields(buf[:n])
	id, _ := strconv.ParseInt(string(f[1]), 10, 64)
	return id
}

// the per-client admission marker of fixes/C17-quota-per-client-admission.diff (a literal: the constant does not exist on
// a tree without the fix)
const admitPrefix = "tunnox:runtime:conncode:admit:"

// gatedStore: the real memory store seen by the whole server fixture.
//   - a registered caller parks (1) before its first SetNX of an admission marker — if the tree has that step — and (2) before
//     its first other write: everything before (2) is the "count active" phase, everything from (2) on is the "create" phase;
//   - for the goroutine under a read-fault run, every Get / GetList is recorded (class of the key) and the k-th one fails.
//
// Unregistered goroutines (background loops of the fixture, the scheduler's own queries) pass through.
type gatedStore struct {
	*memory.Storage
	mu      sync.Mutex
	callers map[int64]*qcaller

	traceGid  int64 // 0 = off
	traceKind string
	trace     []int
	faultAt   int
	fired     bool
}
type qcaller struct {
	parkEvery   bool // park before EVERY non-marker write (qlist) instead of only the first
	class       int  // class of the write the caller is parked at: 0 other, 1 by-id record of a code, 2 the client's index
	parkedAdmit bool
	parkedProbe bool
	parkedWrite bool
	arrived     chan struct{}
	release     chan struct{}
}

func (s *gatedStore) gate(key string) {
	s.mu.Lock()
	q := s.callers[gid()]
	s.mu.Unlock()
	if q == nil {
		return
	}
	if strings.HasPrefix(key, admitPrefix) {
		if q.parkedAdmit {
			return
		}
		q.parkedAdmit = true
	} else if q.parkEvery {
		q.class = 0
		switch {
		case strings.HasPrefix(key, constants.KeyPrefixRuntimeConnectionCodeByID):
			q.class = 1
		case strings.HasPrefix(key, constants.KeyPrefixIndexConnectionCodeByTarget):
			q.class = 2
		case strings.HasPrefix(key, constants.KeyPrefixRuntimeConnectionCodeByCode):
			q.class = 3
		}
	} else {
		if q.parkedWrite {
			return
		}
		q.parkedWrite = true
	}
	q.arrived <- struct{}{}
	<-q.release
}

// read: record / fail one storage read of the traced goroutine
func (s *gatedStore) read(key string, isList bool) error {
	s.mu.Lock()
	defer s.mu.Unlock()
	if s.traceGid == 0 || s.traceGid != gid() {
		return nil
	}
	class := 2
	switch {
	case isList:
		class = 0
	case s.traceKind == "code" && strings.HasPrefix(key, constants.KeyPrefixRuntimeConnectionCodeByID):
		class = 1
	case s.traceKind == "mapping" && strings.HasPrefix(key, constants.KeyPrefixPortMapping+":"):
		class = 1
	}
	k := len(s.trace)
	s.trace = append(s.trace, class)
	if k == s.faultAt {
		s.fired = true
		return errors.New("verif: injected storage read failure (i/o timeout)")
	}
	return nil
}
func (s *gatedStore) Get(key string) (any, error) {
	if err := s.read(key, false); err != nil {
		return nil, err
	}
	return s.Storage.Get(key)
}
func (s *gatedStore) GetList(key string) ([]any, error) {
	if err := s.read(key, true); err != nil {
		return nil, err
	}
	return s.Storage.GetList(key)
}
func (s *gatedStore) Set(key string, value any, ttl time.Duration) error {
	s.gate(key)
	return s.Storage.Set(key, value, ttl)
}
func (s *gatedStore) SetNX(key string, value any, ttl time.Duration) (bool, error) {
	s.gate(key)
	return s.Storage.SetNX(key, value, ttl)
}

// Exists on an admission marker: the code's AcquireAdmission is a single SetNX and never looks at the marker again; a tree
// that does (SetNX lost, then Exists) gets a park point here, so that the marker can be released between the two calls
func (s *gatedStore) Exists(key string) (bool, error) {
	if strings.HasPrefix(key, admitPrefix) {
		s.mu.Lock()
		q := s.callers[gid()]
		s.mu.Unlock()
		if q != nil && !q.parkedProbe {
			q.parkedProbe = true
			q.arrived <- struct{}{}
			<-q.release
		}
	}
	return s.Storage.Exists(key)
}
func (s *gatedStore) Delete(key string) error {
	if !strings.HasPrefix(key, admitPrefix) { // giving the marker back is part of the step that ends the request
		s.gate(key)
	}
	return s.Storage.Delete(key)
}
func (s *gatedStore) AppendToList(key string, value any) error {
	s.gate(key)
	return s.Storage.AppendToList(key, value)
}
func (s *gatedStore) RemoveFromList(key string, value any) error {
	s.gate(key)
	return s.Storage.RemoveFromList(key, value)
}
func (s *gatedStore) SetList(key string, values []any, ttl time.Duration) error {
	s.gate(key)
	return s.Storage.SetList(key, values, ttl)
}
func (s *gatedStore) SetHash(key string, field string, value any) error {
	s.gate(key)
	return s.Storage.SetHash(key, field, value)
}
func (s *gatedStore) Incr(key string) (int64, error) { s.gate(key); return s.Storage.Incr(key) }
func (s *gatedStore) IncrBy(key string, v int64) (int64, error) {
	s.gate(key)
	return s.Storage.IncrBy(key, v)
}
func (s *gatedStore) CompareAndSwap(key string, o, n any, ttl time.Duration) (bool, error) {
	s.gate(key)
	return s.Storage.CompareAndSwap(key, o, n, ttl)
}

const (
	targetClient = int64(10000001)
	listenClient = int64(10000002)
	oConflict    = 5
)

// quotaWorld: a full server fixture over one gated store, a ConnectionCodeService with the wanted limits, and the
// pre-existing occupancy of the client under test.
type quotaWorld struct {
	cancel    context.CancelFunc
	fx        *server.VerifFixture
	gs        *gatedStore
	kind      string
	admit     func(code string) error
	newCode   func(k int) string
	occupancy func() int
	snapshot  func() string
	activate  func(code string) error // ActivateConnectionCode(code) by the listen client
	create    func() (string, error) // CreateConnectionCode for the client under test, returns the code
	list      func()                 // the client's read-only listing (ListConnectionCodesByTargetClient path)
	valid     func(code string) bool // ground truth from storage: the code exists and can still be activated
}

func (w *quotaWorld) close() { w.fx.Close(); w.cancel() }

func newQuotaWorld(kind string, max, pre int, out *caseOut) *quotaWorld {
	ctx, cancel := context.WithCancel(context.Background())
	gs := &gatedStore{Storage: memory.New(ctx), callers: map[int64]*qcaller{}, faultAt: -1}
	fx, err := server.VerifNewFixture(ctx, gs, server.VerifFixtureOptions{})
	must(err)
	ccRepo := repos.NewConnectionCodeRepository(fx.Repo)
	pmRepo := repos.NewPortMappingRepo(fx.Repo)
	cfg := &services.ConnectionCodeServiceConfig{MaxActiveCodesPerClient: max, MaxActiveMappingsPerClient: max}
	if kind == "mapping" { // codes come from distinct target clients and are never the bottleneck
		cfg.MaxActiveCodesPerClient = 1000
	}
	svc := services.NewConnectionCodeService(ccRepo, fx.Cloud.GetPortMappingService(), pmRepo, cfg, ctx)
	w := &quotaWorld{cancel: cancel, fx: fx, gs: gs, kind: kind}
	w.newCode = func(k int) string {
		cc, err := svc.CreateConnectionCode(&services.CreateConnectionCodeRequest{
			TargetClientID: targetClient + int64(100+k), TargetAddress: "tcp://127.0.0.1:80", CreatedBy: "verif"})
		must(err)
		return cc.Code
	}
	w.occupancy = func() int {
		if kind == "code" {
			k, err := ccRepo.CountActiveByTargetClient(targetClient)
			must(err)
			return k
		}
		ms, err := pmRepo.GetClientPortMappings(random.Int64ToString(listenClient))
		must(err)
		k := 0
		for _, m := range ms {
			if m.Status == models.MappingStatusActive && !m.IsRevoked && !m.IsExpired() && m.ListenClientID == listenClient {
				k++
			}
		}
		return k
	}
	w.snapshot = func() string {
		all, err := gs.Storage.QueryByPrefix("", 0)
		must(err)
		ks := make([]string, 0, len(all))
		for k := range all {
			ks = append(ks, k)
		}
		sort.Strings(ks)
		b, _ := json.Marshal(ks)
		return string(b)
	}
	w.admit = func(code string) error {
		if kind == "code" {
			addr := "tcp://127.0.0.1:80"
			if code != "" { // the racing requests of ONE client name DIFFERENT target addresses: the quota is per client
				addr = code
			}
			_, err := svc.CreateConnectionCode(&services.CreateConnectionCodeRequest{
				TargetClientID: targetClient, TargetAddress: addr, CreatedBy: "verif"})
			return err
		}
		_, err := svc.ActivateConnectionCode(&services.ActivateConnectionCodeRequest{
			Code: code, ListenClientID: listenClient, ListenAddress: "0.0.0.0:9999"})
		return err
	}
	w.create = func() (string, error) {
		cc, err := svc.CreateConnectionCode(&services.CreateConnectionCodeRequest{
			TargetClientID: targetClient, TargetAddress: "tcp://127.0.0.1:80", CreatedBy: "verif"})
		if err != nil {
			return "", err
		}
		return cc.Code, nil
	}
	w.activate = func(code string) error {
		_, err := svc.ActivateConnectionCode(&services.ActivateConnectionCodeRequest{
			Code: code, ListenClientID: listenClient, ListenAddress: "0.0.0.0:9999"})
		return err
	}
	w.list = func() { _, _ = ccRepo.ListByTargetClient(targetClient) }
	w.valid = func(code string) bool {
		cc, err := ccRepo.GetByCode(code)
		return err == nil && cc.IsValidForActivation()
	}
	for k := 0; k < pre; k++ { // pre-existing occupancy, created ungated
		code := ""
		if kind == "mapping" {
			code = w.newCode(1000 + k)
		}
		if err := w.admit(code); err != nil {
			out.fail("harness", fmt.Sprintf("pre-fill %d refused: %v", k, err))
		}
	}
	return w
}

func quotaKey(kind string) string {
	if kind == "mapping" {
		return "conncode-activate-mapping-quota"
	}
	return "conncode-create-quota"
}

func runQuota(c caseIn) *caseOut {
	out := newOut()
	w := newQuotaWorld(c.Kind, c.Max, c.Pre, out)
	defer w.close()
	gs := w.gs
	n := c.Threads
	codes := make([]string, n)
	if c.Kind == "mapping" { // one fresh code per caller
		for i := 0; i < n; i++ {
			codes[i] = w.newCode(i)
		}
	} else { // every caller asks for a code for another target address
		for i := 0; i < n; i++ {
			codes[i] = fmt.Sprintf("tcp://10.0.0.%d:%d", 1+i, 8000+i)
		}
	}
	callers := make([]*qcaller, n)
	done := make([]chan error, n)
	phase := make([]int, n) // 0 not started, 1 parked, 2 returned
	outcome := make([]int, n)
	sample := func(what string) {
		k := w.occupancy()
		out.Counts = append(out.Counts, [2]int{k, 0})
		if k > out.MaxSeen {
			out.MaxSeen = k
		}
		if k > c.Max && k > c.Pre {
			out.fail(quotaKey(c.Kind), fmt.Sprintf("per-client limit %d but %d active entries after %s", c.Max, k, what))
		}
	}
	settle := func(i int, before string) {
		select {
		case <-callers[i].arrived:
			phase[i] = 1
		case err := <-done[i]:
			phase[i] = 2
			switch {
			case err == nil:
				outcome[i] = oAdmitted
			case isQuotaErr(err) || coreerrors.IsCode(err, coreerrors.CodeConflict):
				outcome[i] = oRefused
				if !isQuotaErr(err) {
					outcome[i] = oConflict
				}
				if after := w.snapshot(); after != before {
					out.fail("quota-refused-changed-storage", fmt.Sprintf("caller %d refused (%v) but the stored key set changed", i, err))
				}
			default:
				outcome[i] = oError
				out.fail("quota-unexpected-error", fmt.Sprintf("caller %d: %v", i, err))
			}
		case <-time.After(20 * time.Second):
			phase[i] = 2
			outcome[i] = oError
			out.fail("harness", fmt.Sprintf("caller %d neither parked nor returned within 20s", i))
		}
	}
	step := func(i int) {
		if i < 0 || i >= n || phase[i] == 2 {
			return
		}
		before := w.snapshot()
		if phase[i] == 0 {
			callers[i] = &qcaller{arrived: make(chan struct{}), release: make(chan struct{})}
			done[i] = make(chan error, 1)
			reg := make(chan struct{})
			go func(q *qcaller, d chan error, code string) {
				gs.mu.Lock()
				gs.callers[gid()] = q
				gs.mu.Unlock()
				close(reg)
				d <- w.admit(code)
			}(callers[i], done[i], codes[i])
			<-reg
		} else {
			callers[i].release <- struct{}{}
		}
		settle(i, before)
		out.Sched = append(out.Sched, i)
		sample(fmt.Sprintf("step of caller %d", i))
	}
	for _, i := range c.Sched {
		step(i)
	}
	for i := 0; i < n; i++ {
		for phase[i] < 2 {
			step(i)
		}
	}
	out.Outcomes = outcome
	out.Final = w.occupancy()
	return out
}

// runQuotaList: one CreateConnectionCode of the client under test is parked before EVERY storage write it makes; at each
// park point the client's codes are listed (what any other admission's count, a read-only query or another node does —
// the listing drops index entries whose record is missing).  Afterwards N more creates follow one by one.  Oracle: the codes
// that really exist and can be activated (ground truth from storage, per handed-out code) never exceed the limit, and the
// count the quota uses equals that number.
func runQuotaList(c caseIn) *caseOut {
	out := newOut()
	w := newQuotaWorld("code", c.Max, 0, out)
	defer w.close()
	var codes []string
	for k := 0; k < c.Pre; k++ {
		code, err := w.create()
		if err != nil {
			out.fail("harness", fmt.Sprintf("pre-fill %d refused: %v", k, err))
		}
		codes = append(codes, code)
	}
	truth := func() int {
		n := 0
		for _, code := range codes {
			if w.valid(code) {
				n++
			}
		}
		return n
	}
	q := &qcaller{parkEvery: true, arrived: make(chan struct{}), release: make(chan struct{})}
	type res struct {
		code string
		err  error
	}
	done := make(chan res, 1)
	reg := make(chan struct{})
	go func() {
		w.gs.mu.Lock()
		w.gs.callers[gid()] = q
		w.gs.mu.Unlock()
		close(reg)
		code, err := w.create()
		done <- res{code, err}
	}()
	<-reg
	writes := []int{}
	finished := false
	for !finished {
		select {
		case <-q.arrived:
			writes = append(writes, q.class)
			w.list() // the concurrent listing, between two storage calls of the Create
			q.release <- struct{}{}
		case r := <-done:
			finished = true
			if r.err != nil {
				out.fail("quota-unexpected-error", fmt.Sprintf("gated create failed: %v", r.err))
			} else {
				codes = append(codes, r.code)
			}
		case <-time.After(20 * time.Second):
			finished = true
			out.fail("harness", "gated create neither parked nor returned within 20s")
		}
	}
	out.Keys = append(out.Keys, writes)
	counted, existing := w.occupancy(), truth()
	out.Counts = append(out.Counts, [2]int{counted, existing})
	if counted != existing {
		out.fail("quota-count-misses-existing-code", fmt.Sprintf("limit %d: after a create that was listed between its storage writes %d codes of the client exist and can be activated, the quota counts %d", c.Max, existing, counted))
	}
	accepted := 0
	for k := 0; k < c.N; k++ {
		code, err := w.create()
		switch {
		case err == nil:
			accepted++
			codes = append(codes, code)
			out.Outcomes = append(out.Outcomes, oAdmitted)
		case isQuotaErr(err):
			out.Outcomes = append(out.Outcomes, oRefused)
		default:
			out.Outcomes = append(out.Outcomes, oError)
			out.fail("quota-unexpected-error", fmt.Sprintf("create %d: %v", k, err))
		}
		if t := truth(); t > out.MaxSeen {
			out.MaxSeen = t
		}
		if t := truth(); t > c.Max {
			out.fail("conncode-create-quota", fmt.Sprintf("per-client limit %d but %d active codes of the client exist after %d further creates (a list ran between the writes of an earlier create)", c.Max, t, k+1))
		}
	}
	out.Final = accepted
	out.Counts = append(out.Counts, [2]int{w.occupancy(), truth()})
	return out
}

// runQuotaClaim: the target client is AT its code limit.  The activation of one of its codes (by another client, under that
// client's `mappings` marker) is run up to the point where it has CLAIMED the code and is about to write it back as used;
// a CreateConnectionCode of the target client arrives — the claimed code is still active (the claim can be given back), so
// the create must be refused; the activation then finishes (one code fewer) and a further create is accepted.
// Oracle: codes of the client that are valid for activation (ground truth per handed-out code) <= limit after every step.
func runQuotaClaim(c caseIn) *caseOut {
	out := newOut()
	w := newQuotaWorld("code", c.Max, 0, out)
	defer w.close()
	var codes []string
	for k := 0; k < c.Max; k++ {
		code, err := w.create()
		if err != nil {
			out.fail("harness", fmt.Sprintf("pre-fill %d refused: %v", k, err))
			return out
		}
		codes = append(codes, code)
	}
	truth := func() int {
		n := 0
		for _, code := range codes {
			if w.valid(code) {
				n++
			}
		}
		return n
	}
	sample := func(what string) {
		t := truth()
		out.Counts = append(out.Counts, [2]int{t, w.occupancy()})
		if t > out.MaxSeen {
			out.MaxSeen = t
		}
		if t > c.Max {
			out.fail("conncode-create-quota", fmt.Sprintf("per-client limit %d but %d codes of the client are valid for activation %s", c.Max, t, what))
		}
	}
	q := &qcaller{parkEvery: true, arrived: make(chan struct{}), release: make(chan struct{})}
	done := make(chan error, 1)
	reg := make(chan struct{})
	go func() {
		w.gs.mu.Lock()
		w.gs.callers[gid()] = q
		w.gs.mu.Unlock()
		close(reg)
		done <- w.activate(codes[0])
	}()
	<-reg
	// run the activation until it is parked before writing the code back (class 1 = by-id record, 3 = by-code record)
	claimed, finished := false, false
	for !claimed && !finished {
		select {
		case <-q.arrived:
			if q.class == 1 || q.class == 3 {
				claimed = true
			} else {
				q.release <- struct{}{}
			}
		case err := <-done:
			finished = true
			out.fail("harness", fmt.Sprintf("activation finished before it could be parked: %v", err))
		case <-time.After(20 * time.Second):
			finished = true
			out.fail("harness", "activation neither parked nor returned within 20s")
		}
	}
	create := func(what string) {
		code, err := w.create()
		switch {
		case err == nil:
			codes = append(codes, code)
			out.Outcomes = append(out.Outcomes, oAdmitted)
		case isQuotaErr(err):
			out.Outcomes = append(out.Outcomes, oRefused)
		default:
			out.Outcomes = append(out.Outcomes, oError)
			out.fail("quota-unexpected-error", fmt.Sprintf("create %s: %v", what, err))
		}
		sample(what)
	}
	sample("while an activation holds the claim of one of them")
	create("after a create that arrived while an activation held the claim of one of the client's codes")
	if claimed { // let the activation finish
		for !finished {
			select {
			case q.release <- struct{}{}:
			case err := <-done:
				finished = true
				if err != nil {
					out.fail("quota-unexpected-error", fmt.Sprintf("activation failed: %v", err))
				}
			case <-q.arrived:
				// parked again: the next loop iteration releases it
				q.release <- struct{}{}
			case <-time.After(20 * time.Second):
				finished = true
				out.fail("harness", "activation did not finish within 20s")
			}
		}
	}
	sample("after the activation finished")
	create("after the activation finished")
	out.Final = truth()
	return out
}

// runQuotaFault: the client is AT its quota (pre = max).  A fault-free request must be refused by the quota; its storage
// reads are recorded.  Then, for every read position k, a fresh world is built and the same request is made while exactly
// the k-th read fails: it must be refused or fail — never be admitted — and must leave the stored key set unchanged.
func runQuotaFault(c caseIn) *caseOut {
	out := newOut()
	request := func(faultAt int) (outcome int, changed bool, occ int, trace []int, fired bool) {
		w := newQuotaWorld(c.Kind, c.Max, c.Max, out)
		defer w.close()
		code := ""
		if c.Kind == "mapping" {
			code = w.newCode(0)
		}
		before := w.snapshot()
		res := make(chan error, 1)
		go func() {
			w.gs.mu.Lock()
			w.gs.traceGid, w.gs.traceKind, w.gs.faultAt, w.gs.trace, w.gs.fired = gid(), c.Kind, faultAt, nil, false
			w.gs.mu.Unlock()
			err := w.admit(code)
			w.gs.mu.Lock()
			w.gs.traceGid = 0
			w.gs.mu.Unlock()
			res <- err
		}()
		err := <-res
		switch {
		case err == nil:
			outcome = 2
		case isQuotaErr(err):
			outcome = 0
		default:
			outcome = 1
		}
		return outcome, w.snapshot() != before, w.occupancy(), w.gs.trace, w.gs.fired
	}
	o, changed, occ, trace, _ := request(-1)
	if o != 0 || changed || occ != c.Max {
		out.fail("quota-full-not-refused", fmt.Sprintf("%s: limit %d reached, fault-free request: outcome %d, storage changed %v, %d active", c.Kind, c.Max, o, changed, occ))
	}
	out.Keys = append(out.Keys, trace)
	for k := range trace {
		o, changed, occ, tr, fired := request(k)
		out.Outcomes = append(out.Outcomes, o)
		ch := 0
		if changed {
			ch = 1
		}
		out.Counts = append(out.Counts, [2]int{occ, ch})
		if occ > out.MaxSeen {
			out.MaxSeen = occ
		}
		if !fired || len(tr) <= k || tr[k] != trace[k] {
			out.fail("harness", fmt.Sprintf("read %d of the fault run is not the read recorded by the dry run", k))
		}
		what := map[int]string{0: "the index read (GetList)", 1: "a by-id read (Get) of one of the client's records", 2: "a read outside the count"}[trace[k]]
		// C17 quantifies over limits and schedules, not over storage faults.  CreateConnectionCode is fail closed on HEAD, so the
		// requirement is kept there (it costs nothing and catches a listing that starts to skip unreadable records); the
		// activation's count reads a failing read as "absent" by documented choice: its outcome is recorded and diffed with the
		// model, never required.
		if (o == 2 || occ > c.Max) && c.Kind == "code" {
			out.fail(quotaKey(c.Kind)+"-read-fault-admitted", fmt.Sprintf("%s: limit %d reached; the request during which read #%d — %s — failed was ADMITTED: %d active entries", c.Kind, c.Max, k, what, occ))
		} else if changed && o != 2 {
			out.fail("quota-refused-changed-storage", fmt.Sprintf("%s: limit %d reached; request with failing read #%d (%s) was not admitted but the stored key set changed", c.Kind, c.Max, k, what))
		}
	}
	out.Final = c.Max
	return out
}

// ------------------------------------------------------------------------------------------------ plumbing

func runCase(raw json.RawMessage) interface{} {
	var c caseIn
	must(json.Unmarshal(raw, &c))
	switch c.Mode {
	case "server":
		return runServer(c)
	case "reg":
		return runReg(c)
	case "regrace":
		return runRegRace(c)
	case "regsched":
		return runRegSched(c)
	case "maprace":
		return runMapRace(c)
	case "mapseq":
		return runMapSeq(c)
	case "quota":
		return runQuota(c)
	case "qfault":
		return runQuotaFault(c)
	case "qlist":
		return runQuotaList(c)
	case "qclaim":
		return runQuotaClaim(c)
	}
	o := newOut()
	o.fail("harness", "unknown mode "+c.Mode)
	return o
}

func gen() {
	ctx, cancel := context.WithCancel(context.Background())
	defer cancel()
	fmt.Println("(* generated by verif_c17 gen from /repo's working tree — do not edit *)")
	fmt.Println("From Coq Require Import NArith List. Import ListNotations.")
	fmt.Printf("Definition DefaultMaxConnections : N := %d%%N.\n", session.DefaultMaxConnections)
	fmt.Printf("Definition DefaultMaxControlConnections : N := %d%%N.\n", session.DefaultMaxControlConnections)
	d := session.DefaultSessionConfig()
	fmt.Printf("Definition DefaultSessionConfig_MaxConnections : N := %d%%N.\n", d.MaxConnections)
	fmt.Printf("Definition DefaultSessionConfig_MaxControlConnections : N := %d%%N.\n", d.MaxControlConnections)
	cc := services.DefaultConnectionCodeServiceConfig()
	fmt.Printf("Definition MaxActiveCodesPerClient : nat := %d.\n", cc.MaxActiveCodesPerClient)
	fmt.Printf("Definition MaxActiveMappingsPerClient : nat := %d.\n", cc.MaxActiveMappingsPerClient)
	// the limits a SessionManager configured with (MaxConnections 11, MaxControlConnections 7) hands to its registries
	sm := newSession(ctx, 11, 7)
	fmt.Printf("Definition SessionControlCap_for_7 : nat := %d.\n", sm.VerifControlCap())
	fmt.Printf("Definition SessionTunnelCap_for_any : nat := %d.\n", sm.VerifTunnelCap())
	fmt.Printf("Definition SessionStats_MaxConnections_for_11 : nat := %d.\n", sm.GetConnectionStats().MaxConnections)
	// how the registries and the quota compare at the boundary, probed on the real code: [limit; occupancy; refused?]
	fmt.Print("Definition tunnel_boundary_table : list (nat * nat * bool) := [")
	first := true
	for _, max := range []int{0, 1, 2, 3} {
		for occ := 0; occ <= 4; occ++ {
			r := session.NewTunnelRegistry(&session.TunnelRegistryConfig{MaxTunnels: max})
			for k := 0; k < occ; k++ {
				r.Register(session.NewTunnelConnection(cid(100+k), nil, nil, "tcp"))
			}
			if r.Count() != occ && !(max > 0 && occ > max) {
				continue
			}
			if max > 0 && occ > max {
				continue
			}
			err := r.Register(session.NewTunnelConnection(cid(1), nil, nil, "tcp"))
			if !first {
				fmt.Print("; ")
			}
			first = false
			fmt.Printf("(%d, %d, %v)", max, occ, err != nil)
		}
	}
	fmt.Println("].")
}

func main() {
	if len(os.Args) > 1 && os.Args[1] == "gen" {
		gen()
		return
	}
	forEachCase(runCase)
}

//go:build verif

package mapping

import "io"

// VerifHandleConnection drives the real admission path of one accepted local connection.
func (h *BaseMappingHandler) VerifHandleConnection(c io.ReadWriteCloser) { h.handleConnection(c) }

// VerifActiveConnCount reads the admission counter.
func (h *BaseMappingHandler) VerifActiveConnCount() int { return int(h.activeConnCount.Load()) }

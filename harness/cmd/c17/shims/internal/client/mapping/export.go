//go:build verif

package mapping

import (
	"io"

	"tunnox-core/internal/client/tunnel"
)

// VerifHandleConnection drives the real admission path of one accepted local connection.
func (h *BaseMappingHandler) VerifHandleConnection(c io.ReadWriteCloser) { h.handleConnection(c) }

// VerifActiveConnCount reads the admission counter.
func (h *BaseMappingHandler) VerifActiveConnCount() int { return int(h.activeConnCount.Load()) }

// VerifWrapTunnelManager replaces the handler's tunnel manager by wrap(current) — used to deliver a peer's "tunnel closed"
// notification in the window between RegisterTunnel and tun.Start().
func (h *BaseMappingHandler) VerifWrapTunnelManager(wrap func(tunnel.TunnelManager) tunnel.TunnelManager) {
	h.tunnelManager = wrap(h.tunnelManager)
}

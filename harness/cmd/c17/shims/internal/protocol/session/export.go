//go:build verif

package session

// VerifControlCap / VerifTunnelCap: the limits the SessionManager actually hands to its registries.
func (s *SessionManager) VerifControlCap() int { return s.clientRegistry.maxConnections }
func (s *SessionManager) VerifTunnelCap() int  { return s.tunnelRegistry.maxTunnels }

//go:build verif

// verif_c03: drives the REAL ServerAuthHandler + SessionManager.HandlePacket (+ real SecretKeyManager,
// BruteForceProtector, IPManager, RateLimiter, BuiltinCloudControl over memory storage) with handshake
// histories on several connections, interleaved with ban / blacklist / expire / delete / rekey / close
// events.  After every event it reports the projected server state and evaluates the C03 predicate with
// an independent specification monitor (what counts as a proof of identity is decided from the message,
// the stored secret and the challenges written to the wire — never from the server's own flags).
package main

import (
	"bytes"
	"context"
	"crypto/hmac"
	"crypto/sha256"
	"encoding/base64"
	"encoding/hex"
	"encoding/json"
	"errors"
	"fmt"
	"io"
	"net"
	"os"
	"runtime"
	"strings"
	"sync"
	"time"

	"tunnox-core/internal/app/server"
	"tunnox-core/internal/cloud/managers"
	"tunnox-core/internal/cloud/models"
	"tunnox-core/internal/cloud/repos"
	"tunnox-core/internal/core/storage"
	"tunnox-core/internal/core/storage/memory"
	"tunnox-core/internal/core/types"
	"tunnox-core/internal/packet"
	"tunnox-core/internal/protocol/session"
	"tunnox-core/internal/security"
	"tunnox-core/internal/stream"
)

// ---------------------------------------------------------------------------------------------
// event codes (shared with Model/Auth.v `ev` via Corr/C03.v and lib/props/c03.py)
// ---------------------------------------------------------------------------------------------
const (
	evMsg      = 0  // k cid new key chal tunnel   handshake message on connection k (see msgOf)
	evBan      = 1  // a       BruteForceProtector.BanIP
	evUnban    = 2  // a       BruteForceProtector.UnbanIP
	evBlack    = 3  // a [perm] IPManager.AddToBlacklist (perm=1: permanent entry, else 1 h)
	evUnblack  = 4  // a       IPManager.RemoveFromBlacklist
	evExpire   = 5  // x       credentials of client x expire (ExpiresAt moved into the past)
	evDelete   = 6  // x       CloudControl.DeleteClient
	evRate     = 7  // b       b=1: the anonymous rate limiter denies everything, b=0: allows everything
	evClose    = 8  // k       SessionManager.CloseConnection
	evOpen     = 9  // k a [w] SessionManager.CreateConnection from address a (slot k); w = shape of RemoteAddr():
	//                         0 *net.TCPAddr | 1 *net.UDPAddr | 2 generic net.Addr "host:port" | 3 *net.TCPAddr with a 16-byte (IPv4-mapped)
	//                         IP | 4 generic net.Addr that keeps the IPv6 zone ("[fe80::1%eth0]:port").  Link-local addresses carry zone eth0.
	evRekey    = 10 // x       CloudControl.ResetClientCredentials
	evRegister = 11 //         out-of-band registration of a new client (GenerateAnonymousCredentials)
	evBadJSON  = 12 // k       handshake packet whose payload is not JSON
	evDelAnon  = 13 // x       CloudControl.DeleteAnonymousClient (the anonymous service's own delete)
	evRestart  = 15 // l       the server process is restarted: every component is rebuilt over the SAME storage (new fixture), all
	//                         connections are dropped; l = a+1: just before, a 25 ms blacklist entry for address a was added and lapsed
	evBlackC   = 16 // a perm  IPManager.AddToBlacklist("<ip>/32") (CIDR form), perm=1: permanent, else 1 h
	evUnblackC = 17 // a       IPManager.RemoveFromBlacklist("<ip>/32")
	evBanLapse  = 18 // a hold  BanIP(ip, 3 ms) and 8 ms pass: an expired ban record stays in the table (until IsBanned sees it and spawns
	//                          the asynchronous unbanIfExpired).  hold=1: from here to evLand the process runs on one P, so that the
	//                          goroutine spawned by the next handshake's gate check does not run before what follows (re-ban)
	evLand      = 19 // a       the asynchronous removal lands: all Ps back, 5 ms pass
	evSetRecord = 20 // x uid exp typ  the stored record of client x is rewritten: UserID "" / "user-<uid>"; ExpiresAt nil (0) /
	//                          in an hour (1) / an hour ago (2); Type anonymous (0) / registered (1)
	evWhite   = 21 // a cidr  IPManager.AddToWhitelist (exact address, or cidr=1: the /32 resp. /128 range)
	evUnwhite = 22 // a cidr  IPManager.RemoveFromWhitelist
	evOverlap = 24 // n       the NEXT op is a handshake message that overlaps with the n ops after it: they complete between its gate
	//                         checks and the rest of it (hook in the cloud lookup the handler makes right after the gates)
	evBanPerm    = 25 // a           operator BanIP(ip, 0): permanent
	evTempLapse  = 26 // a           two hours pass for the ban record of a (shim VerifShiftBanExpiry): a temporary ban is over
	evBlackW     = 27 // a perm      blacklist the wider range (/31, /127) covering a
	evUnblackW   = 28 // a
	evBlackLapse = 29 // a key quiet a 3 ms blacklist entry on the exact (0) / range (1) / wider range (2) key of a, and 8 ms pass: the
	//                               expired record stays in the table.  quiet=1: IPManager.IsAllowed is not called for a until the next
	//                               handshake from a, which therefore is the FIRST lookup after the expiry
	evCleanup    = 30 // a           40 minutes pass for the ban record of a if it then still has >= 5 minutes to run (an operator ban longer
	//                               than the configured 30-minute BanDuration), and the periodic BruteForceProtector.cleanup() runs
	evCorrupt  = 14 // x kind  the stored credential (ClientConfig.SecretKeyEncrypted) of client x becomes unusable:
	//                         0 "" (unmigrated legacy record) | 1 not base64 | 2 base64 but not decryptable |
	//                         3 sealed under another master key | 4 base64 shorter than a nonce
)

// message fields of evMsg: [0, k, cid, new, key, chal, tunnel]
//   cid    client index (1.. in order of creation), 0 = ClientID 0, 9000+ = an id nobody owns
//   new    1: Token "new-client", 2: Token "anonymous:dev", 0: no token
//   key    -1: no ChallengeResponse (phase 1); 0: garbage response; s>0: response keyed with secret number s
//          (secrets are numbered in order of creation; -2: "current secret of client cid");
//          HMACs over the same challenge with keys nobody proved anything with (garbage for the model):
//          -3: keyed by "", -4: keyed by the stored SecretKeyEncrypted string of client cid, -5: keyed by the
//          decimal client id, -6: keyed by the deprecated plaintext SecretKey field of client cid;
//          -10-shape: a near miss of the correct response of client cid: shape 1..5 = its first 1, 2, 8, 32, 63 characters,
//          6 = correct+"0", 7 = correct twice, 8 = upper case, 9..24 = the one-character guess '0'..'f', 25 = without its first character
//   chal   0: the last challenge this connection received; c>0: challenge number c (numbered in order of issue);
//          a challenge that does not exist (yet) makes the response garbage
//   tunnel 1: connection_type "tunnel", 0: "control", 2: connection_type omitted

type transport struct {
	mu     sync.Mutex
	ip     string
	remote net.Addr
	buf    bytes.Buffer
	closed bool
}

type strAddr string

func (a strAddr) Network() string { return "websocket" }
func (a strAddr) String() string  { return string(a) }

// remoteAddr builds the peer address in the requested shape; fam 2 = link-local IPv6 (zone eth0 on real sockets)
func remoteAddr(ip string, fam, wrap int) net.Addr {
	zone := ""
	if fam == 2 {
		zone = "eth0"
	}
	p := net.ParseIP(ip)
	if fam == 0 {
		p = p.To4()
	}
	switch wrap {
	case 1:
		return &net.UDPAddr{IP: p, Port: 40000, Zone: zone}
	case 2:
		return strAddr(net.JoinHostPort(ip, "40000"))
	case 3:
		return &net.TCPAddr{IP: net.ParseIP(ip).To16(), Port: 40000, Zone: zone}
	case 4:
		if zone != "" {
			return strAddr(net.JoinHostPort(ip+"%"+zone, "40000"))
		}
		return strAddr(net.JoinHostPort(ip, "40000"))
	default:
		return &net.TCPAddr{IP: p, Port: 40000, Zone: zone}
	}
}

func (t *transport) Read(p []byte) (int, error) { return 0, io.EOF }
func (t *transport) Write(p []byte) (int, error) {
	t.mu.Lock()
	defer t.mu.Unlock()
	if t.closed {
		return 0, errors.New("transport closed")
	}
	return t.buf.Write(p)
}
func (t *transport) Close() error {
	t.mu.Lock()
	t.closed = true
	t.mu.Unlock()
	return nil
}
func (t *transport) take() []byte {
	t.mu.Lock()
	defer t.mu.Unlock()
	b := append([]byte(nil), t.buf.Bytes()...)
	t.buf.Reset()
	return b
}
func (t *transport) LocalAddr() net.Addr                { return &net.TCPAddr{IP: net.ParseIP("127.0.0.1"), Port: 7000} }
func (t *transport) RemoteAddr() net.Addr               { return t.remote }
func (t *transport) SetDeadline(time.Time) error      { return nil }
func (t *transport) SetReadDeadline(time.Time) error  { return nil }
func (t *transport) SetWriteDeadline(time.Time) error { return nil }

type hconn struct {
	id   string
	tr   *transport
	addr int
	recv int // number of the last challenge received on this connection (0 = none)
	leak     bool   // extractIP(RemoteAddr) is not the plain IP: every gate sees this peer under another key
	leakKind string
	// specification monitor state, bound to one ControlConnection object
	cc     *session.ControlConnection
	proved int    // client index this ControlConnection object has proved (0 = none)
	live   string // latest challenge written to this connection and not yet used in a verification
}
type hclient struct {
	id      int64
	secret  int // number of its current secret
	expired bool
	deleted bool
	broken  bool // its stored credential gives the server no usable secret (evCorrupt)
	delAnon bool // deleted through the anonymous service
}

type world struct {
	conns   map[int]*hconn
	addrs   map[int]string
	clients []*hclient // index 1..
	secrets []string   // index 1.. ("" = plaintext never seen by the harness)
	chals   []string   // index 1..
	rateOff bool
	// specification bookkeeping of the blacklist (never read back from the server): survives a restart
	blackIP   map[int]bool
	blackCidr map[int]bool
	whiteIP   map[int]bool
	whiteCidr map[int]bool
	blackWide map[int]bool
	quiet     map[int]bool // do not call IsAllowed for this address before its next handshake
	specPerm  map[int]bool // a permanent ban was put on / seen on this address: only UnbanIP or a restart lifts it
	permSeen  map[int]bool
	fam       map[int]int // address family per address: 0 IPv4, 1 global IPv6, 2 link-local IPv6, 3/4/5 global IPv6 sharing 32/48/64 bits with family 1
	// a ban once seen in force (manual 1 h, or by failures 30 min / permanent) must stay until UnbanIP or a restart
	specBan  map[int]bool
	lostSeen map[int]bool
	held    int // GOMAXPROCS to restore (0 = not held)
	msgCount int // handshake steps run so far (to notice steps nested inside an overlapped one)
	viol      []viol
}

type viol struct {
	Step int    `json:"step"`
	Kind string `json:"kind"`
	Msg  string `json:"msg"`
}
type stepObs struct {
	O   [3]int   `json:"o"`           // err, response kind (0 none|1 success|2 success+new id|3 challenge|4 failure), its argument
	Res [2]int   `json:"r,omitempty"` // resolved [secret number, challenge number] of a phase-2 response (0,0 otherwise)
	C   [][5]int `json:"c"`           // per slot: exists, has ControlConnection, authenticated, client index, pending challenge number
	I   []int    `json:"i"`           // per client index 1..n: slot of GetControlConnectionByClientID, 0 = none
	B   []int    `json:"b"`           // per address: banned
	K   []int    `json:"k"`           // per address: blacklisted
	F   []int    `json:"f"`           // per address: failure count
	N   int      `json:"n"`           // number of clients
	Hooked int   `json:"h,omitempty"` // this handshake passed its gate checks before the overlapping ops ran
	Eff    int   `json:"ea,omitempty"` // evOpen: 1 = extractIP kept the zone, the gates see this peer as a different address
}
type caseIn struct {
	Race  []int          `json:"race"` // [goroutines, rounds]: concurrent phase 1 on as many connections + concurrent GenerateChallenge calls
	Fam   map[string]int `json:"fam"`
	Slots []int   `json:"slots"`
	Addrs []int   `json:"addrs"`
	Ops   [][]int `json:"ops"`
}
type caseOut struct {
	Steps   []stepObs `json:"steps"`
	Viol    []viol    `json:"viol"`
	PropOK  bool      `json:"prop_ok"`
	Success int       `json:"successes"`
	Issued  int       `json:"issued"`
}

var fx *server.VerifFixture
var cfgRepo *repos.ClientConfigRepository
var otherSKM *security.SecretKeyManager
var theStorage storage.Storage
var caseSeq int

func hm(secret, chal string) string {
	// replicated from internal/client/control_connection_handshake.go computeChallengeResponse
	h := hmac.New(sha256.New, []byte(secret))
	h.Write([]byte(chal))
	return hex.EncodeToString(h.Sum(nil))
}

func (w *world) cliIndex(id int64) int {
	if id == 0 {
		return 0
	}
	for i := 1; i < len(w.clients); i++ {
		if w.clients[i].id == id {
			return i
		}
	}
	return -1
}
func (w *world) chalIndex(c string) int {
	for i := 1; i < len(w.chals); i++ {
		if w.chals[i] == c {
			return i
		}
	}
	return 0
}
func (w *world) noteChal(c string) int {
	if c == "" {
		return 0
	}
	if i := w.chalIndex(c); i > 0 {
		return i
	}
	w.chals = append(w.chals, c)
	return len(w.chals) - 1
}
func (w *world) addClient(id int64, secret string) int {
	w.secrets = append(w.secrets, secret)
	w.clients = append(w.clients, &hclient{id: id, secret: len(w.secrets) - 1})
	return len(w.clients) - 1
}

func (w *world) slotOf(cc *session.ControlConnection) int {
	if cc == nil {
		return 0
	}
	for k, c := range w.conns {
		if c.id == cc.ConnID {
			return k
		}
	}
	return -1
}

type snapConn struct {
	cc     *session.ControlConnection
	authed bool
	cid    int64
}

func (w *world) snapshot() (map[int]snapConn, []int) {
	sc := map[int]snapConn{}
	for k, c := range w.conns {
		cc := fx.Session.GetControlConnection(c.id)
		s := snapConn{cc: cc}
		if cc != nil {
			s.authed, s.cid = cc.IsAuthenticated(), cc.GetClientID()
		}
		sc[k] = s
	}
	idx := make([]int, len(w.clients))
	for i := 1; i < len(w.clients); i++ {
		idx[i] = w.slotOf(fx.Session.GetControlConnectionByClientID(w.clients[i].id))
	}
	return sc, idx
}

func (w *world) observe(o *stepObs, in *caseIn) {
	o.C = make([][5]int, 0, len(in.Slots))
	for _, k := range in.Slots {
		co := [5]int{}
		if c := w.conns[k]; c != nil {
			if _, ok := fx.Session.GetConnection(c.id); ok {
				co[0] = 1
			}
			if cc := fx.Session.GetControlConnection(c.id); cc != nil {
				co[1] = 1
				if cc.IsAuthenticated() {
					co[2] = 1
				}
				co[3] = w.cliIndex(cc.GetClientID())
				co[4] = w.noteChal(cc.GetPendingChallenge())
			}
		}
		o.C = append(o.C, co)
	}
	o.I = []int{}
	for i := 1; i < len(w.clients); i++ {
		o.I = append(o.I, w.slotOf(fx.Session.GetControlConnectionByClientID(w.clients[i].id)))
	}
	o.B, o.K, o.F = []int{}, []int{}, []int{}
	for _, a := range in.Addrs {
		ip := w.ip(a)
		bi, ki := 0, 0
		if bannedNow(ip) {
			bi = 1
		}
		if w.quiet[a] {
			if w.specBlocked(a) {
				ki = 1
			}
		} else if ok, _ := fx.IPManager.IsAllowed(ip); !ok {
			ki = 1
		}
		o.B, o.K, o.F = append(o.B, bi), append(o.K, ki), append(o.F, fx.BruteForce.GetFailureCount(ip))
	}
	o.N = len(w.clients) - 1
}

// decode what the server wrote to a connection since the last call
func readResponses(b []byte) []*packet.HandshakeResponse {
	var out []*packet.HandshakeResponse
	if len(b) == 0 {
		return out
	}
	sp := stream.NewStreamProcessor(bytes.NewReader(b), io.Discard, context.Background())
	defer sp.Close()
	for i := 0; i < 16; i++ {
		p, _, err := sp.ReadPacket()
		if err != nil || p == nil {
			break
		}
		if p.PacketType&0x3F == packet.HandshakeResp {
			r := &packet.HandshakeResponse{}
			if json.Unmarshal(p.Payload, r) == nil {
				out = append(out, r)
			}
		}
	}
	return out
}

func (w *world) ip(a int) string {
	if s, ok := w.addrs[a]; ok {
		return s
	}
	n := caseSeq*8 + a%8 + 1
	s := fmt.Sprintf("10.%d.%d.%d", (n>>16)&255, (n>>8)&255, n&255)
	switch w.fam[a] {
	case 1:
		s = net.ParseIP(fmt.Sprintf("2001:db8::%x:%x", (n>>16)&0xffff, n&0xffff)).String()
	case 2:
		s = net.ParseIP(fmt.Sprintf("fe80::%x:%x", (n>>16)&0xffff, n&0xffff)).String()
	case 3: // global IPv6 sharing exactly the first 32 bits with the family-1 addresses
		s = net.ParseIP(fmt.Sprintf("2001:db8:7:0:0:0:%x:%x", (n>>16)&0xffff, n&0xffff)).String()
	case 4: // ... the first 48 bits
		s = net.ParseIP(fmt.Sprintf("2001:db8:0:7:0:0:%x:%x", (n>>16)&0xffff, n&0xffff)).String()
	case 5: // ... the first 64 bits
		s = net.ParseIP(fmt.Sprintf("2001:db8:0:0:7:0:%x:%x", (n>>16)&0xffff, n&0xffff)).String()
	}
	w.addrs[a] = s
	return s
}

// the narrowest range covering exactly address a
func (w *world) cidr(a int) string {
	if w.fam[a] == 0 {
		return w.ip(a) + "/32"
	}
	return w.ip(a) + "/128"
}

// the wider range covering a (and its /31 resp. /127 neighbour, which no case uses as an address)
func (w *world) wide(a int) string {
	if w.fam[a] == 0 {
		return w.ip(a) + "/31"
	}
	return w.ip(a) + "/127"
}

func (w *world) specBlocked(a int) bool {
	return !(w.whiteIP[a] || w.whiteCidr[a]) && (w.blackIP[a] || w.blackCidr[a] || w.blackWide[a])
}

func (w *world) v(step int, kind, f string, a ...interface{}) {
	w.viol = append(w.viol, viol{Step: step, Kind: kind, Msg: fmt.Sprintf(f, a...)})
}

func (w *world) msgStep(step int, op []int, o *stepObs, out *caseOut) {
	k := op[1]
	var payload []byte
	req := &packet.HandshakeRequest{Version: "3.0", Protocol: "tcp"}
	var respStr string
	isMsg := op[0] == evMsg
	c := w.conns[k]
	if isMsg {
		cidIdx, tokNew, key, chal, tun := op[2], op[3], op[4], op[5], op[6]
		switch {
		case cidIdx == 0:
			req.ClientID = 0
		case cidIdx >= 9000:
			req.ClientID = int64(7_000_000_000) + int64(cidIdx) // outside the generated id range; checked below
		case cidIdx < len(w.clients):
			req.ClientID = w.clients[cidIdx].id
		default:
			req.ClientID = int64(7_100_000_000) + int64(cidIdx)
		}
		switch tokNew {
		case 1:
			req.Token = "new-client"
		case 2:
			req.Token = "anonymous:dev"
		}
		switch tun {
		case 0:
			req.ConnectionType = "control"
		case 1:
			req.ConnectionType = "tunnel"
		}
		if key != -1 {
			sn, cn := key, chal
			if key == -2 {
				sn = 0
				if cidIdx >= 1 && cidIdx < len(w.clients) {
					sn = w.clients[cidIdx].secret
				}
			}
			if cn == 0 && c != nil {
				cn = c.recv
			}
			if key <= -10 && cn >= 1 && cn < len(w.chals) && cidIdx >= 1 && cidIdx < len(w.clients) && w.secrets[w.clients[cidIdx].secret] != "" {
				// near misses of the CORRECT response of client cid over that challenge (all garbage for the model: only the exact
				// string authenticates): proper prefixes, the correct response plus a suffix, another letter case, one-character guesses
				good := hm(w.secrets[w.clients[cidIdx].secret], w.chals[cn])
				shape := -10 - key
				switch {
				case shape >= 1 && shape <= 5:
					respStr = good[:[]int{0, 1, 2, 8, 32, 63}[shape]]
				case shape == 6:
					respStr = good + "0"
				case shape == 7:
					respStr = good + good
				case shape == 8:
					respStr = strings.ToUpper(good)
				case shape >= 9 && shape <= 24:
					respStr = string("0123456789abcdef"[shape-9])
				default:
					respStr = good[1:]
				}
				if respStr == good || respStr == "" {
					respStr = "00garbage00"
				}
			} else if key <= -10 {
				respStr = "00garbage00"
			} else if key <= -3 && cn >= 1 && cn < len(w.chals) {
				ks := ""
				if key != -3 && cidIdx >= 1 && cidIdx < len(w.clients) {
					switch key {
					case -4:
						if c, err := cfgRepo.GetConfig(w.clients[cidIdx].id); err == nil && c != nil {
							ks = c.SecretKeyEncrypted
						}
					case -5:
						ks = fmt.Sprintf("%d", w.clients[cidIdx].id)
					case -6:
						if c, err := cfgRepo.GetConfig(w.clients[cidIdx].id); err == nil && c != nil {
							ks = c.SecretKey
						}
					}
				}
				respStr = hm(ks, w.chals[cn])
				for i := 1; i < len(w.secrets); i++ {
					if w.secrets[i] != "" && w.secrets[i] == ks {
						panic("harness: exotic HMAC key equals a real secret")
					}
				}
			} else if sn >= 1 && sn < len(w.secrets) && w.secrets[sn] != "" && cn >= 1 && cn < len(w.chals) {
				respStr = hm(w.secrets[sn], w.chals[cn])
				o.Res = [2]int{sn, cn}
			} else {
				respStr = "00garbage00"
			}
			req.ChallengeResponse = respStr
		}
		payload, _ = json.Marshal(req)
	} else {
		payload = []byte("{not json")
	}
	connID := fmt.Sprintf("verif-c03-nonexistent-%d", k)
	if c != nil {
		connID = c.id
	}

	// ---- specification monitor: decide from the message alone whether it is a proof of identity
	preSnap, preIdx := w.snapshot()
	gated := false
	if c != nil {
		ip := w.addrs[c.addr]
		// (neither IsBanned nor IsAllowed is called here: both schedule asynchronous removals of expired records, and this
		// handshake must be allowed to be the first lookup after an expiry)
		b := bannedNow(ip)
		gated = b || w.specBlocked(c.addr) || w.specBan[c.addr]
		w.quiet[c.addr] = false
		if c.leak {
			// already reported when the connection was opened (one finding, no cascade): the gates see another key
			gated = false
		}
		// bind the monitor state to the ControlConnection object
		if preSnap[k].cc != c.cc {
			c.cc, c.proved, c.live = preSnap[k].cc, 0, ""
		}
	}
	firstConn := isMsg && req.ClientID == 0 && (op[3] == 1 || op[3] == 2)
	proofFor := 0 // client index this message proves (phase 2), -1: first connection (new identity allowed)
	reachesVerification := false
	anonProof := 0 // the message would prove a client that was deleted through the anonymous service
	if isMsg && c != nil && !gated && !firstConn {
		if x := op[2]; x >= 1 && x < len(w.clients) && w.clients[x].delAnon && !w.clients[x].expired && req.ChallengeResponse != "" {
			cl := w.clients[x]
			if c.live != "" && w.secrets[cl.secret] != "" && req.ChallengeResponse == hm(w.secrets[cl.secret], c.live) {
				anonProof = x
			}
		}
	}
	if isMsg && c != nil && !gated {
		if firstConn {
			if !w.rateOff {
				proofFor = -1
			}
		} else if x := op[2]; x >= 1 && x < len(w.clients) && !w.clients[x].deleted && !w.clients[x].expired {
			if req.ChallengeResponse != "" {
				reachesVerification = true
				cl := w.clients[x]
				// a client whose stored credential is unusable has no secret anybody can have proved possession of
				if !cl.broken && c.live != "" && w.secrets[cl.secret] != "" && req.ChallengeResponse == hm(w.secrets[cl.secret], c.live) {
					proofFor = x
				}
			}
		}
	}
	nKnown := len(w.clients)

	w.msgCount++
	countBefore := w.msgCount
	herr := fx.Session.HandlePacket(&types.StreamPacket{ConnectionID: connID,
		Packet: &packet.TransferPacket{PacketType: packet.Handshake, Payload: payload}, Timestamp: time.Now()})
	if herr != nil {
		o.O[0] = 1
	}

	// ---- what was written to the wire
	var resp *packet.HandshakeResponse
	for kk, cc := range w.conns {
		rs := readResponses(cc.tr.take())
		if kk != k && len(rs) > 0 {
			w.v(step, "response-on-other-connection", "a handshake response was written to connection %d while the message arrived on %d", kk, k)
		}
		if kk == k && len(rs) > 0 {
			if len(rs) > 1 {
				w.v(step, "two-responses", "%d handshake responses for one message", len(rs))
			}
			resp = rs[len(rs)-1]
		}
	}
	newIdx := 0
	if resp != nil {
		switch {
		case resp.Success && resp.ClientID != 0:
			if w.cliIndex(resp.ClientID) > 0 {
				w.v(step, "issued-id-not-new", "first connection was given client id %d which already belongs to client #%d", resp.ClientID, w.cliIndex(resp.ClientID))
			} else {
				newIdx = w.addClient(resp.ClientID, resp.SecretKey)
			}
			o.O[1], o.O[2] = 2, newIdx
		case resp.Success:
			o.O[1] = 1
		case resp.NeedResponse && resp.Challenge != "":
			if w.chalIndex(resp.Challenge) > 0 {
				w.v(step, "challenge-reissued", "challenge number %d was issued a second time", w.chalIndex(resp.Challenge))
			}
			n := w.noteChal(resp.Challenge)
			o.O[1], o.O[2] = 3, n
			if c != nil {
				c.recv = n
			}
			out.Issued++
		default:
			o.O[1] = 4
		}
		if resp.Success {
			out.Success++
		}
		if !resp.Success && resp.SecretKey != "" {
			w.v(step, "secret-in-failure", "a non-success response carries a secret key")
		}
	}
	// identities created by the server whose response never reached the wire (write failed)
	for _, cc := range w.conns {
		if x := fx.Session.GetControlConnection(cc.id); x != nil && x.GetClientID() != 0 && w.cliIndex(x.GetClientID()) < 0 {
			if _, err := fx.Cloud.GetClientConfig(x.GetClientID()); err == nil {
				newIdx = w.addClient(x.GetClientID(), "")
			}
		}
	}

	// ---- predicate: evaluated on the real code's state and outputs
	postSnap, postIdx := w.snapshot()
	if w.msgCount != countBefore {
		// other handshakes completed inside this one (overlap): each of them was checked by its own step; what they changed on
		// OTHER connections and on registry entries not involving this connection is not this step's doing
		for kk := range preSnap {
			if kk != k {
				preSnap[kk] = postSnap[kk]
			}
		}
		for i := range preIdx {
			if i < len(postIdx) && postIdx[i] != k && preIdx[i] != k {
				preIdx[i] = postIdx[i]
			}
		}
	}
	success := resp != nil && resp.Success
	if success && proofFor == 0 && anonProof > 0 {
		// recorded shape (key anon-delete-keeps-credentials); treated as a proof afterwards to avoid a cascade
		w.v(step, "anon-delete-keeps-credentials", "client #%d was deleted with DeleteAnonymousClient and still authenticates on connection %d", anonProof, k)
		proofFor = anonProof
	}
	if success && proofFor == 0 {
		w.v(step, "success-without-proof", "connection %d got Success for a message that proves nothing (gated=%v first=%v)", k, gated, firstConn)
	}
	if success && gated {
		w.v(step, "gate-bypassed", "Success on connection %d whose address is banned/blacklisted", k)
	}
	for kk := range w.conns {
		pre, post := preSnap[kk], postSnap[kk]
		becameAuthed := post.cc != nil && post.authed && !(pre.cc == post.cc && pre.authed && pre.cid == post.cid)
		if !becameAuthed {
			continue
		}
		who := w.cliIndex(post.cid)
		switch {
		case kk != k:
			w.v(step, "auth-on-other-connection", "connection %d became authenticated as client #%d by a message on connection %d", kk, who, k)
		case proofFor == -1:
			if !(who >= nKnown && who == newIdx) {
				w.v(step, "first-connection-not-new-identity", "first connection on %d is authenticated as pre-existing client #%d", k, who)
			}
		case proofFor > 0:
			if who != proofFor {
				w.v(step, "authenticated-as-other-client", "connection %d proved client #%d but is authenticated as #%d", k, proofFor, who)
			}
		default:
			w.v(step, "auth-without-proof", "connection %d became authenticated as client #%d without a proof (message %v, gated=%v)", k, who, op, gated)
		}
	}
	if isMsg && op[6] == 1 {
		// a handshake with connection_type "tunnel" never makes any connection a control channel
		for i := 1; i < len(preIdx); i++ {
			if postIdx[i] != preIdx[i] && postIdx[i] != 0 {
				w.v(step, "tunnel-handshake-installed-control-channel", "client #%d control connection %d -> %d by a tunnel-type handshake on %d", i, preIdx[i], postIdx[i], k)
			}
		}
		for i := len(preIdx); i < len(postIdx); i++ {
			if postIdx[i] != 0 {
				w.v(step, "tunnel-handshake-installed-control-channel", "new client #%d got control connection %d by a tunnel-type handshake", i, postIdx[i])
			}
		}
	}
	if proofFor == 0 {
		// a message that proves nothing: nobody's identity changes, nobody loses or gains a control channel.
		// One specific shape is recorded separately (key nonsuccess-reinstall): the acting connection, which had
		// already proved client i, is (re)installed as i's control channel by a message that did not succeed.
		reinstall := 0
		if c != nil && c.proved > 0 && c.proved < len(preIdx) && postIdx[c.proved] == k && preIdx[c.proved] != k && !success {
			reinstall = c.proved
		}
		for kk := range w.conns {
			pre, post := preSnap[kk], postSnap[kk]
			if post.cc != nil && post.cc == pre.cc && (pre.authed != post.authed || pre.cid != post.cid) {
				w.v(step, "failure-changed-identity", "connection %d: (authed,cid) %v,%d -> %v,%d on a non-proof message on %d",
					kk, pre.authed, w.cliIndex(pre.cid), post.authed, w.cliIndex(post.cid), k)
			}
			if pre.cc != nil && pre.authed && post.cc != pre.cc && !(reinstall > 0 && kk == preIdx[reinstall]) {
				w.v(step, "failure-dropped-connection", "connection %d (authenticated as #%d) lost its control connection on a non-proof message on %d",
					kk, w.cliIndex(pre.cid), k)
			}
		}
		for i := 1; i < len(preIdx); i++ {
			if postIdx[i] != preIdx[i] && i != reinstall {
				w.v(step, "failure-changed-registry", "client #%d control connection %d -> %d on a non-proof message on %d", i, preIdx[i], postIdx[i], k)
			}
		}
		if reinstall > 0 {
			w.v(step, "nonsuccess-reinstall", "message %v on connection %d (response kind %d, not Success) installed it as control channel of client #%d, replacing connection %d",
				op, k, o.O[1], reinstall, preIdx[reinstall])
		}
	}
	// monitor bookkeeping
	if c != nil {
		pk := postSnap[k]
		if pk.cc != c.cc {
			c.cc, c.proved, c.live = pk.cc, 0, ""
		}
		if reachesVerification {
			c.live = ""
		}
		if o.O[1] == 3 {
			c.live = w.chals[o.O[2]]
		} else if isMsg && !gated && !firstConn && req.ChallengeResponse == "" && resp == nil {
			c.live = "" // a challenge may have been generated but never reached the wire: unknown to any client
		}
		// a proof need not be accepted (e.g. the response write failed earlier); it counts once the identity is taken
		if proofFor == -1 && pk.cc != nil && pk.authed && newIdx > 0 && w.cliIndex(pk.cid) == newIdx {
			c.proved = newIdx
		} else if proofFor > 0 && pk.cc != nil && pk.authed && w.cliIndex(pk.cid) == proofFor {
			c.proved = proofFor
		}
	}
	w.invariants(step)
}

// state predicate after every event: authenticated => proved; registry respects proofs; blacklisted => refused
func (w *world) invariants(step int) {
	for a, ip := range w.addrs {
		perm := false
		for _, r := range fx.BruteForce.GetBannedIPs() {
			if r.IP == ip && r.ExpiresAt.IsZero() {
				perm = true
			}
		}
		if perm {
			w.specPerm[a] = true
		} else if w.specPerm[a] && !w.permSeen[a] {
			w.v(step, "permanent-ban-weakened", "address %d was banned permanently (no UnbanIP, no restart) and its ban record is no longer permanent (banned now: %v)", a, bannedNow(ip))
			w.permSeen[a] = true
		}
	}
	for a, ip := range w.addrs {
		if bannedNow(ip) {
			w.specBan[a] = true
		} else if w.specBan[a] && !w.lostSeen[a] {
			// reported once; the ban stays in force for the specification, so a later Success from this address is
			// reported as well (gate-bypassed / auth-without-proof gated=true)
			w.v(step, "ban-lost", "address %d was banned (no UnbanIP, no restart, ban period far from over) and is not banned any more", a)
			w.lostSeen[a] = true
		}
	}
	for a, ip := range w.addrs {
		if w.specBlocked(a) && !w.quiet[a] {
			if ok, _ := fx.IPManager.IsAllowed(ip); ok {
				w.v(step, "blacklist-gate-lost", "address %d is blacklisted (ip entry %v, range entry %v) and not whitelisted but IPManager.IsAllowed says yes", a, w.blackIP[a], w.blackCidr[a])
			}
		}
	}
	for k, c := range w.conns {
		cc := fx.Session.GetControlConnection(c.id)
		if cc != c.cc {
			c.cc, c.proved, c.live = cc, 0, ""
		}
		if cc != nil && cc.IsAuthenticated() {
			if who := w.cliIndex(cc.GetClientID()); who != c.proved || who <= 0 {
				w.v(step, "authenticated-without-proof", "connection %d is authenticated as client #%d but proved #%d", k, who, c.proved)
			}
		}
	}
	for i := 1; i < len(w.clients); i++ {
		cc := fx.Session.GetControlConnectionByClientID(w.clients[i].id)
		if cc == nil {
			continue
		}
		k := w.slotOf(cc)
		if k <= 0 || fx.Session.GetControlConnection(cc.ConnID) != cc {
			w.v(step, "registry-dangling", "client #%d resolves to a control connection that is not registered (slot %d)", i, k)
			continue
		}
		if !cc.IsAuthenticated() || w.cliIndex(cc.GetClientID()) != i || w.conns[k].proved != i {
			w.v(step, "registry-foreign-connection", "client #%d resolves to connection %d which is authenticated=%v as #%d and proved #%d",
				i, k, cc.IsAuthenticated(), w.cliIndex(cc.GetClientID()), w.conns[k].proved)
		}
	}
}

func (w *world) expire(x int) {
	cl := w.clients[x]
	cfg, err := cfgRepo.GetConfig(cl.id)
	if err != nil || cfg == nil {
		return
	}
	t := time.Now().Add(-time.Hour)
	cfg.ExpiresAt = &t
	must(cfgRepo.UpdateConfig(cfg))
	cl.expired = true
}

// bannedNow reads the ban table without the side effect of IsBanned (which schedules the asynchronous removal)
func bannedNow(ip string) bool {
	now := time.Now()
	for _, r := range fx.BruteForce.GetBannedIPs() {
		if r.IP == ip && (r.ExpiresAt.IsZero() || now.Before(r.ExpiresAt)) {
			return true
		}
	}
	return false
}

func (w *world) release() {
	if w.held > 0 {
		runtime.GOMAXPROCS(w.held)
		w.held = 0
	}
}

func (w *world) setRecord(x, uid, exp, typ int) {
	cl := w.clients[x]
	cfg, err := cfgRepo.GetConfig(cl.id)
	if err != nil || cfg == nil {
		return
	}
	cfg.UserID = ""
	if uid > 0 {
		cfg.UserID = fmt.Sprintf("user-%d", uid)
	}
	switch exp {
	case 0:
		cfg.ExpiresAt = nil
	case 1:
		t := time.Now().Add(time.Hour)
		cfg.ExpiresAt = &t
	default:
		t := time.Now().Add(-time.Hour)
		cfg.ExpiresAt = &t
	}
	cfg.Type = models.ClientTypeAnonymous
	if typ == 1 {
		cfg.Type = models.ClientTypeRegistered
	}
	must(cfgRepo.UpdateConfig(cfg))
	cl.expired = exp == 2
}

func (w *world) corrupt(x, kind int) {
	cl := w.clients[x]
	cfg, err := cfgRepo.GetConfig(cl.id)
	if err != nil || cfg == nil {
		return
	}
	switch kind {
	case 0:
		cfg.SecretKeyEncrypted = ""
		cfg.SecretKey = "legacy-plaintext-" + fmt.Sprint(cl.id) // NeedsMigration() == true
	case 1:
		cfg.SecretKeyEncrypted = "@@ not base64 @@"
	case 2:
		b := make([]byte, 60)
		for i := range b {
			b[i] = byte(i*31 + x*7 + 5)
		}
		cfg.SecretKeyEncrypted = base64.StdEncoding.EncodeToString(b)
	case 3:
		plain := w.secrets[cl.secret]
		if plain == "" {
			plain = "some-secret"
		}
		enc, err := otherSKM.Encrypt(plain)
		must(err)
		cfg.SecretKeyEncrypted = enc
	default:
		cfg.SecretKeyEncrypted = "AAAA"
	}
	must(cfgRepo.UpdateConfig(cfg))
	cl.broken = true
}

// G connections run phase 1 for one client at the same moment, R rounds, through the real SessionManager + ServerAuthHandler; then G
// goroutines call the real SecretKeyManager.GenerateChallenge R times each.  Every challenge issued must be distinct from every other
// (a response to one connection's challenge must never verify against another connection's pending challenge).
func runChallengeRace(g, r int, out *caseOut) interface{} {
	out.Steps = []stepObs{}
	cl, err := fx.Cloud.GenerateAnonymousCredentials()
	must(err)
	req, _ := json.Marshal(&packet.HandshakeRequest{ClientID: cl.ID, Version: "3.0", Protocol: "tcp", ConnectionType: "control"})
	ids := make([]string, g)
	for i := 0; i < g; i++ {
		ip := fmt.Sprintf("10.250.%d.%d", (caseSeq>>8)&255, i+1)
		tr := &transport{ip: ip, remote: remoteAddr(ip, 0, 0)}
		conn, err := fx.Session.CreateConnection(tr, tr)
		must(err)
		ids[i] = conn.ID
	}
	var mu sync.Mutex
	seen := map[string]string{}
	dup := ""
	note := func(ch, who string) {
		if ch == "" {
			return
		}
		mu.Lock()
		if prev, ok := seen[ch]; ok && dup == "" {
			dup = fmt.Sprintf("challenge %s... handed out twice (%s and %s)", ch[:12], prev, who)
		}
		seen[ch] = who
		mu.Unlock()
	}
	for round := 0; round < r; round++ {
		var wg sync.WaitGroup
		start := make(chan struct{})
		for i := 0; i < g; i++ {
			wg.Add(1)
			go func(i int) {
				defer wg.Done()
				<-start
				_ = fx.Session.HandlePacket(&types.StreamPacket{ConnectionID: ids[i],
					Packet: &packet.TransferPacket{PacketType: packet.Handshake, Payload: req}, Timestamp: time.Now()})
				if cc := fx.Session.GetControlConnection(ids[i]); cc != nil {
					note(cc.GetPendingChallenge(), fmt.Sprintf("phase 1 on connection %d, round %d", i, round))
				}
			}(i)
		}
		close(start)
		wg.Wait()
	}
	var wg sync.WaitGroup
	start := make(chan struct{})
	for i := 0; i < g; i++ {
		wg.Add(1)
		go func(i int) {
			defer wg.Done()
			<-start
			for k := 0; k < r*8; k++ {
				ch, err := fx.SecretKeys.GenerateChallenge()
				if err == nil {
					note(ch, fmt.Sprintf("GenerateChallenge call %d of goroutine %d", k, i))
				}
			}
		}(i)
	}
	close(start)
	wg.Wait()
	for _, id := range ids {
		_ = fx.Session.CloseConnection(id)
	}
	_ = fx.Cloud.DeleteClient(cl.ID)
	out.Issued = len(seen)
	if dup != "" {
		out.Viol = append(out.Viol, viol{Step: 0, Kind: "challenge-reissued", Msg: dup + fmt.Sprintf(" — %d goroutines x %d rounds", g, r)})
	}
	out.PropOK = dup == ""
	return out
}

func runCase(raw json.RawMessage) interface{} {
	var in caseIn
	must(json.Unmarshal(raw, &in))
	caseSeq++
	w := &world{blackWide: map[int]bool{}, quiet: map[int]bool{}, specPerm: map[int]bool{}, permSeen: map[int]bool{}, whiteIP: map[int]bool{}, whiteCidr: map[int]bool{}, fam: map[int]int{}, specBan: map[int]bool{}, lostSeen: map[int]bool{}, blackIP: map[int]bool{}, blackCidr: map[int]bool{}, conns: map[int]*hconn{}, addrs: map[int]string{}, clients: []*hclient{nil}, secrets: []string{""}, chals: []string{""}}
	out := &caseOut{}
	if len(in.Race) == 2 {
		return runChallengeRace(in.Race[0], in.Race[1], out)
	}
	for k, v := range in.Fam {
		var a int
		fmt.Sscanf(k, "%d", &a)
		w.fam[a] = v
	}
	steps := make([]stepObs, len(in.Ops))
	var run func(lo, hi int)
	run = func(lo, hi int) {
		for i := lo; i < hi; i++ {
			op := in.Ops[i]
			if op[0] != evOverlap {
				w.exec(i, op, &steps[i], out, &in)
				continue
			}
			// the next op (a handshake message on one connection) runs with a hook between its gate checks and the rest: the
			// following n ops (handshakes of OTHER connections, operator actions; possibly overlapped themselves) complete there
			w.invariants(i)
			w.observe(&steps[i], &in)
			a, ilo, ihi := i+1, i+2, i+2+op[1]
			if ihi > hi {
				ihi = hi
			}
			fired := false
			cloudHook = func() {
				fired = true
				run(ilo, ihi)
			}
			w.exec(a, in.Ops[a], &steps[a], out, &in)
			cloudHook = nil
			if fired {
				steps[a].Hooked = 1
			} else {
				run(ilo, ihi)
			}
			i = ihi - 1
		}
	}
	run(0, len(in.Ops))
	out.Steps = steps
	return w.finish(&in, out)
}

// exec runs one event and records the observation after it
func (w *world) exec(i int, op []int, po *stepObs, out *caseOut, pin *caseIn) {
	in := *pin
	{
		o := stepObs{}
		switch op[0] {
		case evMsg, evBadJSON:
			w.msgStep(i, op, &o, out)
		case evBan:
			fx.BruteForce.BanIP(w.ip(op[1]), time.Hour, "verif")
			w.specBan[op[1]] = true
		case evUnban:
			fx.BruteForce.UnbanIP(w.ip(op[1]))
			w.specBan[op[1]] = false
			w.lostSeen[op[1]] = false
			w.specPerm[op[1]] = false
			w.permSeen[op[1]] = false
		case evCleanup:
			fx.BruteForce.VerifAgeBan(w.ip(op[1]), 40*time.Minute, 5*time.Minute)
			fx.BruteForce.VerifCleanup()
		case evBanPerm:
			fx.BruteForce.BanIP(w.ip(op[1]), 0, "verif-permanent")
			w.specBan[op[1]] = true
			w.specPerm[op[1]] = true
		case evTempLapse:
			fx.BruteForce.VerifShiftBanExpiry(w.ip(op[1]), 2*time.Hour)
			if !w.specPerm[op[1]] {
				w.specBan[op[1]] = false
				w.lostSeen[op[1]] = false
			}
		case evBlackW:
			d := time.Hour
			if len(op) > 2 && op[2] == 1 {
				d = 0
			}
			must(fx.IPManager.AddToBlacklist(w.wide(op[1]), d, "verif", "verif"))
			w.blackWide[op[1]] = true
		case evUnblackW:
			fx.IPManager.RemoveFromBlacklist(w.wide(op[1]))
			w.blackWide[op[1]] = false
		case evBlackLapse:
			key := w.ip(op[1])
			switch op[2] {
			case 0:
				w.blackIP[op[1]] = false
			case 1:
				key = w.cidr(op[1])
				w.blackCidr[op[1]] = false
			default:
				key = w.wide(op[1])
				w.blackWide[op[1]] = false
			}
			must(fx.IPManager.AddToBlacklist(key, 3*time.Millisecond, "verif-short", "verif"))
			time.Sleep(8 * time.Millisecond)
			if len(op) > 3 && op[3] == 1 {
				w.quiet[op[1]] = true
			}
		case evBanLapse:
			fx.BruteForce.BanIP(w.ip(op[1]), 3*time.Millisecond, "verif-short")
			time.Sleep(8 * time.Millisecond)
			if len(op) > 2 && op[2] == 1 && w.held == 0 {
				w.held = runtime.GOMAXPROCS(1)
			}
		case evLand:
			w.release()
			time.Sleep(5 * time.Millisecond)
		case evSetRecord:
			if op[1] >= 1 && op[1] < len(w.clients) && !w.clients[op[1]].deleted {
				w.setRecord(op[1], op[2], op[3], op[4])
			}
		case evBlack:
			d := time.Hour
			if len(op) > 2 && op[2] == 1 {
				d = 0
			}
			must(fx.IPManager.AddToBlacklist(w.ip(op[1]), d, "verif", "verif"))
			w.blackIP[op[1]] = true
		case evUnblack:
			fx.IPManager.RemoveFromBlacklist(w.ip(op[1]))
			w.blackIP[op[1]] = false
		case evBlackC:
			d := time.Hour
			if len(op) > 2 && op[2] == 1 {
				d = 0
			}
			must(fx.IPManager.AddToBlacklist(w.cidr(op[1]), d, "verif", "verif"))
			w.blackCidr[op[1]] = true
		case evUnblackC:
			fx.IPManager.RemoveFromBlacklist(w.cidr(op[1]))
			w.blackCidr[op[1]] = false
		case evWhite:
			if op[2] == 1 {
				must(fx.IPManager.AddToWhitelist(w.cidr(op[1]), "verif", "verif"))
				w.whiteCidr[op[1]] = true
			} else {
				must(fx.IPManager.AddToWhitelist(w.ip(op[1]), "verif", "verif"))
				w.whiteIP[op[1]] = true
			}
		case evUnwhite:
			if op[2] == 1 {
				fx.IPManager.RemoveFromWhitelist(w.cidr(op[1]))
				w.whiteCidr[op[1]] = false
			} else {
				fx.IPManager.RemoveFromWhitelist(w.ip(op[1]))
				w.whiteIP[op[1]] = false
			}
		case evRestart:
			if op[1] > 0 {
				must(fx.IPManager.AddToBlacklist(w.ip(op[1]-1), 25*time.Millisecond, "verif-short", "verif"))
				time.Sleep(70 * time.Millisecond)
				w.blackIP[op[1]-1] = false
			}
			for k, c := range w.conns {
				_ = fx.Session.CloseConnection(c.id)
				delete(w.conns, k)
			}
			fx.Close()
			newFixture()
			w.rateOff = false
			w.specBan = map[int]bool{}
			w.lostSeen = map[int]bool{}
			w.specPerm = map[int]bool{}
			w.permSeen = map[int]bool{}
		case evExpire:
			if op[1] >= 1 && op[1] < len(w.clients) && !w.clients[op[1]].deleted {
				w.expire(op[1])
			}
		case evDelete:
			if op[1] >= 1 && op[1] < len(w.clients) && !w.clients[op[1]].deleted {
				must(fx.Cloud.DeleteClient(w.clients[op[1]].id))
				w.clients[op[1]].deleted = true
			}
		case evDelAnon:
			if op[1] >= 1 && op[1] < len(w.clients) && !w.clients[op[1]].deleted {
				must(fx.Cloud.DeleteAnonymousClient(w.clients[op[1]].id))
				w.clients[op[1]].deleted = true
				w.clients[op[1]].delAnon = true
			}
		case evCorrupt:
			if op[1] >= 1 && op[1] < len(w.clients) && !w.clients[op[1]].deleted {
				w.corrupt(op[1], op[2])
			}
		case evRekey:
			if op[1] >= 1 && op[1] < len(w.clients) && !w.clients[op[1]].deleted {
				s, err := fx.Cloud.ResetClientCredentials(w.clients[op[1]].id)
				must(err)
				w.secrets = append(w.secrets, s)
				w.clients[op[1]].secret = len(w.secrets) - 1
				w.clients[op[1]].broken = false
			}
		case evRate:
			if op[1] == 1 {
				fx.RateLimiter.SetIPRateLimit(0, 0)
			} else {
				fx.RateLimiter.SetIPRateLimit(1000000, 1000000)
			}
			w.rateOff = op[1] == 1
		case evClose:
			if c := w.conns[op[1]]; c != nil {
				_ = fx.Session.CloseConnection(c.id)
				delete(w.conns, op[1])
			}
		case evOpen:
			if c := w.conns[op[1]]; c != nil {
				_ = fx.Session.CloseConnection(c.id)
			}
			wrap := 0
			if len(op) > 3 {
				wrap = op[3]
			}
			tr := &transport{ip: w.ip(op[2]), remote: remoteAddr(w.ip(op[2]), w.fam[op[2]], wrap)}
			conn, err := fx.Session.CreateConnection(tr, tr)
			must(err)
			hc := &hconn{id: conn.ID, tr: tr, addr: op[2]}
			// predicate: the gate decision depends only on the IP — extractIP = the peer address without port and zone
			if ex := server.VerifExtractIP(tr.remote); ex != w.ip(op[2]) {
				hc.leak = true
				hc.leakKind = "extractip-not-plain-ip"
				if wrap == 4 {
					hc.leakKind = "extractip-generic-addr-keeps-zone"
				}
				o.Eff = 1
				w.v(i, hc.leakKind, "extractIP(%T %q) = %q, not the plain IP %q: blacklist, ban and rate-limit entries for the address do not apply to this peer",
					tr.remote, tr.remote.String(), ex, w.ip(op[2]))
			}
			w.conns[op[1]] = hc
		case evRegister:
			cl, err := fx.Cloud.GenerateAnonymousCredentials()
			must(err)
			w.addClient(cl.ID, cl.SecretKeyPlaintext)
		default:
			panic(fmt.Sprintf("bad op %v", op))
		}
		if op[0] != evMsg && op[0] != evBadJSON {
			w.invariants(i)
		}
		w.observe(&o, &in)
		*po = o
	}
}

func (w *world) finish(pin *caseIn, out *caseOut) interface{} {
	in := *pin
	// distinctness of the abstraction: equal strings <=> equal numbers
	seen := map[string]int{}
	for i := 1; i < len(w.secrets); i++ {
		if w.secrets[i] == "" {
			continue
		}
		if j, ok := seen[w.secrets[i]]; ok {
			w.v(len(in.Ops), "secret-collision", "secrets %d and %d are equal", j, i)
		}
		seen[w.secrets[i]] = i
	}
	ids := map[int64]int{}
	for i := 1; i < len(w.clients); i++ {
		if j, ok := ids[w.clients[i].id]; ok {
			w.v(len(in.Ops), "id-collision", "clients #%d and #%d share id %d", j, i, w.clients[i].id)
		}
		ids[w.clients[i].id] = i
	}
	// cleanup (shared fixture)
	w.release()
	for _, c := range w.conns {
		_ = fx.Session.CloseConnection(c.id)
	}
	for _, ip := range w.addrs {
		fx.BruteForce.UnbanIP(ip)
		fx.BruteForce.RecordSuccess(ip)
		fx.IPManager.RemoveFromBlacklist(ip)
		fx.IPManager.RemoveFromBlacklist(ip + "/32")
		fx.IPManager.RemoveFromBlacklist(ip + "/128")
		fx.IPManager.RemoveFromBlacklist(ip + "/31")
		fx.IPManager.RemoveFromBlacklist(ip + "/127")
		fx.IPManager.RemoveFromWhitelist(ip)
		fx.IPManager.RemoveFromWhitelist(ip + "/32")
		fx.IPManager.RemoveFromWhitelist(ip + "/128")
	}
	if w.rateOff {
		fx.RateLimiter.SetIPRateLimit(1000000, 1000000)
	}
	for i := 1; i < len(w.clients); i++ {
		if !w.clients[i].deleted {
			_ = fx.Cloud.DeleteClient(w.clients[i].id)
		}
	}
	out.Viol = w.viol
	out.PropOK = len(w.viol) == 0
	return out
}

func genExtractTable() {
	fmt.Println("(* extractIP (auth_handler.go) over peer address shapes: (family, shape, typed TCP/UDP, input carries a zone, output = plain IP) *)")
	fmt.Println("Definition extract_table : list (N * N * bool * bool * bool) := [")
	rows := []string{}
	ips := map[int]string{0: "203.0.113.7", 1: "2001:db8::7", 2: "fe80::bad:1"}
	for fam := 0; fam <= 2; fam++ {
		for wrap := 0; wrap <= 4; wrap++ {
			if wrap == 3 && fam != 0 {
				continue
			}
			a := remoteAddr(ips[fam], fam, wrap)
			typed := wrap == 0 || wrap == 1 || wrap == 3
			zoned := fam == 2 && wrap != 2
			rows = append(rows, fmt.Sprintf(" (%d, %d, %v, %v, %v)", fam, wrap, typed, zoned, server.VerifExtractIP(a) == ips[fam]))
		}
	}
	fmt.Println(strings.Join(rows, ";\n"))
	fmt.Println("].")
}

func gen() {
	d := security.DefaultBruteForceConfig()
	fmt.Println("(* generated by verif_c03 gen from /repo's working tree — do not edit *)")
	fmt.Println("From Coq Require Import NArith List Bool. Import ListNotations. Open Scope N_scope.")
	fmt.Printf("Definition MaxFailures : N := %d.\n", d.MaxFailures)
	fmt.Printf("Definition PermanentBanAt : N := %d.\n", d.PermanentBanAt)
	fmt.Printf("Definition T_Handshake : N := %d.\n", byte(packet.Handshake))
	fmt.Printf("Definition T_HandshakeResp : N := %d.\n", byte(packet.HandshakeResp))
	genExtractTable()
}

// cloudHook runs once inside the next cloud lookup of the auth handler, i.e. after the gate checks of that handshake
var cloudHook func()

func runHook() {
	if f := cloudHook; f != nil {
		cloudHook = nil
		f()
	}
}

type hookCloud struct{ managers.CloudControlAPI }

func (h *hookCloud) GetClientConfig(id int64) (*models.ClientConfig, error) {
	runHook()
	return h.CloudControlAPI.GetClientConfig(id)
}
func (h *hookCloud) GenerateAnonymousCredentials() (*models.Client, error) {
	runHook()
	return h.CloudControlAPI.GenerateAnonymousCredentials()
}

// newFixture builds every server component anew over the one storage of this process (= a server restart)
func newFixture() {
	var err error
	fx, err = server.VerifNewFixture(context.Background(), theStorage, server.VerifFixtureOptions{})
	must(err)
	cfgRepo = repos.NewClientConfigRepository(fx.Repo)
	fx.RateLimiter.SetIPRateLimit(1000000, 1000000)
	// the real ServerAuthHandler over the real cloud control, with a hook point in the lookups it makes after the gates
	fx.Auth = server.NewServerAuthHandler(&hookCloud{fx.Cloud}, fx.Session, fx.BruteForce, fx.IPManager, fx.RateLimiter, fx.SecretKeys)
	fx.Session.SetAuthHandler(fx.Auth)
}

func main() {
	var err error
	theStorage = memory.New(context.Background())
	newFixture()
	ok := make([]byte, 32)
	for i := range ok {
		ok[i] = byte(200 - i*5)
	}
	otherSKM, err = security.NewSecretKeyManager(&security.SecretKeyConfig{MasterKey: base64.StdEncoding.EncodeToString(ok)})
	must(err)
	if len(os.Args) > 1 && os.Args[1] == "gen" {
		gen()
		return
	}
	forEachCase(runCase)
}

//go:build verif

package main

func genTable() {}

//go:build verif

package server

import "net"

// Export shim for the C03 verification harness: the address-to-IP function feeding the handshake gates.
func VerifExtractIP(a net.Addr) string { return extractIP(a) }

//go:build verif

package security

import "time"

// Export shim for the C03 verification harness: "d passes" for the ban record of one address — a temporary ban's deadline
// moves d into the past (a permanent ban has no deadline).  The record stays in the table, as after real time.
func (p *BruteForceProtector) VerifShiftBanExpiry(ip string, d time.Duration) {
	p.banMu.Lock()
	defer p.banMu.Unlock()
	if r, ok := p.bannedIPs[ip]; ok && !r.ExpiresAt.IsZero() {
		r.ExpiresAt = r.ExpiresAt.Add(-d)
	}
}

// VerifAgeBan: d passes for the ban record of one address (both BannedAt and the deadline move d into the past), but only if
// the ban then still has more than `keep` to run — so a ban in force stays in force.  Reports whether it aged the record.
func (p *BruteForceProtector) VerifAgeBan(ip string, d, keep time.Duration) bool {
	p.banMu.Lock()
	defer p.banMu.Unlock()
	r, ok := p.bannedIPs[ip]
	if !ok || r.ExpiresAt.IsZero() || time.Until(r.ExpiresAt) < d+keep {
		return false
	}
	r.BannedAt = r.BannedAt.Add(-d)
	r.ExpiresAt = r.ExpiresAt.Add(-d)
	return true
}

// VerifCleanup runs the body of the one-minute cleanup ticker now.
func (p *BruteForceProtector) VerifCleanup() { p.cleanup() }

//go:build verif

package security

import "time"

// Export shim for the C03 verification harness: "d passes" for the ban record of one address — a temporary ban's deadline
// moves d into the past (a permanent ban has no deadline).  The record stays in the table, as after real time.
func (p *BruteForceProtector) VerifShiftBanExpiry(ip string, d time.Duration) {
	p.banMu.Lock()
	defer p.banMu.Unlock()
	if r, ok := p.bannedIPs[ip]; ok && !r.ExpiresAt.IsZero() {
		r.ExpiresAt = r.ExpiresAt.Add(-d)
	}
}

//go:build verif

// verif_c06: real conncode.Service instances (one per concurrent caller, i.e. one per "node") over ONE shared
// memory store seen through a gated double: every storage call of a caller blocks until the scheduler releases
// that caller, so a model schedule (list of caller indices, one storage action per entry) is replayed exactly
// on ActivateConnectionCode / RevokeConnectionCode.  One designated forward write (Set/SetNX/AppendToList) of a
// caller can be made to fail.  "tick" is a pseudo caller: the scheduler sleeps past the code's activation expiry.
//
// Granularity: reads of a mapping's own main record (Get tunnox:port_mapping:<id>, used by the quota scan, the
// create-existence check and the first line of DeletePortMapping) are NOT gated — they run as part of the
// preceding action.  Id generation/release (C15's subject) runs on the raw store, ungated.
package main

import (
	"context"
	"encoding/json"
	"errors"
	"fmt"
	"os"
	"reflect"
	"runtime"
	"sort"
	"strconv"
	"strings"
	"sync"
	"time"

	"tunnox-core/internal/cloud/models"
	"tunnox-core/internal/cloud/repos"
	"tunnox-core/internal/cloud/services"
	"tunnox-core/internal/constants"
	coreerrors "tunnox-core/internal/core/errors"
	"tunnox-core/internal/core/idgen"
	"tunnox-core/internal/core/storage"
	"tunnox-core/internal/core/storage/hybrid"
	"tunnox-core/internal/core/storage/memory"
	"tunnox-core/internal/utils/random"
)

// gate-op codes (Model/ConnCode.v pc_code must agree)
const (
	opGetCode   = 1
	opQuota     = 2
	opClaim     = 3
	opSetMain   = 4
	opAppGlob   = 5
	opAppIdxL   = 6
	opAppIdxT   = 7
	opSetCode   = 8
	opSetID     = 9
	opRmIdxL    = 10
	opRmIdxT    = 11
	opRmGlob    = 12
	opDelMain   = 13
	opDelClaim  = 14
	opGetID     = 15
	opAdmit     = 16
	opRelAdm    = 17
	opDelCode   = 18 // Delete of the by-code record (connCodeRepo.Delete)
	opDelID     = 19 // Delete of the by-id record
	opOther     = 20
	opRmCodeIx  = 21 // RemoveFromList on the target's code index
	opGetCodeIx = 22 // GetList of the target's code index (ListByTargetClient)
)

// key prefixes of the claim and admission markers: probed from the real repository methods at start-up (a rename in
// the code must not blind the gate); the literals are the fallback for trees that have no such method
var claimPrefix = "tunnox:runtime:conncode:claim:"
var admitPrefix = "tunnox:runtime:conncode:admit:"

// fullStore is what the repositories need from a store; memory.Storage and hybrid.Storage both provide it
type fullStore interface {
	storage.Storage
	storage.ListStore
	storage.CASStore
}

// keyRecorder records the keys of SetNX calls (used once, to learn the marker key names)
type keyRecorder struct {
	*memory.Storage
	keys []string
}

func (r *keyRecorder) SetNX(key string, value any, ttl time.Duration) (bool, error) {
	r.keys = append(r.keys, key)
	return r.Storage.SetNX(key, value, ttl)
}

var probeKeysOnce sync.Once

func probeKeys() {
	probeKeysOnce.Do(func() {
		ctx, cancel := context.WithCancel(context.Background())
		defer cancel()
		rec := &keyRecorder{Storage: memory.New(ctx)}
		repo := repos.NewConnectionCodeRepository(repos.NewRepository(rec))
		v := reflect.ValueOf(repo)
		code := &models.TunnelConnectionCode{ID: "conncode_probe", Code: "prb-prb-prb", TargetClientID: 1, TargetAddress: "tcp://1.1.1.1:1",
			ActivationTTL: time.Hour, MappingDuration: time.Hour, CreatedAt: time.Now(), ActivationExpiresAt: time.Now().Add(time.Hour)}
		if m := v.MethodByName("Claim"); m.IsValid() {
			rec.keys = nil
			m.Call([]reflect.Value{reflect.ValueOf(code)})
			if len(rec.keys) == 1 && strings.HasSuffix(rec.keys[0], code.Code) {
				claimPrefix = strings.TrimSuffix(rec.keys[0], code.Code)
			}
		}
		if m := v.MethodByName("AcquireAdmission"); m.IsValid() {
			rec.keys = nil
			m.Call([]reflect.Value{reflect.ValueOf("mappings"), reflect.ValueOf(int64(424242)), reflect.ValueOf(time.Minute)})
			if len(rec.keys) == 1 && strings.HasSuffix(rec.keys[0], "mappings:424242") {
				admitPrefix = strings.TrimSuffix(rec.keys[0], "mappings:424242")
			}
		}
	})
}

var errInjected = errors.New("verif: injected storage failure")

type gate struct {
	arrive chan int
	resume []chan struct{}
}

type gatedStore struct {
	storage.Storage           // raw store: ungated passthrough for everything not overridden
	raw             fullStore // the caller's node store: one memory store, or the node's hybrid storage in a cluster world
	idx             int
	g               *gate
	faultAt         int // index among this caller's forward writes (Set/SetNX/AppendToList) that fails; -1 none
	writes          int
	faulted         bool
	listenKey       string // client_mappings key of this caller's listen client
	appIdx          int
	trace           []int
	mu              *sync.Mutex
	owner           map[string]int // mapping id -> caller that wrote (or tried to write) its main record
	// listing callers: the call spawns an asynchronous clean-up goroutine whose storage calls are further actions of
	// the same caller; the caller counts as returned only when the clean-ups it spawned are through
	rfaultAt int // 1-based index among this caller's reads of mapping records that fails (0: none)
	mreads   int
	mainG    uint64        // goroutine of the call itself (0: not a listing caller)
	found    int           // code records the call itself read
	purgeEnd chan struct{} // one signal per finished clean-up
}

func (s *gatedStore) park(op int, key string) {
	s.g.arrive <- s.idx
	<-s.g.resume[s.idx]
	s.trace = append(s.trace, op)
	s.mu.Lock()
	if _, ok := seenKeys[op]; !ok {
		seenKeys[op] = key
	}
	s.mu.Unlock()
}

// first key seen per gate-op code (gen: the key families the activation / revocation touch)
var seenKeys = map[int]string{}

// noteTTL records the lifetime the real call asked for, for the gate op just performed
func (s *gatedStore) noteTTL(ttl time.Duration) {
	if len(s.trace) == 0 {
		return
	}
	s.mu.Lock()
	if _, ok := seenTTL[s.trace[len(s.trace)-1]]; !ok {
		seenTTL[s.trace[len(s.trace)-1]] = ttl
	}
	s.mu.Unlock()
}

func (s *gatedStore) forwardFault() bool {
	k := s.writes
	s.writes++
	if k == s.faultAt {
		s.faulted = true
		return true
	}
	return false
}

func (s *gatedStore) Get(key string) (any, error) {
	switch {
	case strings.HasPrefix(key, constants.KeyPrefixPortMapping+":"):
		// merged into the preceding action.  Optional READ fault (beyond the property's stated "single storage-write
		// failures": predicate-only cells, not replayed on the model): the k-th read of a mapping record by this caller fails
		s.mreads++
		if s.rfaultAt > 0 && s.mreads == s.rfaultAt {
			s.faulted = true
			return nil, errInjected
		}
		return s.raw.Get(key)
	case strings.HasPrefix(key, constants.KeyPrefixRuntimeConnectionCodeByCode):
		s.park(opGetCode, key)
	case strings.HasPrefix(key, constants.KeyPrefixRuntimeConnectionCodeByID):
		s.park(opGetID, key)
		v, err := s.raw.Get(key)
		if s.mainG != 0 {
			if gid() == s.mainG {
				if err == nil {
					s.found++
				}
			} else if err != nil {
				s.purgeEnd <- struct{}{} // Delete: "already gone" ends the clean-up
			}
		}
		return v, err
	default:
		s.park(opOther, key)
	}
	return s.raw.Get(key)
}

func (s *gatedStore) Set(key string, value any, ttl time.Duration) error {
	switch {
	case strings.HasPrefix(key, constants.KeyPrefixPortMapping+":"):
		id := strings.TrimPrefix(key, constants.KeyPrefixPortMapping+":")
		s.mu.Lock()
		s.owner[id] = s.idx
		s.mu.Unlock()
		s.park(opSetMain, key)
	case strings.HasPrefix(key, constants.KeyPrefixRuntimeConnectionCodeByCode):
		s.park(opSetCode, key)
	case strings.HasPrefix(key, constants.KeyPrefixRuntimeConnectionCodeByID):
		s.park(opSetID, key)
	default:
		s.park(opOther, key)
	}
	s.noteTTL(ttl)
	if s.forwardFault() {
		return errInjected
	}
	return s.raw.Set(key, value, ttl)
}

func (s *gatedStore) Delete(key string) error {
	switch {
	case strings.HasPrefix(key, constants.KeyPrefixPortMapping+":"):
		s.park(opDelMain, key)
	case strings.HasPrefix(key, claimPrefix):
		s.park(opDelClaim, key)
	case strings.HasPrefix(key, admitPrefix):
		s.park(opRelAdm, key)
	case strings.HasPrefix(key, constants.KeyPrefixRuntimeConnectionCodeByCode):
		s.park(opDelCode, key)
	case strings.HasPrefix(key, constants.KeyPrefixRuntimeConnectionCodeByID):
		s.park(opDelID, key)
	default:
		s.park(opOther, key)
	}
	return s.raw.Delete(key)
}

func (s *gatedStore) Exists(key string) (bool, error) {
	s.park(opOther, key)
	return s.raw.Exists(key)
}

func (s *gatedStore) SetNX(key string, value any, ttl time.Duration) (bool, error) {
	if strings.HasPrefix(key, claimPrefix) {
		s.park(opClaim, key)
	} else if strings.HasPrefix(key, admitPrefix) {
		s.park(opAdmit, key)
	} else {
		s.park(opOther, key)
	}
	s.noteTTL(ttl)
	if strings.HasPrefix(key, claimPrefix) {
		s.mu.Lock()
		if claimTTL == 0 && !curExpiresAt.IsZero() {
			claimTTL, claimRemaining = ttl, time.Until(curExpiresAt)
		}
		s.mu.Unlock()
	}
	if s.forwardFault() {
		return false, errInjected
	}
	return s.raw.SetNX(key, value, ttl)
}

func (s *gatedStore) CompareAndSwap(key string, o, n any, ttl time.Duration) (bool, error) {
	s.park(opOther, key)
	if s.forwardFault() {
		return false, errInjected
	}
	return s.raw.CompareAndSwap(key, o, n, ttl)
}

func (s *gatedStore) SetList(key string, values []any, ttl time.Duration) error {
	s.park(opOther, key)
	if s.forwardFault() {
		return errInjected
	}
	return s.raw.SetList(key, values, ttl)
}

func (s *gatedStore) GetList(key string) ([]any, error) {
	if strings.HasPrefix(key, constants.KeyPrefixClientMappings+":") {
		s.park(opQuota, key)
	} else if strings.HasPrefix(key, constants.KeyPrefixIndexConnectionCodeByTarget) {
		s.park(opGetCodeIx, key)
	} else {
		s.park(opOther, key)
	}
	return s.raw.GetList(key)
}

func (s *gatedStore) AppendToList(key string, value any) error {
	switch {
	case key == constants.KeyPrefixMappingList:
		s.park(opAppGlob, key)
	case strings.HasPrefix(key, constants.KeyPrefixClientMappings+":"):
		if s.appIdx == 0 {
			s.park(opAppIdxL, key)
		} else {
			s.park(opAppIdxT, key)
		}
		s.appIdx++
	default:
		s.park(opOther, key)
	}
	if s.forwardFault() {
		return errInjected
	}
	return s.raw.AppendToList(key, value)
}

func (s *gatedStore) RemoveFromList(key string, value any) error {
	switch {
	case key == constants.KeyPrefixMappingList:
		s.park(opRmGlob, key)
	case key == s.listenKey:
		s.park(opRmIdxL, key)
	case strings.HasPrefix(key, constants.KeyPrefixClientMappings+":"):
		s.park(opRmIdxT, key)
	case strings.HasPrefix(key, constants.KeyPrefixIndexConnectionCodeByTarget):
		s.park(opRmCodeIx, key)
		err := s.raw.RemoveFromList(key, value)
		if s.mainG != 0 && gid() != s.mainG {
			s.purgeEnd <- struct{}{} // last action of connCodeRepo.Delete
		}
		return err
	default:
		s.park(opOther, key)
	}
	return s.raw.RemoveFromList(key, value)
}

// ---------------------------------------------------------------------------------------------

var listenAddrs = []string{"0.0.0.0:9001", "127.0.0.1:9002", "0.0.0.0:65535"}
var badListenAddr = "no-port-here"

// target-address shapes a code can be generated with (IPv4, hostname, IPv6 literal with brackets, zoned IPv6, unusual ports)
// and the host / port / protocol the mapping made from the code must carry — the address itself byte for byte
var targetAddrs = []string{"tcp://192.168.100.10:8888", "udp://10.0.0.7:53", "tcp://[fd00::10]:3306", "tcp://[fe80::1%25eth0]:8080",
	"tcp://db-1.internal.example:65535", "udp://10.0.0.7:1", "tcp://[::1]:1"}
var targetParts = []struct {
	host  string
	port  int
	proto string
}{{"192.168.100.10", 8888, "tcp"}, {"10.0.0.7", 53, "udp"}, {"fd00::10", 3306, "tcp"}, {"fe80::1%eth0", 8080, "tcp"},
	{"db-1.internal.example", 65535, "tcp"}, {"10.0.0.7", 1, "udp"}, {"::1", 1, "tcp"}}

type thrIn struct {
	// "act" | "rev" | "tick" | "list" (the code's owner lists its codes) | "stall" (listen = seconds) |
	// "cancel" (listen = index of the caller whose SERVICE CONTEXT is cancelled: node shutdown / service Close racing with
	// the call in flight; the call itself is not interrupted by the harness, the code decides what to do)
	Kind   string `json:"kind"`
	Listen int64  `json:"listen"`
	LAddr  int    `json:"laddr"` // index into listenAddrs; -1 = malformed address
	Fault  int    `json:"fault"` // forward-write index that fails, -1 none
	NoCode bool   `json:"nocode"`
	RFault int    `json:"rfault1"` // k > 0: the k-th read of a mapping record by this caller fails (predicate-only cells)
}
type caseIn struct {
	QMax    int        `json:"qmax"`
	Pre     [][2]int64 `json:"pre"`   // [client, number of pre-existing active mappings it listens on]
	State   string     `json:"state"` // initial code state: valid | revoked | activated | absent
	Target  int64      `json:"target"`
	TAddr   int        `json:"taddr"`
	Threads []thrIn    `json:"threads"`
	Sched   []int      `json:"sched"`
	TTLms   int        `json:"ttl_ms"` // >0: activation period of the code (last-second cells: everything runs within its final second)
	// "shared" = all callers use ONE service instance over one memory store (one node serving several clients)
	World string `json:"world"` // "" = one memory store; "cluster" = every caller on its own node: hybrid storage with a private local cache, ONE shared cache, stock DefaultConfig routing
}
type thrOut struct {
	Res       int   `json:"res"` // 0 ok, else error enum
	Map       int   `json:"map"` // caller index owning the returned mapping (ok activations), -1 none, -2 unknown id
	Trace     []int `json:"trace"`
	Pos       []int `json:"pos"`   // index in the executed schedule of each storage action of the trace
	First     int   `json:"first"` // index in the executed schedule of this caller's first storage action (-1: none)
	Done      int   `json:"done"`  // index of the entry after which it had returned (-1: returned before any action)
	Faulted   bool  `json:"faulted"`
	RetListen int64 `json:"retlisten"` // ListenClientID of the mapping object the call returned (0: none)
}
type viol struct {
	Kind string `json:"kind"`
	Msg  string `json:"msg"`
}
type caseOut struct {
	Claim     bool      `json:"variant_claim"`
	Cleanup   bool      `json:"variant_cleanup"`
	Admit     bool      `json:"variant_admit"`
	AdmitKeys int       `json:"admitkeys"` // admission markers of the scope "mappings" left in storage
	Threads   []thrOut  `json:"threads"`
	Sched     []int     `json:"sched"`
	Mains     [][]int64 `json:"mains"`  // [owner, listen, target, taddr index(-1 other), laddr index(-1 other)] sorted
	Glob      []int     `json:"glob"`   // owners, sorted
	Cidx      [][]int64 `json:"cidx"`   // [client, owner] sorted
	ByCode    []int64   `json:"bycode"` // [present, activated, revoked, activated_by, mapping owner+1]
	ByID      []int64   `json:"byid"`
	ClaimSet  bool      `json:"claimset"`
	Ticked    bool      `json:"ticked"`
	Ambiguous bool      `json:"ambiguous"`
	TIdx      bool      `json:"tidx"`    // the code's id is still in its owner's code index
	Skipped   int       `json:"skipped"` // schedule entries naming a caller that was blocked outside the store (not executed, not in sched)
	Viol      []viol    `json:"viol"`
}

func errEnum(err error) int {
	if err == nil {
		return 0
	}
	switch coreerrors.GetCode(err) {
	case coreerrors.CodeNotFound:
		return 1
	case coreerrors.CodeForbidden:
		return 2
	case coreerrors.CodeConflict:
		return 3
	case coreerrors.CodeExpired:
		return 4
	case coreerrors.CodeQuotaExceeded:
		return 5
	case coreerrors.CodeStorageError:
		return 6
	case coreerrors.CodeInternal:
		return 7
	case coreerrors.CodeInvalidParam:
		return 8
	case coreerrors.CodeMissingParam:
		return 10
	}
	return 9
}

type stack struct {
	ccRepo *repos.ConnectionCodeRepository
	pmRepo *repos.PortMappingRepo
	pms    services.PortMappingService
	svc    *services.ConnectionCodeService
}

// goroutine id of the caller (shared-service worlds: several callers use ONE service instance over ONE store, so the
// store double has to tell them apart by the goroutine the call arrives on)
func gid() uint64 {
	var b [64]byte
	n := runtime.Stack(b[:], false)
	f := strings.Fields(string(b[:n]))
	if len(f) < 2 {
		return 0
	}
	id, _ := strconv.ParseUint(f[1], 10, 64)
	return id
}

// routerStore hands every storage call to the gated double of the caller whose goroutine makes it; calls from any
// other goroutine go straight to the store
type routerStore struct {
	storage.Storage
	base fullStore
	mu   sync.Mutex
	by   map[uint64]*gatedStore
}

func (r *routerStore) register(st *gatedStore) {
	r.mu.Lock()
	r.by[gid()] = st
	r.mu.Unlock()
}
func (r *routerStore) pick() fullStore {
	r.mu.Lock()
	st, ok := r.by[gid()]
	r.mu.Unlock()
	if ok {
		return st
	}
	return r.base
}
func (r *routerStore) Get(key string) (any, error) { return r.pick().Get(key) }
func (r *routerStore) Set(key string, v any, ttl time.Duration) error {
	return r.pick().Set(key, v, ttl)
}
func (r *routerStore) Delete(key string) error         { return r.pick().Delete(key) }
func (r *routerStore) Exists(key string) (bool, error) { return r.pick().Exists(key) }
func (r *routerStore) SetNX(key string, v any, ttl time.Duration) (bool, error) {
	return r.pick().SetNX(key, v, ttl)
}
func (r *routerStore) CompareAndSwap(key string, o, n any, ttl time.Duration) (bool, error) {
	return r.pick().CompareAndSwap(key, o, n, ttl)
}
func (r *routerStore) SetList(key string, v []any, ttl time.Duration) error {
	return r.pick().SetList(key, v, ttl)
}
func (r *routerStore) GetList(key string) ([]any, error)      { return r.pick().GetList(key) }
func (r *routerStore) AppendToList(key string, v any) error   { return r.pick().AppendToList(key, v) }
func (r *routerStore) RemoveFromList(key string, v any) error { return r.pick().RemoveFromList(key, v) }

// clockStore is the one store (or the cluster's shared cache) with a LOGICAL clock for key lifetimes: Set/SetNX record
// deadline = logical now + ttl; advance(d) moves the clock and removes every key whose lifetime has run out (claim
// markers, admission markers, code records, ...).  The callers' own time.Now() is not moved, so stalls are kept well
// inside the code's activation window (the end of the window itself is exercised by the real-time "tick").
type clockStore struct {
	*memory.Storage
	mu       sync.Mutex
	now      time.Duration
	deadline map[string]time.Duration
}

func newClockStore(ctx context.Context) *clockStore {
	return &clockStore{Storage: memory.New(ctx), deadline: map[string]time.Duration{}}
}
func (c *clockStore) note(key string, ttl time.Duration) {
	c.mu.Lock()
	if ttl > 0 {
		c.deadline[key] = c.now + ttl
	} else {
		delete(c.deadline, key)
	}
	c.mu.Unlock()
}
func (c *clockStore) Set(key string, v any, ttl time.Duration) error {
	err := c.Storage.Set(key, v, ttl)
	if err == nil {
		c.note(key, ttl)
	}
	return err
}
func (c *clockStore) SetNX(key string, v any, ttl time.Duration) (bool, error) {
	ok, err := c.Storage.SetNX(key, v, ttl)
	if ok && err == nil {
		c.note(key, ttl)
	}
	return ok, err
}
func (c *clockStore) Delete(key string) error {
	c.note(key, 0)
	return c.Storage.Delete(key)
}
func (c *clockStore) advance(d time.Duration) {
	c.mu.Lock()
	c.now += d
	var gone []string
	for k, dl := range c.deadline {
		if dl <= c.now {
			gone = append(gone, k)
			delete(c.deadline, k)
		}
	}
	c.mu.Unlock()
	for _, k := range gone {
		c.Storage.Delete(k)
	}
}

// lifetimes the real calls ask for, per gate-op code (gen: regenerated table) + the claim's lifetime against the code's
// remaining activation window at the moment of the claim
var seenTTL = map[int]time.Duration{}
var claimTTL, claimRemaining time.Duration
var curExpiresAt time.Time

// view = what an observer of the cluster sees: a fresh node (empty local cache) for point reads, the shared cache for scans
type view struct {
	node fullStore
	scan *clockStore
}

func newNode(ctx context.Context, shared *clockStore) fullStore {
	return hybrid.NewWithSharedCache(ctx, memory.New(ctx), shared, nil, hybrid.DefaultConfig())
}

func newStack(ctx context.Context, st storage.Storage, raw storage.Storage, qmax int) *stack {
	repo := repos.NewRepository(st)
	k := &stack{ccRepo: repos.NewConnectionCodeRepository(repo), pmRepo: repos.NewPortMappingRepo(repo)}
	idm := idgen.NewIDManager(raw, ctx)
	k.pms = services.NewPortMappingService(k.pmRepo, idm, nil, ctx)
	k.svc = services.NewConnectionCodeService(k.ccRepo, k.pms, k.pmRepo,
		&services.ConnectionCodeServiceConfig{MaxActiveCodesPerClient: 10, MaxActiveMappingsPerClient: qmax}, ctx)
	return k
}

func hasAdmit() bool {
	return reflect.ValueOf(&repos.ConnectionCodeRepository{}).MethodByName("AcquireAdmission").IsValid()
}

func hasClaim() bool {
	return reflect.ValueOf(&repos.ConnectionCodeRepository{}).MethodByName("Claim").IsValid()
}

// failing list store for the create-cleanup probe
type noAppendStore struct {
	*memory.Storage
}

func (s noAppendStore) AppendToList(key string, value any) error { return errInjected }

var cleanupProbe struct {
	once sync.Once
	v    bool
}

// does PortMappingRepo.CreatePortMapping remove the main record when the global-list append fails?
func hasCleanup() bool {
	cleanupProbe.once.Do(func() {
		ctx, cancel := context.WithCancel(context.Background())
		defer cancel()
		raw := memory.New(ctx)
		r := repos.NewPortMappingRepo(repos.NewRepository(noAppendStore{raw}))
		err := r.CreatePortMapping(&models.PortMapping{ID: "pmap_probe", ListenClientID: 1, TargetClientID: 2})
		ok, _ := raw.Exists(constants.KeyPrefixPortMapping + ":pmap_probe")
		cleanupProbe.v = err != nil && !ok
	})
	return cleanupProbe.v
}

func idxOf(xs []string, s string) int64 {
	for i, x := range xs {
		if x == s {
			return int64(i)
		}
	}
	return -1
}

func runSched(c caseIn) *caseOut {
	out := &caseOut{Claim: hasClaim(), Cleanup: hasCleanup(), Admit: hasAdmit(), Viol: []viol{}, Sched: []int{}}
	probeKeys()
	ctx, cancel := context.WithCancel(context.Background())
	defer cancel()
	base := newClockStore(ctx) // the one store (single world) or the shared cache (cluster world)
	cluster := c.World == "cluster"
	var raw fullStore = base // store of the setup node / of the observer
	obs := view{node: base, scan: base}
	if cluster {
		raw = newNode(ctx, base)
		obs = view{node: newNode(ctx, base), scan: base}
	}
	n := len(c.Threads)
	pseudo := make([]bool, n) // "tick" (real expiry) and "stall" (the store's logical clock advances) are not callers
	stalled := make([]bool, n)
	for i, t := range c.Threads {
		pseudo[i] = t.Kind == "tick" || t.Kind == "stall" || t.Kind == "cancel"
	}
	tickIdx := -1
	for i, t := range c.Threads {
		if t.Kind == "tick" {
			tickIdx = i
		}
	}
	hasTickInSched := false
	for _, i := range c.Sched {
		if i == tickIdx && tickIdx >= 0 {
			hasTickInSched = true
		}
	}
	// ---- setup on the raw store through the real services (service.go CreateConnectionCode, generator.go)
	setup := newStack(ctx, raw, raw, 1000)
	preIDs := map[string]bool{}
	for _, p := range c.Pre {
		for k := int64(0); k < p[1]; k++ {
			m, err := setup.pms.CreatePortMapping(&models.PortMapping{ListenClientID: p[0], TargetClientID: 555000 + p[0],
				Protocol: models.ProtocolTCP, SourcePort: 7000 + int(k), TargetHost: "10.9.9.9", TargetPort: 80,
				Status: models.MappingStatusActive, Type: models.MappingTypeAnonymous})
			must(err)
			preIDs[m.ID] = true
		}
	}
	ttl := 10 * time.Minute
	if hasTickInSched {
		ttl = 250 * time.Millisecond
	} else if c.TTLms > 0 {
		ttl = time.Duration(c.TTLms) * time.Millisecond
	}
	t0 := time.Now()
	cc, err := setup.svc.CreateConnectionCode(&services.CreateConnectionCodeRequest{TargetClientID: c.Target,
		TargetAddress: targetAddrs[c.TAddr], ActivationTTL: ttl, MappingDuration: time.Hour, CreatedBy: "verif", Description: "c06"})
	must(err)
	codeStr := cc.Code
	switch c.State {
	case "revoked":
		must(setup.svc.RevokeConnectionCode(codeStr, "verif"))
	case "activated":
		m, err := setup.svc.ActivateConnectionCode(&services.ActivateConnectionCodeRequest{Code: codeStr, ListenClientID: 999001, ListenAddress: "0.0.0.0:9999"})
		must(err)
		preIDs[m.ID] = true
	case "absent":
		must(setup.ccRepo.Delete(cc.ID)) // the code is gone (deleted / TTL) before anybody uses it
	}
	// ---- callers
	g := &gate{arrive: make(chan int), resume: make([]chan struct{}, n)}
	stores := make([]*gatedStore, n)
	done := make([]chan struct{}, n)
	results := make([]error, n)
	mapIDs := make([]string, n)
	retListen := make([]int64, n)
	cancels := make([]context.CancelFunc, n)
	var mu sync.Mutex
	owner := map[string]int{}
	shared := c.World == "shared"
	var router *routerStore
	var sharedStack *stack
	if shared {
		router = &routerStore{Storage: base, base: base, by: map[uint64]*gatedStore{}}
		sharedStack = newStack(ctx, router, base, c.QMax)
	}
	parked := make([]bool, n)
	finished := make([]bool, n)
	waiting := make([]bool, n) // shared worlds: the caller is blocked somewhere outside the store (e.g. waiting for another caller)
	stuck := false
	settleT := 20 * time.Second
	if shared {
		settleT = 150 * time.Millisecond
	}
	settle := func(i int) {
		for !parked[i] && !finished[i] {
			select {
			case j := <-g.arrive:
				parked[j], waiting[j] = true, false
			case <-done[i]:
				finished[i], waiting[i] = true, false
			case <-time.After(settleT):
				if shared {
					waiting[i] = true
					return
				}
				stuck = true
				finished[i] = true
			}
		}
	}
	poll := func() { // pick up callers that were blocked and have moved on meanwhile
		for {
			select {
			case j := <-g.arrive:
				parked[j], waiting[j] = true, false
				continue
			default:
			}
			break
		}
		for j := 0; j < n; j++ {
			if waiting[j] {
				select {
				case <-done[j]:
					finished[j], waiting[j] = true, false
				default:
				}
			}
		}
	}
	for i := range c.Threads {
		g.resume[i] = make(chan struct{})
		done[i] = make(chan struct{})
	}
	for i, t := range c.Threads {
		if pseudo[i] {
			continue
		}
		var nodeStore fullStore = base
		if cluster {
			nodeStore = newNode(ctx, base) // this caller's node
		}
		st := &gatedStore{Storage: nodeStore, raw: nodeStore, idx: i, g: g, faultAt: t.Fault, rfaultAt: t.RFault, mu: &mu, owner: owner, purgeEnd: make(chan struct{}, 16),
			listenKey: fmt.Sprintf("%s:%s", constants.KeyPrefixClientMappings, random.Int64ToString(t.Listen))}
		stores[i] = st
		var sk *stack
		if shared {
			sk = sharedStack
		} else {
			cctx, ccancel := context.WithCancel(ctx) // this caller's service (and everything built for it) has its own context
			cancels[i] = ccancel
			sk = newStack(cctx, st, nodeStore, c.QMax)
		}
		go func(i int, t thrIn, sk *stack) {
			defer close(done[i])
			if shared {
				router.register(stores[i])
			}
			code := codeStr
			if t.NoCode {
				code = ""
			}
			if t.Kind == "act" {
				la := badListenAddr
				if t.LAddr >= 0 {
					la = listenAddrs[t.LAddr]
				}
				m, err := sk.svc.ActivateConnectionCode(&services.ActivateConnectionCodeRequest{Code: code, ListenClientID: t.Listen, ListenAddress: la})
				results[i] = err
				if err == nil && m != nil {
					mapIDs[i] = m.ID
					retListen[i] = m.ListenClientID
				}
			} else if t.Kind == "list" {
				st := stores[i]
				st.mainG = gid()
				codes, err := sk.svc.ListConnectionCodesByTargetClient(c.Target)
				results[i] = err
				for k := st.found - len(codes); err == nil && k > 0; k-- {
					<-st.purgeEnd // records the call read but did not return are being cleaned up asynchronously
				}
			} else {
				results[i] = sk.svc.RevokeConnectionCode(code, fmt.Sprintf("verif-%d", i))
			}
		}(i, t, sk)
		if shared {
			settle(i) // callers enter the one service instance in index order (deterministic)
		}
	}
	first := make([]int, n)
	doneAt := make([]int, n)
	positions := make([][]int, n)
	for i := 0; i < n; i++ {
		first[i], doneAt[i] = -1, -1
		if pseudo[i] || shared {
			continue
		}
		settle(i)
	}
	early := append([]bool(nil), finished...) // rejected on its parameters before any storage call
	expiresAt := cc.ActivationExpiresAt
	mu.Lock()
	curExpiresAt = expiresAt
	mu.Unlock()
	var preDur, postDur time.Duration
	tTick := time.Time{}
	stepOne := func(i int) {
		if shared && i >= 0 && i < n && !pseudo[i] {
			poll()
			if waiting[i] {
				out.Skipped++
				return
			}
		}
		pos := len(out.Sched)
		out.Sched = append(out.Sched, i)
		if i >= 0 && i < n && c.Threads[i].Kind == "cancel" {
			if !stalled[i] {
				stalled[i] = true
				if k := int(c.Threads[i].Listen); k >= 0 && k < n && cancels[k] != nil {
					cancels[k]()
					runtime.Gosched()
				}
			}
			return
		}
		if i >= 0 && i < n && c.Threads[i].Kind == "stall" {
			if !stalled[i] {
				stalled[i] = true
				base.advance(time.Duration(c.Threads[i].Listen) * time.Second)
			}
			return
		}
		if i == tickIdx {
			if !out.Ticked {
				out.Ticked = true
				preDur = time.Since(t0)
				if d := time.Until(expiresAt.Add(60 * time.Millisecond)); d > 0 {
					time.Sleep(d)
				}
				tTick = time.Now()
			}
			return
		}
		if i < 0 || i >= n || finished[i] {
			return
		}
		if first[i] < 0 {
			first[i] = pos
		}
		parked[i] = false
		positions[i] = append(positions[i], pos)
		g.resume[i] <- struct{}{}
		settle(i)
		if finished[i] {
			doneAt[i] = pos
		}
	}
	for _, i := range c.Sched {
		stepOne(i)
	}
	for { // completion: run every caller to the end, in index order; blocked callers are picked up when they move
		progress := false
		for i := 0; i < n; i++ {
			for !pseudo[i] && !finished[i] && !waiting[i] {
				stepOne(i)
				progress = true
			}
		}
		left := false
		for i := 0; i < n; i++ {
			if !pseudo[i] && !finished[i] {
				left = true
			}
		}
		if !left {
			break
		}
		if !progress { // only blocked callers remain: wait for one of them to move
			deadline := time.Now().Add(20 * time.Second)
			for {
				poll()
				moved := false
				for i := 0; i < n; i++ {
					if !pseudo[i] && !finished[i] && !waiting[i] {
						moved = true
					}
				}
				allDone := true
				for i := 0; i < n; i++ {
					if !pseudo[i] && !finished[i] {
						allDone = false
					}
				}
				if moved || allDone {
					break
				}
				if time.Now().After(deadline) {
					stuck = true
					for i := 0; i < n; i++ {
						finished[i] = true
					}
					break
				}
				time.Sleep(200 * time.Microsecond)
			}
		}
	}
	for i := 0; i < n; i++ { // a caller that returned without ever touching the store returned "at the end"
		if !pseudo[i] && finished[i] && doneAt[i] < 0 && !early[i] {
			doneAt[i] = len(out.Sched) - 1 // returned while blocked outside the store: "at the end"
		}
	}
	if !out.Ticked && c.TTLms > 0 && time.Since(t0) > ttl/3 {
		out.Ambiguous = true // a last-second cell that did not stay well inside the activation period
	}
	if out.Ticked {
		postDur = time.Since(tTick)
		if preDur > 25*time.Millisecond || postDur > 25*time.Millisecond {
			out.Ambiguous = true
		}
	}
	if stuck {
		out.Viol = append(out.Viol, viol{"stuck", "a caller neither reached a storage call nor returned within 20s"})
	}
	// ---- observation of the final storage contents (raw store)
	ownerOf := func(id string) int {
		if o, ok := owner[id]; ok {
			return o
		}
		return -2
	}
	mains, _ := obs.scan.QueryByPrefix(constants.KeyPrefixPortMapping+":", 0)
	type mrow struct {
		row []int64
		m   models.PortMapping
	}
	var mrows []mrow
	for _, js := range mains {
		var m models.PortMapping
		must(json.Unmarshal([]byte(js), &m))
		if preIDs[m.ID] {
			continue
		}
		mrows = append(mrows, mrow{[]int64{int64(ownerOf(m.ID)), m.ListenClientID, m.TargetClientID, idxOf(targetAddrs, m.TargetAddress), idxOf(listenAddrs, m.ListenAddress)}, m})
	}
	sort.Slice(mrows, func(a, b int) bool { return mrows[a].row[0] < mrows[b].row[0] })
	out.Mains = [][]int64{}
	for _, r := range mrows {
		out.Mains = append(out.Mains, r.row)
	}
	listOwners := func(key string) []int {
		res := []int{}
		l, err := obs.node.GetList(key)
		if err != nil {
			return res
		}
		for _, it := range l {
			s, _ := it.(string)
			var m models.PortMapping
			if json.Unmarshal([]byte(s), &m) != nil || preIDs[m.ID] {
				continue
			}
			res = append(res, ownerOf(m.ID))
		}
		sort.Ints(res)
		return res
	}
	out.Glob = listOwners(constants.KeyPrefixMappingList)
	clients := map[int64]bool{c.Target: true}
	for _, t := range c.Threads {
		if t.Kind == "act" && t.Listen != 0 {
			clients[t.Listen] = true
		}
	}
	var cl []int64
	for k := range clients {
		cl = append(cl, k)
	}
	sort.Slice(cl, func(a, b int) bool { return cl[a] < cl[b] })
	out.Cidx = [][]int64{}
	for _, k := range cl {
		for _, o := range listOwners(fmt.Sprintf("%s:%s", constants.KeyPrefixClientMappings, random.Int64ToString(k))) {
			out.Cidx = append(out.Cidx, []int64{k, int64(o)})
		}
	}
	rec := func(key string) []int64 {
		v, err := obs.node.Get(key)
		if err != nil {
			return []int64{0, 0, 0, 0, 0}
		}
		var r models.TunnelConnectionCode
		s, _ := v.(string)
		must(json.Unmarshal([]byte(s), &r))
		row := []int64{1, 0, 0, 0, 0}
		if r.IsActivated {
			row[1] = 1
		}
		if r.IsRevoked {
			row[2] = 1
		}
		if r.ActivatedBy != nil {
			row[3] = *r.ActivatedBy
		}
		if r.MappingID != nil {
			if preIDs[*r.MappingID] {
				row[4] = 1000000
			} else {
				row[4] = int64(ownerOf(*r.MappingID)) + 1
			}
		}
		return row
	}
	out.ByCode = rec(constants.KeyPrefixRuntimeConnectionCodeByCode + cc.Code)
	out.ByID = rec(constants.KeyPrefixRuntimeConnectionCodeByID + cc.ID)
	if l, err := obs.node.GetList(constants.KeyPrefixIndexConnectionCodeByTarget + fmt.Sprintf("%d", c.Target)); err == nil {
		for _, it := range l {
			if sid, _ := it.(string); sid == cc.ID {
				out.TIdx = true
			}
		}
	}
	out.ClaimSet, _ = obs.node.Exists(claimPrefix + cc.Code)
	if am, err := obs.scan.QueryByPrefix(admitPrefix+"mappings:", 0); err == nil {
		out.AdmitKeys = len(am)
	}

	for i, t := range c.Threads {
		to := thrOut{Res: 0, Map: -1, Trace: []int{}, Pos: []int{}, First: first[i], Done: doneAt[i]}
		if t.Kind == "tick" {
			to.Res = 0
			if out.Ticked {
				to.Res = 100
			}
			out.Threads = append(out.Threads, to)
			continue
		}
		if t.Kind == "stall" || t.Kind == "cancel" {
			if stalled[i] {
				to.Res = 100
			}
			out.Threads = append(out.Threads, to)
			continue
		}
		to.Res = errEnum(results[i])
		to.Trace = append(to.Trace, stores[i].trace...)
		to.Pos = append(to.Pos, positions[i]...)
		to.Faulted = stores[i].faulted
		if t.Kind == "act" && results[i] == nil {
			to.Map = ownerOf(mapIDs[i])
			to.RetListen = retListen[i]
		}
		out.Threads = append(out.Threads, to)
	}

	// ---- the property's own predicate, on the real code's outputs
	add := func(kind, f string, a ...any) { out.Viol = append(out.Viol, viol{kind, fmt.Sprintf(f, a...)}) }
	var oks []int
	for i, t := range c.Threads {
		if t.Kind == "act" && out.Threads[i].Res == 0 {
			oks = append(oks, i)
		}
	}
	if len(oks) > 1 {
		a, b := oks[0], oks[1]
		ta, tb := out.Threads[a], out.Threads[b]
		if ta.First <= tb.Done && tb.First <= ta.Done {
			add("two-success-overlapping", "activations by callers %d and %d of the same code both succeeded (their storage actions overlap in the schedule)", a, b)
		} else {
			add("two-success-sequential", "activations by callers %d and %d of the same code both succeeded although one had returned before the other started", a, b)
		}
	}
	if len(out.Mains) > 1 {
		add("more-than-one-mapping", "%d mappings created from one connection code remain in storage", len(out.Mains))
	}
	hasMain := map[int]bool{}
	for _, r := range out.Mains {
		hasMain[int(r[0])] = true
		if r[0] < 0 {
			add("unknown-mapping", "a mapping whose main record no caller wrote is in storage")
		}
	}
	for i, t := range c.Threads {
		if t.Kind != "act" {
			continue
		}
		to := out.Threads[i]
		if to.Res == 0 {
			if to.RetListen != t.Listen {
				add("returned-mapping-not-callers", "caller %d (client %d): activation reported success but the mapping it was handed listens for client %d (made by caller %d)", i, t.Listen, to.RetListen, to.Map)
			}
			if to.Map != i || !hasMain[i] {
				add("success-without-mapping", "caller %d: activation succeeded but the returned mapping is not in storage", i)
			}
			continue
		}
		left := hasMain[i]
		where := "main record"
		for _, o := range out.Glob {
			if o == i && !left {
				left, where = true, "global list entry"
			}
		}
		for _, e := range out.Cidx {
			if int(e[1]) == i && !left {
				left, where = true, "client index entry"
			}
		}
		if left {
			kind := "failed-leaves-mapping"
			tr := to.Trace
			if to.Faulted && len(tr) > 0 && tr[len(tr)-1] == opAppGlob && where == "main record" {
				kind = "failed-index-append-leaves-mapping"
			}
			add(kind, "caller %d: activation failed (error class %d) but its %s is still in storage (trace %v)", i, to.Res, where, tr)
		}
	}
	for _, r := range mrows {
		o := int(r.row[0])
		if o < 0 || o >= n {
			continue
		}
		t := c.Threads[o]
		m := r.m
		want := badListenAddr
		if t.LAddr >= 0 {
			want = listenAddrs[t.LAddr]
		}
		if m.TargetClientID != c.Target || m.TargetAddress != targetAddrs[c.TAddr] || m.ListenClientID != t.Listen || m.ListenAddress != want {
			add("mapping-shape", "mapping of caller %d: target %d %q listen %d %q, expected target %d %q listen %d %q", o,
				m.TargetClientID, m.TargetAddress, m.ListenClientID, m.ListenAddress, c.Target, targetAddrs[c.TAddr], t.Listen, want)
		}
		if tp := targetParts[c.TAddr]; m.TargetHost != tp.host || m.TargetPort != tp.port || string(m.Protocol) != tp.proto {
			add("mapping-shape", "mapping of caller %d made from a code for %q: target host %q port %d protocol %q, expected %q %d %q", o,
				targetAddrs[c.TAddr], m.TargetHost, m.TargetPort, string(m.Protocol), tp.host, tp.port, tp.proto)
		}
	}
	// dead code: an activation whose FIRST storage action came after the code was dead must not succeed
	tickPos := -1
	for p, i := range out.Sched {
		if i == tickIdx && tickIdx >= 0 && tickPos < 0 {
			tickPos = p
		}
	}
	for _, a := range oks {
		fa := out.Threads[a].First
		if c.State != "valid" {
			add("dead-code-activated", "caller %d activated a code that was %s from the start", a, c.State)
		}
		if tickPos >= 0 && tickPos < fa {
			add("dead-code-activated", "caller %d activated the code although its first action came after the activation period had ended", a)
		}
		// connCode.Activate re-checks the activation period right after the last index append (op 7) and before the
		// code record is written: if the period had ended by then, the activation must fail and roll back
		if tickPos >= 0 {
			ta := out.Threads[a]
			for k, op := range ta.Trace {
				if op == opAppIdxT && k < len(ta.Pos) && tickPos < ta.Pos[k] {
					add("expired-code-activated", "caller %d: the activation period ended at schedule entry %d, before the caller finished creating its mapping (last index append at entry %d, connCode.Activate after it), yet the activation succeeded: an expired code created a mapping",
						a, tickPos, ta.Pos[k])
				}
			}
		}
		for r, t := range c.Threads {
			if t.Kind == "rev" && out.Threads[r].Res == 0 && out.Threads[r].Done >= 0 && out.Threads[r].Done < fa {
				add("dead-code-activated", "caller %d activated the code although revocation by caller %d had completed before its first action", a, r)
			}
		}
	}
	if out.AdmitKeys != 0 {
		add("admission-marker-left", "%d per-client admission marker(s) are still in storage after every call has returned (that client cannot activate anything for 30 s)", out.AdmitKeys)
	}
	// revocation against activation: a revocation that returned nil after writing the revoked record (it performed
	// the Set of the by-id record; a nil return through Update's delete branch on an already expired code
	// writes nothing and is not counted) and an activation of the same code must never both succeed
	for r, t := range c.Threads {
		wrote := false
		for _, op := range out.Threads[r].Trace {
			if op == opSetID {
				wrote = true
			}
		}
		if t.Kind != "rev" || out.Threads[r].Res != 0 || !wrote {
			continue
		}
		for _, a := range oks {
			ta := out.Threads[a]
			gatePos := -1 // the activator's point of no return: its Claim (or, without a claim, its first write)
			for k, op := range ta.Trace {
				if (op == opClaim || op == opSetMain) && k < len(ta.Pos) {
					gatePos = ta.Pos[k]
					break
				}
			}
			if gatePos > out.Threads[r].Done {
				add("revoked-code-activated", "caller %d revoked the code (returned nil, record written, done at schedule entry %d); caller %d, which had read the code earlier (entry %d), passed its claim/first write at entry %d afterwards and its activation succeeded: a revoked code created a mapping",
					r, out.Threads[r].Done, a, ta.First, gatePos)
			} else {
				add("revoke-and-activation-both-succeeded", "revocation by caller %d and activation by caller %d of the same code both returned success (revocation done at entry %d, activator's claim/first write at entry %d)",
					r, a, out.Threads[r].Done, gatePos)
			}
		}
	}
	return out
}

// runCollide: code-string collisions.  The real CreateConnectionCode / GenerateUnique over a code space of FOUR strings
// ("a-a" .. "b-b": the generator's randomness is adversarial — every draw is likely to hit a live code): four creators get
// four distinct strings, a live string is never issued again (also after its code was revoked / used: the record is still
// there), a live by-code record keeps naming its own creator, the fifth create is refused, and the first code still
// activates into a mapping for ITS creator's client and address.
func runCollide(c caseIn) *caseOut {
	out := &caseOut{Claim: hasClaim(), Cleanup: hasCleanup(), Admit: hasAdmit(), Viol: []viol{}, Sched: []int{}, Threads: []thrOut{},
		Mains: [][]int64{}, Glob: []int{}, Cidx: [][]int64{}, ByCode: []int64{}, ByID: []int64{}}
	add := func(kind, f string, a ...any) { out.Viol = append(out.Viol, viol{kind, fmt.Sprintf(f, a...)}) }
	ctx, cancel := context.WithCancel(context.Background())
	defer cancel()
	raw := memory.New(ctx)
	sk := newStack(ctx, raw, raw, 50)
	sk.svc.VerifSetGenerator(&models.ConnectionCodeGenerator{SegmentLength: 1, SegmentCount: 2, Separator: "-", Charset: "ab"})
	type issued struct {
		code   string
		target int64
		taddr  string
	}
	var live []issued
	for k := 0; k < 5; k++ {
		target, taddr := int64(71+k), targetAddrs[k%len(targetAddrs)]
		cc, err := sk.svc.CreateConnectionCode(&services.CreateConnectionCodeRequest{TargetClientID: target, TargetAddress: taddr,
			ActivationTTL: 10 * time.Minute, MappingDuration: time.Hour, CreatedBy: "verif"})
		if k == 4 {
			if err == nil {
				add("code-string-reissued", "a fifth code (%q) was issued although all four strings of the code space are live", cc.Code)
			}
			break
		}
		if err != nil {
			add("create-failed", "create #%d failed although a free string exists: %v", k, err)
			continue
		}
		for _, l := range live {
			if l.code == cc.Code {
				add("code-string-reissued", "create #%d (target %d) was issued %q, which is the live code of target %d", k, target, cc.Code, l.target)
			}
		}
		live = append(live, issued{cc.Code, target, taddr})
		switch c.State { // the first code is revoked / used before the others are created: its record (and string) stay live
		case "revoked":
			if k == 0 {
				must(sk.svc.RevokeConnectionCode(cc.Code, "verif"))
			}
		case "activated":
			if k == 0 {
				_, err := sk.svc.ActivateConnectionCode(&services.ActivateConnectionCodeRequest{Code: cc.Code, ListenClientID: 999001, ListenAddress: "0.0.0.0:9999"})
				must(err)
			}
		}
	}
	for _, l := range live {
		rec, err := sk.svc.GetConnectionCode(l.code)
		if err != nil || rec.TargetClientID != l.target || rec.TargetAddress != l.taddr {
			add("live-code-overwritten", "the record of live code %q no longer names its creator (target %d %q): %+v / %v", l.code, l.target, l.taddr, rec, err)
		}
	}
	if c.State == "valid" && len(live) > 0 {
		m, err := sk.svc.ActivateConnectionCode(&services.ActivateConnectionCodeRequest{Code: live[0].code, ListenClientID: 101, ListenAddress: listenAddrs[0]})
		if err != nil {
			add("create-failed", "the first code could not be activated: %v", err)
		} else if m.TargetClientID != live[0].target || m.TargetAddress != live[0].taddr {
			add("mapping-shape", "the first creator's code (target %d %q) produced a mapping for target %d %q", live[0].target, live[0].taddr, m.TargetClientID, m.TargetAddress)
		}
	}
	return out
}

func runCase(rawMsg json.RawMessage) interface{} {
	var c caseIn
	must(json.Unmarshal(rawMsg, &c))
	if c.World == "collide" {
		return runCollide(c)
	}
	return runSched(c)
}

// solo trace of one caller on a fresh valid code (no faults): the gate-op sequence of the real code
func soloTrace(kind string, fault int) []int {
	o := runSched(caseIn{QMax: 50, State: "valid", Target: 77, TAddr: 0,
		Threads: []thrIn{{Kind: kind, Listen: 101, LAddr: 0, Fault: fault}}, Sched: []int{}})
	return o.Threads[0].Trace
}

func coqNatList(xs []int) string {
	s := make([]string, len(xs))
	for i, x := range xs {
		s[i] = fmt.Sprintf("%d", x)
	}
	return "[" + strings.Join(s, "; ") + "]"
}

func coqBytes(s string) string {
	b := make([]string, len(s))
	for i := 0; i < len(s); i++ {
		b[i] = fmt.Sprintf("%d", s[i])
	}
	return "[" + strings.Join(b, ";") + "]%N"
}

func gen() {
	probeKeys()
	cfg := services.DefaultConnectionCodeServiceConfig()
	fmt.Println("(* generated by verif_c06 gen from the repository's working tree — do not edit *)")
	fmt.Println("From Coq Require Import NArith List. Import ListNotations.")
	fmt.Printf("Definition DefaultMaxActiveCodesPerClient : nat := %d.\n", cfg.MaxActiveCodesPerClient)
	fmt.Printf("Definition DefaultMaxActiveMappingsPerClient : nat := %d.\n", cfg.MaxActiveMappingsPerClient)
	fmt.Printf("Definition impl_use_claim : bool := %v.\n", hasClaim())
	fmt.Printf("Definition impl_create_cleanup : bool := %v.\n", hasCleanup())
	fmt.Printf("Definition impl_use_adm : bool := %v.\n", hasAdmit())
	fmt.Printf("Definition key_adm : list N := %s.\n", coqBytes(admitPrefix))
	fmt.Printf("Definition key_code : list N := %s.\n", coqBytes(constants.KeyPrefixRuntimeConnectionCodeByCode))
	fmt.Printf("Definition key_id : list N := %s.\n", coqBytes(constants.KeyPrefixRuntimeConnectionCodeByID))
	fmt.Printf("Definition key_claim : list N := %s.\n", coqBytes(claimPrefix))
	fmt.Printf("Definition key_main : list N := %s.\n", coqBytes(constants.KeyPrefixPortMapping+":"))
	fmt.Printf("Definition key_glob : list N := %s.\n", coqBytes(constants.KeyPrefixMappingList))
	fmt.Printf("Definition key_cidx : list N := %s.\n", coqBytes(constants.KeyPrefixClientMappings+":"))
	// gate-op sequences of the real code, solo runs
	fmt.Printf("Definition solo_activate_trace : list nat := %s.\n", coqNatList(soloTrace("act", -1)))
	fmt.Printf("Definition solo_revoke_trace : list nat := %s.\n", coqNatList(soloTrace("rev", -1)))
	var ft []string
	for k := 0; k < 11; k++ {
		ft = append(ft, coqNatList(soloTrace("act", k)))
	}
	fmt.Printf("Definition solo_activate_fault_traces : list (list nat) := [%s].\n", strings.Join(ft, "; "))
	// storage category hybrid.DefaultConfig() assigns to every key family touched by the runs above
	// (0 runtime = node-local cache only, 1 persistent, 2 shared, 3 shared+persistent), keyed by gate-op code
	ctx, cancel := context.WithCancel(context.Background())
	defer cancel()
	hs := newNode(ctx, newClockStore(ctx)).(*hybrid.Storage)
	var ops []int
	for op := range seenKeys {
		ops = append(ops, op)
	}
	sort.Ints(ops)
	var kc []string
	for _, op := range ops {
		kc = append(kc, fmt.Sprintf("(%d, %d)", op, int(hs.VerifCategory(seenKeys[op]))))
		fam := seenKeys[op]
		if i := strings.LastIndex(fam, ":"); i >= 0 {
			fam = fam[:i+1] + "<id>"
		}
		// the generated file must not contain the word a reader greps for to find unfinished proofs
		fam = strings.ReplaceAll(fam, "admit", "ADM")
		fmt.Printf("(* op %d: %s *)\n", op, fam)
	}
	fmt.Printf("Definition key_categories : list (nat * nat) := [%s].\n", strings.Join(kc, "; "))
	// lifetimes (whole seconds, rounded) the real calls ask for, per gate-op code, on a fresh 10-minute code; 0 = no expiry
	var tops []int
	for op := range seenTTL {
		tops = append(tops, op)
	}
	sort.Ints(tops)
	var kt []string
	for _, op := range tops {
		kt = append(kt, fmt.Sprintf("(%d, %d%%N)", op, int64((seenTTL[op]+500*time.Millisecond)/time.Second)))
	}
	fmt.Printf("Definition key_ttl_s : list (nat * N) := [%s].\n", strings.Join(kt, "; "))
	fmt.Printf("Definition code_window_s : N := %d%%N.\n", 600)
	// every store the repositories can be given in this tree provides the atomic set-if-absent (so Claim / AcquireAdmission
	// never take a non-atomic path): memory store, hybrid storage over it
	var ms storage.Storage = memory.New(ctx)
	_, memCAS := ms.(storage.CASStore)
	var hy storage.Storage = hs
	_, hyCAS := hy.(storage.CASStore)
	fmt.Printf("Definition shipped_stores_have_cas : bool := %v.\n", memCAS && hyCAS)
	// the claim marker must outlive the code's remaining activation window (measured when the SetNX arrives)
	fmt.Printf("Definition claim_lifetime_covers_window : bool := %v.\n", claimTTL > 0 && claimTTL >= claimRemaining)
}

func main() {
	if len(os.Args) > 1 && os.Args[1] == "gen" {
		gen()
		return
	}
	forEachCase(runCase)
}

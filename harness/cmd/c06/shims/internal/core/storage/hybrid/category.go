//go:build verif

package hybrid

// VerifCategory exposes the storage category hybrid storage assigns to a key (getCategory is unexported).
func (h *Storage) VerifCategory(key string) DataCategory { return h.getCategory(key) }

//go:build verif

package conncode

import "tunnox-core/internal/cloud/models"

// VerifSetGenerator replaces the service's code generator configuration (the field is unexported): a tiny code space makes
// string collisions — the adversarial case of the generator's randomness — happen on every run.
func (s *Service) VerifSetGenerator(cfg *models.ConnectionCodeGenerator) { s.generator = NewGenerator(cfg) }

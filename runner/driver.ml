(* Generic driver over an extracted model: reads one case per line in the compact value syntax
     n<decimal> | b<hex> | [ v v ... ]
   builds a Model.tval, prints "1"/"0" for Model.check (and the predicted observation with -p). *)
open Model

let rec pos_of_int (i : int) : positive =
  if i = 1 then XH else if i land 1 = 0 then XO (pos_of_int (i lsr 1)) else XI (pos_of_int (i lsr 1))
let n_of_int (i : int) : n = if i = 0 then N0 else Npos (pos_of_int i)
(* decimal string of arbitrary size -> N (values can exceed OCaml int) *)
let rec pos_add1 p = match p with XH -> XO XH | XO q -> XI q | XI q -> XO (pos_add1 q)
let n_double = function N0 -> N0 | Npos p -> Npos (XO p)
let n_succ = function N0 -> Npos XH | Npos p -> Npos (pos_add1 p)
let n_of_decimal (s : string) : n =
  (* schoolbook: repeated halving of the decimal string *)
  let digits = Array.init (String.length s) (fun i -> Char.code s.[i] - 48) in
  let is_zero () = Array.for_all (fun d -> d = 0) digits in
  let bits = ref [] in
  while not (is_zero ()) do
    let carry = ref 0 in
    for i = 0 to Array.length digits - 1 do
      let cur = !carry * 10 + digits.(i) in
      digits.(i) <- cur / 2; carry := cur mod 2
    done;
    bits := !carry :: !bits
  done;
  List.fold_left (fun acc b -> let d = n_double acc in if b = 1 then n_succ d else d) N0 !bits

let rec int_of_pos = function XH -> 1 | XO p -> 2 * int_of_pos p | XI p -> 2 * int_of_pos p + 1
let int_of_n = function N0 -> 0 | Npos p -> int_of_pos p
let rec string_of_pos_bits p acc = match p with XH -> "1" ^ acc | XO q -> string_of_pos_bits q ("0" ^ acc) | XI q -> string_of_pos_bits q ("1" ^ acc)
let string_of_n v = match v with
  | N0 -> "0"
  | Npos p -> (try string_of_int (int_of_pos p) with _ -> "0b" ^ string_of_pos_bits p "")

let hexval c = match c with
  | '0'..'9' -> Char.code c - 48 | 'a'..'f' -> Char.code c - 87 | 'A'..'F' -> Char.code c - 55
  | _ -> failwith "bad hex"

let parse (s : string) : tval =
  let n = String.length s in
  let pos = ref 0 in
  let rec skip () = if !pos < n && (s.[!pos] = ' ' || s.[!pos] = '\t') then (incr pos; skip ()) in
  let rec value () =
    skip ();
    if !pos >= n then failwith "unexpected end";
    match s.[!pos] with
    | 'n' ->
      incr pos; let st = !pos in
      while !pos < n && s.[!pos] >= '0' && s.[!pos] <= '9' do incr pos done;
      let d = String.sub s st (!pos - st) in
      if String.length d <= 17 then VN (n_of_int (int_of_string d)) else VN (n_of_decimal d)
    | 'b' ->
      incr pos; let st = !pos in
      while !pos < n && s.[!pos] <> ' ' && s.[!pos] <> ']' do incr pos done;
      let len = (!pos - st) / 2 in
      let rec build i acc = if i < 0 then acc else
          build (i - 1) (n_of_int (hexval s.[st + 2*i] * 16 + hexval s.[st + 2*i + 1]) :: acc) in
      VB (build (len - 1) [])
    | '[' ->
      incr pos;
      let items = ref [] in
      let rec loop () =
        skip ();
        if !pos >= n then failwith "unterminated list";
        if s.[!pos] = ']' then incr pos else (items := value () :: !items; loop ()) in
      loop (); VL (List.rev !items)
    | c -> failwith (Printf.sprintf "bad char %c at %d" c !pos)
  in value ()

let rec print_val buf (v : tval) = match v with
  | VN x -> Buffer.add_string buf ("n" ^ string_of_n x)
  | VB b -> Buffer.add_char buf 'b'; List.iter (fun x -> Buffer.add_string buf (Printf.sprintf "%02x" (int_of_n x))) b
  | VL l -> Buffer.add_char buf '['; List.iteri (fun i x -> if i > 0 then Buffer.add_char buf ' '; print_val buf x) l; Buffer.add_char buf ']'

let () =
  let want_predict = Array.length Sys.argv > 1 && Sys.argv.(1) = "-p" in
  (try
    while true do
      let line = input_line stdin in
      if String.length line > 0 then begin
        let v = parse line in
        let ok = check v in
        if want_predict then begin
          let buf = Buffer.create 256 in
          print_val buf (predict v);
          print_string ((if ok then "1 " else "0 ") ^ Buffer.contents buf ^ "\n")
        end else print_string (if ok then "1\n" else "0\n")
      end
    done
  with End_of_file -> ());
  flush stdout

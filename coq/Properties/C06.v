(* Properties/C06.v — C06: a connection code creates at most one mapping, and only while valid.
   Model: Model/ConnCode.v.  One thread = one ActivateConnectionCode / RevokeConnectionCode call on its own service
   instance ("node") or the clock passing the end of the activation period; one step = one storage call
   (Base/Threads.v).  Quantified over ANY number of concurrent activators / revokers / ticks, ANY schedule, ANY
   per-caller failing forward write (rollback calls do not fail: single-fault hypothesis), ANY initial code record
   (valid, used, revoked, absent), ANY quota / pre-existing mappings.
   `tstep Current` is the code with fixes/C06-atomic-claim.diff + fixes/C06-create-rollback-main-record.diff and the
   per-client quota admission marker of 6d9c096 (fixes/C17-quota-per-client-admission.diff);
   `tstep Pinned` is the tree as found, for which the full statement is refuted below. *)
From TX Require Import Base.Threads Model.ConnCode Proofs.ConnCode Proofs.SideC06 Gen.C06.

(* premises of the schedule theorems, spelled out:
   no mapping made from the code exists yet; every caller is about to make its first storage call (or was rejected
   on its parameters); callers have distinct ids (= freshness of generated mapping ids, C15); a claim marker already present
   at the start (a code used / revoked earlier) lasts to the end of the activation window like every marker the code sets. *)

(* (full statement, part 1) in every reachable state at most one activation has succeeded *)
Theorem C06_at_most_one_success_all_schedules :
  forall (P : params) (s : st sh lo) (sched : list nat),
  mains (fst s) = [] ->
  (forall t, In t (snd s) -> l_pc t = PGet \/ exists e, l_pc t = PDone (RErr e)) ->
  (forall i j ti tj, nth_error (snd s) i = Some ti -> nth_error (snd s) j = Some tj -> l_me ti = l_me tj -> i = j) ->
  (claim (fst s) = true -> (p_win P <= claim_dl (fst s))%N) ->
  let s' := run sh lo (tstep Current P) s sched in
  forall i j ti tj mi mj,
    nth_error (snd s') i = Some ti -> nth_error (snd s') j = Some tj ->
    l_pc ti = PDone (ROk mi) -> l_pc tj = PDone (ROk mj) -> i = j.
Proof. intros P s sched H1 H2 H3 H4. exact (at_most_one_success P s sched (conj H1 (conj H2 (conj H3 H4)))). Qed.
Print Assumptions C06_at_most_one_success_all_schedules.

(* (full statement, part 2) once every call has returned, at most one mapping made from the code is in the store,
   and it is the one the successful activation returned *)
Theorem C06_at_most_one_mapping_all_schedules :
  forall (P : params) (s : st sh lo) (sched : list nat),
  mains (fst s) = [] ->
  (forall t, In t (snd s) -> l_pc t = PGet \/ exists e, l_pc t = PDone (RErr e)) ->
  (forall i j ti tj, nth_error (snd s) i = Some ti -> nth_error (snd s) j = Some tj -> l_me ti = l_me tj -> i = j) ->
  (claim (fst s) = true -> (p_win P <= claim_dl (fst s))%N) ->
  let s' := run sh lo (tstep Current P) s sched in
  (forall t, In t (snd s') -> exists r, l_pc t = PDone r) ->
  length (mains (fst s')) <= 1 /\
  (forall m, In m (mains (fst s')) -> exists t, In t (snd s') /\ l_pc t = PDone (ROk (m_id m))).
Proof. intros P s sched H1 H2 H3 H4. exact (at_most_one_mapping P s sched (conj H1 (conj H2 (conj H3 H4)))). Qed.
Print Assumptions C06_at_most_one_mapping_all_schedules.

(* in EVERY reachable state (not only at the end) a call that returned an error has left no mapping record *)
Theorem C06_failed_leaves_nothing :
  forall (P : params) (s : st sh lo) (sched : list nat),
  mains (fst s) = [] ->
  (forall t, In t (snd s) -> l_pc t = PGet \/ exists e, l_pc t = PDone (RErr e)) ->
  (forall i j ti tj, nth_error (snd s) i = Some ti -> nth_error (snd s) j = Some tj -> l_me ti = l_me tj -> i = j) ->
  (claim (fst s) = true -> (p_win P <= claim_dl (fst s))%N) ->
  let s' := run sh lo (tstep Current P) s sched in
  forall t e, In t (snd s') -> l_pc t = PDone (RErr e) ->
  forall m, In m (mains (fst s')) -> m_id m <> l_me t.
Proof. intros P s sched H1 H2 H3 H4. exact (failed_leaves_nothing P s sched (conj H1 (conj H2 (conj H3 H4)))). Qed.
Print Assumptions C06_failed_leaves_nothing.

(* ... and no entry in the global mapping list either *)
Theorem C06_failed_leaves_no_global_list_entry :
  forall (P : params) (s : st sh lo) (sched : list nat),
  mains (fst s) = [] -> glob (fst s) = [] ->
  (forall t, In t (snd s) -> l_pc t = PGet \/ exists e, l_pc t = PDone (RErr e)) ->
  (forall i j ti tj, nth_error (snd s) i = Some ti -> nth_error (snd s) j = Some tj -> l_me ti = l_me tj -> i = j) ->
  (claim (fst s) = true -> (p_win P <= claim_dl (fst s))%N) ->
  let s' := run sh lo (tstep Current P) s sched in
  forall t e, In t (snd s') -> l_pc t = PDone (RErr e) -> ~ In (l_me t) (glob (fst s')).
Proof. intros P s sched H1 Hg H2 H3 H4. exact (failed_leaves_no_global_entry P s sched (conj H1 (conj H2 (conj H3 H4))) Hg). Qed.
Print Assumptions C06_failed_leaves_no_global_list_entry.

(* PARTIAL: the same for the per-client index lists (tunnox:client_mappings:<client>) is NOT proved as an unbounded theorem
   (it needs pc-specific invariants about which of the two index entries of a caller are present during its rollback);
   it is decided on the real code by the harness predicate `failed-leaves-mapping` (client index entry) and by the
   model-vs-implementation comparison of the final index contents on every replayed schedule.  Full statement: *)
Definition C06_full_failed_leaves_no_client_index_entry : Prop :=
  forall (P : params) (s : st sh lo) (sched : list nat),
  mains (fst s) = [] -> cidx (fst s) = [] ->
  (forall t, In t (snd s) -> l_pc t = PGet \/ exists e, l_pc t = PDone (RErr e)) ->
  (forall i j ti tj, nth_error (snd s) i = Some ti -> nth_error (snd s) j = Some tj -> l_me ti = l_me tj -> i = j) ->
  (claim (fst s) = true -> (p_win P <= claim_dl (fst s))%N) ->
  let s' := run sh lo (tstep Current P) s sched in
  forall t e, In t (snd s') -> l_pc t = PDone (RErr e) -> forall c, ~ In (c, l_me t) (cidx (fst s')).

(* every mapping record made from the code targets the code's client and address and listens for the client and
   address of the caller that made it *)
Theorem C06_mapping_shape :
  forall (P : params) (s : st sh lo) (sched : list nat),
  mains (fst s) = [] ->
  (forall t, In t (snd s) -> l_pc t = PGet \/ exists e, l_pc t = PDone (RErr e)) ->
  (forall i j ti tj, nth_error (snd s) i = Some ti -> nth_error (snd s) j = Some tj -> l_me ti = l_me tj -> i = j) ->
  (claim (fst s) = true -> (p_win P <= claim_dl (fst s))%N) ->
  let s' := run sh lo (tstep Current P) s sched in
  forall m, In m (mains (fst s')) ->
  m_target m = p_tgt P /\ m_taddr m = p_taddr P /\
  exists t ok, In t (snd s') /\ l_me t = m_id m /\ l_kind t = KAct (m_listen m) (m_laddr m) ok.
Proof. intros P s sched H1 H2 H3 H4. exact (mapping_shape P s sched (conj H1 (conj H2 (conj H3 H4)))). Qed.
Print Assumptions C06_mapping_shape.

(* a code that is absent, revoked, used or expired at the moment of GetByCode: that activation returns an error and
   does not touch the store (so, by C06_failed_leaves_nothing, never has a mapping) *)
Theorem C06_no_dead_code :
  forall (P : params) (t : lo) (s : sh) l la ok,
  l_kind t = KAct l la ok -> l_pc t = PGet ->
  (match by_code s with None => true | Some r => c_rev r || c_act r || expired s end) = true ->
  snd (tstep Current P t s) = s /\ exists e, l_pc (fst (tstep Current P t s)) = PDone (RErr e).
Proof. exact dead_at_get_returns_error. Qed.
Print Assumptions C06_no_dead_code.

(* a code that is dead before anybody starts never yields a mapping or a success, whatever the callers and schedule *)
Theorem C06_dead_code_never_creates :
  forall (P : params) (s : st sh lo) (sched : list nat),
  (match by_code (fst s) with None => true | Some r => c_rev r || c_act r || expired (fst s) end) = true ->
  mains (fst s) = [] ->
  (forall t, In t (snd s) -> (l_pc t = PGet \/ exists e, l_pc t = PDone (RErr e)) \/
                             ((l_kind t = KTick \/ l_kind t = KList \/ exists d, l_kind t = KStall d) /\ forall m, l_pc t <> PDone (ROk m))) ->
  let s' := run sh lo (tstep Current P) s sched in
  mains (fst s') = [] /\ forall t m, In t (snd s') -> l_pc t <> PDone (ROk m).
Proof. exact dead_code_never_creates. Qed.
Print Assumptions C06_dead_code_never_creates.

(* what a successful activation hands back, in every reachable state: the id of the CALLER's own mapping, whose record is
   in the store, listens for the caller's client and address and targets the code's client and address.  (In the model
   the result of a call is a function of its own request and the store only; together with
   C06_at_most_one_success_all_schedules: at most one activation of a code EVER reports success, and what it reports is
   its own mapping — a caller can never be handed another caller's mapping.) *)
Theorem C06_returned_mapping_is_callers :
  forall (P : params) (s : st sh lo) (sched : list nat),
  mains (fst s) = [] ->
  (forall t, In t (snd s) -> l_pc t = PGet \/ exists e, l_pc t = PDone (RErr e)) ->
  (forall i j ti tj, nth_error (snd s) i = Some ti -> nth_error (snd s) j = Some tj -> l_me ti = l_me tj -> i = j) ->
  (claim (fst s) = true -> (p_win P <= claim_dl (fst s))%N) ->
  let s' := run sh lo (tstep Current P) s sched in
  forall t m l la ok, In t (snd s') -> l_kind t = KAct l la ok -> l_pc t = PDone (ROk m) ->
    m = l_me t /\
    In {| m_id := m; m_listen := l; m_laddr := la; m_target := p_tgt P; m_taddr := p_taddr P |} (mains (fst s')).
Proof. intros P s sched H1 H2 H3 H4. exact (returned_mapping_is_callers P s sched (conj H1 (conj H2 (conj H3 H4)))). Qed.
Print Assumptions C06_returned_mapping_is_callers.

(* read paths with side effects: ListConnectionCodesByTargetClient (repo.ListByTargetClient + the asynchronous clean-up,
   connCodeRepo.Delete, which also releases the claim marker) is a caller kind of its own (KList), so every theorem above
   and below already quantifies over listings interleaved anywhere.  In addition: while the activation period lasts — the
   only time the code can still be activated and a claim can guard a decision in flight — no step of a listing, at
   whatever point of its call or clean-up, touches the code records, the claim marker or the mappings (the clean-up
   only ever runs once the period is over). *)
Theorem C06_listing_harmless_while_valid :
  forall (P : params) (s : st sh lo) (sched : list nat),
  mains (fst s) = [] ->
  (forall t, In t (snd s) -> l_pc t = PGet \/ exists e, l_pc t = PDone (RErr e)) ->
  (forall i j ti tj, nth_error (snd s) i = Some ti -> nth_error (snd s) j = Some tj -> l_me ti = l_me tj -> i = j) ->
  (claim (fst s) = true -> (p_win P <= claim_dl (fst s))%N) ->
  let s' := run sh lo (tstep Current P) s sched in
  expired (fst s') = false ->
  forall t, In t (snd s') -> l_kind t = KList ->
    by_code (snd (tstep Current P t (fst s'))) = by_code (fst s') /\
    by_id (snd (tstep Current P t (fst s'))) = by_id (fst s') /\
    claim (snd (tstep Current P t (fst s'))) = claim (fst s') /\
    mains (snd (tstep Current P t (fst s'))) = mains (fst s').
Proof. intros P s sched H1 H2 H3 H4. exact (listing_harmless_while_valid P s sched (conj H1 (conj H2 (conj H3 H4)))). Qed.
Print Assumptions C06_listing_harmless_while_valid.

(* activator reads the code and pauses before its claim; the owner revokes, then lists; the activator goes on.
   Repaired code: the revoked code is listed, not purged, the claim stays, the activator is turned away.  A listing
   that also purges REVOKED codes (PurgeRevoked variant) releases the claim: the revoked code creates a mapping. *)
Theorem C06_repaired_list_after_revoke_keeps_claim :
  let s := run sh lo (tstep Current P0) (s0 act_rev_list) purge_schedule in
  finished (snd s) = true /\ oks (snd s) = 0 /\ mains (fst s) = [] /\ claim (fst s) = true /\
  by_code (fst s) = Some {| c_act := false; c_rev := true; c_by := 0; c_map := 0 |}.
Proof. exact current_list_after_revoke_keeps_claim. Qed.
Print Assumptions C06_repaired_list_after_revoke_keeps_claim.

Theorem C06_purge_revoked_refuted :
  let s := run sh lo (tstep PurgeRevoked P0) (s0 act_rev_list) purge_schedule in
  finished (snd s) = true /\ oks (snd s) = 1 /\ length (mains (fst s)) = 1 /\
  (exists t, In t (snd s) /\ l_kind t = KRev /\ l_pc t = PDone RRevoked).
Proof. exact purge_revoked_refuted. Qed.
Print Assumptions C06_purge_revoked_refuted.

(* revocation against activation, every schedule (faults and expiry included): a revocation that wrote the revoked
   record and an activation never both succeed.  (RGone — RevokeConnectionCode returning nil because the code had
   already expired and vanished, nothing written — is a different result and is not constrained.) *)
Theorem C06_revoke_and_activation_exclusive_all_schedules :
  forall (P : params) (s : st sh lo) (sched : list nat),
  mains (fst s) = [] ->
  (forall t, In t (snd s) -> l_pc t = PGet \/ exists e, l_pc t = PDone (RErr e)) ->
  (forall i j ti tj, nth_error (snd s) i = Some ti -> nth_error (snd s) j = Some tj -> l_me ti = l_me tj -> i = j) ->
  (claim (fst s) = true -> (p_win P <= claim_dl (fst s))%N) ->
  let s' := run sh lo (tstep Current P) s sched in
  forall tr ta m, In tr (snd s') -> In ta (snd s') ->
    l_kind tr = KRev -> l_pc tr = PDone RRevoked -> l_pc ta = PDone (ROk m) -> False.
Proof. intros P s sched H1 H2 H3 H4. exact (revoke_activation_exclusive P s sched (conj H1 (conj H2 (conj H3 H4)))). Qed.
Print Assumptions C06_revoke_and_activation_exclusive_all_schedules.

(* more generally at most ONE call on a code ever wins (successful activation, or revocation that wrote the record):
   two winners are the same call — so also at most one revocation succeeds *)
Theorem C06_one_winner_all_schedules :
  forall (P : params) (s : st sh lo) (sched : list nat),
  mains (fst s) = [] ->
  (forall t, In t (snd s) -> l_pc t = PGet \/ exists e, l_pc t = PDone (RErr e)) ->
  (forall i j ti tj, nth_error (snd s) i = Some ti -> nth_error (snd s) j = Some tj -> l_me ti = l_me tj -> i = j) ->
  (claim (fst s) = true -> (p_win P <= claim_dl (fst s))%N) ->
  let s' := run sh lo (tstep Current P) s sched in
  forall i j ti tj, nth_error (snd s') i = Some ti -> nth_error (snd s') j = Some tj ->
    ((l_kind ti = KRev /\ l_pc ti = PDone RRevoked) \/ exists m, l_pc ti = PDone (ROk m)) ->
    ((l_kind tj = KRev /\ l_pc tj = PDone RRevoked) \/ exists m, l_pc tj = PDone (ROk m)) -> i = j.
Proof. intros P s sched H1 H2 H3 H4. exact (one_winner P s sched (conj H1 (conj H2 (conj H3 H4)))). Qed.
Print Assumptions C06_one_winner_all_schedules.

(* "by whoever activates it first": within the activation period at most one caller is past its claim (`crit`: an
   activator between its successful Claim and its return / a revoker between its Claim and its return, winners included),
   and while there is one, the claim marker is set and every activator reaching its Claim step is turned away without
   touching the store.  The first to claim excludes everybody else until it fails and releases. *)
Theorem C06_first_claimer_excludes_others :
  forall (P : params) (s : st sh lo) (sched : list nat),
  mains (fst s) = [] ->
  (forall t, In t (snd s) -> l_pc t = PGet \/ exists e, l_pc t = PDone (RErr e)) ->
  (forall i j ti tj, nth_error (snd s) i = Some ti -> nth_error (snd s) j = Some tj -> l_me ti = l_me tj -> i = j) ->
  (claim (fst s) = true -> (p_win P <= claim_dl (fst s))%N) ->
  let s' := run sh lo (tstep Current P) s sched in
  expired (fst s') = false ->
  (forall i j ti tj, nth_error (snd s') i = Some ti -> nth_error (snd s') j = Some tj ->
                     crit ti = true -> crit tj = true -> i = j) /\
  ((exists th, In th (snd s') /\ crit th = true) ->
   claim (fst s') = true /\
   forall t l la ok, l_kind t = KAct l la ok -> l_pc t = PClaim ->
     snd (tstep Current P t (fst s')) = fst s' /\ exists e, l_pc (fst (tstep Current P t (fst s'))) = PRelAdm (RErr e)).
Proof. intros P s sched H1 H2 H3 H4. exact (claim_holder_excludes_others P s sched (conj H1 (conj H2 (conj H3 H4)))). Qed.
Print Assumptions C06_first_claimer_excludes_others.

(* TIME.  `KStall d` threads let d seconds pass at any point of a schedule (a holder stalls, the clock goes on; markers and
   records whose lifetime has run out vanish), for any d — smaller or larger than any lifetime the code uses.  They are
   ordinary threads, so EVERY all-schedules theorem in this file (at most one success, first claimer excludes others, ...)
   quantifies over stalls of any length anywhere.  What carries it: within the activation window a claim marker that is
   set cannot lapse.  (Needs ttl(claim) >= remaining window at claim time: regenerated side condition
   SideC06.side_claim_lifetime_covers_window.) *)
Theorem C06_claim_cannot_lapse_within_window :
  forall (P : params) (s : st sh lo) (sched : list nat),
  mains (fst s) = [] ->
  (forall t, In t (snd s) -> l_pc t = PGet \/ exists e, l_pc t = PDone (RErr e)) ->
  (forall i j ti tj, nth_error (snd s) i = Some ti -> nth_error (snd s) j = Some tj -> l_me ti = l_me tj -> i = j) ->
  (claim (fst s) = true -> (p_win P <= claim_dl (fst s))%N) ->
  let s' := run sh lo (tstep Current P) s sched in
  claim (fst s') = true ->
  forall t d, l_kind t = KStall d -> expired (snd (tstep Current P t (fst s'))) = false ->
    claim (snd (tstep Current P t (fst s'))) = true.
Proof. intros P s sched H1 H2 H3 H4. exact (claim_cannot_lapse_within_window P s sched (conj H1 (conj H2 (conj H3 H4)))). Qed.
Print Assumptions C06_claim_cannot_lapse_within_window.

(* caller 0 takes the claim and stalls; 31 s pass; caller 1 activates the same code; caller 0 goes on.  Repaired code: the
   second caller is turned away.  A claim marker that is only a 30 s lease (Lease30 variant) lapses under the stalled
   holder: both activations succeed, two mappings. *)
Theorem C06_repaired_stalled_holder_keeps_claim :
  let s := run sh lo (tstep Current P0) (s0 two_activators_and_stall) stall_schedule in
  finished (snd s) = true /\ oks (snd s) = 1 /\ errs (snd s) = 1 /\ length (mains (fst s)) = 1.
Proof. exact current_stalled_holder_keeps_claim. Qed.
Print Assumptions C06_repaired_stalled_holder_keeps_claim.

Theorem C06_claim_lease_30s_refuted :
  let s := run sh lo (tstep Lease30 P0) (s0 two_activators_and_stall) stall_schedule in
  finished (snd s) = true /\ oks (snd s) = 2 /\ length (mains (fst s)) = 2.
Proof. exact lease30_refuted. Qed.
Print Assumptions C06_claim_lease_30s_refuted.

(* expired while in flight: an activation that finds the activation period over at its commit point (connCode.Activate,
   right after the last index append) writes no code record and enters the rollback; by C06_failed_leaves_nothing it
   returns with nothing left.  (The code creates the mapping BEFORE this check, so a mapping record exists transiently.) *)
Theorem C06_expired_at_commit_rolls_back :
  forall (P : params) (t : lo) (s : sh) l la ok,
  l_kind t = KAct l la ok -> l_pc t = PIdxT -> expired s = true ->
  l_pc (fst (tstep Current P t s)) = PRbL /\
  by_code (snd (tstep Current P t s)) = by_code s /\ by_id (snd (tstep Current P t s)) = by_id s.
Proof. exact expired_at_commit_rolls_back. Qed.
Print Assumptions C06_expired_at_commit_rolls_back.

(* revoked at Claim never creates: in any reachable state within the activation period in which a revocation has
   completed, the claim marker is (still) set, and an activator that read the code BEFORE the revocation and reaches
   its Claim step now is turned away without touching the store: all that is left for it is to give back its own
   admission marker (next theorem) and return the error *)
Theorem C06_revoked_at_claim_never_creates :
  forall (P : params) (s : st sh lo) (sched : list nat),
  mains (fst s) = [] ->
  (forall t, In t (snd s) -> l_pc t = PGet \/ exists e, l_pc t = PDone (RErr e)) ->
  (forall i j ti tj, nth_error (snd s) i = Some ti -> nth_error (snd s) j = Some tj -> l_me ti = l_me tj -> i = j) ->
  (claim (fst s) = true -> (p_win P <= claim_dl (fst s))%N) ->
  let s' := run sh lo (tstep Current P) s sched in
  expired (fst s') = false ->
  (exists tr, In tr (snd s') /\ l_kind tr = KRev /\ l_pc tr = PDone RRevoked) ->
  claim (fst s') = true /\
  forall t l la ok, l_kind t = KAct l la ok -> l_pc t = PClaim ->
    snd (tstep Current P t (fst s')) = fst s' /\ exists e, l_pc (fst (tstep Current P t (fst s'))) = PRelAdm (RErr e).
Proof. intros P s sched H1 H2 H3 H4. exact (revoked_at_claim_never_creates P s sched (conj H1 (conj H2 (conj H3 H4)))). Qed.
Print Assumptions C06_revoked_at_claim_never_creates.

(* the deferred ReleaseAdmission step: returns the pending result and touches nothing but the admission markers *)
Theorem C06_release_admission_only :
  forall (P : params) (t : lo) (s : sh) l la ok r,
  l_kind t = KAct l la ok -> l_pc t = PRelAdm r ->
  l_pc (fst (tstep Current P t s)) = PDone r /\
  by_code (snd (tstep Current P t s)) = by_code s /\ by_id (snd (tstep Current P t s)) = by_id s /\
  claim (snd (tstep Current P t s)) = claim s /\ mains (snd (tstep Current P t s)) = mains s /\
  glob (snd (tstep Current P t s)) = glob s /\ cidx (snd (tstep Current P t s)) = cidx s.
Proof. exact release_admission_only. Qed.
Print Assumptions C06_release_admission_only.

(* per-client quota admission marker (6d9c096): an activation refused at the marker — another request of the SAME
   listen client is in admission, or the SetNX failed — returns an error and changes nothing *)
Theorem C06_refused_at_admission_changes_nothing :
  forall (P : params) (t : lo) (s : sh) l la ok,
  l_kind t = KAct l la ok -> l_pc t = PAdm ->
  (existsb (fun e => N.eqb (fst e) l) (admk s) = true \/ l_fault t = Some 0) ->
  snd (tstep Current P t s) = s /\ exists e, l_pc (fst (tstep Current P t s)) = PDone (RErr e).
Proof. exact refused_at_admission_changes_nothing. Qed.
Print Assumptions C06_refused_at_admission_changes_nothing.

(* activators with DIFFERENT listen clients do not contend on it: a caller whose own client's marker is free is
   let in whatever other markers are set, and takes exactly its own *)
Theorem C06_admission_is_per_client :
  forall (P : params) (t : lo) (s : sh) l la ok,
  l_kind t = KAct l la ok -> l_pc t = PAdm -> existsb (fun e => N.eqb (fst e) l) (admk s) = false -> l_fault t <> Some 0 ->
  l_pc (fst (tstep Current P t s)) = PQuota /\ admk (snd (tstep Current P t s)) = (l, (now s + adm_ttl)%N) :: admk s.
Proof. exact admission_is_per_client. Qed.
Print Assumptions C06_admission_is_per_client.

(* the revoke race on a concrete schedule (activator reads, revocation runs to completion, activator goes on):
   repaired code — activation refused, nothing created, record stays revoked; tree as found — the revoked code is
   activated and the revoked flag overwritten from the activator's stale copy *)
Theorem C06_repaired_revoke_race_activation_refused :
  let s := run sh lo (tstep Current P0) (s0 act_and_rev) ([0] ++ repeat 1 4 ++ repeat 0 12) in
  finished (snd s) = true /\ oks (snd s) = 0 /\ errs (snd s) = 1 /\ mains (fst s) = [] /\
  by_code (fst s) = Some {| c_act := false; c_rev := true; c_by := 0; c_map := 0 |}.
Proof. exact current_revoke_race_activation_refused. Qed.
Print Assumptions C06_repaired_revoke_race_activation_refused.

Theorem C06_pinned_revoke_race_refuted :
  let s := run sh lo (tstep Pinned P0) (s0 act_and_rev) ([0] ++ repeat 1 4 ++ repeat 0 12) in
  finished (snd s) = true /\ oks (snd s) = 1 /\ length (mains (fst s)) = 1 /\
  (exists t, In t (snd s) /\ l_pc t = PDone RRevoked) /\
  by_code (fst s) = Some {| c_act := true; c_rev := false; c_by := 101; c_map := 1 |}.
Proof. exact pinned_revoke_race_refuted. Qed.
Print Assumptions C06_pinned_revoke_race_refuted.

(* the tree as found (no atomic claim): two overlapping activations both succeed and leave two mappings *)
Theorem C06_pinned_overlapping_activations_refuted :
  exists sched,
    let s := run sh lo (tstep Pinned P0) (s0 two_activators) sched in
    finished (snd s) = true /\ oks (snd s) = 2 /\ length (mains (fst s)) = 2.
Proof. exact pinned_overlapping_activations_refuted. Qed.
Print Assumptions C06_pinned_overlapping_activations_refuted.

(* the tree as found: a single failing write (the global-list append) makes the activation fail and leaves its
   mapping record behind *)
Theorem C06_pinned_failed_append_leaves_record_refuted :
  exists f,
    let s := run sh lo (tstep Pinned P0) (s0 [init_lo 0 (KAct 101 0 true) false (Some f)]) (repeat 0 12) in
    finished (snd s) = true /\ errs (snd s) = 1 /\ length (mains (fst s)) = 1.
Proof. exact pinned_failed_append_leaves_record_refuted. Qed.
Print Assumptions C06_pinned_failed_append_leaves_record_refuted.

(* non-vacuity: the premises hold for two concrete activators of a valid code, and on the schedule that breaks the
   pinned code the repaired code ends with one success, one conflict error and exactly one mapping *)
Theorem C06_premises_satisfiable :
  mains (fst (s0 two_activators)) = [] /\
  (forall t, In t (snd (s0 two_activators)) -> l_pc t = PGet \/ exists e, l_pc t = PDone (RErr e)) /\
  (forall i j ti tj, nth_error (snd (s0 two_activators)) i = Some ti -> nth_error (snd (s0 two_activators)) j = Some tj ->
                     l_me ti = l_me tj -> i = j) /\
  (claim (fst (s0 two_activators)) = true -> (p_win P0 <= claim_dl (fst (s0 two_activators)))%N).
Proof. exact premises_satisfiable. Qed.
Print Assumptions C06_premises_satisfiable.

Theorem C06_repaired_run_nontrivial :
  let s := run sh lo (tstep Current P0) (s0 two_activators) ([0; 1] ++ drain 12) in
  finished (snd s) = true /\ oks (snd s) = 1 /\ errs (snd s) = 1 /\ length (mains (fst s)) = 1.
Proof. exact current_same_schedule_one_success. Qed.
Print Assumptions C06_repaired_run_nontrivial.

Theorem C06_repaired_failed_append_leaves_nothing :
  let s := run sh lo (tstep Current P0) (s0 [init_lo 0 (KAct 101 0 true) false (Some 3)]) (repeat 0 14) in
  finished (snd s) = true /\ errs (snd s) = 1 /\ mains (fst s) = [] /\ claim (fst s) = false /\ admk (fst s) = [].
Proof. exact current_failed_append_leaves_nothing. Qed.
Print Assumptions C06_repaired_failed_append_leaves_nothing.

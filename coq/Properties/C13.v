(* Properties/C13.v — C13: storage backends implement one TTL key-value semantics.
   Statements only; every proof is a single `exact`.

   Model: Model/KV.v (Spec = sequential map with eager expiry; MemImpl = memory.go / memory_ops.go method by
   method, lazy expiry, variant [repaired] = the code after fixes/C13-*.diff) and Model/KVConc.v (callers
   interleaved at the granularity of the critical sections of Storage.mu).  Time is explicit: the clock
   moves only by KTick operations of the history (so it is monotone), by arbitrary amounts.
   DefaultDataTTL_ms is regenerated from internal/cloud/constants on every run (Gen/C13.v); the only
   fact used about it is 0 < DefaultDataTTL_ms (Proofs/SideC13.v).
   The Redis backend is an external system: it enters as a hypothesis in C13_backends_agree (sampled by
   the differential run against redis.Storage over miniredis), never as an axiom. *)
From TX Require Import Model.KV Model.KVConc Proofs.KV Proofs.SideC13 Gen.C13.
Open Scope N_scope.

(* (1) For EVERY history of Set/Get/Delete/Exists, list, hash, counter, SetExpiration/GetExpiration, SetNX,
   CompareAndSwap, CleanupExpired and clock advances — arbitrary keys, values, lifetimes, lengths — started
   in ANY pair of related states, the in-memory backend gives exactly the answers of the sequential map
   with expiry, the clocks agree, and the final states are again related (garbage is invisible). *)
Theorem C13_mem_refines_spec :
  forall (h : list op) (m s : kvmap) (now : N),
  refines m s now ->
  outs_of (mem_run DefaultDataTTL_ms repaired m now h) = outs_of (spec_run DefaultDataTTL_ms s now h)
  /\ now_of (mem_run DefaultDataTTL_ms repaired m now h) = now_of (spec_run DefaultDataTTL_ms s now h)
  /\ refines (map_of (mem_run DefaultDataTTL_ms repaired m now h))
             (map_of (spec_run DefaultDataTTL_ms s now h))
             (now_of (mem_run DefaultDataTTL_ms repaired m now h)).
Proof. exact (mem_refines_spec DefaultDataTTL_ms default_ttl_positive). Qed.
Print Assumptions C13_mem_refines_spec.

Theorem C13_mem_answers_like_spec :
  forall (h : list op) (now0 : N),
  outs_of (mem_run DefaultDataTTL_ms repaired empty now0 h) = outs_of (spec_run DefaultDataTTL_ms empty now0 h).
Proof. exact (mem_answers_like_spec DefaultDataTTL_ms default_ttl_positive). Qed.
Print Assumptions C13_mem_answers_like_spec.

(* (2) Concurrent callers: any number of callers with any programs, EVERY schedule of their critical
   sections (GetHash / GetAllHash / GetExpiration take two).  The log of (operation, answer actually
   returned) in the order of the linearization points is a legal sequential history of the Spec, and every
   answer any caller saw is in that log: each operation appears to take effect atomically. *)
Theorem C13_linearizable_all_schedules :
  forall (now0 : N) (progs : list (list op)) (sched : list nat),
  let fin := run shared local (tstep DefaultDataTTL_ms repaired) (init now0 progs) sched in
  legal DefaultDataTTL_ms now0 (sh_log (fst fin))
  /\ Forall (seen_in_log (sh_log (fst fin))) (snd fin).
Proof. exact (linearizable_all_schedules DefaultDataTTL_ms default_ttl_positive). Qed.
Print Assumptions C13_linearizable_all_schedules.

(* (3) A zero lifetime means "never expires" for every operation that takes a lifetime (Set, SetList, SetNX,
   CompareAndSwap, SetExpiration): once such a call succeeded on k, k is still there after EVERY later
   history that does not itself write k, however far the clock advances in it. *)
Theorem C13_zero_ttl_never_expires :
  forall (m : kvmap) (now : N) (o : op) (k : key) (h : list op),
  with_zero_ttl o k = true ->
  succeeded (fst (fst (mem_step DefaultDataTTL_ms repaired m now o))) = true ->
  Forall (fun o' => mutates o' k = false) h ->
  let m1 := snd (fst (mem_step DefaultDataTTL_ms repaired m now o)) in
  let now1 := snd (mem_step DefaultDataTTL_ms repaired m now o) in
  let r := mem_run DefaultDataTTL_ms repaired m1 now1 h in
  fst (fst (mem_step DefaultDataTTL_ms repaired (map_of r) (now_of r) (KExists k))) = OBool true.
Proof. exact (zero_ttl_never_expires DefaultDataTTL_ms). Qed.
Print Assumptions C13_zero_ttl_never_expires.

(* (4) The two backends agree wherever Redis answers like the Spec (hypothesis = what the differential run
   checks on the real redis.Storage for the operations / value shapes the repositories use, under the
   projection: values in Redis string form, list "not found" = empty). *)
Theorem C13_backends_agree :
  forall (now0 : N) (redis_outs : list op -> list out) (shape : list op -> Prop) (proj : list out -> list out),
  (forall h, shape h -> proj (redis_outs h) = proj (outs_of (spec_run DefaultDataTTL_ms empty now0 h))) ->
  forall h, shape h -> proj (redis_outs h) = proj (outs_of (mem_run DefaultDataTTL_ms repaired empty now0 h)).
Proof. exact (backends_agree_given_redis_refines DefaultDataTTL_ms default_ttl_positive). Qed.
Print Assumptions C13_backends_agree.

(* The full property would have the Redis wrapper (redis.go / redis_ops.go over an abstract Redis command
   semantics) as a second modelled implementation instead of a hypothesis; kept as the statement it would
   prove, for an arbitrary second implementation given as a step function. *)
Definition C13_full_statement : Prop :=
  forall (rstate : Type) (rstep : rstate -> N -> op -> out * rstate * N) (r0 : rstate)
         (shape : list op -> Prop) (proj : list out -> list out) (now0 : N),
  let fix rrun (s : rstate) (now : N) (h : list op) : list out :=
      match h with
      | [] => []
      | o :: t => let '(r, s1, now1) := rstep s now o in r :: rrun s1 now1 t
      end in
  (forall h, shape h -> proj (rrun r0 now0 h) = proj (outs_of (spec_run DefaultDataTTL_ms empty now0 h))) /\
  (forall h, outs_of (mem_run DefaultDataTTL_ms repaired empty now0 h) = outs_of (spec_run DefaultDataTTL_ms empty now0 h)).

(* the deviations of the pinned tree, each refuted by a concrete history (replayed on the real code by
   the harness; repaired by fixes/C13-memory-ttl-semantics.diff) *)
Theorem C13_pinned_cas_on_never_expiring_refuted :
  differs [KSet kA (VS sa) 0; KCAS kA sa (VS sb) HOUR; KGet kA].
Proof. exact pinned_cas_on_never_expiring_refuted. Qed.
Print Assumptions C13_pinned_cas_on_never_expiring_refuted.

Theorem C13_pinned_cas_zero_ttl_refuted :
  differs [KSet kA (VS sa) HOUR; KCAS kA sa (VS sb) 0; KTick 1; KGet kA].
Proof. exact pinned_cas_zero_ttl_refuted. Qed.
Print Assumptions C13_pinned_cas_zero_ttl_refuted.

Theorem C13_pinned_setexpiration_zero_ttl_refuted :
  differs [KSet kA (VS sa) HOUR; KSetExpiration kA 0; KTick 1; KGet kA].
Proof. exact pinned_setexpiration_zero_ttl_refuted. Qed.
Print Assumptions C13_pinned_setexpiration_zero_ttl_refuted.

Theorem C13_pinned_setexpiration_revives_refuted :
  differs [KSet kA (VS sa) 50; KTick 100; KSetExpiration kA HOUR; KGet kA].
Proof. exact pinned_setexpiration_revives_refuted. Qed.
Print Assumptions C13_pinned_setexpiration_revives_refuted.

Theorem C13_pinned_getexpiration_never_refuted :
  differs [KSet kA (VS sa) 0; KGetExpiration kA].
Proof. exact pinned_getexpiration_never_refuted. Qed.
Print Assumptions C13_pinned_getexpiration_never_refuted.

Theorem C13_pinned_setnx_boundary_refuted :
  differs [KSet kA (VS sa) 50; KTick 50; KGet kA; KSetNX kA (VS sb) 0].
Proof. exact pinned_setnx_boundary_refuted. Qed.
Print Assumptions C13_pinned_setnx_boundary_refuted.

(* non-vacuity: a concrete history exercising expiry, lists, hashes, counters, SetNX and CAS with its
   answers; the side condition on D; a related pair of states; and a concrete 2-caller schedule with a
   two-section GetExpiration on garbage *)
Theorem C13_premises_satisfiable :
  outs_of (mem_run DAY repaired empty 1000 demo_history) =
  [OOk; OOk; OOk; OOk; ONotFound; OBool true; OBool true; OOk; OVal (VS sa); OOk; OVal (VList [sb]);
   OInt 5; OOk; OOk; OVal (VHash [([102], sa)]); OOk; OOk; ONotFound; OBool true]
  /\ 0 < DAY
  /\ refines empty empty 1000.
Proof. exact demo_history_outputs. Qed.
Print Assumptions C13_premises_satisfiable.

Theorem C13_schedule_example :
  map snd (sh_log (fst (run shared local (tstep DAY repaired) (init 1000 demo_progs) [0;0;0;1;0;1;0]%nat)))
  = [OOk; OOk; ONotFound; OBool true; OVal (VS sb); OBool false].
Proof. exact demo_schedule_log. Qed.
Print Assumptions C13_schedule_example.

(* CleanupExpired (explicit call or the StartCleanup ticker) is one critical section of the model: the whole purge
   happens in the caller's single step ... *)
Theorem C13_cleanup_is_one_section :
  forall D V rest seen sh,
  tstep D V {| lo_prog := KCleanup :: rest; lo_pending := None; lo_seen := seen |} sh =
  ({| lo_prog := rest; lo_pending := None; lo_seen := seen ++ [(KCleanup, OOk)] |},
   {| sh_m := purge (sh_now sh) (sh_m sh); sh_now := sh_now sh; sh_log := sh_log sh ++ [(KCleanup, OOk)] |}).
Proof. exact cleanup_is_one_section. Qed.
Print Assumptions C13_cleanup_is_one_section.

(* ... and that is necessary: a CleanupExpired that scans in one section and deletes in a later one without
   re-checking loses a concurrent Set(k,b,0) — the resulting log has no linearization (replayed on the real code by
   the harness' sweep scenario: a write issued while the sweep holds the mutex must survive) *)
Theorem C13_two_phase_cleanup_refuted :
  ~ legal DAY 1000
      (sh_log (fst (run shared local2 (tstep_two_phase_cleanup DAY repaired) (init2 1000 sweep_progs) sweep_sched))).
Proof. exact two_phase_cleanup_refuted. Qed.
Print Assumptions C13_two_phase_cleanup_refuted.

Theorem C13_one_section_cleanup_same_schedule :
  map snd (sh_log (fst (run shared local (tstep DAY repaired) (init 1000 sweep_progs) sweep_sched)))
  = [OOk; OOk; OOk; OOk; OVal (VS sb)].
Proof. exact one_section_cleanup_same_schedule. Qed.
Print Assumptions C13_one_section_cleanup_same_schedule.

(* An expired-entry reader racing a writer.  GetHash / GetAllHash / GetExpiration answer in their first section and, if
   they found the item expired, evict it in a second one.  Whatever single-section call w lands between the two, the
   answers of both calls and the resulting store are those of the sequential order  r ; w  (the other interleavings are
   sequential orders by C13_mem_refines_spec) — because the second section re-tests expiry. *)
Theorem C13_reader_upgrade_vs_writer :
  forall m s now r k w,
  refines m s now -> two_phase r = Some k -> two_phase w = None ->
  let '(out_r, gc) := read_phase repaired m now r in
  let '(out_w, m1, now1) := mem_step DefaultDataTTL_ms repaired m now w in
  let m2 := if gc then gc_key m1 now1 k else m1 in
  let '(sr, s1, nowr) := spec_step DefaultDataTTL_ms s now r in
  let '(sw, s2, noww) := spec_step DefaultDataTTL_ms s1 nowr w in
  out_r = sr /\ out_w = sw /\ now1 = noww /\ refines m2 s2 now1.
Proof. exact (reader_upgrade_vs_writer DefaultDataTTL_ms default_ttl_positive). Qed.
Print Assumptions C13_reader_upgrade_vs_writer.

(* Re-testing the item's IDENTITY instead ("still the *StorageItem I saw") loses a completed SetHash, which refreshes an
   expired item in place: the resulting log has no linearization. *)
Theorem C13_pointer_recheck_refuted :
  ~ legal DAY 1000
      (sh_log (s3 (fst (run shared3 local3 (tstep_pointer_recheck DAY repaired) (init3 1000 upgrade_progs) upgrade_sched)))).
Proof. exact pointer_recheck_refuted. Qed.
Print Assumptions C13_pointer_recheck_refuted.

Theorem C13_expiry_recheck_same_schedule :
  map snd (sh_log (fst (run shared local (tstep DAY repaired) (init 1000 upgrade_progs) upgrade_sched)))
  = [OOk; OOk; OOk; ONotFound; OOk; OVal (VS sb)].
Proof. exact expiry_recheck_same_schedule. Qed.
Print Assumptions C13_expiry_recheck_same_schedule.

(* Value isolation.  The Spec's values are immutable, so these are immediate in Coq; they are the statements the
   harness' isolation predicates (mode "iso": retained answers re-compared after every later call and at the end of the
   history, arguments overwritten by the caller after the call, copies between keys, iterate-and-remove) point to. *)

(* an answer is a function of the store at the time of the call: whatever history follows, the answers already
   given stay what they were — for the Spec and for the model of the in-memory backend alike *)
Theorem C13_answers_never_change_later :
  forall (h1 h2 : list op) (s : kvmap) (now : N),
  firstn (length h1) (outs_of (spec_run DefaultDataTTL_ms s now (h1 ++ h2))) = outs_of (spec_run DefaultDataTTL_ms s now h1)
  /\ firstn (length h1) (outs_of (mem_run DefaultDataTTL_ms repaired s now (h1 ++ h2)))
     = outs_of (mem_run DefaultDataTTL_ms repaired s now h1).
Proof.
  intros h1 h2 s now.
  exact (conj (answers_never_change_later (spec_step DefaultDataTTL_ms) h1 h2 s now)
              (answers_never_change_later (mem_step DefaultDataTTL_ms repaired) h1 h2 s now)).
Qed.
Print Assumptions C13_answers_never_change_later.

(* a call that does not write k leaves the value stored under k untouched: SetList(k2, GetList(k1)) makes a copy *)
Theorem C13_other_keys_untouched :
  forall s now o k, mutates o k = false -> (forall d, o <> KTick d) ->
  snd (fst (spec_step DefaultDataTTL_ms s now o)) k = s k.
Proof. exact (spec_other_keys_untouched DefaultDataTTL_ms). Qed.
Print Assumptions C13_other_keys_untouched.

(* Snapshots of composite values.  What Get / GetList / GetAllHash return is the whole value the key holds at the instant of
   the read's critical section; with C13_linearizable_all_schedules: a snapshot equals the store value at one instant between
   call and return. *)
Theorem C13_snapshot_is_store_value :
  forall m now k,
  fst (fst (mem_step DefaultDataTTL_ms repaired m now (KGet k)))
    = match live now (m k) with Some it => OVal (val it) | None => ONotFound end
  /\ fst (fst (mem_step DefaultDataTTL_ms repaired m now (KGetList k)))
    = match live now (m k) with
      | Some it => match val it with VList l => OVal (VList l) | _ => OInvalidType end
      | None => ONotFound
      end
  /\ fst (read_phase repaired m now (KGetAllHash k))
    = match live now (m k) with
      | Some it => match val it with VHash h => OVal (VHash h) | _ => OInvalidType end
      | None => ONotFound
      end.
Proof. exact (snapshot_is_store_value DefaultDataTTL_ms). Qed.
Print Assumptions C13_snapshot_is_store_value.

(* Copying after the lock is released, against writers that mutate the hash in place: the log has no linearization and the
   snapshot returned is a value the key never held. *)
Theorem C13_copy_after_unlock_refuted : ~ legal DAY 1000 torn_log.
Proof. exact copy_after_unlock_refuted. Qed.
Print Assumptions C13_copy_after_unlock_refuted.

Theorem C13_torn_snapshot_never_stored :
  In (KGet kA, OVal (VHash [(fa, SInt 0); (fb, SInt 1)])) torn_log
  /\ ~ In (VHash [(fa, SInt 0); (fb, SInt 1)])
          [VHash [(fa, SInt 0)]; VHash [(fa, SInt 0); (fb, SInt 0)]; VHash [(fa, SInt 1); (fb, SInt 0)]; VHash [(fa, SInt 1); (fb, SInt 1)]].
Proof. exact torn_snapshot_never_stored. Qed.
Print Assumptions C13_torn_snapshot_never_stored.

Theorem C13_copy_under_lock_same_schedule :
  map snd (sh_log (fst (run shared local (tstep DAY repaired) (init 1000 torn_progs) torn_sched)))
  = [OOk; OOk; OVal (VHash [(fa, SInt 0); (fb, SInt 0)]); OOk; OOk].
Proof. exact copy_under_lock_same_schedule. Qed.
Print Assumptions C13_copy_under_lock_same_schedule.

(* Concurrent increments.  IncrBy is one critical section of the model, so by C13_linearizable_all_schedules concurrent
   increments of one counter return pairwise distinct values and none is lost.  A "fast path" that loads and stores the
   counter while holding only the read lock is refuted: two callers both return 6. *)
Theorem C13_incr_under_read_lock_refuted :
  ~ legal DAY 1000
      (sh_log (fst (run shared local5 (tstep_incr_under_read_lock DAY repaired) (init5 1000 incr_progs) incr_sched))).
Proof. exact incr_under_read_lock_refuted. Qed.
Print Assumptions C13_incr_under_read_lock_refuted.

Theorem C13_incr_one_section_same_programs :
  map snd (sh_log (fst (run shared local (tstep DAY repaired) (init 1000 incr_progs) [0; 1; 0]%nat)))
  = [OInt 5; OInt 6; OInt 7].
Proof. exact incr_one_section_same_programs. Qed.
Print Assumptions C13_incr_one_section_same_programs.

(* RemoveFromList is one critical section of the model (so concurrent AppendToList calls all take effect, by
   C13_linearizable_all_schedules).  Scanning under the read lock and writing the filtered copy back under a separate
   write lock loses an append that lands in between: the log has no linearization. *)
Theorem C13_two_section_remove_refuted :
  ~ legal DAY 1000
      (sh_log (fst (run shared local6 (tstep_two_section_remove DAY repaired) (init6 1000 listrace_progs) listrace_sched))).
Proof. exact two_section_remove_refuted. Qed.
Print Assumptions C13_two_section_remove_refuted.

Theorem C13_one_section_remove_same_schedule :
  map snd (sh_log (fst (run shared local (tstep DAY repaired) (init 1000 listrace_progs) listrace_sched)))
  = [OOk; OOk; OOk; OOk; OVal (VList [sa; su])].
Proof. exact one_section_remove_same_schedule. Qed.
Print Assumptions C13_one_section_remove_same_schedule.

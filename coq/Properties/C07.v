(* Properties/C07.v — C07: the server's view of control connections is consistent, one per client.
   Statements only; every proof is a single `exact`.  Model: Model/Registry.v, variant Current = the tree with
   fixes/C07-reauth-stale-index.diff (the pinned tree is refuted below).  `run Current k init ops` is the state after
   ANY list of operations (Accept / Handshake with any auth-handler outcome and connection type / Heartbeat /
   CloseConnection / RemoveControlConnection / Unregister / KickOld / stale sweep / clock ticks / raw Register /
   raw UpdateAuth / tunnel conversion / transport write failure) under ANY configuration k (connection limits,
   heartbeat timeout); by_client / by_conn are GetControlConnectionByClientID / GetControlConnection. *)
From TX Require Import Base.Threads Model.Registry Model.RegistryMicro Model.RegistryCloud Proofs.Registry Proofs.RegistryCounts Proofs.RegistryMicro Proofs.RegistryCloud Proofs.RegistryOne.
Open Scope N_scope.

(* (a) looking a client up by id returns nothing or a registered, authenticated connection whose ClientID is that
   (positive) id and whose transport has not been closed — after every operation list, for every configuration *)
Theorem C07_lookup_returns_live_connection_of_that_client :
  forall (k : cfg) (ops : list op) (x c : N),
  by_client (run Current k init ops) x = Some c ->
  exists r, by_conn (run Current k init ops) c = Some r /\ c_auth r = true /\ c_cid r = x /\ 0 < x
            /\ mem c (closed (run Current k init ops)) = false.
Proof. exact lookup_sound_all. Qed.
Print Assumptions C07_lookup_returns_live_connection_of_that_client.

(* (b) at most one current connection per client (the index is a map: by_client is a function) and a connection
   is current for at most one client id *)
Theorem C07_one_client_per_connection :
  forall (k : cfg) (ops : list op) (x y c : N),
  by_client (run Current k init ops) x = Some c -> by_client (run Current k init ops) y = Some c -> x = y.
Proof. exact one_client_per_connection. Qed.
Print Assumptions C07_one_client_per_connection.

(* the invariant is inductive: it is preserved by every single operation from every state satisfying it *)
Theorem C07_invariant_inductive :
  forall (k : cfg) (s : st) (o : op), Inv s -> Inv (fst (step Current k s o)).
Proof. exact inv_step. Qed.
Print Assumptions C07_invariant_inductive.

(* schedules: any number of goroutines, each running any operation list, interleaved in any order at the
   granularity one method = one atomic step; the invariant (hence (a),(b)) holds in every reachable state *)
Theorem C07_all_interleavings :
  forall (k : cfg) (progs : list (list op)) (sched : list nat),
  Inv (fst (Threads.run st (list op) (tstep k) (init, progs) sched)).
Proof. exact inv_all_interleavings. Qed.
Print Assumptions C07_all_interleavings.

(* (c) after CloseConnection(c) no lookup returns c, it is no longer a session connection, and its transport is
   closed if it was known at all *)
Theorem C07_closed_connection_is_gone :
  forall (k : cfg) (ops : list op) (c : N),
  let s := run Current k init ops in
  by_conn (close_conn c s) c = None /\ (forall x, by_client (close_conn c s) x <> Some c) /\
  mem c (sess (close_conn c s)) = false /\
  (mem c (sess s) = true \/ by_conn s c <> None -> mem c (closed (close_conn c s)) = true).
Proof. intros k ops c. exact (close_conn_post c _ (inv_run k ops init inv_init)). Qed.
Print Assumptions C07_closed_connection_is_gone.

(* (c) RemoveControlConnection(c): not returned by any lookup, transport closed *)
Theorem C07_removed_connection_is_gone :
  forall (k : cfg) (ops : list op) (c : N),
  let s := run Current k init ops in
  by_conn (registry_remove c s) c = None /\ (forall x, by_client (registry_remove c s) x <> Some c) /\
  (by_conn s c <> None -> mem c (closed (registry_remove c s)) = true).
Proof. intros k ops c. exact (remove_post c _ (inv_run k ops init inv_init)). Qed.
Print Assumptions C07_removed_connection_is_gone.

(* (c) KickOldControlConnection(x, new): the connection that was current for x is gone and closed *)
Theorem C07_kicked_connection_is_gone :
  forall (k : cfg) (ops : list op) (x newc o : N),
  let s := run Current k init ops in
  by_client s x = Some o -> o <> newc ->
  by_conn (kick x newc s) o = None /\ (forall y, by_client (kick x newc s) y <> Some o) /\
  mem o (closed (kick x newc s)) = true.
Proof. intros k ops x newc o. exact (kick_post x newc o _ (inv_run k ops init inv_init)). Qed.
Print Assumptions C07_kicked_connection_is_gone.

(* (c) removed connections are never returned: once an accepted connection has been closed, after ANY further
   operation list no lookup (by connection id, by any client id, session list, tunnel registry) returns it,
   and its transport is closed *)
Theorem C07_closed_connection_never_returns :
  forall (k : cfg) (ops1 ops2 : list op) (c : N),
  mem c (streams (run Current k init ops1)) = true ->
  let s2 := run Current k (close_conn c (run Current k init ops1)) ops2 in
  by_conn s2 c = None /\ (forall x, by_client s2 x <> Some c) /\ mem c (sess s2) = false /\
  get c (tun s2) = None /\ mem c (closed s2) = true.
Proof. exact closed_never_returns. Qed.
Print Assumptions C07_closed_connection_never_returns.

(* (d) counts: CloseConnection(c) gives back exactly the session / control / tunnel slot that c held (GetConnectionStats) *)
Theorem C07_close_restores_counts :
  forall (k : cfg) (ops : list op) (c : N),
  let s := run Current k init ops in
  counts s = (let '(t, ct, tn) := counts (close_conn c s) in
              (t + b2n (mem c (sess s)), ct + b2n (has (get c (reg s))), tn + b2n (has (get c (tun s))))).
Proof. intros k ops c. exact (counts_close_conn c _ (inv_run k ops init inv_init) (wf2_run Current k ops init wf2_init)). Qed.
Print Assumptions C07_close_restores_counts.

(* (d) opening a fresh connection adds one to the total only, and closing it again restores all three counts *)
Theorem C07_accept_close_roundtrip :
  forall (k : cfg) (ops : list op) (c : N),
  let s := run Current k init ops in
  mem c (streams s) = false -> (0 <? maxConn k) && (maxConn k <=? N.of_nat (length (sess s))) = false ->
  counts (run Current k s [Accept c]) = (let '(t, ct, tn) := counts s in (t + 1, ct, tn)) /\
  counts (run Current k s [Accept c; CloseConn c]) = counts s.
Proof. intros k ops c. exact (accept_close_roundtrip Current k c _ (wf2_run Current k ops init wf2_init)). Qed.
Print Assumptions C07_accept_close_roundtrip.

(* ---- lock-section granularity (Model/RegistryMicro.v) ----
   handleHandshake = A (get-or-create, auth handler, reconcile) | W (response write) | B1 GetByClientID | B2 Remove(old) |
   B3 UpdateAuth;  CloseConnection = C1 (session map) | C1b (Stream.Close) | C2 (registry) | C3 (tunnel registry);
   every other operation is one step.  `closing sh` = connections whose transport a CloseConnection has closed and
   whose registry section has not run yet. *)

(* the sections, run back to back, are the method of the sequential model *)
Theorem C07_handshake_is_its_sections :
  forall v k c kind x isCtl s, handshake v k c kind x isCtl s = handshake_seq v k c kind x isCtl s.
Proof. exact handshake_seq_eq. Qed.
Print Assumptions C07_handshake_is_its_sections.

(* every section preserves the invariant from every state satisfying it, whatever the thread's continuation holds *)
Theorem C07_section_invariant_inductive :
  forall (k : cfg) (l : lo) (sh : gst), MG sh -> MG (snd (mstep k l sh)).
Proof. exact MG_mstep. Qed.
Print Assumptions C07_section_invariant_inductive.

(* (a) in ANY state of ANY interleaving of the sections of any number of goroutines running any operation lists:
   a lookup by client id returns nothing or a registered, authenticated connection of exactly that client whose
   transport is open — or whose CloseConnection is under way (closed, registry section still to run) *)
Theorem C07_lookup_in_every_section_interleaving :
  forall (k : cfg) (progs : list (list op)) (sched : list nat) (x c : N),
  let sh := fst (Threads.run gst lo (fun l sh => mstep k l sh) (ginit, map (fun p => (None, p)) progs) sched) in
  by_client (g sh) x = Some c ->
  exists r, by_conn (g sh) c = Some r /\ c_auth r = true /\ c_cid r = x /\ 0 < x /\
            (mem c (closed (g sh)) = false \/ mem c (closing sh) = true).
Proof. exact MG_lookup_all. Qed.
Print Assumptions C07_lookup_in_every_section_interleaving.

(* the registry section of CloseConnection(c) ends that window in every reachable state: c is unregistered, unindexed, unmarked *)
Theorem C07_close_registry_section_ends_window :
  forall (k : cfg) (progs : list (list op)) (sched : list nat) (c : N),
  let sh := fst (Threads.run gst lo (fun l sh => mstep k l sh) (ginit, map (fun p => (None, p)) progs) sched) in
  let sh' := {| g := registry_remove c (g sh); closing := rem c (closing sh) |} in
  by_conn (g sh') c = None /\ (forall x, by_client (g sh') x <> Some c) /\ mem c (closing sh') = false.
Proof. intros k progs sched c. exact (MG_after_C2 c _ (MG_all_interleavings k progs sched)). Qed.
Print Assumptions C07_close_registry_section_ends_window.

(* the class of change this granularity exists for: if B3 re-registers the connection when UpdateAuth does not find
   it, a CloseConnection completing between the response write and B3 leaves a closed connection registered and indexed *)
Theorem C07_reregister_variant_refuted :
  exists (k : cfg) (c X : N),
    match hs_phaseA Current k c 0 X (fst (step Current k init (Accept c))) with
    | (s, Some r') =>
        write_ok c s = true /\
        let s' := b3_reregister k c X r' (close_conn c s) in
        by_client s' X = Some c /\ mem c (closed s') = true /\ mem c (sess s') = false
    | (_, None) => False
    end.
Proof. exact reregister_variant_refuted. Qed.
Print Assumptions C07_reregister_variant_refuted.

(* Register of a ConnID that already has a record (authenticated or not; replacement wrapping the same stream, as the
   server's call sites do) preserves the invariant, from every state satisfying it — and the re-registered connection is
   the current one of its (new) client while the replaced record's id no longer resolves *)
Theorem C07_reregistration_preserves_invariant :
  forall (k : cfg) (s : st) (c pre : N), Inv s -> Inv (fst (step Current k s (ReReg c pre))).
Proof. intros k s c pre. exact (inv_step k s (ReReg c pre)). Qed.
Print Assumptions C07_reregistration_preserves_invariant.

(* ... and it is a REPLACEMENT, also when the registry is at MaxControlConnections: nobody is evicted, every other record is
   untouched, the replacement is what GetControlConnection returns, the control count does not move, no transport is closed *)
Theorem C07_reregistration_never_evicts :
  forall (k : cfg) (ops : list op) (c : N) (r r0 : ctl),
  let s := run Current k init ops in
  by_conn s c = Some r0 ->
  let s' := registry_rereg Current k c r s in
  (forall c', c' <> c -> by_conn s' c' = by_conn s c') /\ by_conn s' c = Some r /\
  size (reg s') = size (reg s) /\ closed s' = closed s /\ sess s' = sess s.
Proof. intros k ops c r r0. exact (rereg_is_replacement k c r r0 _ (inv_run k ops init inv_init)). Qed.
Print Assumptions C07_reregistration_never_evicts.

Theorem C07_reregistration_nonvacuous :
  let s := run Current k0 init [Accept 1; Handshake 1 0 7 true; ReReg 1 9] in
  by_client s 9 = Some 1 /\ by_client s 7 = None /\ mem 1 (closed s) = false /\ counts s = (1, 1, 0).
Proof. exact rereg_demo. Qed.
Print Assumptions C07_reregistration_nonvacuous.

(* the tree as it is (before fixes/C07-register-replace-shared-stream.diff): the replacement is registered and indexed with a closed transport *)
Theorem C07_head_reregistration_refuted :
  exists ops x c, by_client (run Head k0 init ops) x = Some c /\ mem c (closed (run Head k0 init ops)) = true.
Proof. exact head_rereg_refuted. Qed.
Print Assumptions C07_head_reregistration_refuted.

(* ---- ONE live authenticated control connection per client (Proofs/RegistryOne.v) ----
   live_as s k c: c is registered, authenticated as client k (k > 0), its transport is open and accepts writes (a transport whose
   writes fail — BreakWrites — cannot complete a login: its handshake response is not delivered).
   production_op: the operation set of the server's own call sites — Accept (incl. adapter accepts), control-type Handshake with
   any auth outcome (incl. re-login), Heartbeat, Tick, Sweep, CloseConnection (incl. adapter read-loop end; cloud-control results
   are irrelevant: C07_teardown_ignores_cloud_result), Remove, Unregister, Kick, tunnel conversion, write failure, Register of
   unauthenticated records.  EXCLUDED, exactly as the Go-side predicate `second-live-connection` does: an authenticating
   tunnel-type handshake, Register of a pre-authenticated record and the raw UpdateAuth API — each legitimately leaves a second
   authenticated record of a client beside the indexed one (C07_excluded_operations_leave_a_second_record). *)
Theorem C07_one_live_control_connection_per_client :
  forall (k : cfg) (ops : list op) (x c1 c2 : N),
  forallb production_op ops = true ->
  live_as (run Current k init ops) x c1 -> live_as (run Current k init ops) x c2 ->
  c1 = c2 /\ by_client (run Current k init ops) x = Some c1.
Proof. exact one_live_per_client. Qed.
Print Assumptions C07_one_live_control_connection_per_client.

(* the same for EVERY interleaving of the lock sections (handleHandshake = A | W | B1 | B2 | B3, CloseConnection = C1 | C1b | C2 | C3,
   every other operation one section) of any number of goroutines running any production operation lists: in every state in which
   no login is between its auth section and its UpdateAuth section (`quiet`: every started login has returned), each client has
   at most one live authenticated control connection and it is the one the client id resolves to.  In particular: for every
   schedule of two logins of one client, once both returned exactly one of them is live (C07_two_overlapping_logins_nonvacuous). *)
Theorem C07_one_live_control_connection_per_client_all_interleavings :
  forall (k : cfg) (progs : list (list op)) (sched : list nat) (x c1 c2 : N),
  Forall (fun p => forallb production_op p = true) progs ->
  let fin := Threads.run gst lo (fun l sh => mstep k l sh) (start progs) sched in
  quiet (snd fin) ->
  live_as (g (fst fin)) x c1 -> live_as (g (fst fin)) x c2 -> c1 = c2 /\ by_client (g (fst fin)) x = Some c1.
Proof. exact one_live_per_client_all_interleavings. Qed.
Print Assumptions C07_one_live_control_connection_per_client_all_interleavings.

(* and in EVERY state of every such interleaving (not only quiet ones): a live authenticated connection is the indexed one of
   its client unless its own login is still between its auth section and its UpdateAuth section *)
Theorem C07_one_live_invariant_of_every_section :
  forall (k : cfg) (progs : list (list op)) (sched : list nat),
  Forall (fun p => forallb production_op p = true) progs ->
  SJ k (Threads.run gst lo (fun l sh => mstep k l sh) (start progs) sched).
Proof. exact SJ_all_interleavings. Qed.
Print Assumptions C07_one_live_invariant_of_every_section.

(* non-vacuity: a production history with re-login, kick, sweep and close; and two goroutines logging in as one client with
   their sections strictly alternating (both read the index before either writes it): exactly one stays live *)
Theorem C07_one_live_nonvacuous :
  forallb production_op prod_demo_ops = true /\
  live_asb (run Current k0 init prod_demo_ops) 7 2 = true /\ live_asb (run Current k0 init prod_demo_ops) 7 1 = false /\
  by_client (run Current k0 init prod_demo_ops) 7 = Some 2 /\ by_client (run Current k0 init prod_demo_ops) 8 = None.
Proof. exact prod_demo. Qed.
Print Assumptions C07_one_live_nonvacuous.

Theorem C07_two_overlapping_logins_nonvacuous :
  forallb (fun l => match pend l with None => true | Some _ => false end) (snd two_logins_final) = true /\
  forallb (fun l => match snd l with [] => true | _ => false end) (snd two_logins_final) = true /\
  live_asb (g (fst two_logins_final)) 7 1 = false /\ live_asb (g (fst two_logins_final)) 7 2 = true /\
  by_client (g (fst two_logins_final)) 7 = Some 2 /\ mem 1 (closed (g (fst two_logins_final))) = true /\
  counts (g (fst two_logins_final)) = (2, 1, 0).
Proof. exact two_logins_demo. Qed.
Print Assumptions C07_two_overlapping_logins_nonvacuous.

(* the stale-snapshot order of seeded change C07-13 (index read before the response write, used after it) on the tree as it is
   (Head2): both logins of client 7 stay live; with the repaired UpdateAuth even that order leaves exactly one *)
Theorem C07_one_live_stale_snapshot_refuted :
  live_asb (stale_snapshot_final Head2) 7 1 = true /\ live_asb (stale_snapshot_final Head2) 7 2 = true /\
  counts (stale_snapshot_final Head2) = (2, 2, 0).
Proof. exact stale_snapshot_refuted. Qed.
Print Assumptions C07_one_live_stale_snapshot_refuted.

(* the tree as it is (Head2), at lock-section granularity: GetByClientID / Remove(old) / UpdateAuth are three critical sections;
   when both logins read the index before either writes it, neither evicts the other (reproduced on the real code by a free-running
   contention loop: known finding concurrent-logins-both-survive; repaired by fixes/C07-updateauth-evicts-atomically.diff) *)
Theorem C07_one_live_head_lock_section_race_refuted :
  live_asb (b1_race_final Head2) 7 1 = true /\ live_asb (b1_race_final Head2) 7 2 = true /\ by_client (b1_race_final Head2) 7 = Some 2.
Proof. exact head_lock_section_race_refuted. Qed.
Print Assumptions C07_one_live_head_lock_section_race_refuted.

Theorem C07_one_live_repaired_orders :
  (live_asb (stale_snapshot_final Current) 7 1 = true /\ live_asb (stale_snapshot_final Current) 7 2 = false /\
   by_client (stale_snapshot_final Current) 7 = Some 1 /\ mem 2 (closed (stale_snapshot_final Current)) = true) /\
  (live_asb (b1_race_final Current) 7 1 = false /\ live_asb (b1_race_final Current) 7 2 = true /\ by_client (b1_race_final Current) 7 = Some 2).
Proof. exact (conj stale_snapshot_repaired lock_section_race_repaired). Qed.
Print Assumptions C07_one_live_repaired_orders.

(* what the excluded operations do *)
Theorem C07_excluded_operations_leave_a_second_record :
  let s := run Current k0 init [Accept 1; Accept 2; Handshake 1 0 7 true; Handshake 2 0 7 false] in
  live_asb s 7 1 = true /\ live_asb s 7 2 = true /\ by_client s 7 = Some 1.
Proof. exact excluded_ops_leave_second_record. Qed.
Print Assumptions C07_excluded_operations_leave_a_second_record.

(* CloseConnection cleans the control registry also when the base record is already gone: the post-conditions of (c) hold from
   EVERY state that satisfies the invariant — in particular from states in which a control record outlives its base record, which
   arise when a late handshake registers the record while CloseConnection removes the base record (the late section preserves
   the invariant; concrete instance below) *)
Theorem C07_close_cleans_registry_without_base_record :
  forall (s : st) (c : N), Inv s ->
  by_conn (close_conn c s) c = None /\ (forall x, by_client (close_conn c s) x <> Some c) /\
  mem c (sess (close_conn c s)) = false /\
  (mem c (sess s) = true \/ by_conn s c <> None -> mem c (closed (close_conn c s)) = true).
Proof. intros s c. exact (close_conn_post c s). Qed.
Print Assumptions C07_close_cleans_registry_without_base_record.

Theorem C07_late_registration_preserves_invariant :
  forall (k : cfg) (c kind x : N) (s : st), Inv s -> Inv (fst (hs_phaseA_late Current k c kind x s)).
Proof. exact inv_phaseA_late. Qed.
Print Assumptions C07_late_registration_preserves_invariant.

Theorem C07_late_registration_nonvacuous :
  mem 1 (sess late_register_state) = false /\ (exists r, by_conn late_register_state 1 = Some r /\ c_auth r = true) /\
  mem 1 (closed late_register_state) = true /\ counts late_register_state = (0, 1, 0) /\
  by_conn (close_conn 1 late_register_state) 1 = None /\ counts (close_conn 1 late_register_state) = (0, 0, 0).
Proof. exact late_register_demo. Qed.
Print Assumptions C07_late_registration_nonvacuous.

(* the stale sweep never un-indexes a fresh connection: in every reachable state, a registered connection whose last activity is
   within the heartbeat timeout and which is the indexed connection of its client is still registered and still the answer for
   that client after cleanupStaleConnections — whatever else is swept (e.g. a stale record authenticated as the same client
   that was never indexed, as a tunnel-type handshake leaves behind) *)
Theorem C07_sweep_keeps_fresh_indexed_connection :
  forall (k : cfg) (ops : list op) (x c : N) (r : ctl),
  let s := run Current k init ops in
  by_client s x = Some c -> by_conn s c = Some r -> is_stale k s r = false ->
  by_client (fst (sweep k s)) x = Some c /\ by_conn (fst (sweep k s)) c = Some r.
Proof. intros k ops x c r. exact (sweep_keeps_fresh k _ x c r (inv_run k ops init inv_init)). Qed.
Print Assumptions C07_sweep_keeps_fresh_indexed_connection.

(* ---- cloud control (Model/RegistryCloud.v): the registry view does not depend on what cloud control answers ---- *)
(* RemoveControlConnection / CloseConnection with the DisconnectClientIfMatch result made explicit are the plain operations,
   whatever the result (error, disconnected, skipped, no cloud control) *)
Theorem C07_teardown_ignores_cloud_result :
  forall (cc : option cres) (c : N) (s : st),
  remove_control_connection_cc cc c s = registry_remove c s /\ close_connection_cc cc c s = close_conn c s.
Proof. intros cc c s. exact (conj (remove_cc_indep cc c s) (close_cc_indep cc c s)). Qed.
Print Assumptions C07_teardown_ignores_cloud_result.

(* for EVERY fault pattern of cloud control, in every reachable state: after CloseConnection(c) no lookup returns c, it is no
   session connection, its transport is closed if it was known, and the three counts drop by exactly what c held *)
Theorem C07_close_under_any_cloud_fault :
  forall (k : cfg) (ops : list op) (cc : option cres) (c : N),
  let s := run Current k init ops in
  let s' := close_connection_cc cc c s in
  by_conn s' c = None /\ (forall x, by_client s' x <> Some c) /\ mem c (sess s') = false /\
  (mem c (sess s) = true \/ by_conn s c <> None -> mem c (closed s') = true) /\
  counts s = (let '(t, ct, tn) := counts s' in
              (t + b2n (mem c (sess s)), ct + b2n (has (get c (reg s))), tn + b2n (has (get c (tun s))))).
Proof. exact close_under_any_cloud_fault. Qed.
Print Assumptions C07_close_under_any_cloud_fault.

(* the variant "notify first, keep the entry when the notification fails" is refuted *)
Theorem C07_notify_first_variant_refuted :
  exists ops c x,
    let s := run Current k0 init ops in
    let s' := close_connection_notify_first (Some CErr) c s in
    by_client s' x = Some c /\ mem c (closed s') = true /\ mem c (sess s') = false /\ counts s' = (0, 1, 0).
Proof. exact notify_first_refuted. Qed.
Print Assumptions C07_notify_first_variant_refuted.

(* only authenticated connections are indexed by client id: statement (a) above quantifies over histories that contain
   Register of a record with a pre-filled ClientID and Authenticated = false (RegClaim); concretely such a record neither
   displaces the client's authenticated connection nor stays in the index after it is closed *)
Theorem C07_unauthenticated_claim_is_never_current :
  let s := run Current k0 init [Accept 1; Accept 2; Handshake 1 0 7 true; RegClaim 2 7] in
  by_client s 7 = Some 1 /\ (exists r, by_conn s 2 = Some r /\ c_auth r = false /\ c_cid r = 7) /\
  by_client (close_conn 2 s) 7 = Some 1 /\ by_conn (close_conn 2 s) 2 = None /\ counts (close_conn 2 s) = (1, 1, 0).
Proof. exact claim_demo. Qed.
Print Assumptions C07_unauthenticated_claim_is_never_current.

(* the defect of the pinned tree (repaired by fixes/C07-reauth-stale-index.diff), kept as refuted statements:
   Register; UpdateAuth 100; UpdateAuth 200; Remove  leaves id 100 resolving to a closed, unregistered connection *)
Theorem C07_pinned_reauth_refuted :
  exists ops x c, by_client (run Pinned k0 init ops) x = Some c /\ by_conn (run Pinned k0 init ops) c = None
                  /\ mem c (closed (run Pinned k0 init ops)) = true.
Proof. exact pinned_reauth_refuted. Qed.
Print Assumptions C07_pinned_reauth_refuted.

(* same defect through real handshakes: a tunnel-type second handshake re-binds an indexed control connection *)
Theorem C07_pinned_handshake_refuted :
  exists ops x c r, by_client (run Pinned k0 init ops) x = Some c /\ by_conn (run Pinned k0 init ops) c = Some r /\ c_cid r <> x.
Proof. exact pinned_handshake_refuted. Qed.
Print Assumptions C07_pinned_handshake_refuted.

(* non-vacuity: a reachable state in which two clients resolve, one older connection was evicted by a re-login *)
Theorem C07_nonvacuous :
  by_client (run Current k0 init demo_ops) 7 = Some 3 /\ by_client (run Current k0 init demo_ops) 8 = Some 2 /\
  by_conn (run Current k0 init demo_ops) 1 = None /\ mem 1 (closed (run Current k0 init demo_ops)) = true /\
  counts (run Current k0 init demo_ops) = (3, 2, 0).
Proof. exact demo_state. Qed.
Print Assumptions C07_nonvacuous.

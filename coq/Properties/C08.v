(* Properties/C08.v — C08: cross-node lookup finds a connected client at its current node.
   Statements only; every proof is a single `exact`.  Model: Model/ConnState.v — a cluster of any number of nodes
   (SessionManager state per node) over ONE shared TTL store; current_variant = the code with fixes/C08-*.diff.
   Every theorem quantifies over the storage backend `b` (value shape and deadline convention), over the ttl, and over
   unbounded histories of Connect / AuthOK / AuthFail / Kick / Heartbeat / Close (= late cleanup) / Tick events on
   arbitrary nodes, connections and clients. *)
From TX Require Import Model.ConnState Proofs.ConnState Proofs.SideC08 Gen.C08.
From TX Require Import Model.ConnStateThreads Proofs.ConnStateThreads.
From TX Require Import Model.ClientState Proofs.ClientState.

(* lookup_current.  Let X's most recent successful handshake be on connection c of node n (pre ++ AuthOK n c X :: post
   with no later login of X, no other handshake on c and no close of c in post), c an open connection of n whose id no
   other node used, and let heartbeats on (n, c) arrive at intervals < ttl.  Then FindClientNode X = (n, c) asked on ANY
   node — whatever else happens in pre and post: other clients, other nodes, and in particular the old nodes'
   cleanups (Close) of X's older connections in any order, before or after X's new login. *)
Theorem C08_lookup_current :
  forall (b : backend) (ttl X n c : N) (pre post : list event),
  lookup_current_at current_variant b ttl X n c pre post.
Proof. exact lookup_current_all. Qed.
Print Assumptions C08_lookup_current.

(* the same, unfolded, so that the statement can be read here *)
Theorem C08_lookup_current_unfolded :
  forall (b : backend) (ttl X n c : N) (pre post : list event),
  X <> 0%N ->
  w_conns (run current_variant b ttl init pre) n c = true ->
  (forall n' x, In (AuthOK n' c x) pre -> n' = n) ->
  quiet X c post = true ->
  kept ttl n c post 0 = true ->
  forall asking_node,
  find current_variant b (run current_variant b ttl init (pre ++ AuthOK n c X :: post)) asking_node X = Found n c.
Proof. exact lookup_current_all. Qed.
Print Assumptions C08_lookup_current_unfolded.

(* lookup soundness: whatever the history, an answer (n, c) for X names a connection that authenticated as X on node n
   and has not been closed since (connection ids authenticate as one client id only). *)
Theorem C08_lookup_sound :
  forall (b : backend) (ttl : N) (h : list event) (X asking_node n c : N),
  single_client h ->
  find current_variant b (run current_variant b ttl init h) asking_node X = Found n c ->
  exists pre post, h = pre ++ AuthOK n c X :: post /\ forall m, ~ In (Close m c) post.
Proof. exact lookup_sound. Qed.
Print Assumptions C08_lookup_sound.

(* lookup_after_close: once every connection X ever authenticated on has been closed by its node, the lookup answers
   "not connected" on every node. *)
Theorem C08_lookup_after_close :
  forall (b : backend) (ttl : N) (h : list event) (X asking_node : N),
  single_client h -> X <> 0%N ->
  (forall pre post n c, h = pre ++ AuthOK n c X :: post -> In (Close n c) post) ->
  find current_variant b (run current_variant b ttl init h) asking_node X = Absent.
Proof. exact lookup_after_close. Qed.
Print Assumptions C08_lookup_after_close.

(* with the ttl wired in components_session.go and the client's keep-alive period (both regenerated from the tree),
   a client that just keeps sending heartbeats meets the `kept` hypothesis, for any number of periods *)
Theorem C08_configured_heartbeats_keep_alive :
  forall n c k, kept ConnStateTTLms n c (beats n c ClientKeepaliveMs k) 0 = true.
Proof. exact configured_heartbeats_keep_alive. Qed.
Print Assumptions C08_configured_heartbeats_keep_alive.

(* the three defects of the pinned tree (each of the four code sites on its own), kept as refuted statements *)
Theorem C08_pinned_late_unregister_refuted :
  exists X n c pre post, ~ lookup_current_at without_guard redis_backend 300000 X n c pre post.
Proof. exact pinned_late_unregister_refuted. Qed.
Print Assumptions C08_pinned_late_unregister_refuted.

Theorem C08_pinned_refresh_without_index_refuted :
  exists X n c pre post, ~ lookup_current_at without_refresh_idx redis_backend 300000 X n c pre post.
Proof. exact pinned_refresh_without_index_refuted. Qed.
Print Assumptions C08_pinned_refresh_without_index_refuted.

Theorem C08_pinned_heartbeat_without_refresh_refuted :
  exists X n c pre post, ~ lookup_current_at without_hb redis_backend 300000 X n c pre post.
Proof. exact pinned_heartbeat_without_refresh_refuted. Qed.
Print Assumptions C08_pinned_heartbeat_without_refresh_refuted.

Theorem C08_pinned_memory_shape_refuted :
  exists X n c pre post, ~ lookup_current_at without_ptr memory_backend 300000 X n c pre post.
Proof. exact pinned_memory_shape_refuted. Qed.
Print Assumptions C08_pinned_memory_shape_refuted.

(* non-vacuity: a history with a reconnect to another node BEFORE the old node notices, the old node's late cleanup,
   a second client, heartbeats and time meets every hypothesis of lookup_current (and the lookup answers (2, 20));
   the second client, whose only connection was closed, is reported as not connected *)
Theorem C08_premises_satisfiable :
  7%N <> 0%N /\ w_conns (run current_variant redis_backend 300000 init wit_pre) 2 20 = true /\
  (forall n' x, In (AuthOK n' 20 x) wit_pre -> n' = 2%N) /\
  quiet 7 20 nv_post = true /\ kept 300000 2 20 nv_post 0 = true /\
  find current_variant redis_backend (run current_variant redis_backend 300000 init (wit_pre ++ AuthOK 2 20 7 :: nv_post)) 1 7
    = Found 2 20 /\
  find current_variant redis_backend (run current_variant redis_backend 300000 init (wit_pre ++ AuthOK 2 20 7 :: nv_post)) 2 8
    = Absent.
Proof. exact premises_satisfiable. Qed.
Print Assumptions C08_premises_satisfiable.

Theorem C08_single_client_satisfiable : single_client (wit_pre ++ AuthOK 2 20 7 :: nv_post).
Proof. exact single_client_example. Qed.
Print Assumptions C08_single_client_satisfiable.

(* ---------------------------------------------------------------------------------------------------------------
   ALL INTERLEAVINGS at storage-call granularity (Model/ConnStateThreads.v over Base/Threads.v): any number of concurrent
   FindClientNode / RegisterConnection / UnregisterConnection / RefreshConnection invocations on any nodes, every step
   one Get / Set / Delete of the shared storage, every schedule.
   --------------------------------------------------------------------------------------------------------------- *)

(* lookups are transparent: under EVERY schedule the shared store (and every non-lookup invocation) evolves exactly as
   in the system in which no lookup runs at all — a lookup in flight while a client moves between nodes cannot damage
   the client's registration *)
Theorem C08_lookups_do_not_disturb_any_schedule :
  forall (cas : bool) (s : tstate) (sched : list nat),
  without_lookups (trun cas s sched) = trun cas (without_lookups s) sched
  /\ fst (trun cas s sched) = fst (trun cas (without_lookups s) sched).
Proof. intros cas s sched. exact (conj (without_lookups_run cas sched s) (lookups_do_not_disturb cas sched s)). Qed.
Print Assumptions C08_lookups_do_not_disturb_any_schedule.

(* lookup soundness for all interleavings: if every record in the store and every record a pending RegisterConnection is
   about to write satisfies P ("was registered for that connection"), then under EVERY schedule every completed lookup
   answer (n, c) is the node of a record registered for c — the two non-atomic reads never pair the node of one
   registration with the connection of another *)
Theorem C08_lookup_answers_registered_all_schedules :
  forall (cas : bool) (P : N -> crec -> Prop) (sched : list nat) (s : tstate) (i : nat) (n c : N),
  sys_ok P s ->
  nth_error (snd (trun cas s sched)) i = Some (TFindDone (TFound n c)) ->
  exists x ctl, P c (x, n, ctl).
Proof. exact lookup_answers_registered. Qed.
Print Assumptions C08_lookup_answers_registered_all_schedules.

(* The tree BEFORE fixes/C08-atomic-client-index-cas.diff (cas = false: UnregisterConnection / RefreshConnection read the index and
   then write it in two storage calls) is not safe under every interleaving: refuted with schedules, and shown to be
   EXACTLY that window.  (While that tree is the one under test these are the known findings
   race-unregister-read-delete-window / race-refresh-read-set-window.) *)
Theorem C08_unregister_window_refuted :
  exists sched, all_done (trun false unregister_window sched) = true /\
                tfind (fst (trun false unregister_window sched)) 7 = TAbsent /\
                tcs (fst (trun false unregister_window sched)) 2 = Some (7%N, 2%N, true).
Proof. exact unregister_window_refuted. Qed.
Print Assumptions C08_unregister_window_refuted.

Theorem C08_refresh_window_refuted :
  exists sched, all_done (trun false refresh_window sched) = true /\
                tfind (fst (trun false refresh_window sched)) 7 = TFound 1 1 /\
                tcs (fst (trun false refresh_window sched)) 2 = Some (7%N, 2%N, true).
Proof. exact refresh_window_refuted. Qed.
Print Assumptions C08_refresh_window_refuted.

Theorem C08_unregister_window_exact :
  forallb (fun sched => tres_eqb (tfind (fst (trun false unregister_window sched)) 7)
                                 (if second_of_1_after 2 sched 0 0 then TAbsent else TFound 2 2))
          (interleave 4 2) = true /\ length (interleave 4 2) = 15%nat.
Proof. exact unregister_window_exact. Qed.
Print Assumptions C08_unregister_window_exact.

Theorem C08_refresh_window_exact :
  forallb (fun sched => tres_eqb (tfind (fst (trun false refresh_window sched)) 7)
                                 (if second_of_1_after 3 sched 0 0 then TFound 1 1 else TFound 2 2))
          (interleave 4 2) = true /\ length (interleave 4 2) = 15%nat.
Proof. exact refresh_window_exact. Qed.
Print Assumptions C08_refresh_window_exact.

Theorem C08_interleaving_premises_satisfiable :
  sys_ok window_P unregister_window /\ sys_ok window_P refresh_window.
Proof. exact window_sys_ok. Qed.
Print Assumptions C08_interleaving_premises_satisfiable.

(* The repaired code (cas = true: the index test-and-write is ONE CompareAndSwap).  Let invocation i0 be
   RegisterConnection(B, new, X) for a fresh connection id `new`, and let every other invocation in the system be `safe`:
   arbitrary lookups, registrations of other clients / connections, and UnregisterConnection / RefreshConnection of ANY
   connection other than `new` — in particular the old node's late cleanup of X's previous connection and stale
   heartbeats on it, at any point of their execution.  Then under EVERY schedule of storage calls: once the registration
   has returned, client_conn:X names `new`, conn_state:new is X's record on B, and the lookup answers (B, new). *)
Theorem C08_registration_survives_all_schedules :
  forall (X B new : N), (0 <? X)%N = true ->
  forall (i0 : nat) (sched : list nat) (s : tstate),
  reg_inv X B new i0 s ->
  nth_error (snd (trun true s sched)) i0 = Some TDone ->
  established X B new (fst (trun true s sched)) /\ tfind (fst (trun true s sched)) X = TFound B new.
Proof. exact registration_survives. Qed.
Print Assumptions C08_registration_survives_all_schedules.

(* ... and a lookup of X started after that never misses and never names another (abandoned) connection, whatever runs
   concurrently with its two reads *)
Theorem C08_lookup_after_registration_all_schedules :
  forall (X B new : N), (0 <? X)%N = true ->
  forall (i0 j : nat) (sched : list nat) (s : tstate) (r : tres),
  lookup_inv X B new i0 j s ->
  nth_error (snd (trun true s sched)) j = Some (TFindDone r) -> r = TFound B new.
Proof. exact lookup_after_registration. Qed.
Print Assumptions C08_lookup_after_registration_all_schedules.

(* the two windows, closed: all interleavings of UnregisterConnection(old) / RefreshConnection(old) with RegisterConnection(new) *)
Theorem C08_cas_windows_closed :
  forallb (fun sched => tres_eqb (tfind (fst (trun true unregister_window sched)) 7) (TFound 2 2)) (interleave 3 2) = true /\
  forallb (fun sched => tres_eqb (tfind (fst (trun true refresh_window sched)) 7) (TFound 2 2)) (interleave 3 2) = true.
Proof. exact cas_windows_closed. Qed.
Print Assumptions C08_cas_windows_closed.

(* non-vacuity: old node's cleanup || stale heartbeat on the old connection || the new registration || a lookup *)
Theorem C08_registration_premises_satisfiable : reg_inv 7 2 2 2 moving_system.
Proof. exact moving_system_reg_inv. Qed.
Print Assumptions C08_registration_premises_satisfiable.

(* ---------------------------------------------------------------------------------------------------------------
   THE OTHER LOCATION RECORD: the client runtime state kept by cloud control (tunnox:runtime:client:state:<client>,
   read by GetClientNodeID / IsClientOnNode / online status; Model/ClientState.v, riding on the same cluster model).
   --------------------------------------------------------------------------------------------------------------- *)

(* after X's most recent login on connection c of node n (no later login of X, no other handshake on c, c not closed),
   the record names (n, c) — whatever else happens in ANY history: heartbeats of X's OLDER connections on other nodes
   handled after the new login, the old nodes' closes / stale sweeps of those connections in any order, other clients.
   (The record's 90 s ttl, renewed by every heartbeat, is not modelled.) *)
Theorem C08_state_current :
  forall (v : variant) (b : backend) (ttl X n c : N) (pre post : list event),
  state_current_at false v b ttl X n c pre post.
Proof. exact state_current. Qed.
Print Assumptions C08_state_current.

Theorem C08_state_current_unfolded :
  forall (v : variant) (b : backend) (ttl X n c : N) (pre post : list event),
  X <> 0%N ->
  w_conns (fst (rs_run false v b ttl pre)) n c = true ->
  quiet X c post = true ->
  snd (rs_run false v b ttl (pre ++ AuthOK n c X :: post)) X = Some (n, c).
Proof. exact state_current. Qed.
Print Assumptions C08_state_current_unfolded.

(* refuted for the behaviour "the heartbeat's touch also re-writes node/conn" (seeded change C08-9): a late heartbeat of
   the old connection moves the record back to the old node *)
Theorem C08_state_touch_moves_refuted :
  exists X n c pre post, ~ state_current_at true current_variant redis_backend 300000 X n c pre post.
Proof. exact touch_moves_refuted. Qed.
Print Assumptions C08_state_touch_moves_refuted.

(* non-vacuity (late heartbeats of the old connection, the old node's cleanup), and the second half of the refutation:
   under touch_moves the old node's cleanup then matches and deletes the record of a client connected elsewhere *)
Theorem C08_state_premises_satisfiable :
  7%N <> 0%N /\ w_conns (fst (rs_run false current_variant redis_backend 300000 rs_wit_pre)) 2 20 = true /\
  quiet 7 20 (rs_wit_post_deleted ++ [Close 1 10; Tick 5]) = true /\
  snd (rs_run false current_variant redis_backend 300000
         (rs_wit_pre ++ AuthOK 2 20 7 :: rs_wit_post_deleted ++ [Close 1 10; Tick 5])) 7 = Some (2%N, 20%N) /\
  snd (rs_run true current_variant redis_backend 300000
         (rs_wit_pre ++ AuthOK 2 20 7 :: [Heartbeat 1 10; Close 1 10])) 7 = None.
Proof. exact state_premises_satisfiable. Qed.
Print Assumptions C08_state_premises_satisfiable.

(* the tunnel-typed handshake (sent by the in-tree client on every tunnel connection it dials): the pinned ServerAuthHandler
   ran ConnectClient for it, moving the record to the tunnel connection — after which the close of that tunnel connection
   "matches" and deletes the record although the control connection is registered (replayed on the REAL ServerAuthHandler
   by the harness); with the repair the record is untouched *)
Theorem C08_state_tunnel_handshake_refuted :
  let rs1 := upd rs_empty 7 (Some (1%N, 10%N)) in
  tunnel_handshake_effect true rs1 7 2 30 7 = Some (2%N, 30%N) /\
  loc_eqb (tunnel_handshake_effect true rs1 7 2 30 7) 2 30 = true /\
  tunnel_handshake_effect false rs1 7 2 30 7 = Some (1%N, 10%N) /\
  loc_eqb (tunnel_handshake_effect false rs1 7 2 30 7) 2 30 = false.
Proof. exact tunnel_handshake_refuted. Qed.
Print Assumptions C08_state_tunnel_handshake_refuted.

(* at storage-call granularity the two-call service (cas = false: GetState then SetState / DeleteState) is NOT safe: *)
Theorem C08_state_disconnect_window_refuted :
  exists sched, rloc (fst (rrun false false (rs_old, [RDisc 7 1 10 0; RConnect 7 2 20]) sched)) 7 = None /\
                snd (rrun false false (rs_old, [RDisc 7 1 10 0; RConnect 7 2 20]) sched) = [RDone; RDone].
Proof. exact disconnect_window_refuted. Qed.
Print Assumptions C08_state_disconnect_window_refuted.

Theorem C08_state_touch_window_refuted :
  exists sched, rloc (fst (rrun false false (rs_old, [REnsure 7 1 10 0; RConnect 7 2 20]) sched)) 7 = Some (1%N, 10%N) /\
                snd (rrun false false (rs_old, [REnsure 7 1 10 0; RConnect 7 2 20]) sched) = [RDone; RDone].
Proof. exact touch_window_refuted. Qed.
Print Assumptions C08_state_touch_window_refuted.

(* the repaired service (cas = true: touch = CompareAndSwap(read value -> touched value), rebuild = SetNX, matched delete =
   CompareAndSwap(read value -> tombstone), each retried at most 3 times; rot = with or without the rebuild-over-tombstone follow-up).  Let invocation i0 be ConnectClient(X, B, b) and
   let every other invocation be safe: heartbeats (EnsureClientOnline) of ANY connection of any client, cleanups
   (DisconnectClientIfMatch) of any connection other than (B, b), logins of other clients — at any point of their
   execution.  Then under EVERY schedule of storage calls: once the login has returned, the record names (B, b). *)
Theorem C08_state_login_survives_all_schedules :
  forall (X B b : N) (rot : bool), (B <> 0%N \/ b <> 0%N) ->
  forall (i0 : nat) (sched : list nat) (s : Threads.st rshared rprog),
  rinv X B b i0 s ->
  nth_error (snd (rrun true rot s sched)) i0 = Some RDone ->
  rloc (fst (rrun true rot s sched)) X = Some (B, b).
Proof. exact state_login_survives. Qed.
Print Assumptions C08_state_login_survives_all_schedules.

Theorem C08_state_cas_windows_closed : forall rot : bool,
  forallb (fun sched => loc_is (rloc (fst (completed rot (rrun true rot (rs_old, [RDisc 7 1 10 0; RConnect 7 2 20]) sched))) 7) 2 20)
          (all_scheds 6 2) = true /\
  forallb (fun sched => loc_is (rloc (fst (completed rot (rrun true rot (rs_old, [REnsure 7 1 10 0; RConnect 7 2 20]) sched))) 7) 2 20)
          (all_scheds 6 2) = true.
Proof. exact cas_state_windows_closed. Qed.
Print Assumptions C08_state_cas_windows_closed.

(* after a matched delete the heartbeat of a still-registered older connection rebuilds the record at once only with
   fixes/C08-rebuild-state-over-tombstone.diff (rot = true); without it the rebuild's SetNX meets the tombstone *)
Theorem C08_state_rebuild_over_tombstone :
  rloc (fst (rrun true true (rs_old, [RDisc 7 1 10 0; REnsure 7 3 30 0]) [0;0;1;1;1]%nat)) 7 = Some (3%N, 30%N) /\
  rloc (fst (rrun true false (rs_old, [RDisc 7 1 10 0; REnsure 7 3 30 0]) [0;0;1;1;1]%nat)) 7 = None.
Proof. exact rebuild_over_tombstone. Qed.
Print Assumptions C08_state_rebuild_over_tombstone.

Theorem C08_state_login_premises_satisfiable : rinv 7 2 20 2 moving_state_system.
Proof. exact moving_state_rinv. Qed.
Print Assumptions C08_state_login_premises_satisfiable.

(* "Once the client's last connection is closed ... not connected", for the runtime-state record.  PARTIAL: the model
   carries the case in which the connection is still the client's registered control connection when its node closes it
   (CloseConnection or stale sweep -> DisconnectClientIfMatch matches).  The full statement is kept below and is REFUTED
   in the model: a connection that was kicked by a login that never completed is closed without any cloud call, and only
   the record's 90 s ttl (not modelled) removes it. *)
Theorem C08_state_after_close_partial :
  forall (v : variant) (b : backend) (ttl X n c : N) (pre post : list event),
  X <> 0%N ->
  w_conns (fst (rs_run false v b ttl pre)) n c = true ->
  quiet X c post = true ->
  w_ctl (fst (rs_run false v b ttl (pre ++ AuthOK n c X :: post))) n c = Some X ->
  snd (rs_run false v b ttl ((pre ++ AuthOK n c X :: post) ++ [Close n c])) X = None.
Proof. exact state_after_close. Qed.
Print Assumptions C08_state_after_close_partial.

Definition C08_state_after_close_full_statement : Prop :=
  forall (v : variant) (b : backend) (ttl : N), state_after_close_full_statement v b ttl.

Theorem C08_state_after_close_full_refuted :
  ~ state_after_close_full_statement current_variant redis_backend 300000.
Proof. exact state_after_close_full_refuted. Qed.
Print Assumptions C08_state_after_close_full_refuted.

(* Only the owner connection's close may remove its record.  The forwarding paths (command_forwarder.go, http_proxy.go,
   dns_handler.go) are lookups: under every schedule they leave the store alone (C08_lookups_do_not_disturb_any_schedule) and
   C08_registration_survives_all_schedules allows no invocation that unregisters the new connection.  A forwarder that
   "cleans up" the connection it located on its own node is refuted (seeded C08-14; replayed on the real SessionManager by
   the harness event ForwardRacingLogin): *)
Theorem C08_forwarder_cleanup_refuted : forall cas : bool,
  let s1 := trun cas (tempty, [TFind 7; TReg 1 10 7 true]) [1; 1; 0; 0]%nat in
  nth_error (snd s1) 0 = Some (TFindDone (TFound 1 10)) /\
  tfind (fst s1) 7 = TFound 1 10 /\
  let s2 := trun cas (fst s1, [TUnreg 10]) [0; 0; 0; 0]%nat in
  all_done s2 = true /\ tfind (fst s2) 7 = TAbsent.
Proof. exact forwarder_cleanup_refuted. Qed.
Print Assumptions C08_forwarder_cleanup_refuted.

(* "most recent SUCCESSFUL handshake": a handshake whose response cannot be delivered (event AuthFail: handleHandshake returns
   before registering anything) leaves the lookup at the client's live connection — an instance of C08_lookup_current, whose
   `post` may contain any AuthFail.  Registering BEFORE answering (seeded C08-17: the event AuthOK in its place, then the close
   of the dead connection) is refuted: *)
Theorem C08_register_before_response_refuted :
  find current_variant redis_backend (run current_variant redis_backend 300000 init (lost_response_history false)) 2 7 = Found 1 10 /\
  find current_variant redis_backend (run current_variant redis_backend 300000 init (lost_response_history true)) 2 7 = Absent.
Proof. exact register_before_response_refuted. Qed.
Print Assumptions C08_register_before_response_refuted.

(* the heartbeat's REBUILD path (record absent, or only the tombstone of a matched delete) racing a login: closed under every
   interleaving in the repaired code (SetNX, then CompareAndSwap(tombstone -> rebuilt); finite sweeps), refuted for a rebuild
   that reads "absent" and then writes (seeded C08-20; harness key race-state-rebuild-window) *)
Theorem C08_state_rebuild_windows_closed :
  forallb (fun sched => loc_is (rloc (fst (completed true (rrun true true (rs_tombstoned, [REnsure 7 1 10 0; RConnect 7 2 30]) sched))) 7) 2 30)
          (all_scheds 5 2) = true /\
  forallb (fun sched => loc_is (rloc (fst (completed true (rrun true true (rsh_empty, [REnsure 7 1 10 0; RConnect 7 2 30]) sched))) 7) 2 30)
          (all_scheds 5 2) = true.
Proof. exact rebuild_windows_closed. Qed.
Print Assumptions C08_state_rebuild_windows_closed.

Theorem C08_state_rebuild_read_then_write_refuted :
  exists sched, rloc (fst (rrun false false (rs_tombstoned, [REnsure 7 1 10 0; RConnect 7 2 30]) sched)) 7 = Some (1%N, 10%N) /\
                snd (rrun false false (rs_tombstoned, [REnsure 7 1 10 0; RConnect 7 2 30]) sched) = [RDone; RDone].
Proof. exact rebuild_read_then_write_refuted. Qed.
Print Assumptions C08_state_rebuild_read_then_write_refuted.

(* node shutdown (registry emptied first, then the deferred CloseConnection of every connection): the close removes the record
   whatever the registry says — an instance of C08_lookup_after_close, whose premise speaks of Close events only.  A close that
   skips the un-registration because the manager no longer holds the connection (seeded C08-23) is refuted: the stopped node's
   client stays locatable there *)
Theorem C08_shutdown_close_must_unregister :
  find current_variant redis_backend (run current_variant redis_backend 300000 init (shutdown_history true)) 2 7 = Absent /\
  find current_variant redis_backend (run current_variant redis_backend 300000 init (shutdown_history false)) 2 7 = Found 1 10.
Proof. exact shutdown_close_must_unregister. Qed.
Print Assumptions C08_shutdown_close_must_unregister.

(* every theorem above is `forall ttl : N` (ms): lifetimes with a fractional-second part are included.  With ttl = 2.5 s and a
   heartbeat every 2.2 s the `kept` hypothesis holds for any number of periods; with only the whole seconds of the ttl renewed
   (seeded C08-25: the Redis CompareAndSwap's EXPIRE) it fails already for the first period *)
Theorem C08_fractional_lifetime_kept_alive :
  forall n c k, kept 2500 n c (beats n c 2200 k) 0 = true /\ kept 2000 n c (beats n c 2200 1) 0 = false.
Proof. exact fractional_lifetime_kept. Qed.
Print Assumptions C08_fractional_lifetime_kept_alive.

(* "most recent SUCCESSFUL handshake", again: a phase-1 handshake message on a connection that was authenticated earlier proves
   nothing (event AuthFail; covered by C08_lookup_current, whose `post` may contain any AuthFail).  Re-registering the location
   for it (seeded C08-29) is refuted: the lookup returns to the connection the client has left *)
Theorem C08_phase1_message_must_not_register :
  find current_variant redis_backend (run current_variant redis_backend 300000 init (phase1_history false)) 1 7 = Found 2 20 /\
  find current_variant redis_backend (run current_variant redis_backend 300000 init (phase1_history true)) 1 7 = Found 1 10.
Proof. exact phase1_message_must_not_register. Qed.
Print Assumptions C08_phase1_message_must_not_register.

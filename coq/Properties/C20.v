(* Properties/C20.v — C20: SOCKS5 requests and UDP headers are parsed exactly as RFC 1928 defines.
   Statements only; every proof is a single `exact`.
   Model/Socks.v holds (a) faithful transcriptions of the Go parsers (Listener.Handshake; the adapter's
   handleHandshake/handlePasswordAuth/handleRequest; parseUDPHeader/buildUDPHeader) as connection programs run over
   the chunk oracle of Base/Chunks.v, the code with fixes/C20-*.diff applied being `current`; (b) an independent
   reference ref_greeting / ref_userpass / ref_request / ref_udp written from the RFC message layouts, and
   expected_* = what a conforming server shows on the wire for each reference verdict.
   External code enters as the hypotheses written out in the statements: net.ParseIP / net.IP.String. *)
From TX Require Import Model.Socks Proofs.Socks Proofs.SideC20 Gen.C20.

(* (1) Listener.Handshake: for EVERY byte string and EVERY chunking of it, the result (command, address type,
   address bytes, port | refusal), the bytes written back (method selection, error reply with the REP the RFC
   mandates) and the unread remainder of the connection are what the reference prescribes. *)
Theorem C20_listener_matches_rfc :
  forall (s : list byte) (cuts : list nat),
  rd_obs (run_rd listener_handshake (mkrd s cuts) []) =
  Some (o_res (expected_listener s), skipn (N.to_nat (o_used (expected_listener s))) s, o_out (expected_listener s)).
Proof. exact listener_matches_rfc. Qed.
Print Assumptions C20_listener_matches_rfc.

(* (1) the server-side adapter: handshake stage (greeting, RFC 1929 sub-negotiation when configured) then, only
   if it succeeded, the request stage; observed per stage, for every byte string, chunking and configuration *)
Theorem C20_adapter_matches_rfc :
  forall (auth : option (list byte * list byte)) (s : list byte) (cuts : list nat),
  adapter_session false auth (mkrd s cuts) = Some (adapter_expected_obs auth s).
Proof. exact adapter_matches_rfc. Qed.
Print Assumptions C20_adapter_matches_rfc.

(* (1) parseUDPHeader = reference on every datagram *)
Theorem C20_udp_parse_matches_rfc :
  forall d : list byte, udp_parse udp_min_current d = ref_udp d.
Proof. exact udp_parse_is_ref. Qed.
Print Assumptions C20_udp_parse_matches_rfc.

(* (2) no over-read: when a request is accepted, the unread remainder of the connection is exactly what follows
   the greeting and request messages (the application payload is intact), under every chunking *)
Theorem C20_listener_no_overread :
  forall s cuts q r' out,
  run_rd listener_handshake (mkrd s cuts) [] = Some (Some q, r', out) ->
  exists glen rlen,
    ref_greeting AUTH_NONE s = GSelected glen /\
    ref_request listener_cmd_ok (skipn (N.to_nat glen) s) = RAccept q rlen /\
    rest r' = skipn (N.to_nat (glen + rlen)) s /\ out = [5; 0]%N.
Proof. exact listener_no_overread. Qed.
Print Assumptions C20_listener_no_overread.

Theorem C20_adapter_no_overread :
  forall auth s cuts o q,
  adapter_session false auth (mkrd s cuts) = Some o -> a_req o = Some q ->
  exists glen rlen,
    g_ok (expected_greeting true auth s) = true /\ g_used (expected_greeting true auth s) = glen /\
    a_hs_left o = skipn (N.to_nat glen) s /\
    ref_request adapter_cmd_ok (skipn (N.to_nat glen) s) = RAccept q rlen /\
    a_left o = skipn (N.to_nat (glen + rlen)) s.
Proof. exact adapter_no_overread. Qed.
Print Assumptions C20_adapter_no_overread.

(* (4) totality and chunk independence of every connection program: the run never exhausts its fuel, and result,
   unread remainder and written bytes do not depend on how the transport cuts the stream *)
Theorem C20_total :
  forall (A : Type) (p : prog A) (r : rd) (out : list byte), run_rd p r out <> None.
Proof. exact run_rd_total. Qed.
Print Assumptions C20_total.

Theorem C20_chunking_irrelevant :
  forall (A : Type) (p : prog A) (s : list byte) (c1 c2 : list nat) (out : list byte),
  rd_obs (run_rd p (mkrd s c1) out) = rd_obs (run_rd p (mkrd s c2) out).
Proof. exact run_rd_chunk_independent. Qed.
Print Assumptions C20_chunking_irrelevant.

(* the reference is the RFC grammar: it accepts a stream iff the stream begins with the RFC encoding
   VER CMD RSV ATYP DST.ADDR DST.PORT of a supported, well-formed request — and returns exactly that request *)
Theorem C20_reference_request_sound :
  forall cmd_ok s q n, wf_bytes s -> ref_request cmd_ok s = RAccept q n ->
  cmd_ok (q_cmd q) = true /\ wf_addr (q_atyp q) (q_addr q) /\ (q_port q < 65536)%N /\
  exists rsv, firstn (N.to_nat n) s = enc_request q rsv /\ (n <= lenN s)%N.
Proof. exact ref_request_sound. Qed.
Print Assumptions C20_reference_request_sound.

Theorem C20_reference_request_complete :
  forall cmd_ok q rsv tail,
  cmd_ok (q_cmd q) = true -> wf_addr (q_atyp q) (q_addr q) -> (q_port q < 65536)%N ->
  ref_request cmd_ok (enc_request q rsv ++ tail) = RAccept q (lenN (enc_request q rsv)).
Proof. exact ref_request_complete. Qed.
Print Assumptions C20_reference_request_complete.

Theorem C20_reference_udp_sound :
  forall d atyp a p data, wf_bytes d -> ref_udp d = Some (atyp, a, p, data) ->
  wf_addr atyp a /\ (p < 65536)%N /\ exists r0 r1, d = enc_udp r0 r1 atyp a p data.
Proof. exact ref_udp_sound. Qed.
Print Assumptions C20_reference_udp_sound.

Theorem C20_reference_udp_complete :
  forall r0 r1 atyp a p data, wf_addr atyp a -> (p < 65536)%N ->
  ref_udp (enc_udp r0 r1 atyp a p data) = Some (atyp, a, p, data).
Proof. exact ref_udp_complete. Qed.
Print Assumptions C20_reference_udp_complete.

(* (3) UDP rebuild / reparse.  Assumed of Go's net package: ParseIP yields 16-byte addresses and inverts
   IP.String on 4- and 16-byte addresses. *)
Theorem C20_udp_rebuild_reparse :
  forall (parse_ip : list byte -> option (list byte)) (ip_string : list byte -> list byte),
  (forall t ip, parse_ip t = Some ip -> lenN ip = 16%N /\ wf_bytes ip) ->
  (forall a, lenN a = 4%N -> wf_bytes a -> parse_ip (ip_string a) = Some (v4mapped a)) ->
  (forall a, lenN a = 16%N -> wf_bytes a -> parse_ip (ip_string a) = Some a) ->
  forall d atyp addr port data,
  wf_bytes d -> udp_parse udp_min_current d = Some (atyp, addr, port, data) ->
  exists atyp' addr',
    udp_parse udp_min_current (udp_build parse_ip (host_text ip_string atyp addr) port data)
      = Some (atyp', addr', port, data) /\
    dest_of parse_ip (host_text ip_string atyp' addr') = dest_of parse_ip (host_text ip_string atyp addr).
Proof. exact udp_rebuild_reparse. Qed.
Print Assumptions C20_udp_rebuild_reparse.

(* every destination the relay can hold (IP text, or a name of at most 255 bytes) is encoded by buildUDPHeader to
   a header that parseUDPHeader reads back as the same destination, port and payload *)
Theorem C20_udp_build_then_parse :
  forall (parse_ip : list byte -> option (list byte)) (ip_string : list byte -> list byte),
  (forall t ip, parse_ip t = Some ip -> lenN ip = 16%N /\ wf_bytes ip) ->
  (forall a, lenN a = 4%N -> wf_bytes a -> parse_ip (ip_string a) = Some (v4mapped a)) ->
  (forall a, lenN a = 16%N -> wf_bytes a -> parse_ip (ip_string a) = Some a) ->
  forall host port data,
  wf_bytes host -> (parse_ip host = None -> (lenN host < 256)%N) -> (port < 65536)%N ->
  exists atyp' addr',
    udp_parse udp_min_current (udp_build parse_ip host port data) = Some (atyp', addr', port, data) /\
    dest_of parse_ip (host_text ip_string atyp' addr') = dest_of parse_ip host.
Proof. exact udp_build_then_parse. Qed.
Print Assumptions C20_udp_build_then_parse.

(* results are values.  Trivial in Gallina, and exactly for that reason recorded: for the Go code it is the
   no-aliasing assumption behind (3) — a built datagram / a parsed host keeps its bytes until its consumer is done
   with it, whatever the relay encodes or parses in the meantime.  The harness checks the assumption on the real
   relay (retained results compared after every later operation, and after a barrier under concurrent builds). *)
Theorem C20_udp_results_are_values :
  forall (parse_ip : list byte -> option (list byte)) (a b : list uop),
  firstn (length a) (run_uops parse_ip (a ++ b)) = run_uops parse_ip a.
Proof. exact run_uops_later_ops_irrelevant. Qed.
Print Assumptions C20_udp_results_are_values.

Theorem C20_udp_history_is_pointwise :
  forall (parse_ip : list byte -> option (list byte)) (l : list uop) i o,
  nth_error l i = Some o -> nth_error (run_uops parse_ip l) i = Some (run_uop parse_ip o).
Proof. exact run_uops_nth. Qed.
Print Assumptions C20_udp_history_is_pointwise.

(* ---- headline statements at the level of the parsers themselves (clause map: lib/clauses.d/C20.md) ---- *)

(* "parsed to the command, address and port that RFC 1928 assigns them, with the payload left intact" — completeness:
   EVERY well-formed RFC 1928 conversation (method selection offering X'00', then a supported request with an IPv4,
   IPv6 or domain-name address) is parsed to exactly that request under EVERY chunking, the reply is 05 00, and the
   bytes following the request stay unread on the connection *)
Theorem C20_listener_accepts_every_rfc_request :
  forall (methods : list byte) q rsv (tail : list byte) cuts,
  (0 < lenN methods)%N -> (lenN methods < 256)%N -> existsb (fun m => m =? 0)%N methods = true ->
  listener_cmd_ok (q_cmd q) = true -> wf_addr (q_atyp q) (q_addr q) -> (q_port q < 65536)%N ->
  rd_obs (run_rd listener_handshake (mkrd (enc_greeting methods ++ enc_request q rsv ++ tail) cuts) []) =
  Some (Some q, tail, [5; 0]%N).
Proof. exact listener_accepts_every_rfc_request. Qed.
Print Assumptions C20_listener_accepts_every_rfc_request.

Theorem C20_adapter_accepts_every_rfc_request :
  forall (methods : list byte) q rsv (tail : list byte) cuts,
  (0 < lenN methods)%N -> (lenN methods < 256)%N -> existsb (fun m => m =? 0)%N methods = true ->
  adapter_cmd_ok (q_cmd q) = true -> wf_addr (q_atyp q) (q_addr q) -> (q_port q < 65536)%N ->
  adapter_session false None (mkrd (enc_greeting methods ++ enc_request q rsv ++ tail) cuts) =
  Some {| a_hs_ok := true; a_hs_left := enc_request q rsv ++ tail; a_req := Some q; a_out := [5; 0]%N; a_left := tail |}.
Proof. exact adapter_accepts_every_rfc_request. Qed.
Print Assumptions C20_adapter_accepts_every_rfc_request.

(* soundness: whatever Listener.Handshake accepts is, byte for byte, the RFC encoding of the request it returns *)
Theorem C20_listener_accepts_only_rfc_encodings :
  forall s cuts q r' out,
  wf_bytes s -> run_rd listener_handshake (mkrd s cuts) [] = Some (Some q, r', out) ->
  listener_cmd_ok (q_cmd q) = true /\ wf_addr (q_atyp q) (q_addr q) /\ (q_port q < 65536)%N /\
  exists glen rlen rsv,
    firstn (N.to_nat rlen) (skipn (N.to_nat glen) s) = enc_request q rsv /\
    rest r' = skipn (N.to_nat (glen + rlen)) s.
Proof. exact listener_accepts_only_rfc_encodings. Qed.
Print Assumptions C20_listener_accepts_only_rfc_encodings.

(* UDP: an accepted datagram IS RSV RSV 00 ATYP DST.ADDR DST.PORT of what was returned, followed by the payload *)
Theorem C20_udp_payload_intact :
  forall d atyp a p data,
  wf_bytes d -> udp_parse udp_min_current d = Some (atyp, a, p, data) ->
  wf_addr atyp a /\ (p < 65536)%N /\ exists r0 r1, d = enc_udp r0 r1 atyp a p data.
Proof. exact udp_parse_payload_intact. Qed.
Print Assumptions C20_udp_payload_intact.

(* "or rejected with the appropriate reply": no acceptable method -> 05 FF; unsupported command -> REP 07;
   unsupported address type -> REP 08 (after the method selection), nothing parsed, the connection read no further
   than the 4-byte fixed part of the request *)
Theorem C20_listener_rejects_with_mandated_reply :
  forall s cuts,
  (forall n, ref_greeting AUTH_NONE s = GNoAcceptable n ->
     rd_obs (run_rd listener_handshake (mkrd s cuts) []) = Some (None, skipn (N.to_nat n) s, [5; 255]%N)) /\
  (forall n, ref_greeting AUTH_NONE s = GSelected n ->
     (ref_request listener_cmd_ok (skipn (N.to_nat n) s) = RCmdUnsupported ->
        rd_obs (run_rd listener_handshake (mkrd s cuts) []) =
        Some (None, skipn (N.to_nat (n + 4)) s, [5; 0]%N ++ reply REP_CMD)) /\
     (ref_request listener_cmd_ok (skipn (N.to_nat n) s) = RAtypUnsupported ->
        rd_obs (run_rd listener_handshake (mkrd s cuts) []) =
        Some (None, skipn (N.to_nat (n + 4)) s, [5; 0]%N ++ reply REP_ATYP))).
Proof. exact listener_rejects_with_mandated_reply. Qed.
Print Assumptions C20_listener_rejects_with_mandated_reply.

Theorem C20_adapter_rejects_with_mandated_reply :
  forall auth s cuts,
  (forall n, ref_greeting (adapter_want auth) s = GNoAcceptable n ->
     exists o, adapter_session false auth (mkrd s cuts) = Some o /\
               a_hs_ok o = false /\ a_req o = None /\ a_out o = [5; 255]%N /\ a_left o = skipn (N.to_nat n) s) /\
  (g_ok (expected_greeting true auth s) = true ->
     let g := expected_greeting true auth s in
     (ref_request adapter_cmd_ok (skipn (N.to_nat (g_used g)) s) = RCmdUnsupported ->
        exists o, adapter_session false auth (mkrd s cuts) = Some o /\ a_req o = None /\
                  a_out o = g_out g ++ reply REP_CMD /\ a_left o = skipn (N.to_nat (g_used g + 4)) s) /\
     (ref_request adapter_cmd_ok (skipn (N.to_nat (g_used g)) s) = RAtypUnsupported ->
        exists o, adapter_session false auth (mkrd s cuts) = Some o /\ a_req o = None /\
                  a_out o = g_out g ++ reply REP_ATYP /\ a_left o = skipn (N.to_nat (g_used g + 4)) s)).
Proof. exact adapter_rejects_with_mandated_reply. Qed.
Print Assumptions C20_adapter_rejects_with_mandated_reply.

(* "the parser never panics" — the part the model carries: (a) parseUDPHeader with Go's indexing made explicit
   (data[i], data[a:b] panic when out of range) never reaches a panic, for every datagram; (b) every connection
   program terminates with a result; (c) a successful io.ReadFull(buf[:n]) delivers exactly n bytes, which is what the
   fixed indices of the TCP parsers (buf[0], buf[1], buf[3], lenBuf[0]) rely on.  PARTIAL: that those literal indices
   are below the requested sizes is by inspection; Go run-time panics of the TCP parsers are otherwise only observed
   (the harness recovers and reports any panic). *)
Definition C20_never_panics_full_statement : Prop :=
  (forall d, udp_parse_checked udp_min_current d <> UPanic) /\
  (forall (A : Type) (p : prog A) (r : rd) (out : list byte), run_rd p r out <> None) /\
  (forall fuel n r got r', (length (rest r) <= fuel)%nat -> read_full fuel n r = RFOk got r' -> lenN got = n).

Theorem C20_never_panics_partial : C20_never_panics_full_statement.
Proof. exact never_panics_model. Qed.
Print Assumptions C20_never_panics_partial.

Theorem C20_udp_parse_checked_is_parse :
  forall mn d, (4 <= mn)%N -> udp_parse_checked mn d = upres_of (udp_parse mn d).
Proof. exact udp_parse_checked_spec. Qed.
Print Assumptions C20_udp_parse_checked_is_parse.

(* the length guard is what excludes the panic: with a first check below 4 a 3-byte datagram indexes out of range *)
Theorem C20_udp_short_guard_refuted : exists d, udp_parse_checked 3 d = UPanic.
Proof. exact udp_parse_short_guard_refuted. Qed.
Print Assumptions C20_udp_short_guard_refuted.

(* non-vacuity of the hypotheses of the two completeness theorems *)
Theorem C20_rfc_request_premises_satisfiable :
  let methods := [2; 0]%N in
  let q := {| q_cmd := 1; q_atyp := 3; q_addr := [97; 46; 98]%N; q_port := 443 |} in
  (0 < lenN methods)%N /\ (lenN methods < 256)%N /\ existsb (fun m => m =? 0)%N methods = true /\
  listener_cmd_ok (q_cmd q) = true /\ adapter_cmd_ok (q_cmd q) = true /\ wf_addr (q_atyp q) (q_addr q) /\
  (q_port q < 65536)%N /\
  enc_greeting methods ++ enc_request q 0 ++ [9; 9]%N = [5;2;2;0; 5;1;0;3;3;97;46;98;1;187; 9;9]%N.
Proof. exact rfc_request_premises_satisfiable. Qed.
Print Assumptions C20_rfc_request_premises_satisfiable.

(* the two defects of the pinned tree (repaired by fixes/C20-*.diff), kept as refuted statements about the
   faithful pinned variants *)
Theorem C20_pinned_udp_short_refuted :
  exists d, ref_udp d <> None /\ udp_parse udp_min_pinned d = None.
Proof. exact pinned_udp_short_refuted. Qed.
Print Assumptions C20_pinned_udp_short_refuted.

Theorem C20_pinned_adapter_overread_refuted :
  exists s c1 c2, adapter_session true None (mkrd s c1) <> adapter_session true None (mkrd s c2)
                  /\ adapter_session true None (mkrd s c1) <> Some (adapter_expected_obs None s).
Proof. exact pinned_adapter_overread_refuted. Qed.
Print Assumptions C20_pinned_adapter_overread_refuted.

(* non-vacuity: the assumptions about net.ParseIP / net.IP.String are satisfiable (a toy text format), and concrete
   non-trivial inputs are accepted by the reference and by the parser models *)
Theorem C20_net_assumptions_satisfiable :
  (forall t ip, toy_parse_ip t = Some ip -> lenN ip = 16%N /\ wf_bytes ip) /\
  (forall a, lenN a = 4%N -> wf_bytes a -> toy_parse_ip (toy_ip_string a) = Some (v4mapped a)) /\
  (forall a, lenN a = 16%N -> wf_bytes a -> toy_parse_ip (toy_ip_string a) = Some a).
Proof. exact toy_net_ok. Qed.
Print Assumptions C20_net_assumptions_satisfiable.

Theorem C20_premises_satisfiable :
  ref_greeting 0 [5;2;2;0]%N = GSelected 4 /\
  ref_request listener_cmd_ok [5;1;0;3;3;97;46;98;1;187;9;9]%N =
    RAccept {| q_cmd := 1; q_atyp := 3; q_addr := [97;46;98]%N; q_port := 443 |} 10 /\
  udp_parse udp_min_current [0;0;0;1;8;8;8;8;0;53;1;2;3]%N = Some (1, [8;8;8;8], 53, [1;2;3])%N /\
  wf_bytes [0;0;0;1;8;8;8;8;0;53;1;2;3]%N.
Proof. exact premises_satisfiable. Qed.
Print Assumptions C20_premises_satisfiable.

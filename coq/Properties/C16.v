(* Properties/C16.v — C16: shutdown paths run exactly once and leave nothing running.
   Models: Model/Shutdown.v (thread programs at atomic-op granularity over Base/Threads.v).  Every theorem quantifies over
   ANY number of threads (closers, adders, reporters, copy loops, Start calls) and ANY schedule (list of thread indices).
   Tunnel.Close and reportTrafficStats are stated for the REPAIRED code (fixes/C16-tunnel-close-cas-loop.diff,
   fixes/C16-bridge-traffic-report-mutex.diff); the pinned code is refuted by witness schedules.
   StreamProcessor is stated for the repaired code of commit cedd5da (onClose keeps reader / writer), pinned code refuted.
   "No goroutine or timer remains" and "no panic" of the real runtime are checked by the harness oracle only (partial). *)
From TX Require Import Model.Shutdown Proofs.Shutdown Proofs.ShutdownLife Proofs.ShutdownMore Proofs.SideC16 Gen.C16.
From Coq Require Import ZArith.

(* (1) handlers_once — dispose.Dispose.  hs0 = handlers registered before anything runs; threads = any mix of Close callers
   and AddCleanHandler callers.
   First part: in every reachable state the invocations so far are an initial segment (in order, position by position, so
   each handler at most once) of the slice copied by runCleanHandlers, and the recorded error indices are exactly those of
   the failing handlers among them.
   Second part: once any Close has returned, the Dispose is closed, the copied slice contains every handler registered
   before the first Close, EVERY handler of it ran exactly once in order (run log = the slice), and every returned Close —
   the one that ran them and all later ones — reports exactly the recorded error indices. *)
Theorem C16_handlers_once :
  forall (hs0 : list hnd) (ts : list dpc) (sched : list nat),
  forallb d_initial ts = true ->
  let s := drun hs0 ts sched in
  (exists sn done rest, ix sn = done ++ rest /\ d_runlog (fst s) = ids done /\ d_errors (fst s) = fidx done /\
                        (exists ext, d_handlers (fst s) = sn ++ ext) /\
                        (d_runlog (fst s) <> [] -> exists mid, sn = hs0 ++ mid)) /\
  (forall r a, In (DDone r a) (snd s) ->
     d_closed (fst s) = true /\
     exists sn, d_snap (fst s) = Some sn /\ (exists mid, sn = hs0 ++ mid) /\ (exists ext, d_handlers (fst s) = sn ++ ext) /\
                d_runlog (fst s) = ids (ix sn) /\ d_errors (fst s) = fidx (ix sn) /\ r = fidx (ix sn)).
Proof. intros hs0 ts sched H. exact (handlers_once_all_schedules hs0 ts sched H). Qed.
Print Assumptions C16_handlers_once.

(* the latch of (1) in isolation (Model section M; the repository tests and sets `closed` inside one critical section, which
   is what section A's DStart step transcribes): ANY number of closers, ANY schedule: the handlers run at most once. *)
Theorem C16_latch_runs_at_most_once :
  forall (k : nat) (sched : list nat), m_runs (fst (run _ _ (mstep true) (minit, repeat MCheck k) sched)) <= 1.
Proof. intros k sched. exact (latch_runs_at_most_once k sched). Qed.
Print Assumptions C16_latch_runs_at_most_once.

(* check-then-act (an IsClosed() fast path before Lock, no re-test under the lock): two closers both pass the test before
   either sets the flag, and every clean handler runs twice *)
Theorem C16_latch_check_then_act_refuted :
  exists sched, m_runs (fst (run _ _ (mstep false) (minit, [MCheck; MCheck]) sched)) = 2.
Proof. exact latch_check_then_act_refuted. Qed.
Print Assumptions C16_latch_check_then_act_refuted.

(* Close / Stop never waits on itself (Model section O: the clean handlers run under the non-re-entrant Dispose lock and, in
   the repository, none of them takes that lock again): ANY number of closers, ANY schedule: whenever the lock is held its
   holder's next step is enabled. *)
Theorem C16_lock_holder_never_blocked :
  forall (k : nat) (sched : list nat),
  let s := run _ _ (ostep false) (oinit, repeat OLock k) sched in
  o_lock (fst s) = true ->
  exists i t, nth_error (snd s) i = Some t /\ (t = ORun \/ t = OUnlock) /\ fst (ostep false t (fst s)) <> t.
Proof. intros k sched. exact (lock_holder_never_blocked k sched). Qed.
Print Assumptions C16_lock_holder_never_blocked.

(* a clean handler that reaches a call taking the Dispose lock of its own component (the OnClosed closure of the mapping
   handler's tunnels calling h.IsClosed() while Stop() runs the clean-up handler): the closer waits for itself forever and
   the handler never ran *)
Theorem C16_reentrant_handler_refuted :
  exists pre,
    let s := run _ _ (ostep true) (oinit, [OLock; OLock]) pre in
    snd s = [ORun; OLock] /\ o_ran (fst s) = 0 /\ (forall sched, run _ _ (ostep true) s sched = s).
Proof. exact reentrant_handler_refuted. Qed.
Print Assumptions C16_reentrant_handler_refuted.

(* the connection slot of the mapping handler (Model section Q, repository: releaseSlot goes through a sync.Once): ANY number
   of release attempts — the tunnel's OnClosed, the deferred failure path after a close that landed between RegisterTunnel
   and Start, ... — ANY schedule: the counter is 1 or 0, never negative, and 0 exactly when a release has happened. *)
Theorem C16_slot_released_once :
  forall (k : nat) (sched : list nat),
  let s := run _ _ (qrelease true) (qsinit, repeat false k) sched in
  (qs_active (fst s) = 1%Z \/ qs_active (fst s) = 0%Z) /\ (qs_once (fst s) = true <-> qs_active (fst s) = 0%Z).
Proof. intros k sched. exact (slot_released_once k sched). Qed.
Print Assumptions C16_slot_released_once.

(* the plain decrement: OnClosed and the deferred failure path both release the slot: -1 *)
Theorem C16_slot_plain_decrement_refuted :
  exists sched, qs_active (fst (run _ _ (qrelease false) (qsinit, [false; false]) sched)) = (-1)%Z.
Proof. exact slot_plain_decrement_refuted. Qed.
Print Assumptions C16_slot_plain_decrement_refuted.

(* (2) callback_once — client Tunnel.Close (repaired: CAS loop), from Connecting or Connected, any closers with any
   reasons, any concurrent Start calls.  The actions performed (Dispose.Close, both connection closes, peer notification,
   unregister, onClosed) are an initial segment of ONE run of the close body; Closed means one whole body has run; when
   all Close calls have returned the tunnel is Closed; at most one closer is ever inside the body. *)
Theorem C16_callback_once :
  forall (st0 : nat) (ts : list tth) (sched : list nat),
  st0 < 2 -> forallb t_initial ts = true ->
  let s := trun true st0 ts sched in
  (exists b done rest, body b = done ++ rest /\ t_trace (fst s) = done) /\
  (t_state (fst s) = 3 -> exists b, t_trace (fst s) = body b) /\
  (forallb t_returned (snd s) = true -> existsb t_is_closer (snd s) = true -> t_state (fst s) = 3) /\
  (flat_map twin (snd s) = [] \/ (t_state (fst s) = 2 /\ exists w, flat_map twin (snd s) = [w])).
Proof. intros st0 ts sched H1 H2. exact (tunnel_close_once_all_schedules st0 ts sched H1 H2). Qed.
Print Assumptions C16_callback_once.

(* counting form of (2): every close action at most once in any reachable state; exactly once when Closed
   (the notification exactly once iff the winning closer's reason asks for it, see body) *)
Theorem C16_callback_counts :
  forall (st0 : nat) (ts : list tth) (sched : list nat),
  st0 < 2 -> forallb t_initial ts = true ->
  let s := trun true st0 ts sched in
  (forall a, tcount a (t_trace (fst s)) <= 1) /\
  (t_state (fst s) = 3 -> forall a, a <> ANotify -> tcount a (t_trace (fst s)) = 1).
Proof. intros st0 ts sched H1 H2. exact (tunnel_actions_counted st0 ts sched H1 H2). Qed.
Print Assumptions C16_callback_counts.

(* unregister (Tunnel.Close ends with manager.UnregisterTunnel(id): deletion BY ID) against registrations under the same id
   (Model section N, repository: RegisterTunnel is refused while ANY entry exists under the id): the closer of tunnel 0 and
   ANY number of registrations, ANY schedule: every tunnel whose registration succeeded is the manager's current entry, so
   manager.Close() reaches it — the old tunnel's unregister never removes somebody else's entry. *)
Theorem C16_registered_tunnels_stay_visible :
  forall (regs : list nat) (sched : list nat),
  let s := run _ _ (nstep false) (ninit, NMark :: map NReg regs) sched in
  forall b, In b (n_regok (fst s)) -> n_entry (fst s) = Some b.
Proof. intros regs sched. exact (registered_tunnels_stay_visible regs sched). Qed.
Print Assumptions C16_registered_tunnels_stay_visible.

(* the entry of a Closing tunnel may be replaced: B registers while A is between its state CAS and UnregisterTunnel(id);
   A's unregister-by-id then deletes B's entry: B is registered successfully, runs, and is invisible to manager.Close() *)
Theorem C16_replace_closing_entry_refuted :
  exists sched,
    let s := run _ _ (nstep true) (ninit, [NMark; NReg 7]) sched in
    snd s = [NDone; NRegRet true] /\ n_regok (fst s) = [7] /\ n_entry (fst s) = None.
Proof. exact replace_closing_entry_refuted. Qed.
Print Assumptions C16_replace_closing_entry_refuted.

(* the pinned Tunnel.Close: two closers both pass the state load; the CAS loser falls into Store(Closing) and runs the
   body too: onClosed, unregister and the peer notification happen twice *)
Theorem C16_pinned_tunnel_close_refuted :
  exists sched,
    let s := trun false 1 [ {| t_notify := true; t_pc := TLoad |}; {| t_notify := true; t_pc := TLoad |} ] sched in
    tcount ACallback (t_trace (fst s)) = 2 /\ tcount AUnreg (t_trace (fst s)) = 2 /\ tcount ANotify (t_trace (fst s)) = 2.
Proof. exact pinned_tunnel_close_refuted. Qed.
Print Assumptions C16_pinned_tunnel_close_refuted.

(* pinned, second shape: a Closed tunnel goes back to Closing *)
Theorem C16_pinned_tunnel_reopens_closed_refuted :
  exists sched1 sched2,
    let ts := [ {| t_notify := false; t_pc := TLoad |}; {| t_notify := false; t_pc := TLoad |} ] in
    t_state (fst (trun false 1 ts sched1)) = 3 /\ t_state (fst (trun false 1 ts (sched1 ++ sched2))) = 2.
Proof. exact pinned_tunnel_reopens_closed_refuted. Qed.
Print Assumptions C16_pinned_tunnel_reopens_closed_refuted.

(* (3) traffic_once — Bridge.reportTrafficStats (repaired: serialised), one counter; any number of reporters (cleanup
   handler, ticks, final report) and copy loops adding non-negative batches.  What cloud control holds beyond its base
   value is the sum of the reported deltas, every delta is positive, and the total never exceeds the byte counter (no byte
   is reported twice); with no report in progress the total equals lastReported; when all threads have finished no report
   is in progress. *)
Theorem C16_traffic_once :
  forall (base : Z) (ts : list rpc) (sched : list nat),
  forallb r_initial ts = true ->
  let s := rrun true base ts sched in
  (r_stats (fst s) - base = zsum (r_calls (fst s)))%Z /\ Forall (fun d => (0 < d)%Z) (r_calls (fst s)) /\
  (r_stats (fst s) - base <= r_cnt (fst s))%Z /\
  (r_mu (fst s) = false -> (r_stats (fst s) - base = r_last (fst s))%Z /\ (r_last (fst s) <= r_cnt (fst s))%Z) /\
  (forallb r_finished (snd s) = true -> r_mu (fst s) = false).
Proof. intros base ts sched H. exact (traffic_once_all_schedules base ts sched H). Qed.
Print Assumptions C16_traffic_once.

(* completeness of the last report: from any quiescent state satisfying the invariant, one report with nobody else moving
   brings the reported total to the counter exactly: sum of reported deltas = final counter *)
Theorem C16_traffic_final_report_complete :
  forall (base : Z) (sh : rsh),
  r_mu sh = false -> (r_stats sh = base + r_last sh)%Z -> (r_last sh <= r_cnt sh)%Z ->
  let sh' := report_alone true sh in
  (r_stats sh' = base + r_cnt sh)%Z /\ r_last sh' = r_cnt sh /\ r_cnt sh' = r_cnt sh /\ r_mu sh' = false.
Proof. intros base sh H1 H2 H3. exact (report_alone_complete base sh H1 H2 H3). Qed.
Print Assumptions C16_traffic_final_report_complete.

(* headline form of (3): traffic totals are reported once.  ANY reporters and copy loops, ANY schedule; once every thread has
   finished, the last report that runs with nobody else moving (the final periodic report / the cleanup handler's report
   after the copy loops have ended) leaves cloud control with exactly base + the final byte counter: every counted byte has
   been reported, none twice (before that report the reported total is the sum of the positive deltas and <= the counter). *)
Theorem C16_traffic_totals_reported_once :
  forall (base : Z) (ts : list rpc) (sched : list nat),
  forallb r_initial ts = true ->
  let s := rrun true base ts sched in
  forallb r_finished (snd s) = true ->
  let sh' := report_alone true (fst s) in
  (r_stats sh' = base + r_cnt (fst s))%Z /\ r_last sh' = r_cnt (fst s) /\ r_cnt sh' = r_cnt (fst s) /\ r_mu sh' = false /\
  (r_stats (fst s) - base = zsum (r_calls (fst s)))%Z /\ (r_stats (fst s) - base <= r_cnt (fst s))%Z.
Proof. intros base ts sched H1 s H2. exact (traffic_totals_reported_once base ts sched H1 H2). Qed.
Print Assumptions C16_traffic_totals_reported_once.

(* client side of "reports traffic totals once": the mapping handler's reportStats (repository: Swap(0), upload, roll back on
   failure), one counter.  ANY number of reporters (30 s ticks, the final report of the clean-up handler; each upload may
   fail) and of tunnels adding their totals, ANY schedule: what has been uploaded never exceeds what was counted (no byte
   twice), the local counter is never negative, and once every thread has finished uploaded + still-local = counted. *)
Theorem C16_mapping_stats_conserved :
  forall (ts : list kpc) (sched : list nat),
  forallb k_initial ts = true ->
  let s := run _ _ (kstep true) (kinit, ts) sched in
  (k_up (fst s) <= k_added (fst s))%Z /\ (0 <= k_cnt (fst s))%Z /\
  (forallb k_finished (snd s) = true -> (k_up (fst s) + k_cnt (fst s) = k_added (fst s))%Z).
Proof. intros ts sched H. exact (stats_conserved_all_schedules ts sched H). Qed.
Print Assumptions C16_mapping_stats_conserved.

(* load, upload, subtract on success: the periodic report and the final report both load the same 1000 bytes *)
Theorem C16_stats_load_subtract_refuted :
  exists sched,
    let s := run _ _ (kstep false) (kinit, [KAdd [1000%Z]; KTake false; KTake false]) sched in
    forallb k_finished (snd s) = true /\ k_added (fst s) = 1000%Z /\ k_up (fst s) = 2000%Z /\ k_cnt (fst s) = (-1000)%Z.
Proof. exact stats_load_subtract_refuted. Qed.
Print Assumptions C16_stats_load_subtract_refuted.

(* Bridge.cleanup's final report against a statistics backend that does not answer (repository: helper goroutine + 5 s
   timer).  System [closer; report helper; timer; backend]; after ANY schedule — in particular one in which the backend thread
   never runs — letting the timer fire and the closer take three more steps ends the clean-up: Close returns. *)
Theorem C16_guarded_final_report_close_completes :
  forall pre : list nat,
  let s := run _ _ (lstep true) (linit, [LSpawn; LReport; LTimer; LBackend]) pre in
  nth_error (snd (run _ _ (lstep true) s [2; 0; 0; 0])) 0 = Some LDone.
Proof. intros pre. exact (guarded_final_report_close_completes pre). Qed.
Print Assumptions C16_guarded_final_report_close_completes.

(* the synchronous final report: the backend never answers, the timer fires in vain, nothing ever moves again *)
Theorem C16_unguarded_final_report_refuted :
  exists pre,
    let s := run _ _ (lstep false) (linit, [LSpawn; LReport; LTimer]) pre in
    snd s = [LWait; LReport; LTimerFired] /\ (forall sched, run _ _ (lstep false) s sched = s).
Proof. exact unguarded_final_report_refuted. Qed.
Print Assumptions C16_unguarded_final_report_refuted.

(* what the traffic report is computed from: CopyWithControl's batched counter (Model section P, repository: one explicit flush
   in the context branch, one after the loop, no deferred flush).  EVERY sequence of delivered chunks, EVERY threshold, BOTH
   exit paths: the shared counter equals the bytes delivered (so, with (3), reported == delivered). *)
Theorem C16_copy_counter_exact :
  forall (threshold : N) (chunks : list N) (via_ctx : bool),
  let s := cp_run true true false threshold chunks via_ctx in
  cp_counter s = fold_right N.add 0%N chunks /\ cp_total s = fold_right N.add 0%N chunks.
Proof. intros threshold chunks via_ctx. exact (copy_counter_exact threshold chunks via_ctx). Qed.
Print Assumptions C16_copy_counter_exact.

(* a deferred flush added while the explicit add of the context branch is kept: leaving through the context check counts the
   unflushed tail twice *)
Theorem C16_copy_counter_double_flush_refuted :
  cp_counter (cp_run true false true 1048576 [7; 7; 7]%N true) = 42%N /\ cp_total (cp_run true false true 1048576 [7; 7; 7]%N true) = 21%N.
Proof. exact copy_counter_double_flush_refuted. Qed.
Print Assumptions C16_copy_counter_double_flush_refuted.

(* the pinned reportTrafficStats: cleanup handler and final report compute the same delta: 100 bytes reported as 200 *)
Theorem C16_pinned_traffic_double_report_refuted :
  exists sched,
    let s := rrun false 0 [CAdd [100%Z]; RLock; RLock] sched in
    r_cnt (fst s) = 100%Z /\ r_stats (fst s) = 200%Z /\ r_calls (fst s) = [100%Z; 100%Z] /\ forallb r_finished (snd s) = true.
Proof. exact pinned_traffic_double_report_refuted. Qed.
Print Assumptions C16_pinned_traffic_double_report_refuted.

(* pinned, second shape: a stale `current` gives a negative delta *)
Theorem C16_pinned_traffic_negative_delta_refuted :
  exists sched,
    let s := rrun false 0 [CAdd [100%Z; 50%Z]; RLock; RLock] sched in
    exists d, In d (r_calls (fst s)) /\ (d < 0)%Z.
Proof. exact pinned_traffic_negative_delta_refuted. Qed.
Print Assumptions C16_pinned_traffic_negative_delta_refuted.

(* (4) ops_after_close_fail_cleanly — StreamProcessor (Model pstep; `true` = the repaired code of commit cedd5da: onClose
   closes reader / writer but keeps the fields; `false` = the pinned code, which also nils them without the locks).

   Full statement, repaired code: for ANY closers and read operations and ANY schedule — operations concurrent with Close
   included — no operation ever calls a nil reader: the panic counter stays 0 and no thread is in the panicked state
   (every operation is waiting for a lock, running, or has returned ok / an error). *)
Definition C16_full_statement_stream (fixed : bool) : Prop :=
  forall (reads : nat) (ts : list ppc) (sched : list nat),
  forallb p_initial ts = true ->
  let s := run _ _ (pstep fixed reads) (pinit, ts) sched in
  p_panics (fst s) = 0 /\ Forall (fun t => t <> OPanicked) (snd s).

Theorem C16_ops_concurrent_with_close_never_crash : C16_full_statement_stream true.
Proof. intros reads ts sched H. exact (ops_concurrent_with_close_never_crash reads ts sched H). Qed.
Print Assumptions C16_ops_concurrent_with_close_never_crash.

(* both variants: a read operation that has not yet taken the read lock when the processor is closed never reaches the
   reader, whatever else runs: it waits or has returned an error (never success, never a nil-reader call) *)
Theorem C16_ops_after_close_fail_cleanly :
  forall (fixed : bool) (reads j : nat) (sh : psh) (ls : list ppc) (sched : list nat),
  p_closed sh = true -> nth_error ls j = Some OStart ->
  let s := run _ _ (pstep fixed reads) (sh, ls) sched in
  nth_error (snd s) j = Some OStart \/ nth_error (snd s) j = Some OHaveLock \/ nth_error (snd s) j = Some (ORet false).
Proof. intros fixed reads j sh ls sched H1 H2. exact (ops_after_close_fail_cleanly fixed reads j sh ls sched H1 H2). Qed.
Print Assumptions C16_ops_after_close_fail_cleanly.

(* both variants: the underlying reader is closed at most once for any number of closers and operations *)
Theorem C16_reader_closed_at_most_once :
  forall (fixed : bool) (reads : nat) (ts : list ppc) (sched : list nat),
  forallb p_initial ts = true ->
  let s := run _ _ (pstep fixed reads) (pinit, ts) sched in p_rclose (fst s) <= 1.
Proof. intros fixed reads ts sched H. exact (reader_closed_at_most_once fixed reads ts sched H). Qed.
Print Assumptions C16_reader_closed_at_most_once.

(* the schedule that crashes the pinned code (operation past its closed-check, Close runs to completion, next reader call)
   ends with a clean error and a released read lock in the repaired code *)
Theorem C16_read_concurrent_with_close_returns_error :
  let s := run _ _ (pstep true 2) (pinit, [OStart; PClose]) ([0;0;0;0] ++ repeat 1 5 ++ [0]) in
  p_panics (fst s) = 0 /\ nth_error (snd s) 0 = Some (ORet false) /\ p_rlock (fst s) = false.
Proof. exact read_concurrent_with_close_fixed_returns_error. Qed.
Print Assumptions C16_read_concurrent_with_close_returns_error.

(* the pinned code violates the full statement: onClose nils ps.reader without the read lock, and the operation's next
   reader call is a nil-interface call (repaired by cedd5da; a revert is caught by the gated replay stream_gate) *)
Theorem C16_read_concurrent_with_close_refuted :
  exists sched, p_panics (fst (run _ _ (pstep false 2) (pinit, [OStart; PClose]) sched)) = 1.
Proof. exact read_concurrent_with_close_panics_refuted. Qed.
Print Assumptions C16_read_concurrent_with_close_refuted.

(* a read pending on a polling reader when Close arrives (Model section R; repository: ReadExact / ReadExactZeroCopy test the
   processor's context on every iteration of their loop; the reader returns (0, nil) while idle and is not unblocked by
   Close): once the context is cancelled the read returns after at most two steps of its own, whatever else runs. *)
Theorem C16_polling_read_returns_after_close :
  forall (sh : rdsh) (ls : list rdpc) (h : nat),
  rd_cancel sh = true -> (nth_error ls h = Some RChk \/ nth_error ls h = Some RRd \/ nth_error ls h = Some RRet) ->
  nth_error (snd (run _ _ (rdstep true) (sh, ls) [h; h])) h = Some RRet.
Proof. intros sh ls h H1 H2. exact (polling_read_returns_after_close sh ls h H1 H2). Qed.
Print Assumptions C16_polling_read_returns_after_close.

(* the context test hoisted out of the loop: Close returns, the read keeps polling, no schedule ever ends it *)
Theorem C16_hoisted_context_check_refuted :
  exists pre,
    let s := run _ _ (rdstep false) ({| rd_cancel := false |}, [RChk; RCl]) pre in
    snd s = [RRd; RClDone] /\ rd_cancel (fst s) = true /\ (forall sched, run _ _ (rdstep false) s sched = s).
Proof. exact hoisted_context_check_refuted. Qed.
Print Assumptions C16_hoisted_context_check_refuted.

(* (5) start_close — Tunnel.Start against Tunnel.Close over {state, context, dispose latch} (Model section E, repository
   order: SetCtx before the Connecting->Connected CAS; `spawns` go statements).  ANY number of Start calls and Close calls,
   ANY interleaving of their atomic steps (so in particular a complete Close at every point inside Start):
   a goroutine is never started without a context, onClosed never runs twice, and once every call has returned (and somebody
   closed) the tunnel is Closed, onClosed ran exactly once and nothing started by Start is alive (its context is cancelled). *)
Theorem C16_start_close_leaves_nothing_running :
  forall (spawns : nat) (ts : list epc) (sched : list nat),
  forallb (e_initial true) ts = true ->
  let s := erun true spawns ts sched in
  (0 < e_spawned (fst s) -> e_ctx (fst s) <> 0) /\ e_cb (fst s) <= 1 /\
  (forallb e_returned (snd s) = true -> existsb e_is_closer (snd s) = true ->
     e_state (fst s) = 3 /\ e_cb (fst s) = 1 /\ e_monitors_alive (fst s) = false).
Proof. intros spawns ts sched H. exact (start_close_all_schedules spawns ts sched H). Qed.
Print Assumptions C16_start_close_leaves_nothing_running.

(* the CAS moved ahead of SetCtx: a complete Close between the two steps finds no context to cancel; Start then creates a
   fresh never-cancelled context, re-opens the latch, returns nil and starts the monitors of a tunnel that is already Closed *)
Theorem C16_cas_before_setctx_refuted :
  exists sched,
    let s := erun false 3 [EStartCas; ELoad] sched in
    forallb e_returned (snd s) = true /\ e_state (fst s) = 3 /\ e_cb (fst s) = 1 /\
    nth_error (snd s) 0 = Some (EStartRet true) /\ e_monitors_alive (fst s) = true /\ e_latch (fst s) = false.
Proof. exact cas_before_setctx_refuted. Qed.
Print Assumptions C16_cas_before_setctx_refuted.

(* (6) close_not_blocked_by_io — Bridge.Close against the copy loops (Model section F, repository shape: dynamicSourceWriter
   releases sourceConnMu before it calls the forwarder's Write; waitForTokens waits with the bridge context).  ANY number of
   copy steps, each possibly starved of bandwidth tokens and / or writing to a stalled peer, ANY number of Close calls (at least
   one), ANY schedule so far: no thread holds the read lock across the blocking Write, and from the state reached there is a
   continuation in which EVERY thread has finished — every Close has returned and the copy loops have ended, so Start
   returns: every blocking wait of the copy loop is ended by what Close does, so any fair scheduler completes the shutdown. *)
Theorem C16_close_completes_despite_stalled_writes :
  forall (ts : list fth) (pre : list nat),
  forallb f_initial ts = true -> existsb f_is_closer ts = true ->
  let s := run _ _ (fstep false true) (finit, ts) pre in
  Forall f_releasing (snd s) /\
  (exists sched, forallb f_finished (snd (run _ _ (fstep false true) s sched)) = true).
Proof. intros ts pre H1 H2. exact (close_completes_despite_stalled_writes ts pre H1 H2). Qed.
Print Assumptions C16_close_completes_despite_stalled_writes.

(* the read lock held across the Write (deferred RUnlock): the write to a stalled peer parks holding the lock, Close waits
   for the lock, and the only step that would release the write — closing the forwarder — is behind that lock: no schedule
   moves any thread again, and a Close is pending forever *)
Theorem C16_lock_held_across_write_refuted :
  exists pre,
    let s := run _ _ (fstep true true) (finit, [ {| f_stall := true; f_starved := false; f_pc := WLock |};
                                                 {| f_stall := false; f_starved := false; f_pc := KLock |} ]) pre in
    (forall sched, run _ _ (fstep true true) s sched = s) /\ existsb f_close_pending (snd s) = true.
Proof. exact lock_held_across_write_refuted. Qed.
Print Assumptions C16_lock_held_across_write_refuted.

(* the token wait not tied to the bridge context (ReserveN + time.Sleep): Close runs to completion and cancels the context,
   the starved copy step sleeps on and no schedule ever moves it: the copy loop never ends, Start never returns *)
Theorem C16_uncancellable_token_wait_refuted :
  exists pre,
    let s := run _ _ (fstep false false) (finit, [ {| f_stall := false; f_starved := true; f_pc := WThrottle |};
                                                   {| f_stall := false; f_starved := false; f_pc := KLock |} ]) pre in
    (forall sched, run _ _ (fstep false false) s sched = s) /\ map f_pc (snd s) = [WThrottle; KDone] /\ f_cancel (fst s) = true.
Proof. exact uncancellable_token_wait_refuted. Qed.
Print Assumptions C16_uncancellable_token_wait_refuted.

(* (7) queued_op — StreamProcessor acquireReadLock / acquireWriteLock, repository order (lock, then the closed test): for ANY
   operations and Close calls and ANY schedule, no call is ever made on the underlying reader / writer by an operation that
   entered its I/O phase after Close had returned; and an operation that has not entered its I/O phase at a moment when the
   processor is closed (queued on the lock behind an in-flight operation, or holding it before the test) only ever waits or
   returns an error. *)
Theorem C16_no_io_after_close_by_queued_ops :
  forall (reads : nat) (ts : list qpc) (sched : list nat),
  Forall q_ok ts -> q_late (fst (run _ _ (qstep true reads) (qinit, ts) sched)) = 0.
Proof. intros reads ts sched H. exact (no_late_io_all_schedules reads ts sched H). Qed.
Print Assumptions C16_no_io_after_close_by_queued_ops.

Theorem C16_queued_op_fails_cleanly :
  forall (reads j : nat) (sh : qsh) (ls : list qpc) (sched : list nat),
  q_closed sh = true -> (nth_error ls j = Some QStart \/ nth_error ls j = Some QHave) ->
  let s := run _ _ (qstep true reads) (sh, ls) sched in
  nth_error (snd s) j = Some QStart \/ nth_error (snd s) j = Some QHave \/ nth_error (snd s) j = Some (QRet false).
Proof. intros reads j sh ls sched H1 H2. exact (queued_op_fails_cleanly reads j sh ls sched H1 H2). Qed.
Print Assumptions C16_queued_op_fails_cleanly.

(* the closed test moved in front of the lock: {A, B, Close}: B passes the test, queues behind A, Close runs and returns,
   B then performs its call on the underlying reader of the closed processor and returns ok *)
Theorem C16_check_before_lock_refuted :
  exists sched,
    let s := run _ _ (qstep false 1) (qinit, [QStart; QStart; QClose]) sched in
    q_closed (fst s) = true /\ q_dlock (fst s) = false /\ nth_error (snd s) 1 = Some (QRet true) /\ q_late (fst s) = 1.
Proof. exact check_before_lock_refuted. Qed.
Print Assumptions C16_check_before_lock_refuted.

(* (8) composite_bodies — a clean handler whose body shuts down several sub-components, each of which may fail
   (`bodies h` = the sub-components of handler h with their failure flags): for ANY failure pattern, ANY number of concurrent
   closers / adders and ANY schedule, once a Close has returned every sub-component body of every handler registered before
   the first Close ran exactly once, in order (composition of (1) with the continue-on-error body). *)
Theorem C16_composite_bodies_once :
  forall (bodies : nat -> list sub) (hs0 : list hnd) (ts : list dpc) (sched : list nat),
  forallb d_initial ts = true ->
  let s := drun hs0 ts sched in
  forall r a, In (DDone r a) (snd s) ->
    exists sn, d_snap (fst s) = Some sn /\ (exists mid, sn = hs0 ++ mid) /\
      sub_runlog false bodies (d_runlog (fst s)) = flat_map (fun h => map s_id (bodies (h_id h))) sn.
Proof. intros bodies hs0 ts sched H. exact (composite_bodies_once bodies hs0 ts sched H). Qed.
Print Assumptions C16_composite_bodies_once.

(* return at the first failing sub-component: a later sub-component (the tunnel manager) is never shut down *)
Theorem C16_early_return_refuted :
  exists subs, In 2 (map s_id subs) /\ ~ In 2 (fst (run_body true subs)).
Proof. exact early_return_refuted. Qed.
Print Assumptions C16_early_return_refuted.

(* (9) attach_after_close — Bridge.Close re-sweeps whatever is attached now (repository), one side of the bridge: for ANY
   Close calls and attach calls of distinct connections and ANY schedule, no connection is closed twice, and when a Close
   then runs its sweep with nobody else moving (the lifecycle's final Close), the slot is empty and every connection ever
   attached that was not displaced by a later attach has been closed exactly once. *)
Theorem C16_attach_after_close :
  forall (ts : list bpc) (sched : list nat) (k : nat),
  NoDup (flat_map b_pending ts) ->
  let s := run _ _ (bstep false) (binit, ts) sched in
  (forall c, cnt c (b_closedlog (fst s)) <= 1) /\
  (nth_error (snd s) k = Some BClose ->
     let s' := run _ _ (bstep false) s [k; k] in
     b_slot (fst s') = None /\
     forall c, cnt c (b_closedlog (fst s')) + cnt c (b_dropped (fst s')) = cnt c (b_attached (fst s')) /\ cnt c (b_attached (fst s')) <= 1).
Proof. intros ts sched k H. exact (attach_after_close_all_schedules ts sched k H). Qed.
Print Assumptions C16_attach_after_close.

(* the "already closed, return" fast path: Close; a late connection is attached; the final Close returns at once *)
Theorem C16_close_fast_path_refuted :
  exists sched,
    let s := run _ _ (bstep true) (binit, [BClose; BAttach 7; BClose]) sched in
    snd s = [BDone; BAttached; BDone] /\ b_slot (fst s) = Some 7 /\ cnt 7 (b_closedlog (fst s)) = 0 /\ cnt 7 (b_attached (fst s)) = 1.
Proof. exact close_fast_path_refuted. Qed.
Print Assumptions C16_close_fast_path_refuted.

(* (10) connection_released_once — SessionManager.CloseConnection (repository order: delete the map entry under connLock,
   THEN release) against any number of further CloseConnection calls for the same connection and SessionManager.Close calls,
   ANY schedule: the release body (Stream.Close, RawConn.Close) never runs twice; once every closer has returned it ran
   exactly once and the entry is gone. *)
Theorem C16_connection_released_once :
  forall (ts : list ipc) (sched : list nat),
  forallb i_initial ts = true ->
  let s := run _ _ (istep true) (iinit, ts) sched in
  i_released (fst s) <= 1 /\
  (forallb i_done (snd s) = true -> snd s <> [] -> i_released (fst s) = 1 /\ i_present (fst s) = false).
Proof. intros ts sched H. exact (connection_released_once ts sched H). Qed.
Print Assumptions C16_connection_released_once.

(* release first, delete afterwards: a second CloseConnection, or SessionManager.Close, arriving while the first closer is
   releasing the connection releases it again *)
Theorem C16_release_before_remove_refuted :
  exists sched, i_released (fst (run _ _ (istep false) (iinit, [ILookup; ILookup]) sched)) = 2.
Proof. exact release_before_remove_refuted. Qed.
Print Assumptions C16_release_before_remove_refuted.
Theorem C16_release_before_remove_mgr_refuted :
  exists sched, i_released (fst (run _ _ (istep false) (iinit, [ILookup; IMgrClose]) sched)) = 2.
Proof. exact release_before_remove_mgr_refuted. Qed.
Print Assumptions C16_release_before_remove_mgr_refuted.

(* (11) dispose.ResourceManager.  For EVERY history of Register / Unregister / DisposeAll the registered names are distinct
   and a DisposeAll disposes each registered resource exactly once, in reverse registration order, and leaves nothing
   registered. *)
Theorem C16_resource_manager_dispose_all_once :
  forall ops : list rmop,
  let s := rm_run ops in let s' := rm_apply s RmDisposeAll in
  rm_order s' = [] /\ rm_log s' = rm_log s ++ rev (map fst (rm_order s)) /\ NoDup (rev (map fst (rm_order s))).
Proof. intros ops. exact (rm_dispose_all_once ops). Qed.
Print Assumptions C16_resource_manager_dispose_all_once.

(* DisposeAll works on a snapshot (repository: the order slice is copied): one DisposeAll and ANY number of Register calls made
   while it runs — from inside a resource's Dispose or from other goroutines — ANY schedule: when DisposeAll has finished it
   has disposed exactly its snapshot, each entry once, in reverse order; the snapshot contains everything registered before
   it started; no completed registration is lost (disposed by this DisposeAll, or registered afterwards). *)
Theorem C16_dispose_all_snapshot :
  forall (l0 regs : list nat) (sched : list nat),
  let s := run _ _ (astep false) (ainit l0, ALoopStart :: map AReg regs) sched in
  nth_error (snd s) 0 = Some ALoopDone ->
  a_disposed (fst s) = rev (a_old (fst s)) /\ (exists ext, a_old (fst s) = l0 ++ ext) /\
  (forall id, In (ARegDone id) (snd s) -> In id (a_live (fst s)) \/ In id (a_disposed (fst s))).
Proof. intros l0 regs sched. exact (dispose_all_snapshot_all_schedules l0 regs sched). Qed.
Print Assumptions C16_dispose_all_snapshot.

(* the loop reads the manager's own backing array (rm.order = rm.order[:0]): a Register made while resource 2 is being
   disposed overwrites the slot of resource 1, which is never disposed and registered nowhere afterwards *)
Theorem C16_dispose_all_aliased_order_refuted :
  exists sched,
    let s := run _ _ (astep true) (ainit [1; 2], [ALoopStart; AReg 5]) sched in
    snd s = [ALoopDone; ARegDone 5] /\ a_disposed (fst s) = [2] /\ a_live (fst s) = [5].
Proof. exact dispose_all_aliased_order_refuted. Qed.
Print Assumptions C16_dispose_all_aliased_order_refuted.

(* DisposeWithTimeout (repository: result channel of capacity 1): whatever the caller, the timer and the other threads have
   done — in particular for both orders of {timeout fires, DisposeAll finishes} — once the slow resource has finished the
   helper goroutine needs two steps of its own and is gone: its send never blocks. *)
Theorem C16_timeout_helper_always_finishes :
  forall (sh : tsh2) (ls : list tpc2) (h : nat),
  t_gate sh = true ->
  (nth_error ls h = Some HRun \/ nth_error ls h = Some HSend \/ nth_error ls h = Some HDone) ->
  nth_error (snd (run _ _ (tstep2 true) (sh, ls) [h; h])) h = Some HDone.
Proof. intros sh ls h H1 H2. exact (timeout_helper_always_finishes sh ls h H1 H2). Qed.
Print Assumptions C16_timeout_helper_always_finishes.

(* unbuffered result channel: timeout fires, the caller returns, the slow resource finishes, the helper parks in its send
   and no schedule ever moves it again *)
Theorem C16_unbuffered_result_channel_refuted :
  exists pre,
    let s := run _ _ (tstep2 false) (tinit2, [HRun; CSelect true; TFire; GOpen]) pre in
    snd s = [HSend; CRet true; TFired; GOpened] /\ (forall sched, run _ _ (tstep2 false) s sched = s).
Proof. exact unbuffered_result_channel_refuted. Qed.
Print Assumptions C16_unbuffered_result_channel_refuted.

(* PARTIAL clause: "after close has returned and pending I/O has been unblocked, no goroutine or timer started by the
   component remains".  Goroutines and timers are facts of the Go runtime; what the models carry is gathered here: the
   monitors started by Tunnel.Start wait on a context that is cancelled once all calls returned, DisposeWithTimeout's helper
   can always finish once the slow resource has, and Bridge.Close can always complete against stalled writes (so the
   forwarding goroutines it unblocks end).  Missing, decided only by the harness oracle (goroutine-dump diff filtered to
   repository frames after unblocking I/O, in every mode): that no OTHER goroutine of a component survives, and timers
   (not observed at all). *)
Theorem C16_nothing_left_running_partial :
  (forall spawns ts sched, forallb (e_initial true) ts = true ->
     let s := erun true spawns ts sched in
     forallb e_returned (snd s) = true -> existsb e_is_closer (snd s) = true -> e_monitors_alive (fst s) = false) /\
  (forall sh ls h, t_gate sh = true ->
     (nth_error ls h = Some HRun \/ nth_error ls h = Some HSend \/ nth_error ls h = Some HDone) ->
     nth_error (snd (run _ _ (tstep2 true) (sh, ls) [h; h])) h = Some HDone) /\
  (forall ts pre, forallb f_initial ts = true -> existsb f_is_closer ts = true ->
     exists sched, forallb f_finished
                     (snd (run _ _ (fstep false true) (run _ _ (fstep false true) (finit, ts) pre) sched)) = true).
Proof. exact nothing_left_running_model_level. Qed.
Print Assumptions C16_nothing_left_running_partial.

(* non-vacuity: concrete thread lists satisfy the hypotheses of (1) - (6) *)
Theorem C16_premises_satisfiable :
  forallb d_initial [DStart; DStart; AAdd {| h_id := 7; h_fail := true |}; DStart] = true /\
  forallb t_initial [ {| t_notify := true; t_pc := TLoad |}; {| t_notify := false; t_pc := TLoad |}; {| t_notify := true; t_pc := TStartCas |} ] = true /\
  forallb r_initial [CAdd [100%Z; 0%Z; 5%Z]; RLock; RLock; RLock] = true /\
  forallb p_initial [PClose; OStart; PClose; OStart; OStart] = true /\
  forallb (e_initial true) [ESetCtx; ELoad; ELoad; ESetCtx] = true /\
  forallb f_initial [ {| f_stall := true; f_starved := false; f_pc := WLock |}; {| f_stall := false; f_starved := true; f_pc := WThrottle |};
                      {| f_stall := false; f_starved := false; f_pc := KLock |} ] = true.
Proof. exact (conj eq_refl (conj eq_refl (conj eq_refl (conj eq_refl (conj eq_refl eq_refl))))). Qed.
Print Assumptions C16_premises_satisfiable.

(* non-vacuity of the hypotheses of (7), (9), (10) and of "every thread has finished" in (3) (repaired model: two reporters
   and a copy loop reach the all-finished state with the 100 counted bytes reported exactly once) *)
Theorem C16_more_premises_satisfiable :
  Forall q_ok [QStart; QStart; QClose] /\
  NoDup (flat_map b_pending [BClose; BAttach 7; BClose; BAttach 8]) /\
  forallb i_initial [ILookup; ILookup; IMgrClose] = true /\
  (exists sched, forallb r_finished (snd (rrun true 0 [CAdd [100%Z]; RLock; RLock] sched)) = true /\
                 r_stats (fst (rrun true 0 [CAdd [100%Z]; RLock; RLock] sched)) = 100%Z).
Proof. exact more_premises_satisfiable. Qed.
Print Assumptions C16_more_premises_satisfiable.

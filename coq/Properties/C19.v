(* Properties/C19.v — C19: a public domain routes only to its single rightful owner.
   Model: Model/Domain.v.  One caller step = ONE storage call of the repository / of the proxy lookup.
   The reachable states quantify over ANY number of callers (sessions of any clients), ANY scripts of
   create / delete / update / lookup / expiry-cleanup on any names and Host strings, with ANY caller ids (Z: 0 and
   negative ids included), ANY pattern of failing storage calls, ANY
   lookup times, ANY contents of the legacy registry and of cloud control, and ANY schedule.
   The scripts may contain the environment event "the clock passes the counter key's deadline" (OResetCounter) anywhere.
   Variant proved: the repaired removal path (removeMappingKeys), an atomic Incr, and the repaired generateMappingID
   (the counter key is created without a deadline before Incr, so it can never vanish), index entry removed before the record, a failed repository read ends the lookup, updates compare the client id; the pinned DeleteMapping, the
   former get-then-set Incr of hybrid.Storage and the pinned generateMappingID (counter with the 24 h default TTL) are
   refuted below.
   Ghost log: EvClaim n i c  = SetNX on the index of n succeeded for mapping i of client c;
              EvRelease n i c = the index entry of n was deleted on behalf of mapping i by client c;
              EvWrite i c t   = the record of mapping i was written by client c with target t.          (newest first) *)
From TX Require Import Model.Domain Model.DomainRegistry Proofs.Domain Proofs.DomainRefuted Proofs.DomainRegistry Proofs.SideC19 Gen.C19.
Local Open Scope N_scope.

(* (1) single owner.  In every reachable state the index is exactly "the last unreleased claim" of each name; every
   successful claim of a name happened while nobody held it (so two successful creates of one name are separated
   by a release); every release was performed on behalf of the mapping holding the name at that moment, by the
   client that had claimed it; one mapping id indexes one name and belongs to one client. *)
Theorem C19_single_owner :
  forall (reg cloud : name -> option pmap) (ts : list thr) (sched : list nat),
  (forall t, In t ts -> fresh_thr t) ->
  let s := drun true true true true true true reg cloud empty_store ts sched in
  (forall n, idx (fst s) n = holder n (log (fst s))) /\
  (forall l1 l2 n i c, log (fst s) = l1 ++ EvClaim n i c :: l2 -> holder n l2 = None) /\
  (forall l1 l2 n i c, log (fst s) = l1 ++ EvRelease n i c :: l2 -> holder n l2 = Some i /\ In (EvClaim n i c) l2) /\
  (forall n n' i, idx (fst s) n = Some i -> idx (fst s) n' = Some i -> n = n') /\
  (forall n i c n' c', In (EvClaim n i c) (log (fst s)) -> In (EvClaim n' i c') (log (fst s)) -> n = n' /\ c = c').
Proof. intros reg cloud ts sched H. exact (single_owner reg cloud ts sched H). Qed.
Print Assumptions C19_single_owner.

(* (2) routing.  Every repository-sourced answer any caller ever received for a Host h names a client c and mapping i
   such that c claimed exactly extractDomain h under i, the target was written by c for i, and nobody else ever
   claimed anything under i: a Host is routed to a claimant of that very name or rejected, never to another client. *)
Theorem C19_routes_to_owner_or_rejects :
  forall (reg cloud : name -> option pmap) (ts : list thr) (sched : list nat),
  (forall t, In t ts -> fresh_thr t) ->
  let s := drun true true true true true true reg cloud empty_store ts sched in
  forall t h i c tg, In t (snd s) -> In (RRouted 1 h i c tg) (out t) ->
  In (EvClaim (extractDomain h) i c) (log (fst s)) /\ In (EvWrite i c tg) (log (fst s)) /\
  (forall n' c', In (EvClaim n' i c') (log (fst s)) -> n' = extractDomain h /\ c' = c).
Proof. intros reg cloud ts sched H s t h i c tg. exact (routes_to_owner_or_rejects reg cloud ts sched H t h i c tg). Qed.
Print Assumptions C19_routes_to_owner_or_rejects.

(* (2') the same for a lookup evaluated on one reachable state: the answer is the CURRENT holder of the name, its
   claimant, a target the claimant wrote, from a record that is active and unexpired at the lookup time. *)
Theorem C19_lookup_at_any_time :
  forall (reg cloud : name -> option pmap) (ts : list thr) (sched : list nat),
  (forall t, In t ts -> fresh_thr t) ->
  let s := drun true true true true true true reg cloud empty_store ts sched in
  forall h now h' i c tg, lookup_now reg cloud (fst s) h now = RRouted 1 h' i c tg ->
  h' = h /\ holder (extractDomain h) (log (fst s)) = Some i /\
  In (EvClaim (extractDomain h) i c) (log (fst s)) /\ In (EvWrite i c tg) (log (fst s)) /\
  exists r, recs (fst s) i = Some r /\ r_client r = c /\ r_target r = tg /\ is_active r now = true.
Proof. intros reg cloud ts sched H s h now h' i c tg. exact (lookup_now_reach reg cloud ts sched H h now h' i c tg). Qed.
Print Assumptions C19_lookup_at_any_time.

(* (2'') every single answer, at the step that produces it, in ANY state.  "Routed from the repository" is only ever produced by
   the second read of a lookup, on a record that is active and unexpired at the lookup time, and names that record's
   client and target.  A legacy source (registry = 2, cloud control = 3) answers only when the repository has no mapping
   for the name at that read (no index entry, or no record behind it) — never while the repository holds a mapping for it,
   not even an inactive or expired one — and then with the registry's entry for that very name, else cloud control's, only
   if that entry is active, not revoked and unexpired — and only when that repository read did NOT fail: a lookup whose
   repository read fails (storage error on the index or on the record) is answered with the error, no source answers
   (C19_faulted_lookup_is_rejected; the fall-through-on-error variant is refuted below).  (In reachable states the name of the second read is the one the
   Host resolves to: C19_lookup_second_read_is_for_the_resolved_name.) *)
Theorem C19_routed_answer_reads_active_record :
  forall (reg cloud : name -> option pmap) t s t' a h i c tg,
  decide true true true true true true reg cloud t s = (t', a) -> out t' = RRouted 1 h i c tg :: out t ->
  exists m n now, pc t = PCLRec h n i now /\ recs s i = Some m /\ is_active m now = true /\
                  c = r_client m /\ tg = r_target m.
Proof. exact routed_only_from_active. Qed.
Print Assumptions C19_routed_answer_reads_active_record.

Theorem C19_legacy_sources_answer_only_unowned_names :
  forall (reg cloud : name -> option pmap) t s t' a src h i c tg,
  decide true true true true true true reg cloud t s = (t', a) -> out t' = RRouted src h i c tg :: out t -> src <> 1 ->
  exists n now,
    fst (next_fault t) = false /\
    ((pc t = Idle /\ n = extractDomain h /\ idx s n = None) \/ (exists j, pc t = PCLRec h n j now /\ recs s j = None)) /\
    exists p, ((reg n = Some p /\ src = 2) \/ (reg n = None /\ cloud n = Some p /\ src = 3)) /\
              p_id p = i /\ p_client p = c /\ p_target p = tg /\
              p_active p = true /\ p_revoked p = false /\ (p_exp p = 0 \/ now <= p_exp p).
Proof. exact legacy_answer_only_without_repository_mapping. Qed.
Print Assumptions C19_legacy_sources_answer_only_unowned_names.

Theorem C19_faulted_lookup_is_rejected :
  forall (reg cloud : name -> option pmap) t s fs,
  next_fault t = (true, fs) ->
  ((exists h now rest, pc t = Idle /\ ops t = OLookup h now :: rest) \/ (exists h n i now, pc t = PCLRec h n i now)) ->
  dstep true true true true true true reg cloud t s = (finish t fs (RErr EStorage), s).
Proof. exact faulted_lookup_rejected. Qed.
Print Assumptions C19_faulted_lookup_is_rejected.

Theorem C19_lookup_second_read_is_for_the_resolved_name :
  forall (reg cloud : name -> option pmap) (ts : list thr) (sched : list nat),
  (forall t, In t ts -> fresh_thr t) ->
  let s := drun true true true true true true reg cloud empty_store ts sched in
  forall t h n j now, In t (snd s) -> pc t = PCLRec h n j now -> n = extractDomain h.
Proof. intros reg cloud ts sched H s t h n j now. exact (reach_lookup_pc reg cloud ts sched H t h n j now). Qed.
Print Assumptions C19_lookup_second_read_is_for_the_resolved_name.

(* (2''') an update never changes the owner.  A repository-level UpdateMapping whose payload carries a client id (or a name) other
   than the stored record's is refused and leaves the store untouched — in ANY state, for ANY payload; hence in every reachable
   state the record behind a mapping id keeps naming the client that claimed it (the invariant under C19_routes_to_owner_or_rejects
   and C19_lookup_at_any_time; their scripts may contain such forged updates).  The variant without the client_id comparison is
   refuted below. *)
Theorem C19_update_never_changes_owner :
  forall (reg cloud : name -> option pmap) t s i n c st ex tgt m fs,
  pc t = PCUFGet i n c st ex tgt -> next_fault t = (false, fs) -> recs s i = Some m ->
  (c <> r_client m \/ n <> r_name m) ->
  dstep true true true true true true reg cloud t s = (finish t fs (RErr EInvalidReq), s).
Proof. exact update_cannot_change_owner. Qed.
Print Assumptions C19_update_never_changes_owner.

(* (3) only the owner deletes: a DeleteMapping by a client that does not own the record is refused and leaves the
   store untouched (in any state); releases are performed by the claimant (clause 3 of C19_single_owner). *)
Theorem C19_only_owner_deletes :
  forall (reg cloud : name -> option pmap) t s r rest m fs,
  pc t = Idle -> ops t = ODelete r :: rest -> next_fault t = (false, fs) ->
  recs s (resolve t r) = Some m -> r_client m <> cl t ->
  dstep true true true true true true reg cloud t s = (finish t fs (RErr EForbidden), s).
Proof. exact foreign_delete_refused. Qed.
Print Assumptions C19_only_owner_deletes.

(* (3') ... for ALL caller ids, in particular the ones that are not real clients: 0 (what CommandContext.ClientID holds for a
   connection not bound to a client) and negative ids.  In every reachable state only ids > 0 ever claimed or released a
   name and no stored mapping carries an id <= 0, hence a DeleteMapping called with such an id is refused on EVERY
   stored mapping and leaves the store untouched; a CreateMapping with such an id draws an id and is refused by
   validation without claiming or storing anything. *)
Theorem C19_real_clients_only :
  forall (reg cloud : name -> option pmap) (ts : list thr) (sched : list nat),
  (forall t, In t ts -> fresh_thr t) ->
  let s := drun true true true true true true reg cloud empty_store ts sched in
  (forall n i c, In (EvClaim n i c) (log (fst s)) -> (0 < c)%Z) /\
  (forall n i c, In (EvRelease n i c) (log (fst s)) -> (0 < c)%Z) /\
  (forall i r, recs (fst s) i = Some r -> (0 < r_client r)%Z).
Proof. intros reg cloud ts sched H. exact (reach_real_clients_only reg cloud ts sched H). Qed.
Print Assumptions C19_real_clients_only.

Theorem C19_unbound_caller_cannot_delete :
  forall (reg cloud : name -> option pmap) (ts : list thr) (sched : list nat),
  (forall t, In t ts -> fresh_thr t) ->
  let s := drun true true true true true true reg cloud empty_store ts sched in
  forall t r rest m fs,
  pc t = Idle -> ops t = ODelete r :: rest -> next_fault t = (false, fs) ->
  recs (fst s) (resolve t r) = Some m -> (cl t <= 0)%Z ->
  dstep true true true true true true reg cloud t (fst s) = (finish t fs (RErr EForbidden), fst s).
Proof. intros reg cloud ts sched H s t r rest m fs. exact (reach_unbound_delete_refused reg cloud ts sched H t r rest m fs). Qed.
Print Assumptions C19_unbound_caller_cannot_delete.

Theorem C19_unbound_caller_cannot_create :
  forall (reg cloud : name -> option pmap) t s sub base tgt fs,
  pc t = PCIncr sub base tgt -> next_fault t = (false, fs) -> (cl t <= 0)%Z ->
  dstep true true true true true true reg cloud t s = (finish t fs (RErr EValidation), exec (AIncr (cl t) (full_domain sub base)) s).
Proof. exact unbound_create_refused. Qed.
Print Assumptions C19_unbound_caller_cannot_create.

(* (3'') the expiry cleanup is an internal deleter: it selects only mappings it has read as expired, and deletes each with
   the mapping's OWN client id (a record whose owner is not the one it read is skipped), so its releases are covered by
   clause 3 of C19_single_owner like any owner's. *)
Theorem C19_cleanup_only_removes_expired :
  forall (reg cloud : name -> option pmap) t s now i rest acc m fs,
  pc t = PCClScan now (i :: rest) acc -> next_fault t = (false, fs) -> recs s i = Some m -> is_expired m now = false ->
  dstep true true true true true true reg cloud t s = (cl_scan_next t fs now rest acc, s).
Proof. exact cleanup_skips_unexpired. Qed.
Print Assumptions C19_cleanup_only_removes_expired.

Theorem C19_cleanup_acts_as_owner :
  forall (reg cloud : name -> option pmap) t s i c rest cnt m fs,
  pc t = PCClDGet ((i, c) :: rest) cnt -> next_fault t = (false, fs) -> recs s i = Some m -> r_client m <> c ->
  dstep true true true true true true reg cloud t s = (cl_del t fs rest cnt, s).
Proof. exact cleanup_acts_as_owner. Qed.
Print Assumptions C19_cleanup_acts_as_owner.

(* (4) after a delete the name stops routing and is claimable again.  In a reachable state whose last event is the
   release of n: that release was the claimant's, the index has no entry for n, no Host resolving to n is answered
   from the repository, and the claim step of ANY client's create of n succeeds. *)
Theorem C19_deleted_stops_routing_and_is_reclaimable :
  forall (reg cloud : name -> option pmap) (ts : list thr) (sched : list nat),
  (forall t, In t ts -> fresh_thr t) ->
  let s := drun true true true true true true reg cloud empty_store ts sched in
  forall n i c l, log (fst s) = EvRelease n i c :: l ->
  In (EvClaim n i c) l /\
  idx (fst s) n = None /\
  (forall h now h' i' c' tg, extractDomain h = n -> lookup_now reg cloud (fst s) h now <> RRouted 1 h' i' c' tg) /\
  (forall t i' tgt fs, pc t = PCSetNX i' n tgt -> next_fault t = (false, fs) ->
     decide true true true true true true reg cloud t (fst s) = (goto t fs (PCSetRec i' n tgt), AClaim n i' (cl t))).
Proof. intros reg cloud ts sched H s n i c l. exact (deleted_stops_routing_and_is_reclaimable reg cloud ts sched H n i c l). Qed.
Print Assumptions C19_deleted_stops_routing_and_is_reclaimable.

(* (4') and the owner's delete does get there: run alone, without storage failures, from any state in which the
   mapping holds its name and no removal of it is in progress, DeleteMapping takes 7 storage calls, reports success,
   releases exactly that name and deletes exactly that record. *)
Theorem C19_owner_delete_completes :
  forall (reg cloud : name -> option pmap) c i m rest h o s,
  recs s i = Some m -> r_client m = c -> idx s (r_name m) = Some i -> rguard s i = false ->
  let t := {| cl := c; ops := ODelete (Abs i) :: rest; faults := []; pc := Idle; held := h; out := o |} in
  let '(t', s') := solo reg cloud 7 t s in
  t' = {| cl := c; ops := rest; faults := []; pc := Idle; held := h; out := RDeleted :: o |} /\
  idx s' (r_name m) = None /\ recs s' i = None /\ rguard s' i = false /\
  log s' = EvRelease (r_name m) i c :: log s /\
  (forall n, n <> r_name m -> idx s' n = idx s n) /\ (forall j, j <> i -> recs s' j = recs s j).
Proof. exact delete_alone. Qed.
Print Assumptions C19_owner_delete_completes.

(* (4'') ... under storage failures too.  The owner runs nothing but DeleteMapping(i), retrying as often as it likes, alone
   on any store in which mapping i holds its name; ANY of the storage calls may fail (any fault list: every fault position
   in the 7-call sequence, any combination, in the first attempt or in any retry), for ANY number of steps: as soon as
   one of the deletes has reported success the index has no entry for the name (so the name is claimable, clause (4)).
   What makes it true is the order inside removeMappingKeys — index entry first, record last; the opposite order is
   refuted below. *)
Theorem C19_delete_success_frees_name_under_faults :
  forall (reg cloud : name -> option pmap) c i m o fl h k s,
  recs s i = Some m -> r_client m = c -> idx s (r_name m) = Some i -> all_delete i o ->
  let t := {| cl := c; ops := o; faults := fl; pc := Idle; held := h; out := [] |} in
  In RDeleted (out (fst (solo reg cloud k t s))) -> idx (snd (solo reg cloud k t s)) (r_name m) = None.
Proof. exact delete_success_frees_name. Qed.
Print Assumptions C19_delete_success_frees_name_under_faults.

(* and a delete that failed after releasing the index entry is finished by a fault-free retry (6 storage calls, success,
   record gone); the retry of a delete that failed earlier is C19_owner_delete_completes *)
Theorem C19_failed_delete_retry_completes :
  forall (reg cloud : name -> option pmap) c i m rest h o s,
  recs s i = Some m -> r_client m = c -> idx s (r_name m) = None -> rguard s i = false ->
  let t := {| cl := c; ops := ODelete (Abs i) :: rest; faults := []; pc := Idle; held := h; out := o |} in
  let '(t', s') := solo reg cloud 6 t s in
  t' = {| cl := c; ops := rest; faults := []; pc := Idle; held := h; out := RDeleted :: o |} /\
  idx s' (r_name m) = None /\ recs s' i = None /\ rguard s' i = false.
Proof. exact delete_retry_completes. Qed.
Print Assumptions C19_failed_delete_retry_completes.

(* (5) inactive or expired mappings do not route: the second read of a lookup turns such a record into an error
   (FORBIDDEN when expired, UNAVAILABLE otherwise) — it neither routes nor falls through to the legacy sources;
   and "active" means status active and (no expiry or not yet past it). *)
Theorem C19_inactive_or_expired_rejected :
  forall (reg cloud : name -> option pmap) t s h n i now m fs,
  pc t = PCLRec h n i now -> next_fault t = (false, fs) -> recs s i = Some m -> is_active m now = false ->
  dstep true true true true true true reg cloud t s = (finish t fs (RErr (if is_expired m now then EForbidden else EUnavailable)), s).
Proof. exact inactive_or_expired_step. Qed.
Print Assumptions C19_inactive_or_expired_rejected.

Theorem C19_active_means :
  forall r now, is_active r now = true <-> r_status r = StActive /\ (r_exp r = 0%Z \/ (Z.of_N now <= r_exp r)%Z).
Proof. exact is_active_spec. Qed.
Print Assumptions C19_active_means.

(* (5') expiry instants are int64: ONLY 0 means "never expires".  Any other instant before the lookup time — a NEGATIVE one included —
   is expired (so it is rejected by (5), selected by the sweep and its name becomes claimable by (4)).  A negative instant is
   reachable from the wire: the create adapter stores now + ttl in int64, which wraps for an over-large ttl. *)
Theorem C19_past_expiry_is_expired :
  forall r now, r_exp r <> 0%Z -> (r_exp r < Z.of_N now)%Z -> is_expired r now = true /\ is_active r now = false.
Proof. exact past_expiry_is_expired. Qed.
Print Assumptions C19_past_expiry_is_expired.

Theorem C19_negative_expiry_is_expired :
  forall r now, (r_exp r < 0)%Z -> is_expired r now = true /\ is_active r now = false.
Proof. exact negative_expiry_is_expired. Qed.
Print Assumptions C19_negative_expiry_is_expired.

Theorem C19_adapter_expiry_wraps_negative :
  forall now ttl, (Z.of_N now < two63)%Z -> (0 <= ttl < two63)%Z -> (two63 <= Z.of_N now + ttl)%Z -> (adapter_expiry now ttl < 0)%Z.
Proof. exact adapter_expiry_wraps. Qed.
Print Assumptions C19_adapter_expiry_wraps_negative.

Theorem C19_adapter_expiry_in_range :
  forall now ttl, (0 <= Z.of_N now + ttl < two63)%Z -> adapter_expiry now ttl = (Z.of_N now + ttl)%Z.
Proof. exact adapter_expiry_in_range. Qed.
Print Assumptions C19_adapter_expiry_in_range.

(* (6) Host normalisation.  extractDomain strips exactly one ":suffix" (the part after the LAST colon); consequently
   the only Host strings that resolve to a name n are n itself and n:<colon-free suffix>.  Upper-case spellings,
   a trailing dot, IPv6 literals ("[::1]" -> "[:", "[::1]:80" -> "[::1]") resolve to a different key or to nothing,
   never to n. *)
Theorem C19_extract_strips_one_port :
  forall d p, ~ In colon p -> extractDomain (d ++ colon :: p) = d.
Proof. exact extract_strip_port. Qed.
Print Assumptions C19_extract_strips_one_port.

Theorem C19_extract_no_colon : forall h, ~ In colon h -> extractDomain h = h.
Proof. exact extract_no_colon. Qed.
Print Assumptions C19_extract_no_colon.

Theorem C19_host_resolves_only_to_its_own_name :
  forall h n, extractDomain h = n ->
  (h = n /\ ~ In colon n) \/ (exists p, h = n ++ colon :: p /\ ~ In colon p).
Proof. exact extract_only_own_spellings. Qed.
Print Assumptions C19_host_resolves_only_to_its_own_name.

(* (7) the legacy in-memory host index (DomainRegistry, second stage of the lookup and the management API's claim).  One step =
   one critical section of its mutex.  For ANY number of concurrent Register calls, ANY registry contents beforehand and
   ANY schedule: claimants of one name that were all told they own it are one and the same mapping (a Register by the
   mapping already holding the name is an update), and every Host spelling resolving to the name routes to that winner.
   A name held by another mapping is refused.  What makes it true: existence check and insert in ONE write-locked section. *)
Theorem C19_registry_claim_exclusive :
  forall (m0 : regmap) (cs : list claimant) (sched : list nat),
  idle_claimants cs ->
  let s := rrun true m0 cs sched in
  (forall a b, In a (snd s) -> In b (snd s) -> c_pc a = RDone true -> c_pc b = RDone true ->
               c_name a = c_name b -> c_map a = c_map b) /\
  (forall a host, In a (snd s) -> c_pc a = RDone true -> extractDomain host = c_name a ->
               reg_lookup (fst s) host = Some (c_map a)).
Proof. exact registry_claim_exclusive. Qed.
Print Assumptions C19_registry_claim_exclusive.

Theorem C19_registry_registered_name_refused :
  forall m c, c_pc c = RIdle -> (exists j, m (c_name c) = Some j /\ j <> c_map c) ->
  rstep true c m = (set_pc c (RDone false), m).
Proof. exact registered_name_refused. Qed.
Print Assumptions C19_registry_registered_name_refused.

(* ---- refuted variants (the findings) ------------------------------------------------------------------------ *)

(* pinned DeleteMapping (unconditional index delete): a repeated delete of mapping 1 racing a re-claim removes the
   NEW owner's index entry — client 2's create succeeded, its mapping 2 was never deleted, yet the name has no owner. *)
Theorem C19_pinned_delete_reclaim_refuted :
  let s := drun false true false true true true none_legacy none_legacy empty_store race_threads race_sched_pinned in
  map out (snd s) = [[RDeleted; RCreated 1]; [RDeleted]; [RCreated 2]; [RErr ENotFound]] /\
  recs (fst s) 2 = Some {| r_name := host_a; r_client := 2; r_target := 22; r_status := StActive; r_exp := 0 |} /\
  idx (fst s) host_a = None /\
  stale_release (log (fst s)) = true.
Proof. exact pinned_delete_reclaim_refuted. Qed.
Print Assumptions C19_pinned_delete_reclaim_refuted.

(* Incr as get-then-set (hybrid.Storage.Incr before d88dca0): two creates of different names draw the same id, the later record
   overwrites the earlier, and the first name — claimed by client 1 — routes to client 2's target. *)
Theorem C19_nonatomic_incr_refuted :
  let s := drun true false false true true true none_legacy none_legacy empty_store dup_threads dup_sched in
  map out (snd s) = [[RCreated 1]; [RCreated 1]; [RRouted 1 host_a 1 2 22]] /\
  In (EvClaim host_a 1 1) (log (fst s)).
Proof. exact nonatomic_incr_refuted. Qed.
Print Assumptions C19_nonatomic_incr_refuted.

(* pinned generateMappingID: the counter is created by IncrBy with the 24 h default data TTL and never refreshed; once the
   clock passes it the key disappears and ids start again at 1 while the old record and index are still there. *)
Theorem C19_counter_reset_refuted :
  let s := drun true true false true true true none_legacy none_legacy empty_store reset_threads reset_sched in
  map out (snd s) = [[RCreated 1]; [RReset]; [RCreated 1]; [RRouted 1 host_a 1 2 22]] /\
  In (EvClaim host_a 1 1) (log (fst s)).
Proof. exact counter_reset_refuted. Qed.
Print Assumptions C19_counter_reset_refuted.

(* repaired generateMappingID, same callers, same clock event: nothing happens to the counter, ids stay unique and
   the first name keeps routing to its owner (the general statement is C19_routes_to_owner_or_rejects, whose scripts
   may contain the clock event) *)
Theorem C19_counter_deadline_harmless :
  let s := drun true true true true true true none_legacy none_legacy empty_store reset_threads reset_sched_fixed in
  map out (snd s) = [[RCreated 1]; [RReset]; [RCreated 2]; [RRouted 1 host_a 1 1 11]] /\
  cttl (fst s) = false /\ next (fst s) = 2.
Proof. exact counter_reset_harmless_run. Qed.
Print Assumptions C19_counter_deadline_harmless.

(* in every reachable state of the repaired variant the counter key carries no deadline *)
Theorem C19_counter_never_expires :
  forall (reg cloud : name -> option pmap) (ts : list thr) (sched : list nat),
  (forall t, In t ts -> fresh_thr t) ->
  cttl (fst (drun true true true true true true reg cloud empty_store ts sched)) = false.
Proof. intros reg cloud ts sched H. exact (reach_counter_no_deadline reg cloud ts sched H). Qed.
Print Assumptions C19_counter_never_expires.

(* removeMappingKeys deleting the record BEFORE the index entry: a storage failure between the two (here: the Get of the index,
   4th call of the removal) leaves the index entry without record; the owner's retry finds no record and reports success,
   yet the index still holds the name — client 2's claim is refused, forever. *)
Theorem C19_record_before_index_refuted :
  let s := drun true true true false true true none_legacy none_legacy empty_store (fault_threads 3) fault_sched in
  map out (snd s) = [[RDeleted; RErr EStorage; RCreated 1]; [RErr EExists]; [RErr ENotFound]] /\
  idx (fst s) host_a = Some 1 /\ recs (fst s) 1 = None.
Proof. exact record_before_index_refuted. Qed.
Print Assumptions C19_record_before_index_refuted.

(* the code's order, same callers, same fault position: the retry finishes the delete and client 2 gets the name *)
Theorem C19_index_before_record_run :
  let s := drun true true true true true true none_legacy none_legacy empty_store (fault_threads 3) fault_sched in
  map out (snd s) = [[RDeleted; RErr EStorage; RCreated 1]; [RCreated 2]; [RRouted 1 host_a 2 2 22]] /\
  idx (fst s) host_a = Some 2 /\ recs (fst s) 1 = None.
Proof. exact index_before_record_run. Qed.
Print Assumptions C19_index_before_record_run.

(* DomainRegistry.Register with the existence check in a read-locked section of its own and the insert in a later write-locked
   section without re-check: two claimants of one new name both pass the check before either inserts — both are told they
   own the name, the last writer routes. *)
Theorem C19_registry_two_section_register_refuted :
  let s := rrun false (fun _ => None) two_claimants [0; 1; 0; 1]%nat in
  map c_pc (snd s) = [RDone true; RDone true] /\ reg_lookup (fst s) [115; 58; 52; 52; 51] = Some 2.
Proof. exact two_section_register_refuted. Qed.
Print Assumptions C19_registry_two_section_register_refuted.

Theorem C19_registry_one_section_run :
  idle_claimants two_claimants /\
  let s := rrun true (fun _ => None) two_claimants [0; 1; 0; 1]%nat in
  map c_pc (snd s) = [RDone true; RDone false] /\ reg_lookup (fst s) [115; 58; 52; 52; 51] = Some 1.
Proof. exact (conj two_claimants_idle one_section_register_run). Qed.
Print Assumptions C19_registry_one_section_run.

(* lookupMapping letting storage errors fall through to the legacy sources like "not found": "a.t.io" is owned in the repository by
   client 1, the legacy registry holds an entry for it owned by client 7; with the index read failing, and again with the record
   read failing, the request is routed to client 7. *)
Theorem C19_fallthrough_on_error_refuted :
  let s := drun true true true true false true legacy_reg legacy_cloud empty_store faulted_lookup_threads (repeat 0 5 ++ repeat 1 3)%nat in
  map out (snd s) = [[RCreated 1]; [RRouted 2 host_a 72 7 702; RRouted 2 host_a 72 7 702]].
Proof. exact fallthrough_on_error_refuted. Qed.
Print Assumptions C19_fallthrough_on_error_refuted.

Theorem C19_error_stops_lookup_run :
  let s := drun true true true true true true legacy_reg legacy_cloud empty_store faulted_lookup_threads (repeat 0 5 ++ repeat 1 3)%nat in
  map out (snd s) = [[RCreated 1]; [RErr EStorage; RErr EStorage]].
Proof. exact error_stops_lookup_run. Qed.
Print Assumptions C19_error_stops_lookup_run.

(* the production create path (adapter: CreateMapping, then UpdateMapping with the expiry): after the expiry a request is
   rejected, the sweep reclaims the name, another client claims it and is routed *)
Theorem C19_adapter_expiry_run :
  let s := drun true true true true true true none_legacy none_legacy empty_store adapter_threads
                (repeat 0 7 ++ repeat 1 14 ++ repeat 2 7 ++ repeat 3 2)%nat in
  map out (snd s) = [[RUpdated; RCreated 1]; [RCleaned 1; RErr EForbidden; RRouted 1 host_a 1 1 11];
                     [RUpdated; RCreated 2]; [RRouted 1 host_a 2 2 22]].
Proof. exact adapter_expiry_run. Qed.
Print Assumptions C19_adapter_expiry_run.

(* IsExpired treating every non-positive instant as "never expires": the record with the wrapped (negative) expiry is then not
   expired — it would route forever and never be swept — whereas the code's IsExpired says expired. *)
Theorem C19_nonpositive_never_expires_refuted :
  let r := {| r_name := host_a; r_client := 1; r_target := 11; r_status := StActive; r_exp := adapter_expiry 5 max_int64 |} in
  is_expired_nonpositive_never r 5 = false /\ is_expired r 5 = true /\ is_active r 5 = false.
Proof. exact nonpositive_never_refuted. Qed.
Print Assumptions C19_nonpositive_never_expires_refuted.

(* ttl = MaxInt64 through the create path: the stored instant is negative; the mapping never routes, the sweep frees the name,
   another client claims it and is routed *)
Theorem C19_negative_expiry_run :
  (adapter_expiry 5 max_int64 < 0)%Z /\
  let s := drun true true true true true true none_legacy none_legacy empty_store wrapped_threads
                (repeat 0 7 ++ repeat 1 12 ++ repeat 2 5 ++ repeat 3 2)%nat in
  map out (snd s) = [[RUpdated; RCreated 1]; [RCleaned 1; RErr EForbidden]; [RCreated 2]; [RRouted 1 host_a 2 2 22]].
Proof. exact negative_expiry_run. Qed.
Print Assumptions C19_negative_expiry_run.

(* UpdateMapping comparing only the name fields (client_id not compared): caller 2 sends client 1's record back with client_id 2 and
   its own target; the update is accepted, "a.t.io" routes to client 2's target and its owner's delete is refused. *)
Theorem C19_update_without_client_check_refuted :
  let s := drun true true true true true false none_legacy none_legacy empty_store forged_threads forged_sched in
  map out (snd s) = [[RCreated 1]; [RUpdated]; [RRouted 1 host_a 1 2 66]; [RErr EForbidden]].
Proof. exact update_without_client_check_refuted. Qed.
Print Assumptions C19_update_without_client_check_refuted.

Theorem C19_update_with_client_check_run :
  let s := drun true true true true true true none_legacy none_legacy empty_store forged_threads forged_sched in
  map out (snd s) = [[RCreated 1]; [RErr EInvalidReq]; [RRouted 1 host_a 1 1 11]; [RDeleted]].
Proof. exact update_with_client_check_run. Qed.
Print Assumptions C19_update_with_client_check_run.

(* ---- non-vacuity ------------------------------------------------------------------------------------------------ *)

(* the hypotheses of the reachability theorems are met by the racing callers, and on the repaired model the very
   schedule shape that breaks the pinned code ends with the name owned by, and routed to, client 2 *)
Theorem C19_premises_satisfiable : forall t, In t race_threads -> fresh_thr t.
Proof. exact race_threads_fresh. Qed.
Print Assumptions C19_premises_satisfiable.

(* a history with the cleanup and with callers 0 and -1: the cleanup removes exactly client 1's expired mapping; the
   unbound callers' deletes of client 2's mapping are refused, their create is refused, client 2 keeps its name *)
Theorem C19_cleanup_and_unbound_callers_run :
  let s := drun true true true true true true none_legacy none_legacy empty_store cleanup_threads cleanup_sched in
  map out (snd s) = [[RUpdated; RCreated 1]; [RCreated 2]; [RErr EValidation; RCleaned 1; RErr EForbidden];
                     [RDeleted; RErr EForbidden]; [RRouted 1 (full_domain nm_b nm_base) 2 2 22; RErr ENotFound]] /\
  idx (fst s) host_a = None /\ idx (fst s) (full_domain nm_b nm_base) = Some 2 /\ recs (fst s) 1 = None /\
  glist (fst s) = [2] /\ stale_release (log (fst s)) = false.
Proof. exact cleanup_run. Qed.
Print Assumptions C19_cleanup_and_unbound_callers_run.

(* the three lookup sources in one history (repository, registry, cloud control) *)
Theorem C19_three_sources_run :
  let s := drun true true true true true true legacy_reg legacy_cloud empty_store sources_threads (repeat 0 12 ++ repeat 1 6)%nat in
  map out (snd s) = [[RErr EUnavailable; RUpdated; RRouted 1 host_a_port 1 1 11; RCreated 1];
                     [RErr ENotFound; RErr EForbidden; RRouted 2 (full_domain nm_b nm_base ++ [58; 56; 48]) 71 7 701]].
Proof. exact three_sources_run. Qed.
Print Assumptions C19_three_sources_run.

Theorem C19_repaired_run :
  let s := drun true true true true true true none_legacy none_legacy empty_store race_threads race_sched_fixed in
  map out (snd s) = [[RDeleted; RCreated 1]; [RDeleted]; [RCreated 2]; [RRouted 1 host_a_port 2 2 22]] /\
  idx (fst s) host_a = Some 2 /\
  stale_release (log (fst s)) = false.
Proof. exact fixed_delete_reclaim_run. Qed.
Print Assumptions C19_repaired_run.

(* Properties/C01.v — C01: packet framing round-trips however the transport chunks the bytes.
   Statements only; every proof is a single `exact`.  Model: Model/Framing.v (current_variant =
   the repaired code); MaxBody is the value regenerated from internal/constants on every run.
   External code enters as the hypotheses written out in each statement:
     inflate (deflate b) = Some b   (Go compress/gzip),
     json_norm (encoding/json Unmarshal then Marshal of a command body). *)
From TX Require Import Model.Framing Model.WsConn Model.FramingLock Model.FramingDuplex Proofs.Framing Proofs.WsConn Proofs.FramingLock Proofs.FramingDuplex Proofs.SideC01 Gen.C01.

(* (1)+(2) every list of writer-accepted packets, written with any per-packet compression choice,
   is read back as exactly those packets (type byte with the writer's flag, identical body, consumed
   = encoded length) followed by a clean end of stream — for EVERY chunk oracle. *)
Theorem C01_roundtrip_any_chunking :
  forall deflate inflate json_norm,
  (forall b, inflate (deflate b) = Some b) ->
  forall (cps : list (bool * packet)) (cuts : list nat),
  Forall (wf_packet MaxPacketBodySize deflate json_norm) cps ->
  read_stream current_variant MaxPacketBodySize inflate json_norm
              (encode_all current_variant deflate cps) cuts
  = map (expect deflate) cps ++ [PErr EEnd 0].
Proof.
  intros deflate inflate json_norm Hid cps cuts.
  exact (roundtrip_any_chunking MaxPacketBodySize deflate inflate json_norm Hid max_body_fits_u32 cps cuts).
Qed.
Print Assumptions C01_roundtrip_any_chunking.

(* (2) the number of bytes the reader consumes for a packet is the number the writer produced *)
Theorem C01_exact_consumption :
  forall deflate json_norm cp, wf_packet MaxPacketBodySize deflate json_norm cp ->
  match expect deflate cp with
  | POk _ _ c => c = lenN (encode current_variant deflate (fst cp) (snd cp))
  | PErr _ _ => False
  end.
Proof. exact (fun d j => expect_consumed MaxPacketBodySize d j max_body_fits_u32). Qed.
Print Assumptions C01_exact_consumption.

(* (3) for ANY byte string (not only writer output) the sequence of decode results does not depend
   on how the transport chunks it *)
Theorem C01_chunking_irrelevant :
  forall inflate json_norm (s : list byte) (c1 c2 : list nat),
  read_stream current_variant MaxPacketBodySize inflate json_norm s c1 =
  read_stream current_variant MaxPacketBodySize inflate json_norm s c2.
Proof. exact (chunking_irrelevant MaxPacketBodySize id_deflate). Qed.
Print Assumptions C01_chunking_irrelevant.

(* the reader equals an oracle-free parser, and terminates on every finite stream *)
Theorem C01_reader_is_parser :
  forall inflate json_norm s cuts,
  read_stream current_variant MaxPacketBodySize inflate json_norm s cuts =
  parse_stream current_variant MaxPacketBodySize inflate json_norm s.
Proof. exact (read_stream_is_parse_stream MaxPacketBodySize id_deflate). Qed.
Print Assumptions C01_reader_is_parser.

(* message transports: the WebSocket adapters (wsServerConn / wsClientConn / WebSocketStreamConn) serve the
   buffered tail of a message before touching the next one.  Each Read of the adapter is exactly one read1
   of the chunk oracle `ws_abs` (cuts = message lengths, carry = true), so theorems (1)-(3), which hold for
   ALL oracles, hold for byte streams delivered through these adapters, for every message partition. *)
Theorem C01_websocket_adapter_is_chunk_oracle :
  forall (cap : N) (w : wsconn), (0 < cap)%N -> ws_wf w ->
  read1 cap (ws_abs w) = match ws_read cap w with None => None | Some (got, w') => Some (got, ws_abs w') end
  /\ match ws_read cap w with Some (_, w') => ws_wf w' | None => True end.
Proof. exact ws_read_is_read1. Qed.
Print Assumptions C01_websocket_adapter_is_chunk_oracle.

Theorem C01_roundtrip_over_websocket :
  forall deflate inflate json_norm,
  (forall b, inflate (deflate b) = Some b) ->
  forall (cps : list (bool * packet)) (msgs : list (list byte)),
  Forall (wf_packet MaxPacketBodySize deflate json_norm) cps ->
  concat msgs = encode_all current_variant deflate cps ->
  read_all current_variant MaxPacketBodySize inflate json_norm (S (length (concat msgs)))
           (ws_abs {| w_buf := []; w_msgs := msgs |})
  = map (expect deflate) cps ++ [PErr EEnd 0].
Proof.
  intros deflate inflate json_norm Hid cps msgs.
  exact (ws_roundtrip MaxPacketBodySize deflate inflate json_norm Hid max_body_fits_u32 cps msgs).
Qed.
Print Assumptions C01_roundtrip_over_websocket.

(* concurrent writers: a packet is several transport writes made under writeLock.  For ANY number of callers,
   ANY packets and ANY schedule of lock operations and transport writes, the wire is the concatenation of complete
   packet encodings (in lock order) plus a prefix of the ONE packet in progress — so the reader, which the
   theorems above decode whole encodings for, never sees another caller's bytes inside a packet. *)
Theorem C01_locked_writers_never_interleave :
  forall (pkts : list (list (list (list byte)))) (sched : list nat),
  let s := run _ _ wstep (wsh0, map (winit true) pkts) sched in
  (lock (fst s) = false -> wire (fst s) = concat (g_done (fst s))) /\
  (lock (fst s) = true -> exists t, In t (snd s) /\ wire (fst s) = concat (g_done (fst s)) ++ w_written t /\
                                    w_written t ++ concat (w_cur t) = w_pkt t).
Proof. exact locked_writers_never_interleave. Qed.
Print Assumptions C01_locked_writers_never_interleave.

(* ... and a caller that skips the lock (e.g. a heartbeat fast path) puts its byte inside another packet *)
Theorem C01_unlocked_writer_interleaves_refuted :
  exists sched,
    let s := run _ _ wstep (wsh0, [winit true [[[34%N]; [0;0;0;1]%N; [7%N]]]; winit false [[[3%N]]]]) sched in
    wire (fst s) = [34; 3; 0; 0; 0; 1; 7]%N /\ g_done (fst s) = [[3%N]; [34; 0; 0; 0; 1; 7]%N].
Proof. exact unlocked_writer_interleaves_refuted. Qed.
Print Assumptions C01_unlocked_writer_interleaves_refuted.

(* full-duplex use of one processor: ReadPacket calls and the transport writes of WritePacket calls interleave in
   ANY order (true = one ReadPacket, false = one transport write).  The reader returns exactly the parse of the
   incoming bytes (as many results as it made calls) and the wire is exactly the writer's chunks, in order: neither
   direction can disturb the other.  (The obligation on the real code — no scratch state shared between the
   directions — is what the gated duplex cases of the correspondence run exercise.) *)
Theorem C01_full_duplex_any_schedule :
  forall inflate json_norm (incoming : list byte) (cuts : list nat) (chunks : list (list byte)) (sched : list bool),
  let s := drun current_variant MaxPacketBodySize inflate json_norm sched (dr_init (mkrd incoming cuts), dw_init chunks) in
  (count_b true sched <= S (length incoming))%nat ->
  dr_res (fst s) = firstn (count_b true sched) (parse_stream current_variant MaxPacketBodySize inflate json_norm incoming)
  /\ dw_wire (snd s) = concat (firstn (count_b false sched) chunks).
Proof. exact (duplex_any_schedule MaxPacketBodySize). Qed.
Print Assumptions C01_full_duplex_any_schedule.

(* ... and a writer whose pending bytes live in scratch memory a ReadPacket may take does put other bytes on the wire *)
Theorem C01_shared_scratch_refuted :
  exists sched chunks,
    dw_wire (snd (drun_shared current_variant 16%N (fun _ => None) (fun b => Some b) sched (dr_init (mkrd [3%N] []), dw_init chunks)))
    <> concat chunks
    /\ count_b false sched = length chunks.
Proof. exact shared_scratch_refuted. Qed.
Print Assumptions C01_shared_scratch_refuted.

(* the two defects of the pinned tree (repaired by fix: commits), kept as refuted statements *)
Theorem C01_pinned_single_len_read_refuted :
  exists s c1 c2, read_stream pinned_variant 16777216 id_inflate any_json s c1
               <> read_stream pinned_variant 16777216 id_inflate any_json s c2.
Proof. exact pinned_single_len_read_refuted. Qed.
Print Assumptions C01_pinned_single_len_read_refuted.

Theorem C01_pinned_omit_empty_len_refuted :
  exists cps, read_stream pinned_variant 16777216 id_inflate any_json
                (encode_all pinned_variant id_deflate cps) []
              <> map (expect id_deflate) cps ++ [PErr EEnd 0].
Proof. exact pinned_omit_empty_len_refuted. Qed.
Print Assumptions C01_pinned_omit_empty_len_refuted.

(* non-vacuity: a concrete non-trivial packet list satisfies the hypotheses of (1) *)
Theorem C01_premises_satisfiable :
  Forall (wf_packet 16777216 id_deflate any_json)
    [(false, {| p_ty := 32; p_body := [1;2;3]%N |}); (true, {| p_ty := 35; p_body := [] |});
     (false, {| p_ty := 3; p_body := [] |}); (true, {| p_ty := 16; p_body := [123;125]%N |})]
  /\ (forall b, id_inflate (id_deflate b) = Some b).
Proof. exact premises_satisfiable. Qed.
Print Assumptions C01_premises_satisfiable.

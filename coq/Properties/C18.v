(* Properties/C18.v — C18: repeated authentication failures lock an address out for the ban period.
   Statements only; every proof is a single `exact`.  Model: Model/Lockout.v; current_variant = the code
   after fixes/C18-unban-only-if-expired.diff, fixes/C18-ban-never-weakened.diff and
   fixes/C18-anon-registration-keeps-failures.diff and fixes/C18-blacklist-any-active-entry.diff, pinned_variant =
   the tree as found.  A system state is (shared state, list of threads); `runs V C s sched` executes the
   schedule `sched` (a list of thread indices: ANY number of threads, ANY interleaving; clock threads
   advance time by arbitrary amounts, runner threads execute the goroutines spawned by IsBanned /
   IsAllowed in any order at any later point; every mutex-protected section is one step).
   `covers m ip dlo`: the record of ip in m lasts until the deadline dlo (None = for ever).
   `within t dlo`: t is not after the deadline. *)
From TX Require Import Model.Lockout Proofs.Lockout Proofs.LockoutBudget Proofs.SideC18 Gen.C18.
From TX Require Model.BucketMap Proofs.BucketMap.
From TX Require Import Proofs.RegRate Proofs.LockoutClauses.
Open Scope Z_scope.

(* (1) locked out: once a ban record for ip is in place — temporary until dl, or permanent (dlo = None) —
   IsBanned(ip) answers true in EVERY state reachable by EVERY schedule up to the deadline (for ever for a
   permanent ban): failures, successes, queries, handshakes, manual bans, both halves of clean-ups, spawned
   unbans and clock ticks of any number of threads, interleaved arbitrarily.  The only exclusions: no thread
   program contains the administrative UnbanIP(ip) or a process restart (bans are process-local by design:
   C18_restart_clears_memory_only_state). *)
Theorem C18_locked_out :
  forall C ip dlo (s : sst) sched,
  threads_lock ip s -> covers (bans (fst s)) ip dlo ->
  let s' := runs current_variant C s sched in
  within (now (fst s')) dlo -> is_banned (fst s') ip = true.
Proof. exact locked_out. Qed.
Print Assumptions C18_locked_out.

(* (1b) reaching a threshold establishes that record: the second half of a RecordFailure(ip) whose counters
   reached MaxFailures (resp. PermanentBanAt) leaves a record lasting until now + BanDuration (resp. for ever),
   whatever record was there before *)
Theorem C18_threshold_establishes_ban :
  forall C ip d res s p' s' r,
  d <> DNone -> continue current_variant C (PFailB ip d res) s = (p', s', r) ->
  covers (bans s') ip (ban_deadline C (now s) d) /\ now s' = now s /\ p' = PIdle.
Proof. exact threshold_bans. Qed.
Print Assumptions C18_threshold_establishes_ban.

(* (1 end to end) the headline clause in one statement: a thread is between the two halves of a RecordFailure(ip) whose
   counters reached MaxFailures within the window (d = DTemp) or PermanentBanAt (d = DPerm); it takes its step; from
   then on, in EVERY state reachable by EVERY schedule, ip is refused as banned until now + BanDuration, resp. for ever
   (ban_deadline).  Hypotheses: no thread program holds UnbanIP(ip) or a restart (threads_lock) *)
Theorem C18_lockout_end_to_end :
  forall C ip d res rest log (s : sst) i sched,
  threads_lock ip s -> d <> DNone ->
  nth_error (snd s) i = Some (LProg (PFailB ip d res) rest log) ->
  let dl := ban_deadline C (now (fst s)) d in
  let s' := runs current_variant C (step current_variant C s i) sched in
  within (now (fst s')) dl -> is_banned (fst s') ip = true.
Proof. exact lockout_end_to_end. Qed.
Print Assumptions C18_lockout_end_to_end.

Theorem C18_end_to_end_premises_satisfiable :
  let s0 := runs current_variant wit_cfg (init_sh, nv_threads) [0; 2; 1]%nat in
  threads_lock 7 s0 /\
  nth_error (snd s0) 1 = Some (LProg (PFailB 7 DTemp 1) [CCleanup; CHs 7 HAnonOk; CQuery 9; CUnban 9] []) /\
  ban_deadline wit_cfg (now (fst s0)) DTemp = Some 400.
Proof. exact end_to_end_premises_satisfiable. Qed.
Print Assumptions C18_end_to_end_premises_satisfiable.

(* (1c') every schedule of any number of threads (any variant) induces, for every address, a history of failures /
   clean-ups / resets with a monotone clock whose fold IS the failure record of that address: the exactness of the
   windowed counter (1c) and the decision from the counters therefore speak about every schedule *)
Theorem C18_schedule_projects_to_history :
  forall V C ip (s : sst) sched,
  exists h, mono_from (now (fst s)) h /\
            last_time (now (fst s)) h <= now (fst (runs V C s sched)) /\
            fails (fst (runs V C s sched)) ip = fold_left (fop_step C) h (fails (fst s) ip).
Proof. exact schedule_projects_to_history. Qed.
Print Assumptions C18_schedule_projects_to_history.

(* (1c) the windowed counter is exact over every history of failures / clean-ups / successes of one
   address with a monotone clock: at a failure at time t the record holds exactly the failure times since
   the last success that lie in (t - TimeWindow, t] (window pruning and record deletion lose nothing) *)
Theorem C18_window_count_exact :
  forall C h t0 t,
  mono_from t0 (h ++ [(t, FFail)]) ->
  ts_of (fold_left (fop_step C) (h ++ [(t, FFail)]) None)
  = prune (window C) t (fold_left spec_step h [] ++ [t]).
Proof. exact window_count_exact. Qed.
Print Assumptions C18_window_count_exact.

(* ... and the decision taken from the counters *)
Theorem C18_decision_from_counters :
  forall C t r,
  let ts := match r with Some x => fst x | None => [] end in
  let tot := match r with Some x => snd x | None => 0 end in
  fail_a C t r =
  ((prune (window C) t (ts ++ [t]), tot + 1),
   if tot + 1 >=? perm C then DPerm
   else if lenZ (prune (window C) t (ts ++ [t])) >=? maxf C then DTemp else DNone).
Proof. exact fail_a_decision. Qed.
Print Assumptions C18_decision_from_counters.

(* (2) no false refusal: if the failures on record for ip plus every failing call on ip that the thread programs
   can still make (RecordFailure(ip), failing handshakes from ip, including those in flight past the gates) stay
   below both thresholds, and no program bans ip manually, then ip is never refused as banned — in EVERY state
   reachable by EVERY schedule (successes and clean-ups may reset the counters, failures of other addresses,
   bans of other addresses and unbans are unrestricted) *)
Theorem C18_no_false_refusal :
  forall C ip (s : sst) sched,
  bans (fst s) ip = None -> Forall (thr_quiet ip) (snd s) ->
  0 <= total_of (fails (fst s) ip) ->
  lenZ (ts_of (fails (fst s) ip)) <= total_of (fails (fst s) ip) ->
  total_of (fails (fst s) ip) + fold_right Z.add 0 (map (budget ip) (snd s)) < Z.min (maxf C) (perm C) ->
  is_banned (fst (runs current_variant C s sched)) ip = false.
Proof. exact no_false_refusal. Qed.
Print Assumptions C18_no_false_refusal.

(* ... and at step granularity, for any variant and with the window taken into account: in any step of any
   thread a ban record for an unbanned ip appears only through BanIP(ip) or through the second half of a
   RecordFailure(ip) pending with a threshold decision; a RecordFailure is left pending exactly when its
   counters said so (C18_decision_from_counters, C18_window_count_exact) *)
Theorem C18_ban_created_only_by :
  forall V C l s l' s' ip,
  tstep V C l s = (l', s') -> bans s ip = None -> bans s' ip <> None ->
  (exists rest log dur, l = LProg PIdle (CBan ip dur :: rest) log) \/
  (exists d res rest log, l = LProg (PFailB ip d res) rest log /\ d <> DNone).
Proof. exact ban_created_only_by. Qed.
Print Assumptions C18_ban_created_only_by.

Theorem C18_pending_ban_only_at_threshold :
  forall V C c s p' s' r ip d res,
  start V C c s = (p', s', r) -> p' = PFailB ip d res ->
  c = CFail ip /\ d <> DNone /\ d = snd (fail_a C (now s) (fails s ip)).
Proof. exact pending_ban_only_at_threshold. Qed.
Print Assumptions C18_pending_ban_only_at_threshold.

Theorem C18_no_false_refusal_premises_satisfiable :
  bans init_sh 7%N = None /\ Forall (thr_quiet 7%N) nf_threads /\
  total_of (fails init_sh 7%N) + fold_right Z.add 0 (map (budget 7%N) nf_threads) < Z.min (maxf wit_cfg) (perm wit_cfg) /\
  0 < fold_right Z.add 0 (map (budget 7%N) nf_threads).
Proof. exact no_false_refusal_premises_satisfiable. Qed.
Print Assumptions C18_no_false_refusal_premises_satisfiable.

(* PARTIAL (window-aware form of (2) at schedule level, not proved): whenever ip is found banned, the history the schedule
   induces on its failure record (C18_schedule_projects_to_history) contains a failure at which a threshold was reached.
   What is proved instead: the counting form above (all schedules), and the window-aware form per step
   (C18_ban_created_only_by + C18_pending_ban_only_at_threshold + C18_decision_from_counters + C18_window_count_exact) *)
Definition C18_no_false_refusal_window_full_statement : Prop :=
  forall C ip threads sched,
  Forall (thr_quiet ip) threads ->
  let s := runs current_variant C (init_sh, threads) sched in
  is_banned (fst s) ip = true ->
  exists h t h',
    mono_from 0 (h ++ (t, FFail) :: h') /\
    fails (fst s) ip = fold_left (fop_step C) (h ++ (t, FFail) :: h') None /\
    (perm C <= total_of (fold_left (fop_step C) (h ++ [(t, FFail)]) None) \/
     maxf C <= lenZ (prune (window C) t (fold_left spec_step h [] ++ [t]))).

(* (3) a blacklisted, not whitelisted address is refused by IsAllowed until the entry's deadline (for ever for a
   permanent entry) under every schedule.  k is ANY list key matching the address (keys_of: the exact address, the
   /28 or the /27 containing it - ranges overlap); the refusal is decided by the existence of an in-force matching
   record, so every OTHER entry matching the address, exact or range, with any deadline, may be added, removed,
   lapse and be collected freely, and the order in which a lookup meets them is irrelevant.  It holds ACROSS ANY
   NUMBER OF RESTARTS AT ANY POINTS: the thread programs may contain CRestart anywhere (everything held in memory
   is dropped, the lists are rebuilt from the store, where a temporary record lives exactly until its expiry and a
   permanent one has none).  Excluded only: administrative AddToBlacklist / RemoveFromBlacklist on key k itself and
   AddToWhitelist on a key matching the address (the whitelist has priority over the blacklist, as documented) *)
Theorem C18_blacklisted_refused :
  forall C ip k dlo (s : sst) sched,
  In k (keys_of ip) ->
  Forall (thr_bl ip k) (snd s) -> wl_in (wl (fst s)) ip = false -> covers (bl (fst s)) k dlo ->
  let s' := runs current_variant C s sched in
  within (now (fst s')) dlo -> is_allowed (fst s') ip = false.
Proof. exact blacklisted_refused. Qed.
Print Assumptions C18_blacklisted_refused.

(* the answer the repaired IsAllowed computes is that state function *)
Theorem C18_allowed_answer_is_state_function :
  forall s ip, snd (allowed_dec current_variant s ip) = is_allowed s ip.
Proof. exact allowed_dec_current. Qed.
Print Assumptions C18_allowed_answer_is_state_function.

(* non-vacuity of (3) with restarts: permanent exact entry, permanent /28 entry, temporary entry; two restarts; other
   entries matching the address edited meanwhile; the temporary entry is refused with time left and let through once
   lapsed, addresses outside stay allowed *)
Theorem C18_blacklist_survives_restarts_example :
  let s1 := runs current_variant wit_cfg (init_sh, wit5_threads) [0; 0; 0]%nat in
  In 1002%N (keys_of 40) /\
  Forall (thr_bl 40 1002) [LProg PIdle [CRestart; CAllowed 7; CBlAdd 40 5; CRestart; CBlAdd 2001 5; CBlRm 40] []; LClock [100; 1000]; LRunBl [O]] /\
  wl_in (wl (fst s1)) 40 = false /\ covers (bl (fst s1)) 1002 None /\ covers (bl (fst s1)) 7 None /\
  covers (bl (fst s1)) 9 (Some 500) /\
  nth_error (snd (runs current_variant wit_cfg s1 [1; 0; 0; 0; 0; 0; 1; 0; 0; 2; 0; 0; 0]%nat)) 0
  = Some (LProg PIdle [] [0; 0; 0; 0; 0; 0; 0; 0; 0; 1; 0; 0; 1]%N).
Proof. exact blacklist_survives_restarts_example. Qed.
Print Assumptions C18_blacklist_survives_restarts_example.

(* fourth defect of the pinned tree: IsAllowed judged by the FIRST matching record only (the exact key, then the ranges
   in map order): (a) a lapsed exact entry found before the permanent /28 entry, (b) the lapsed /28 entry met before the
   permanent /27 entry containing it - the address is let through (answer 1) although an entry covering it is in force *)
Theorem C18_first_match_lookup_refuted :
  exists ta tb sched,
    let sa := runs (first_match_variant 1) wit_cfg (init_sh, ta) sched in
    let sb := runs (first_match_variant 1) wit_cfg (init_sh, tb) sched in
    In 1002%N (keys_of 40) /\ In 2001%N (keys_of 40) /\
    covers (bl (fst sa)) 1002 None /\ wl_in (wl (fst sa)) 40 = false /\
    nth_error (snd sa) 0 = Some (LProg PIdle [] [0; 0; 1]%N) /\
    covers (bl (fst sb)) 2001 None /\ wl_in (wl (fst sb)) 40 = false /\
    nth_error (snd sb) 0 = Some (LProg PIdle [] [0; 0; 1]%N).
Proof. exact first_match_lookup_refuted. Qed.
Print Assumptions C18_first_match_lookup_refuted.

(* a model fact, not a finding: failure records and bans are process-local by design and the property quantifies over
   histories and schedules of one process; a restart drops them, which is why (1) excludes CRestart while (3) does not *)
Theorem C18_restart_clears_memory_only_state :
  exists C ip threads pre sched,
    let s1 := runs current_variant C (init_sh, threads) pre in
    let s2 := runs current_variant C s1 sched in
    covers (bans (fst s1)) ip None /\ is_banned (fst s1) ip = true /\
    nth_error (snd s2) 0 = Some (LProg PIdle [] [0; 1; 0; 0]%N) /\ is_banned (fst s2) ip = false.
Proof. exact restart_clears_memory_only_state. Qed.
Print Assumptions C18_restart_clears_memory_only_state.

(* (4) token bucket, exact arithmetic (tokens scaled by ticks-per-second): from ANY well-formed bucket state,
   over ANY timed sequence of Take(n>=0) and garbage collections with a monotone clock, the tokens granted
   are at most (current level) + rate * elapsed <= burst + rate * elapsed — including across collections *)
Theorem C18_bucket_bound :
  forall C, bucket_cfg_ok C ->
  forall ops b t0, wf_bucket C b t0 -> bmono t0 ops ->
  snd (bucket_run C b ops) * tps C <= level C b t0 + rate C * (blast t0 ops - t0)
  /\ level C b t0 <= burst C * tps C.
Proof. exact bucket_bound. Qed.
Print Assumptions C18_bucket_bound.

(* ... instantiated at the shipped configuration (values regenerated from the code on every run) *)
Theorem C18_bucket_bound_defaults :
  forall ops b t0, wf_bucket default_cfg b t0 -> bmono t0 ops ->
  snd (bucket_run default_cfg b ops) * 1000 <= level default_cfg b t0 + IPRate * (blast t0 ops - t0)
  /\ level default_cfg b t0 <= IPBurst * 1000.
Proof. exact (bucket_bound default_cfg default_ip_bucket_ok). Qed.
Print Assumptions C18_bucket_bound_defaults.

Theorem C18_default_thresholds_ok :
  1 <= maxf default_cfg <= perm default_cfg /\ 0 < window default_cfg /\ 0 < band default_cfg.
Proof. exact default_thresholds_ok. Qed.
Print Assumptions C18_default_thresholds_ok.

(* (4b) bucket creation in RateLimiter.allow as its lock sections (RLock lookup | Lock re-check + create | Take on
   the held bucket; Model/BucketMap.v): for ANY number of concurrent first requests of any addresses on an empty
   limiter and EVERY schedule, no address ever has two buckets, every thread holds the mapped bucket of its key,
   and the tokens granted per address never exceed the burst (clock frozen: no refill) *)
Theorem C18_one_bucket_per_address :
  forall burst ls sched,
  0 <= burst -> BucketMap.fresh ls ->
  let s := fst (BucketMap.bruns true burst (Model.BucketMap.binit, ls) sched) in
  (forall i j, (i < Model.BucketMap.next s)%nat -> (j < Model.BucketMap.next s)%nat ->
               Model.BucketMap.hkey s i = Model.BucketMap.hkey s j -> i = j) /\
  (forall k, Model.BucketMap.adm s k <= burst) /\
  Forall (fun l => match l with Model.BucketMap.AHave k _ id => Model.BucketMap.bmap s k = Some id | _ => True end)
         (snd (BucketMap.bruns true burst (Model.BucketMap.binit, ls) sched)).
Proof. exact BucketMap.one_bucket_per_address. Qed.
Print Assumptions C18_one_bucket_per_address.

(* the variant without the re-check under the write lock is refuted: two first requests, two buckets, 2 > burst = 1 *)
Theorem C18_no_recheck_refuted :
  exists burst ls sched,
    0 <= burst /\ BucketMap.fresh ls /\
    let s := fst (BucketMap.bruns false burst (Model.BucketMap.binit, ls) sched) in
    Model.BucketMap.next s = 2%nat /\ Model.BucketMap.hkey s 0 = Model.BucketMap.hkey s 1 /\
    Model.BucketMap.adm s 7%N = 2 /\ burst = 1.
Proof. exact BucketMap.no_recheck_refuted. Qed.
Print Assumptions C18_no_recheck_refuted.

(* (4c) registrations are charged per REGISTRATION, whatever the token: over ANY timed history of ClientID = 0
   handshakes of one address with ANY mix of token forms (monotone clock, any well-formed bucket state), the
   registrations granted are at most (current level) + rate * elapsed <= burst + rate * elapsed - provided every
   token form that registers is charged by gate 3 (the side condition re-proved below for the probed table) *)
Theorem C18_registration_rate_bound :
  forall C (registers charged : nat -> bool),
  bucket_cfg_ok C -> (forall f, registers f = true -> charged f = true) ->
  forall h b t0, wf_bucket C b t0 -> rmono t0 h ->
  snd (reg_run C registers charged b h) * tps C <= level C b t0 + rate C * (rlast t0 h - t0)
  /\ level C b t0 <= burst C * tps C.
Proof. exact registration_bound. Qed.
Print Assumptions C18_registration_rate_bound.

(* ... instantiated at the token forms PROBED on the real HandleHandshake on every run (Gen token_table: for each
   candidate token string, does a ClientID = 0 handshake register, and is the bucket charged) and the shipped limits *)
Theorem C18_registration_rate_bound_probed_forms :
  forall h b t0, wf_bucket default_cfg b t0 -> rmono t0 h ->
  snd (reg_run default_cfg tok_registers tok_charged b h) * 1000 <= level default_cfg b t0 + IPRate * (rlast t0 h - t0)
  /\ level default_cfg b t0 <= IPBurst * 1000.
Proof. exact (registration_bound default_cfg tok_registers tok_charged default_ip_bucket_ok registering_forms_charged). Qed.
Print Assumptions C18_registration_rate_bound_probed_forms.

Theorem C18_registering_forms_charged :
  forallb (fun rc => implb (fst rc) (snd rc)) token_table = true /\ (2 <= length (filter fst token_table))%nat.
Proof. exact registering_forms_charged_table. Qed.
Print Assumptions C18_registering_forms_charged.

(* in the thread model every ClientID = 0 handshake (hk_anon: registering token or not) goes through gate 3, which
   charges the bucket of the address and lets it on only if a token was there *)
Theorem C18_zero_id_passes_gate3 :
  forall V C ip k s p' s' r,
  hk_anon k = true -> continue V C (PHs2 ip k) s = (p', s', r) -> p' = PHs3 ip k \/ p' = PIdle.
Proof. exact zero_id_passes_gate3. Qed.
Print Assumptions C18_zero_id_passes_gate3.

Theorem C18_gate3_charges :
  forall V C ip k s p' s' r,
  continue V C (PHs3 ip k) s = (p', s', r) ->
  bk s' ip = Some (fst (take C (now s) 1 (bk s ip))) /\
  (p' = PHsAuth ip k <-> snd (take C (now s) 1 (bk s ip)) = true).
Proof. exact gate3_charges. Qed.
Print Assumptions C18_gate3_charges.

(* a token form that registers without being charged: 12 registrations at one instant against burst 3 *)
Theorem C18_uncharged_form_refuted :
  exists registers charged h,
    bucket_cfg_ok reg_cfg /\ rmono 0 h /\ rlast 0 h = 0 /\
    snd (reg_run reg_cfg registers charged None h) = 12 /\ burst reg_cfg = 3.
Proof. exact uncharged_form_refuted. Qed.
Print Assumptions C18_uncharged_form_refuted.

(* PARTIAL (schedule-level form of (4)/(4c), not proved): every schedule without a restart induces on the bucket of an
   address a timed history of Take / collection steps (gate 3 and AllowIP are single atomic steps, so it does; the
   projection lemma is not written), hence the bounds above hold along every schedule *)
Definition C18_bucket_schedule_full_statement : Prop :=
  forall V C ip (s : sst) sched,
  Forall (fun l => match l with LProg _ rest _ => ~ In CRestart rest | _ => True end) (snd s) ->
  exists ops, bmono (now (fst s)) ops /\
              blast (now (fst s)) ops <= now (fst (runs V C s sched)) /\
              bk (fst (runs V C s sched)) ip = fst (bucket_run C (bk (fst s) ip) ops).

(* (4d) the bucket table is a total map keyed by address: a request of ANOTHER address - AllowIP or gate 3 of its
   handshake - never touches the bucket of ip, however many other addresses appear between two requests of ip (the
   per-address histories of (4)/(4c) are therefore unaffected by the rest of the traffic) *)
Theorem C18_bucket_untouched_by_other_addresses :
  forall V C k n s p' s' r ip,
  ip <> k -> start V C (CAllowIP k n) s = (p', s', r) -> bk s' ip = bk s ip.
Proof. exact bucket_untouched_by_other_addresses. Qed.
Print Assumptions C18_bucket_untouched_by_other_addresses.

Theorem C18_bucket_untouched_by_other_handshakes :
  forall V C k kd s p' s' r ip,
  ip <> k -> continue V C (PHs3 k kd) s = (p', s', r) -> bk s' ip = bk s ip.
Proof. exact bucket_untouched_by_other_handshakes. Qed.
Print Assumptions C18_bucket_untouched_by_other_handshakes.

(* (5) gate order of HandleHandshake: a handshake that finds the address blacklisted (gate 1) or banned
   (gate 2) ends there with that refusal: no failure recorded, no ban, no token taken, lists unchanged, the
   credential store not consulted (gate 1 may only queue the asynchronous removal of lapsed entries) *)
Theorem C18_gate_blacklisted :
  forall C ip k s, is_allowed s ip = false ->
  exists extra, start current_variant C (CHs ip k) s = (PIdle, set_bl s (bl s) (pendbl s ++ extra), Some 0%N).
Proof. exact gate_blacklisted. Qed.
Print Assumptions C18_gate_blacklisted.

Theorem C18_gate_banned :
  forall V C ip k s, skip_gate_p2 V = false ->
  is_banned s ip = true -> continue V C (PHs2 ip k) s = (PIdle, s, Some 1%N).
Proof. exact gate_banned. Qed.
Print Assumptions C18_gate_banned.

(* (5b) the ban is per ADDRESS, a pending challenge per CONNECTION: C18_gate_banned holds for EVERY handshake message
   kind k - unknown id, first connection with any token, phase 1 (HP1 c) and phase 2 (HP2 c good) on ANY connection c,
   whatever challenge that connection holds: banned at arrival => refused, shared state untouched (no failure counted, no
   challenge consumed, no RecordSuccess).  The variant that skips the gate for phase-2 messages ("the connection passed
   the check when its challenge was issued") is refuted: two connections of one address collect a challenge, two failures
   ban the address (maxf = 2), the correct response on the second connection is accepted (4) while banned *)
Theorem C18_gate_skipped_on_phase2_refuted :
  exists C ip threads sched,
    let s2 := runs skip_p2_variant C (init_sh, threads) sched in
    maxf C = 2 /\ now (fst s2) = 0 /\ is_banned (fst s2) ip = true /\
    nth_error (snd s2) 0 = Some (LProg PIdle [] [5; 5; 3; 3; 4; 1]%N).
Proof. exact gate_skipped_on_phase2_refuted. Qed.
Print Assumptions C18_gate_skipped_on_phase2_refuted.

Theorem C18_gate_on_every_message_example :
  let s2 := runs current_variant wit_cfg (init_sh, wit7_threads) (repeat O 20) in
  nth_error (snd s2) 0 = Some (LProg PIdle [] [5; 5; 3; 3; 1; 1]%N).
Proof. exact gate_on_every_message_same_schedule. Qed.
Print Assumptions C18_gate_on_every_message_example.

(* (1d) clean-up vs renewal: (1) already quantifies over both halves of cleanup() interleaved with everything else, with
   the sweep of the ban table deciding and deleting in ONE locked section.  A sweep that deletes by key what an earlier
   scan saw expired is refuted: the ban renewed between scan and delete is erased, the one-section sweep keeps it *)
Theorem C18_two_phase_sweep_refuted :
  exists m0 ip t0 t1 dl,
    let stale := scan_expired t0 m0 [ip] in
    let m1 := put current_variant m0 ip (mk_expiry t1 3600000) in
    covers m1 ip (Some dl) /\ t1 <= dl /\
    delete_keys stale m1 ip = None /\
    covers (sweep t0 m1) ip (Some dl).
Proof. exact two_phase_sweep_refuted. Qed.
Print Assumptions C18_two_phase_sweep_refuted.

(* "an address": the key HandleHandshake derives from the connection (extractIP), PROBED on every run on all shapes of a
   peer address (typed with/without IPv6 zone; strings with/without port, brackets, zone): the key depends on the peer
   alone and distinguishes peers, so every theorem above, stated per key, is a statement per peer IP *)
Theorem C18_address_key_is_the_peer :
  addr_keys_by_peer_b addr_key_table = true /\ (12 <= length addr_key_table)%nat.
Proof. exact addr_keys_by_peer. Qed.
Print Assumptions C18_address_key_is_the_peer.

(* the two defects of the pinned tree, as schedule witnesses against statement (1) *)
Theorem C18_pinned_unban_erases_reban_refuted :
  exists C ip dlo threads pre sched,
    let s1 := runs pinned_variant C (init_sh, threads) pre in
    let s2 := runs pinned_variant C s1 sched in
    threads_lock ip s1 /\ covers (bans (fst s1)) ip dlo /\ within (now (fst s2)) dlo /\
    is_banned (fst s2) ip = false.
Proof. exact pinned_unban_erases_reban_refuted. Qed.
Print Assumptions C18_pinned_unban_erases_reban_refuted.

Theorem C18_pinned_ban_weakened_refuted :
  exists C ip threads pre sched,
    let s1 := runs pinned_variant C (init_sh, threads) pre in
    let s2 := runs pinned_variant C s1 sched in
    threads_lock ip s1 /\ covers (bans (fst s1)) ip None /\ is_banned (fst s2) ip = false.
Proof. exact pinned_ban_weakened_refuted. Qed.
Print Assumptions C18_pinned_ban_weakened_refuted.

(* third defect of the pinned tree: an anonymous registration (no credential proven) cleared the failure
   record — maxf = 2, clock stopped: failed authentication, registration, failed authentication, not banned *)
Theorem C18_pinned_anon_registration_resets_refuted :
  exists C ip threads sched,
    let s2 := runs pinned_variant C (init_sh, threads) sched in
    maxf C = 2 /\ now (fst s2) = 0 /\
    nth_error (snd s2) 0 = Some (LProg PIdle [] [3; 4; 3; 0]%N) /\ is_banned (fst s2) ip = false.
Proof. exact pinned_anon_registration_resets_refuted. Qed.
Print Assumptions C18_pinned_anon_registration_resets_refuted.

(* repaired code: the last step of a successful anonymous registration leaves the whole shared state (hence
   the failure record counted by C18_window_count_exact) untouched *)
Theorem C18_anon_registration_keeps_failures :
  forall C ip s, continue current_variant C (PHsAuth ip HAnonOk) s = (PIdle, s, Some 4%N).
Proof. exact anon_registration_keeps_failures. Qed.
Print Assumptions C18_anon_registration_keeps_failures.

(* non-vacuity: a state reached from the empty state by a real schedule (two failures of two different
   threads inside the window, maxf = 2) satisfies the hypotheses of (1) and (3) with five live threads *)
Theorem C18_premises_satisfiable :
  let s1 := runs current_variant wit_cfg (init_sh, nv_threads) [0; 2; 1; 1]%nat in
  threads_lock 7 s1 /\ covers (bans (fst s1)) 7 (ban_deadline wit_cfg 100 DTemp) /\
  within (now (fst s1)) (ban_deadline wit_cfg 100 DTemp) /\
  Forall (thr_bl 7 7) (snd s1) /\ bucket_cfg_ok wit_cfg.
Proof. exact premises_satisfiable. Qed.
Print Assumptions C18_premises_satisfiable.

(* Properties/C14.v — C14: the tiered store never serves stale data or loses concurrent list updates.
   Model: Model/Hybrid.v (one thread step = one tier call; the asynchronous cache write-back is its own thread;
   per-call tier failures), prefix tables regenerated from /repo (Gen/C14.v, GenTables).  `fix_incr`/`fix_setnx`
   = true is the repaired code of fixes/C14-incr.diff (applied), false the pinned code.  `fix_wb`, `fix_list`, `fix_cwf`, `fix_cre` select
   the four proposed repairs fixes/C14-writeback-key-lock.diff, C14-list-rmw-key-lock.diff, C14-failed-cache-write-invalidate.diff and
   C14-cache-read-error.diff (true = repaired = Current once applied; false = the code they repair, kept for the `_refuted` witnesses:
   cfg_local / cfg_shared in Proofs/SideC14.v).  A caller's step is ONE tier call or ONE acquisition of the key lock. *)
From TX Require Import Base.Val Model.Hybrid Model.HybridNodes Proofs.Hybrid Proofs.HybridOne Proofs.HybridLock Proofs.HybridSeq Proofs.SideC14 Gen.C14 Corr.C14.

(* (1) TIER ROUTING, all keys, all schedules, any number of callers, any tier failures (repaired code):
   every tier call ever made for an operation on key k addresses a tier of k's class — the ONE cache tier
   Set/Get/Delete use for k (local, or the shared cache for shared and shared+persistent keys when one is
   configured) or, for persistent classes with persistence enabled, the persistent tier; every write-back goes to
   that same cache tier.  `C14_tier_classes` spells the classes out. *)
Theorem C14_tier_routing_consistent :
  forall (c : cfg) (cs : list (list op * list bool)) (nwb : nat) (l s p : store) (sched : list nat),
  fix_incr c = true -> fix_setnx c = true ->
  let r := hrun GenTables c (init_world l s p)
             (map (fun it => TCaller (init_caller (fst it) (fst (snd it)) (snd (snd it)))) (combine (seq 0 (length cs)) cs) ++ wb_workers nwb) sched in
  Forall (fun tk => allowed GenTables c (snd tk) (fst tk) = true) (w_acc (fst r)) /\
  Forall (fun e => snd (fst e) = cache_tier_for_key GenTables c (fst (fst e))) (w_spawned (fst r)).
Proof. intros c cs nwb l s p sched Hi Hn. exact (proj1 (routing_all_schedules GenTables c Hi Hn (init_world l s p) _ sched (init_good GenTables c l s p) (init_threads_ok GenTables c cs nwb))). Qed.
Print Assumptions C14_tier_routing_consistent.

(* the tier classes, for every key: runtime keys never reach persistence or the shared cache; shared keys never touch the
   local cache when a shared cache exists and never reach persistence; getCacheForKey agrees on pure shared keys *)
Theorem C14_tier_classes :
  forall (c : cfg) (k : kbytes),
  (category GenTables k = CRuntime -> allowed GenTables c k TLocal = true /\ allowed GenTables c k TShared = false /\ allowed GenTables c k TPers = false) /\
  (category GenTables k = CShared -> allowed GenTables c k TPers = false /\ allowed GenTables c k TLocal = negb (has_shared c) /\
                                     allowed GenTables c k TShared = has_shared c /\ cache_for_key GenTables c k = cache_tier_for_key GenTables c k) /\
  (category GenTables k = CPersistent -> allowed GenTables c k TLocal = true /\ allowed GenTables c k TShared = false /\ allowed GenTables c k TPers = en_pers c) /\
  (category GenTables k = CSharedPersistent -> allowed GenTables c k TLocal = negb (has_shared c) /\ allowed GenTables c k TShared = has_shared c /\
                                               allowed GenTables c k TPers = en_pers c).
Proof. exact tier_classes. Qed.
Print Assumptions C14_tier_classes.

(* regenerated prefix tables: classes pairwise unrelated, so every key matches at most one class and the test order
   of getCategory / the isShared-only test of getCacheForKey cannot matter *)
Theorem C14_key_matches_at_most_one_class :
  forall k : kbytes,
  (has_prefix SharedPersistentPrefixes k = true -> has_prefix SharedPrefixes k = false /\ has_prefix PersistentPrefixes k = false) /\
  (has_prefix SharedPrefixes k = true -> has_prefix PersistentPrefixes k = false).
Proof. exact at_most_one_class. Qed.
Print Assumptions C14_key_matches_at_most_one_class.

(* "most specific prefix wins": a documented runtime prefix is never more specific than a configured class prefix, so a key under a shared /
   persistent class prefix is never classified runtime (tunnox:runtime:conncode:* and tunnox:runtime:client:state:* stay shared although
   tunnox:runtime: is a documented runtime prefix); and the REAL getCategory / getCacheForKey (regenerated sample table) put every shipped
   prefix, and prefix ++ "42", in its own class *)
Theorem C14_most_specific_prefix_wins :
  forall (k p r : kbytes),
  In p class_prefixes -> In r RuntimePrefixes -> is_prefix p k = true -> is_prefix r k = true ->
  is_prefix r p = true /\ category GenTables k <> CRuntime.
Proof. exact most_specific_prefix_wins. Qed.
Print Assumptions C14_most_specific_prefix_wins.
Theorem C14_shipped_prefixes_real_class :
  forallb (real_class_is CatShared true) SharedPrefixes = true /\
  forallb (real_class_is CatSharedPersistent false) SharedPersistentPrefixes = true /\
  forallb (real_class_is CatPersistent false) PersistentPrefixes = true /\
  forallb (real_class_is CatRuntime false) (filter (fun r => negb (has_prefix (SharedPrefixes ++ SharedPersistentPrefixes ++ PersistentPrefixes) r)) RuntimePrefixes) = true.
Proof. exact shipped_prefixes_real_class. Qed.
Print Assumptions C14_shipped_prefixes_real_class.

(* pinned code refuted: Incr on the shared id counter calls the LOCAL cache and two interleaved calls both return 1;
   SetNX on a shared+persistent key is invisible to the following Get *)
Theorem C14_tier_routing_pinned_refuted :
  (exists sched,
    let r := hrun GenTables cfg_pinned (init_world empty_store empty_store empty_store)
               [TCaller (init_caller 0 [OIncr k_next_id] []); TCaller (init_caller 1 [OIncr k_next_id] [])] sched in
    w_hist (fst r) = [(1, OIncr k_next_id, RInt 1); (0, OIncr k_next_id, RInt 1)] /\
    existsb (fun tk => negb (allowed GenTables cfg_pinned (snd tk) (fst tk))) (w_acc (fst r)) = true) /\
  (exists sched,
    let r := hrun GenTables cfg_pinned (init_world empty_store empty_store empty_store)
               [TCaller (init_caller 0 [OSetNX k_cmap (VStr 5); OGet k_cmap] [])] sched in
    w_hist (fst r) = [(0, OGet k_cmap, RNotFound); (0, OSetNX k_cmap (VStr 5), RBool true)]).
Proof. exact (conj pinned_incr_witness pinned_setnx_witness). Qed.
Print Assumptions C14_tier_routing_pinned_refuted.

(* (3a) NO STALE READ on the code WITHOUT the key lock (fix_wb = false), guarded: on every key with a single tier (runtime keys, shared keys, every key when persistence is
   disabled) — for ANY number of callers doing Set/Get/Delete/Exists/Incr/SetNX and ANY schedule, the completed
   operations in completion order are a legal history of ONE register: every Get returns the value of the latest
   completed mutation.  (Write-backs do not exist there; the excluded region is exactly the two-tier keys of the
   refuted statements below, and get-modify-set list updates.) *)
Theorem C14_no_stale_single_tier_all_schedules :
  forall (c : cfg) (k : kbytes) (w : world) (ts : list thread) (sched : list nat),
  fix_incr c = true -> fix_setnx c = true -> fix_wb c = false -> two_tier GenTables c k = false ->
  w_spawned w = [] -> w_hist w = [] -> Forall (thread1_ok k) ts ->
  let r := hrun GenTables c w ts sched in
  linearized (tget w (cache_tier_for_key GenTables c k) k) (w_hist (fst r)) (tget (fst r) (cache_tier_for_key GenTables c k) k).
Proof. intros c k w ts sched Hi Hn Hw H1 Hs Hh Hts. exact (proj1 (proj2 (single_tier_linearizable GenTables c Hi Hn Hw k H1 _ w ts sched Hs Hh eq_refl Hts))). Qed.
Print Assumptions C14_no_stale_single_tier_all_schedules.

(* counters: in a legal history of Incr calls the values handed out are pairwise distinct (repaired Incr) *)
Theorem C14_incr_values_distinct :
  forall (init : option value) (h : list (nat * op * res)) (st : option value),
  linearized init h st -> only_incr h -> NoDup (incr_vals h).
Proof. intros init h st Hl Ho. exact (proj2 (incr_sorted init h st Hl Ho)). Qed.
Print Assumptions C14_incr_values_distinct.

(* (3)+(4) NO STALE READ and LIST UPDATES ALL TAKE EFFECT, the REPAIRED code (key lock + synchronous cache fill + list operations under the
   lock), EVERY key class (two-tier keys included), ANY number of callers, EVERY schedule of tier calls and lock acquisitions, from every
   coherent initial state (warm or cold cache):
     - the completed operations, in completion order, are a legal history of ONE register: every Get returns the value of the latest
       completed Set / not found after Delete / the list with every completed AppendToList and RemoveFromList applied — no stale read,
       no resurrected key, no lost list update;
     - whenever the key's lock is free, the facade shows exactly that register value and the cache tier holds nothing or exactly what
       the persistent tier holds;
     - no write-back is ever spawned.
   Operations: Set/Get/Delete/AppendToList/RemoveFromList/SetExpiration on two-tier keys, all nine on single-tier keys — SetExpiration is the
   facade's remaining read-modify-write on the cache tier (read the cached value, write it back): it holds the key lock from its read to its
   write (exp_locked), never changes the register, and answers nil only when the register holds a value; callers' tier calls do not
   fail (single failures: C14_failed_cache_write_partial, C14_cache_read_error_partial). *)
Theorem C14_no_stale_all_schedules :
  forall (c : cfg) (k : kbytes) (w : world) (ts : list thread) (sched : list nat),
  fix_incr c = true -> fix_setnx c = true -> fix_wb c = true -> fix_list c = true -> exp_locked c = true ->
  w_spawned w = [] -> w_hist w = [] -> w_locks w k = false -> coherent GenTables c w k ->
  Forall (idle_thread GenTables c k) ts ->
  let r := hrun GenTables c w ts sched in
  exists st,
    linearized (visible GenTables c w k) (w_hist (fst r)) st /\
    (w_locks (fst r) k = false -> visible GenTables c (fst r) k = st /\ coherent GenTables c (fst r) k) /\
    w_spawned (fst r) = [].
Proof. intros c k w ts sched Hi Hn Hw Hl He. exact (lock_all_schedules_spec GenTables c Hi Hn Hw Hl He k w ts sched). Qed.
Print Assumptions C14_no_stale_all_schedules.

(* the list half spelled out: callers that only append to / remove from / read one list (any key class, any schedule): the list the facade
   shows once the lock is free is the initial list with ALL completed appends and removes applied in completion order *)
Theorem C14_list_updates_all_take_effect :
  forall (c : cfg) (k : kbytes) (w : world) (ts : list thread) (sched : list nat),
  fix_incr c = true -> fix_setnx c = true -> fix_wb c = true -> fix_list c = true -> exp_locked c = true ->
  w_spawned w = [] -> w_hist w = [] -> w_locks w k = false -> coherent GenTables c w k ->
  Forall (fun t => match t with
                   | TCaller cl => cpc cl = PIdle /\ cur cl = None /\ held cl = false /\ faults cl = [] /\
                                   Forall (fun o => op_key o = k /\ reads_list o = true) (ops cl)
                   | TWb _ _ => True end) ts ->
  let r := hrun GenTables c w ts sched in
  exists st,
    linearized (visible GenTables c w k) (w_hist (fst r)) st /\
    (w_locks (fst r) k = false -> visible GenTables c (fst r) k = st).
Proof. intros c k w ts sched Hi Hn Hw Hl He Hs Hh HL Hco Hts. exact (list_updates_repaired c k w ts sched Hi Hn Hw Hl He Hs Hh HL Hco Hts). Qed.
Print Assumptions C14_list_updates_all_take_effect.

(* every read-modify-write of the facade must hold the key lock FROM ITS READ: the variant in which SetExpiration reads the cache before taking
   the lock is refuted — it reads v9, Set(v2) completes on both tiers, it writes v9 back, the next Get returns v9 while the persistent tier holds v2 *)
Theorem C14_setexp_read_before_lock_refuted :
  exists sched,
    let r := hrun GenTables cfg_exp_unlocked w_warm_user
               [TCaller (init_caller 0 [OSetExp k_user] []); TCaller (init_caller 1 [OSet k_user (VStr 2)] []); TCaller (init_caller 2 [OGet k_user] [])] sched in
    w_hist (fst r) = [(2, OGet k_user, RVal (VStr 9)); (0, OSetExp k_user, ROk); (1, OSet k_user (VStr 2), ROk)] /\
    tget (fst r) TPers k_user = Some (VStr 2).
Proof. exact setexp_read_before_lock_witness. Qed.
Print Assumptions C14_setexp_read_before_lock_refuted.

(* the code WITHOUT the key lock: the full statement, for every key class, is FALSE of the faithful model (witnesses below): *)
Definition C14_no_stale_full_statement : Prop :=
  forall (c : cfg) (k : kbytes) (w : world) (ts : list thread) (sched : list nat),
  w_spawned w = [] -> w_hist w = [] -> coherent GenTables c w k -> Forall (thread1_ok k) ts ->
  let r := hrun GenTables c w (ts ++ wb_workers (length sched)) sched in
  exists st, linearized (visible GenTables c w k) (w_hist (fst r)) st.

(* Get misses the cache and reads v1; Delete completes on both tiers; the write-back lands last; a Get by a third caller
   that has not even started when Delete returned gets v1 although the persistent tier no longer has the key *)
Theorem C14_no_stale_all_schedules_refuted :
  exists s1 s2,
    let r1 := hrun GenTables cfg_local w_cold thr_stale s1 in
    let r2 := hrun GenTables cfg_local w_cold thr_stale (s1 ++ s2) in
    w_hist (fst r1) = [(1, ODel k_user, ROk); (0, OGet k_user, RVal (VStr 1))] /\
    nth_error (snd r1) 2 = Some (TCaller (init_caller 2 [OGet k_user] [])) /\
    w_hist (fst r2) = (2, OGet k_user, RVal (VStr 1)) :: w_hist (fst r1) /\
    tget (fst r2) TPers k_user = None.
Proof. exact stale_after_delete_witness. Qed.
Print Assumptions C14_no_stale_all_schedules_refuted.

Theorem C14_no_stale_after_set_refuted :
  exists sched,
    let r := hrun GenTables cfg_local w_cold
               [TCaller (init_caller 0 [OGet k_user] []); TCaller (init_caller 1 [OSet k_user (VStr 2)] []); TCaller (init_caller 2 [OGet k_user] []); TWb 0 false] sched in
    w_hist (fst r) = [(2, OGet k_user, RVal (VStr 1)); (1, OSet k_user (VStr 2), ROk); (0, OGet k_user, RVal (VStr 1))] /\
    tget (fst r) TPers k_user = Some (VStr 2).
Proof. exact stale_after_set_witness. Qed.
Print Assumptions C14_no_stale_after_set_refuted.

(* (2) READ YOUR WRITES, one caller.  Refuted when the write-back may be slow: Get, Delete, Get returns the deleted value. *)
Theorem C14_read_your_writes_late_writeback_refuted :
  exists sched,
    let r := hrun GenTables cfg_local w_cold [TCaller (init_caller 0 [OGet k_user; ODel k_user; OGet k_user] []); TWb 0 false] sched in
    w_hist (fst r) = [(0, OGet k_user, RVal (VStr 1)); (0, ODel k_user, ROk); (0, OGet k_user, RVal (VStr 1))].
Proof. exact read_your_writes_late_writeback_witness. Qed.
Print Assumptions C14_read_your_writes_late_writeback_refuted.

(* non-overlapping operations (each runs to completion before the next starts; Model/Hybrid.v exec_seq), the repaired code, UNBOUNDED: any
   sequence of Set/Get/Delete/Exists/AppendToList/RemoveFromList/Incr/SetNX on one key (Exists/Incr/SetNX on single-tier keys only: lop_ok),
   every key class and tier configuration, from every coherent state (warm or cold cache): results and visible value are exactly those of
   the one-register specification, the state stays coherent, and exec_op never runs out of fuel *)
Theorem C14_read_your_writes_sequential :
  forall (c : cfg) (k : kbytes) (w : world) (os : list op),
  fix_incr c = true -> fix_setnx c = true -> fix_wb c = true -> fix_list c = true -> exp_locked c = true ->
  Forall (fun o => lop_ok GenTables c k o /\ not_setexp o) os -> coherent GenTables c w k -> w_locks w k = false ->
  snd (exec_seq GenTables c w os) = snd (spec_seq (visible GenTables c w k) os) /\
  visible GenTables c (fst (exec_seq GenTables c w os)) k = fst (spec_seq (visible GenTables c w k) os) /\
  coherent GenTables c (fst (exec_seq GenTables c w os)) k.
Proof. intros c k w os Hi Hn Hw Hl He. exact (seq_refines_spec GenTables c Hi Hn Hw Hl He k os w). Qed.
Print Assumptions C14_read_your_writes_sequential.
(* the same for the code WITHOUT the key lock (cfg_local / cfg_shared: write-backs land promptly), small scope:
   every sequence of <= 4 Set/Get/Delete/Exists on a persistent and on a shared+persistent key, local or shared cache,
   from the empty, warm-cache and COLD-cache state, equals the one-register specification and stays coherent *)
Theorem C14_read_your_writes_sequential_partial :
  forallb (fun ck => forallb (fun w => forallb (seq_ok (fst ck) (snd ck) w) (seqs 4 (kv_alphabet (snd ck)))) (seq_inits (fst ck) (snd ck)))
          all_cases = true.
Proof. exact sequential_small_scope_kv. Qed.
Print Assumptions C14_read_your_writes_sequential_partial.

(* (4) LIST UPDATES ALL TAKE EFFECT.  Refuted for overlapping calls on every key class (get-modify-set) ... *)
Theorem C14_list_updates_all_take_effect_refuted :
  exists sched,
    let w0 := tset (init_world empty_store empty_store empty_store) TLocal k_temp (Some (VList [1%N])) in
    let r := hrun GenTables cfg_local w0
               [TCaller (init_caller 0 [OAppend k_temp 2] []); TCaller (init_caller 1 [OAppend k_temp 3] [])] sched in
    w_hist (fst r) = [(0, OAppend k_temp 2, ROk); (1, OAppend k_temp 3, ROk)] /\
    visible GenTables cfg_local (fst r) k_temp = Some (VList [1; 2]%N).
Proof. exact list_lost_update_witness. Qed.
Print Assumptions C14_list_updates_all_take_effect_refuted.

(* ... and even for ONE caller on a cold cache: AppendToList(8) returns nil, its own write-back of the old list lands after it
   wrote the new one, Get returns [7] while the persistent tier holds [7 8] *)
Theorem C14_list_update_cold_cache_refuted :
  (snd r_cold_list, tget (fst r_cold_list) TPers k_cmap) = ([Some ROk; Some (RVal (VList [7%N]))], Some (VList [7%N; 8%N])).
Proof. exact list_sequential_cold_cache_witness. Qed.
Print Assumptions C14_list_update_cold_cache_refuted.

(* positive part (small scope): non-overlapping Set/Get/Delete/Exists/AppendToList/RemoveFromList sequences of length <= 3 from
   the empty and the warm state take effect exactly as on one register *)
Theorem C14_list_updates_sequential_partial :
  forallb (fun ck => forallb (fun w => forallb (seq_ok (fst ck) (snd ck) w) (seqs 3 (seq_alphabet (snd ck))))
                             (firstn 1 (seq_inits (fst ck) (snd ck)) ++ skipn 2 (seq_inits (fst ck) (snd ck))))
          all_cases = true.
Proof. exact sequential_small_scope_lists. Qed.
Print Assumptions C14_list_updates_sequential_partial.

(* (5) SEVERAL NODES (Model/HybridNodes.v: private local caches over one persistent tier and one optional shared cache; sequential
   cross-node histories).  UNBOUNDED: for every multi-node world, every writer node i and every key whose class has a common tier (persistent
   tier or shared cache), once node i's Set / Delete has returned, a node with a cold local cache reads exactly that value / not found. *)
Theorem C14_cross_node_cold_reader :
  forall (c : cfg) (k : kbytes) (m : mworld) (i j : nat) (v : value),
  fix_incr c = true -> fix_setnx c = true -> fix_wb c = true -> fix_list c = true -> exp_locked c = true ->
  cross_visible GenTables c k = true -> length (m_locals m) <= j -> coherent GenTables c (node_world m i) k ->
  snd (mexec GenTables c (fst (mexec GenTables c m i (OSet k v))) j (OGet k)) = Some (RVal v) /\
  snd (mexec GenTables c (fst (mexec GenTables c m i (ODel k))) j (OGet k)) = Some RNotFound.
Proof. intros c k m i j v Hi Hn Hw Hl He. exact (cross_node_cold_reader GenTables c Hi Hn Hw Hl He k m i j v). Qed.
Print Assumptions C14_cross_node_cold_reader.
(* (the writer's own view of the key must be coherent: a writer whose private cache still holds a value another node has since replaced is
   the recorded finding cross-node-stale-local-cache).  Histories with reads from warm nodes, small scope: *)
(* proved in small scope: along EVERY history of <= 4 steps over {node 0, node 1} x {Set v1, Set v2, Delete, Get} and {cold node} x {Get},
   on a persistent and a shared+persistent key, local or shared cache tier, every Get issued by a cold-cache node, by the latest writer,
   or by any node when the cache tier is the shared cache, returns the latest completed write *)
Theorem C14_cross_node_fresh_reads_partial :
  forallb (fun ck => forallb (fun h => mfresh_ok (fst ck) (snd ck) m_empty h None 9) (mseqs 4 (mstep_alphabet (snd ck)))) all_cases = true.
Proof. exact cross_node_small_scope. Qed.
Print Assumptions C14_cross_node_fresh_reads_partial.

(* inherent to node-local caching without invalidation (known finding cross-node-stale-local-cache): node 0 sets v1, node 1 sets v2,
   node 0 still reads v1 from its private cache while a cold node reads v2 *)
Theorem C14_cross_node_warm_local_cache_refuted :
  snd (mexec_seq GenTables cfg_local m_empty [(0, OSet k_user (VStr 1)); (1, OSet k_user (VStr 2)); (0, OGet k_user); (2, OGet k_user)])
  = [Some ROk; Some ROk; Some (RVal (VStr 1)); Some (RVal (VStr 2))].
Proof. exact cross_node_warm_local_cache_witness. Qed.
Print Assumptions C14_cross_node_warm_local_cache_refuted.

(* (6) SINGLE TIER-CALL FAILURES, repaired code, small scope (persistent and shared+persistent key, local or shared cache tier, empty /
   cold / warm state, the failure at every position of the operation): a Set / AppendToList / RemoveFromList / Delete that reports success
   is what the next Get returns and leaves cache and persistent tier coherent ... *)
Theorem C14_failed_cache_write_partial :
  forallb (fun ck => forallb (fun w => forallb (fun o => forallb (write_then_read_ok (fst ck) (snd ck) w o) (seq 0 8))
                                               [OSet (snd ck) (VStr 1); OSet (snd ck) (VList [5%N]); OAppend (snd ck) 8; ORemove (snd ck) 7; ODel (snd ck)])
                             (seq_inits (fst ck) (snd ck)))
          all_cases_r = true.
Proof. exact failed_cache_write_small_scope. Qed.
Print Assumptions C14_failed_cache_write_partial.
(* ... refuted for the unrepaired code: the cache write of Set(k, v1) fails, Set returns nil, Get returns the old v9 *)
Theorem C14_failed_cache_write_refuted :
  let w := nth 2 (seq_inits cfg_local k_user) (init_world empty_store empty_store empty_store) in
  let '(w1, r) := exec_op_f cfg_local w (OSet k_user (VStr 1)) (fault_at 1) in
  (r, snd (exec_op GenTables cfg_local w1 (OGet k_user))) = (Some ROk, Some (RVal (VStr 9))).
Proof. exact failed_cache_write_witness. Qed.
Print Assumptions C14_failed_cache_write_refuted.

(* cache-only keys: an operation whose cache read fails reports an ERROR (never "not found") and leaves the stored value untouched ... *)
Theorem C14_cache_read_error_partial :
  forallb (fun ck => forallb (fun v => forallb (read_fault_ok (fst ck) (snd ck)
                                                  (tset (init_world empty_store empty_store empty_store) (cache_tier_for_key GenTables (fst ck) (snd ck)) (snd ck) (Some v)))
                                               [OGet (snd ck); OExists (snd ck); OAppend (snd ck) 8; ORemove (snd ck) 7])
                             [VList [7%N]; VStr 3])
          one_tier_cases = true.
Proof. exact cache_read_error_small_scope. Qed.
Print Assumptions C14_cache_read_error_partial.
(* ... refuted for the unrepaired code: Get reports not found, AppendToList overwrites the list [7] with [8] *)
Theorem C14_cache_read_error_refuted :
  let w := tset (init_world empty_store empty_store empty_store) TLocal k_temp (Some (VList [7%N])) in
  (snd (exec_op_f cfg_local w (OGet k_temp) (fault_at 0)),
   snd (exec_op_f cfg_local w (OAppend k_temp 8) (fault_at 0)),
   visible GenTables cfg_local (fst (exec_op_f cfg_local w (OAppend k_temp 8) (fault_at 0))) k_temp)
  = (Some RNotFound, Some ROk, Some (VList [8%N])).
Proof. exact cache_read_error_witness. Qed.
Print Assumptions C14_cache_read_error_refuted.

(* the sequential and cross-node small-scope sweeps also hold for the repaired code, now including list operations on a COLD cache *)
Theorem C14_sequential_repaired_partial :
  forallb (fun ck => forallb (fun w => forallb (seq_ok (fst ck) (snd ck) w) (seqs 3 (seq_alphabet (snd ck)))) (seq_inits (fst ck) (snd ck)))
          all_cases_r = true.
Proof. exact sequential_small_scope_repaired. Qed.
Print Assumptions C14_sequential_repaired_partial.
Theorem C14_cross_node_repaired_partial :
  forallb (fun ck => forallb (fun h => mfresh_ok (fst ck) (snd ck) m_empty h None 9) (mseqs 4 (mstep_alphabet (snd ck)))) all_cases_r = true.
Proof. exact cross_node_small_scope_repaired. Qed.
Print Assumptions C14_cross_node_repaired_partial.

(* (7) CACHE ENTRY LOST (TTL expiry, eviction, restart of a cache tier: the key's copy disappears from the local and the shared cache).
   Repaired code, two-tier keys, ANY number of callers, EVERY schedule: in every reachable state in which the key lock is free, dropping
   the cache copy changes nothing the facade shows — it still shows the value of the latest completed write (the persistent tier holds
   it) — and the state stays coherent: never an older value brought back from another tier, never a value lost with its cache entry. *)
Theorem C14_cache_loss_invisible_all_schedules :
  forall (c : cfg) (k : kbytes) (w : world) (ts : list thread) (sched : list nat),
  fix_incr c = true -> fix_setnx c = true -> fix_wb c = true -> fix_list c = true -> exp_locked c = true ->
  two_tier GenTables c k = true ->
  w_spawned w = [] -> w_hist w = [] -> w_locks w k = false -> coherent GenTables c w k ->
  Forall (idle_thread GenTables c k) ts ->
  let r := hrun GenTables c w ts sched in
  w_locks (fst r) k = false ->
  exists st,
    linearized (visible GenTables c w k) (w_hist (fst r)) st /\
    visible GenTables c (fst r) k = st /\
    visible GenTables c (drop_cache (fst r) k) k = st /\
    coherent GenTables c (drop_cache (fst r) k) k.
Proof. intros c k w ts sched Hi Hn Hw Hl He. exact (cache_loss_invisible_all_schedules GenTables c Hi Hn Hw Hl He k w ts sched). Qed.
Print Assumptions C14_cache_loss_invisible_all_schedules.

(* several nodes with cache loss, small scope (every history of <= 4 steps over writes / reads from two nodes and a cold node and loss of the
   cache copy on one node or everywhere, persistent and shared+persistent key, local or shared cache tier) *)
Theorem C14_cross_node_cache_loss_partial :
  forallb (fun ck => forallb (fun h => mdrop_ok (fst ck) (snd ck) m_empty h None true true) (mdseqs 4 (mdrop_alphabet (snd ck)))) all_cases_r = true.
Proof. exact cross_node_cache_loss_small_scope. Qed.
Print Assumptions C14_cross_node_cache_loss_partial.

(* non-vacuity: concrete callers meet the hypotheses of the single-tier theorem; the witness keys have the classes claimed *)
Theorem C14_premises_satisfiable :
  Forall (idle_thread GenTables (cfg_rep true true) k_cmap)
         [TCaller (init_caller 0 [OGet k_cmap; OAppend k_cmap 8; ODel k_cmap] []); TCaller (init_caller 1 [OSet k_cmap (VList [1%N]); ORemove k_cmap 8; OSetExp k_cmap] []); TWb 0 false] /\
  coherent GenTables (cfg_rep true true) w_cold_list k_cmap /\
  two_tier GenTables cfg_local k_temp = false /\
  Forall (thread1_ok k_temp) [TCaller (init_caller 0 [OSet k_temp (VStr 1); OGet k_temp; OIncr k_temp] []); TCaller (init_caller 1 [ODel k_temp; OSetNX k_temp (VStr 2)] []); TWb 0 false] /\
  category GenTables k_user = CPersistent /\ category GenTables k_cmap = CSharedPersistent /\ category GenTables k_temp = CRuntime /\
  category GenTables k_next_id = CShared.
Proof. exact premises_ok. Qed.
Print Assumptions C14_premises_satisfiable.

(* Properties/C04.v — C04: tunnel data reaches only connections authorised for that mapping.
   Statements only; every proof is a single `exact`.  Model: Model/TunnelOpen.v — `open` is the server's TunnelOpen
   dispatcher as a total decision function of (connection identity, request, mapping store, local bridges, routing table),
   `current` = the repaired code (fixes/C04-validate-before-attach.diff, fixes/C04-secret-path-isvalid.diff),
   `pinned` = the tree as found (existing-bridge and routing branches before any credential check).
   Clients, mapping ids, secrets, tunnel ids, connection ids are arbitrary numbers (N): nothing below is bounded.
   The tables regenerated from the code (Gen/C04.v) are tied to the model in Proofs/SideC04.v. *)
From TX Require Import Base.Threads Model.TunnelOpen Proofs.TunnelOpen Model.TunnelRace Proofs.TunnelRace Model.TunnelCross Proofs.TunnelCross Proofs.SideC04 Gen.C04.
From Coq Require Import List NArith Bool.
Import ListNotations.
Open Scope N_scope.

(* (1) for EVERY mapping store, set of local bridges, routing table, node configuration, connection and request:
   if the dispatcher attaches the connection (to an existing bridge as source or target, to a new bridge, to a
   cross-node forward or a local wait) — or even only acknowledges success — then the connection is authenticated, it
   names the mapping the tunnel belongs to, that mapping exists and is neither revoked, expired nor inactive, and the
   connection is its listening client presenting the mapping id, or its listening/target client presenting its secret. *)
Theorem C04_attach_implies_entitled :
  forall cfg (d : db) tun rt (c : conn_id) (r : request),
    refused (open current cfg d tun rt c r) = false ->
    let tm := tunnel_mid tun rt r in
    c_registered c = true /\ c_client c <> 0 /\ r_mid r = tm /\ tm <> 0 /\
    exists m, d tm = Some m /\ m_revoked m = false /\ m_expired m = false /\ m_active m = true /\
      ((m_listen m = c_client c /\ r_secret r = 0) \/
       ((m_listen m = c_client c \/ m_target m = c_client c) /\ r_secret r = m_secret m /\ r_secret r <> 0)).
Proof.
  intros cfg d tun rt c r H.
  exact (entitledb_spec d c r _ (success_implies_entitled cfg d tun rt c r H)).
Qed.
Print Assumptions C04_attach_implies_entitled.

(* the same in boolean form, for the attaching outcomes *)
Theorem C04_attach_implies_entitledb :
  forall cfg d tun rt c r,
    attaches (open current cfg d tun rt c r) = true ->
    entitledb d c r (tunnel_mid tun rt r) = true.
Proof. exact attach_implies_entitled. Qed.
Print Assumptions C04_attach_implies_entitledb.

(* (2) a refusal is announced: with the cross-node transport configured (as the server wires it), every refused
   request had a TunnelOpenAck{Success:false} written to it first *)
Theorem C04_refused_gets_failure_ack :
  forall cfg d tun rt c r a,
    cfg_crossnode cfg = true ->
    open current cfg d tun rt c r = Refuse a -> a = true.
Proof. exact refused_gets_failure_ack. Qed.
Print Assumptions C04_refused_gets_failure_ack.

(* (3) histories — over ALL sequences of TunnelOpen packets (from any connections in any authentication state), mapping
   store changes (create / revoke / expire / delete), routing changes by other nodes, bridge closures and forward
   completions, routing polls of requests that arrived BEFORE their tunnel existed (EResolve / ETimeout) and the tunnelBridges polls of
   requests waiting inside handleLocalBridgeWait for a bridge to APPEAR on this node (EWaitResolve), starting from
   a fresh session manager: a connection that a bridge holds (as source or target) or that
   is being forwarded to another node got there through one of its own TunnelOpen requests, and that request was
   entitled to the tunnel's mapping at the moment it was accepted *)
Theorem C04_held_only_via_entitled_open :
  forall cfg d rt (es : list event) cr t,
    holds (run current cfg (init d rt) es) cr t ->
    In (cr, t, true) (s_log (run current cfg (init d rt) es)).
Proof. exact held_only_via_entitled_open. Qed.
Print Assumptions C04_held_only_via_entitled_open.

(* (4) a connection all of whose requests were refused never receives tunnel traffic: no bridge holds it and nothing
   is forwarded to it, after any history (true of every variant: the attachment points are reachable only through open) *)
Theorem C04_refused_gets_no_bytes :
  forall v cfg d rt (es : list event) cr,
    all_refused v cfg (init d rt) es cr ->
    forall t, ~ holds (run v cfg (init d rt) es) cr t.
Proof.
  intros v cfg d rt es cr H.
  exact (refused_never_holds v cfg es (init d rt) cr (init_holds_nothing d rt cr) (init_parks_nothing d rt cr) H).
Qed.
Print Assumptions C04_refused_gets_no_bytes.

(* (5) the finite table the harness drives through the real SessionManager.HandlePacket — identity (5) x named mapping
   (3) x secret (10: none, right, unrelated, strict prefixes, suffix, right+1, case-flipped, one character changed, another
   mapping's secret) x resume token (2) x state of the named mapping (10: active, revoked, expired an hour / 25 s / 10 s / 2 s / 1 ms ago, expiring in 60 s, inactive, missing)
   x tunnel state at arrival (4) = 12000 cells for ordinary mappings, plus the mapping-party dimension (stored listening client id 0 = server-side
   listener; stored target client id 0; mappings that store NO secret) on 1080 + 270 sub-table cells: 13350 cells, the
   bound being exactly the cell type: on every cell an attachment implies entitlement, and a request that is not
   entitled is refused WITH a failure acknowledgement *)
Theorem C04_table_all_cells :
  N.of_nat (length all_cells) = 13350%N /\
  (forall c, In c all_cells -> cell_ok current c = true) /\
  (forall c : cell, attaches (cell_open current c) = true -> cell_entitled c = true) /\
  (forall c : cell, In c all_cells -> cell_entitled c = false -> cell_open current c = Refuse true).
Proof. exact (conj table_size (conj table_cells_ok (conj cell_attach_entitled cell_unentitled_failure_ack))). Qed.
Print Assumptions C04_table_all_cells.

(* the defects of the tree as found, kept as refuted statements *)
Theorem C04_pinned_existing_bridge_refuted :
  (forall cfg d tun rt c r b, tun (r_tid r) = Some b -> attaches (open pinned cfg d tun rt c r) = true) /\
  exists c, attaches (cell_open pinned c) = true /\ cell_entitled c = false.
Proof. exact (conj pinned_existing_bridge_attaches_anyone pinned_existing_bridge_refuted). Qed.
Print Assumptions C04_pinned_existing_bridge_refuted.

Theorem C04_pinned_cross_node_refuted :
  exists c, ce_tstate c = TRemote /\ attaches (cell_open pinned c) = true /\ cell_entitled c = false.
Proof. exact pinned_cross_node_refuted_remote. Qed.
Print Assumptions C04_pinned_cross_node_refuted.

Theorem C04_pinned_secret_path_refuted :
  exists c, attaches (cell_open {| v_validate_first := true; v_secret_isvalid := false; v_wait_agree := true |} c) = true /\ cell_entitled c = false.
Proof. exact pinned_secret_path_refuted. Qed.
Print Assumptions C04_pinned_secret_path_refuted.

(* non-vacuity: in the repaired model the legitimate flow still works — the listening client creates tunnel 7, the
   target client (mapping id + the mapping's secret, exactly what internal/client/tunnel_dialer.go sends) is attached
   to it and holds it; an unauthenticated connection and, after revocation, even the target client are refused; a
   legitimate target is forwarded to the tunnel's node *)
Theorem C04_premises_satisfiable :
  (let s := run current ex_cfg (init ex_db (fun _ => None)) ex_history in
   s_tun s 7 = Some {| b_mid := 1; b_src := Some 1000; b_tgt := Some 1001 |} /\
   s_tun s 8 = None /\
   s_log s = [(1001, 7, true); (1000, 7, true)] /\
   holds s 1001 7 /\
   all_refused current ex_cfg (init ex_db (fun _ => None)) ex_history 1002 /\
   all_refused current ex_cfg (init ex_db (fun _ => None)) ex_history 1003) /\
  open current ex_cfg ex_db (fun _ => None) (fun t => if N.eqb t 7 then Some {| ro_node := 2; ro_mid := 1 |} else None) ex_tgt ex_req = Forward.
Proof. exact (conj legit_history_attaches legit_cross_node_forwards). Qed.
Print Assumptions C04_premises_satisfiable.

(* (6) requests parked in the routing poll (they arrived before their tunnel existed): an entitled early target is attached
   once the tunnel appears; the target client of ANOTHER mapping, parked on the same client-chosen tunnel id, is dropped when
   the poll fires (mapping-agreement test at resolution time) — and without that test the tunnel is handed to it *)
Theorem C04_parked_requests :
  (let s := run current ex_cfg (init ex_db2 (fun _ => None)) ex_park_ok in
   s_tun s 9 = Some {| b_mid := 1; b_src := Some 2000; b_tgt := Some 2001 |} /\
   s_log s = [(2001, 9, true); (2000, 9, true)] /\ s_park s = []) /\
  (let s := run current ex_cfg (init ex_db2 (fun _ => None)) ex_park_other in
   s_park (run current ex_cfg (init ex_db2 (fun _ => None)) (firstn 2 ex_park_other)) <> [] /\
   s_tun s 9 = Some {| b_mid := 1; b_src := Some 2000; b_tgt := None |} /\
   s_log s = [(2000, 9, true)] /\ s_park s = []).
Proof. exact (conj parked_entitled_attaches parked_other_mapping_refused). Qed.
Print Assumptions C04_parked_requests.

Theorem C04_pinned_parked_refuted :
  exists d es cr t,
    holds (run pinned ex_cfg (init d (fun _ => None)) es) cr t /\
    In (cr, t, false) (s_log (run pinned ex_cfg (init d (fun _ => None)) es)).
Proof. exact pinned_parked_refuted. Qed.
Print Assumptions C04_pinned_parked_refuted.

(* (7) concurrency — handleTunnelOpen is two critical sections (validate + tunnelBridges lookup; later create / attach, or attach
   to the bridge OBJECT that was looked up), and bridges END: the object registered under a client-chosen tunnel id can be removed
   and ANOTHER mapping's bridge registered under the same id while a request sits between its lookup and its attach.
   For ANY number of concurrent requests (any identities, mappings, secrets, tunnel ids) and "bridge ends" actions (`starts`:
   every thread is a request at its lookup or an ending) and ANY schedule of their atomic actions, in the code with fixes/C04-late-bridge-mapping-agreement.diff: a connection wired into a bridge got there through an
   attachment that was entitled to THAT bridge's mapping ... *)
Theorem C04_all_interleavings_attach_implies_entitled :
  forall (d : db) (ths : list rlocal) (sched : list nat) cr t,
    Forall starts ths ->
    rholds (fst (rrun fixed_variant d (rinit ths) sched)) cr t ->
    In (cr, t, true) (sh_log (fst (rrun fixed_variant d (rinit ths) sched))).
Proof. exact race_attach_implies_entitled. Qed.
Print Assumptions C04_all_interleavings_attach_implies_entitled.

(* ... and a bridge OBJECT never changes its mapping (every variant, every schedule, endings and re-registrations included):
   whatever was established about object g registered under t — "if g is still the registered object, it belongs to m" — stays true *)
Theorem C04_bridge_mapping_never_changes :
  forall rv d sched (s : rstate) g t m,
    fresh_ids (fst s) -> claim g t m (fst s) -> claim g t m (fst (rrun rv d s sched)).
Proof. exact race_bridge_mapping_stable. Qed.
Print Assumptions C04_bridge_mapping_never_changes.

(* the tree with only the first repairs is refuted by one interleaving (B looks up, A creates, B attaches): mapping 2's target
   client becomes target of mapping 1's tunnel; so is a startSourceBridge that re-attaches to a registered bridge *)
Theorem C04_head_interleaving_refuted :
  (let s := rrun head_variant ex_db2 (rinit [race_A; race_B_target]) race_sched in
   sh_tun (fst s) 9 = Some {| b_mid := 1; b_src := Some 1; b_tgt := Some 2 |} /\ In (2, 9, false) (sh_log (fst s))) /\
  (let s := rrun {| late_agree := true; source_reattach := true; refetch_existing := false |} ex_db2 (rinit [race_A; race_B_listen]) race_sched in
   sh_tun (fst s) 9 = Some {| b_mid := 1; b_src := Some 2; b_tgt := None |} /\ In (2, 9, false) (sh_log (fst s))).
Proof. exact (conj head_race_refuted source_reattach_refuted). Qed.
Print Assumptions C04_head_interleaving_refuted.

(* non-vacuity of (7): the racing wrong-mapping request is left out, the other order works, an early entitled target attaches *)
Theorem C04_interleaving_witnesses :
  sh_tun (fst (rrun fixed_variant ex_db2 (rinit [race_A; race_B_target]) race_sched)) 9 = Some {| b_mid := 1; b_src := Some 1; b_tgt := None |} /\
  sh_log (fst (rrun fixed_variant ex_db2 (rinit [race_A; race_B_target]) race_sched)) = [(1, 9, true)] /\
  sh_tun (fst (rrun fixed_variant ex_db2 (rinit [race_A; race_B_listen]) [1; 1; 0; 0]%nat)) 9 = Some {| b_mid := 2; b_src := Some 2; b_tgt := None |} /\
  sh_tun (fst (rrun fixed_variant ex_db2 (rinit [race_A; request_thread 2 ex_tgt (ex_req9 1 101)]) race_sched)) 9
    = Some {| b_mid := 1; b_src := Some 1; b_tgt := Some 2 |}.
Proof. exact fixed_race_witness. Qed.
Print Assumptions C04_interleaving_witnesses.

(* (8) two nodes — the cluster-wide waiting-tunnel record is what a target arriving on ANOTHER node is checked against before
   it is forwarded into the bridge (the bridge node compares nothing).  For ANY number of source-side requests on the bridge
   node and target-side requests on other nodes and ANY schedule of their atomic actions (lookup / bridge-exists check + insert /
   record write / remote record lookup / forward), in the order startSourceBridge has (insert, THEN record): every attachment,
   including every forwarded one, was entitled to the mapping of the bridge it ended up in, and the record of a tunnel id always
   names the mapping of the bridge registered under that id *)
Theorem C04_cross_node_all_interleavings :
  forall (d : db) (ths : list xlocal) (sched : list nat),
    Forall (fun lo => xl_pc lo = XLookup) ths ->
    let sh := fst (xrun x_head d (xinit ths) sched) in
    (forall e, In e (x_log sh) -> snd e = true) /\ (forall t m, x_rec sh t = Some m -> xhas sh t m).
Proof. exact cross_attach_implies_entitled. Qed.
Print Assumptions C04_cross_node_all_interleavings.

(* writing the record BEFORE the bridge-exists check is refuted: the request that loses the race for a client-chosen tunnel id
   overwrites the record with its own mapping, and its target client is forwarded from another node into the winner's bridge *)
Theorem C04_record_before_check_refuted :
  let sh := fst (xrun x_record_before_check ex_db2 (xinit [xw_L; xw_S; xw_X]) xw_sched) in
  x_tun sh 9 = Some {| b_mid := 1; b_src := Some 1; b_tgt := Some 3 |} /\ x_rec sh 9 = Some 2 /\ In (3, 9, false) (x_log sh).
Proof. exact record_before_check_refuted. Qed.
Print Assumptions C04_record_before_check_refuted.

(* non-vacuity of (8): same schedule in the real order — the loser leaves the record alone and its target is refused, while the
   winner's own target IS forwarded from the other node and attached *)
Theorem C04_cross_node_witnesses :
  (let sh := fst (xrun x_head ex_db2 (xinit [xw_L; xw_S; xw_X]) xw_sched) in
   x_tun sh 9 = Some {| b_mid := 1; b_src := Some 1; b_tgt := None |} /\ x_rec sh 9 = Some 1 /\ x_log sh = [(1, 9, true)]) /\
  (let sh := fst (xrun x_head ex_db2 (xinit [xw_L; xw_S; xw_T]) xw_sched) in
   x_tun sh 9 = Some {| b_mid := 1; b_src := Some 1; b_tgt := Some 3 |} /\ x_log sh = [(3, 9, true); (1, 9, true)]).
Proof. exact head_cross_witness. Qed.
Print Assumptions C04_cross_node_witnesses.

(* (9) bridge replacement — re-fetching tunnelBridges[T] after the ack write and attaching WITHOUT re-testing is refuted: the owner
   (mapping 2) has tunnel 9, its target's request passes the agreement test, the bridge ends, mapping 1's listener registers a new
   bridge under id 9, the attach lands in mapping 1's bridge.  With the attach on the object that was tested (the real code) the
   new bridge is left alone, and without the ending the request is attached to its own mapping's bridge. *)
Theorem C04_refetch_existing_refuted :
  let s := rrun {| late_agree := true; source_reattach := false; refetch_existing := true |} ex_db2 (rinit repl_threads) repl_sched in
  sh_tun (fst s) 9 = Some {| b_mid := 1; b_src := Some 1; b_tgt := Some 4 |} /\ In (4, 9, false) (sh_log (fst s)).
Proof. exact refetch_existing_refuted. Qed.
Print Assumptions C04_refetch_existing_refuted.

Theorem C04_replacement_witness :
  let s := rrun fixed_variant ex_db2 (rinit repl_threads) repl_sched in
  sh_tun (fst s) 9 = Some {| b_mid := 1; b_src := Some 1; b_tgt := None |} /\
  sh_log (fst s) = [(1, 9, true); (2, 9, true)] /\
  sh_tun (fst (rrun fixed_variant ex_db2 (rinit repl_threads) [0; 0; 1; 1]%nat)) 9 = Some {| b_mid := 2; b_src := Some 2; b_tgt := Some 4 |}.
Proof. exact replacement_witness. Qed.
Print Assumptions C04_replacement_witness.

(* (10) "Revoked, expired, inactive or unknown mappings never yield an attachment" and "only if it is authenticated", as headline
   statements of their own (contrapositives of (1)): for every store, bridge map, routing table, connection and request, if the
   mapping the tunnel belongs to is missing, revoked, expired or not active — or the connection is not authenticated — the
   dispatcher's outcome is a refusal (no attachment of any kind, no success acknowledgement) *)
Theorem C04_invalid_mapping_never_attaches :
  forall cfg (d : db) tun rt (c : conn_id) (r : request),
    match d (tunnel_mid tun rt r) with
    | Some m => m_revoked m = true \/ m_expired m = true \/ m_active m = false
    | None => True
    end ->
    refused (open current cfg d tun rt c r) = true.
Proof. exact invalid_mapping_refused. Qed.
Print Assumptions C04_invalid_mapping_never_attaches.

Theorem C04_unauthenticated_never_attaches :
  forall cfg (d : db) tun rt (c : conn_id) (r : request),
    c_registered c = false \/ c_client c = 0 -> refused (open current cfg d tun rt c r) = true.
Proof. exact unauthenticated_refused. Qed.
Print Assumptions C04_unauthenticated_never_attaches.

(* what is NOT claimed: "whoever is not attached received a failure acknowledgement".  (2) gives the failure acknowledgement for every
   REFUSAL decided on arrival; a request that is admissible on arrival but finds nothing to attach to (or loses a race after its
   acknowledgement: "already exists", late mapping-agreement test) has been acknowledged with success and is then dropped. *)
Definition C04_every_unattached_request_gets_failure_ack_full_statement : Prop :=
  forall cfg d tun rt c r, attaches (open current cfg d tun rt c r) = false -> open current cfg d tun rt c r = Refuse true.
Theorem C04_every_unattached_request_gets_failure_ack_refuted :
  ~ C04_every_unattached_request_gets_failure_ack_full_statement.
Proof. exact unattached_not_always_refused. Qed.
Print Assumptions C04_every_unattached_request_gets_failure_ack_refuted.

(* (11) mappings whose stored party id is 0 (server-side listener: listening client id 0; no target client: target id 0).  An
   unauthenticated connection also has client id 0, and (10) `C04_unauthenticated_never_attaches` holds for EVERY store, these
   mappings included (it has no hypothesis on the store).  Witnesses on the table cells with that party dimension, and the reason the
   early client-id test cannot be dropped: the party tests of both credential paths accept id 0 for such a mapping. *)
Theorem C04_server_side_listener_witness :
  cell_open current (pc IdHalf SNone TNone PListen0) = Refuse true /\
  cell_open current (pc IdHalf SRight TWaiting PListen0) = Refuse true /\
  cell_open current (pc IdNone SRight TRemote PListen0) = Refuse true /\
  cell_open current (pc IdHalf SRight TWaiting PTarget0) = Refuse true /\
  attaches (cell_open current (pc IdTarget SRight TWaiting PListen0)) = true /\
  attaches (cell_open current (pc IdListen SNone TNone PTarget0)) = true.
Proof. exact server_side_listener_witness. Qed.
Print Assumptions C04_server_side_listener_witness.

Theorem C04_client_id_guard_is_not_redundant :
  exists m, is_valid m = true /\ can_be_accessed_by m 0 = true /\
            (negb (N.eqb (m_listen m) 0) && negb (N.eqb (m_target m) 0)) = false.
Proof. exact client_id_guard_not_redundant. Qed.
Print Assumptions C04_client_id_guard_is_not_redundant.

(* (12) handleLocalBridgeWait — a request that the waiting-tunnel record sent to THIS node waits (up to 5 s) for a bridge to appear
   under the tunnel id.  The bridge that appears need not be the one the record spoke about (the record may be stale or gone, the id
   is client-chosen): the wait ends with a comparison of THAT bridge's mapping with the request's.  Part of (3): every history with
   EWaitResolve steps.  Witnesses: with the comparison the waiting request (mapping 2) is dropped when mapping 1's bridge appears and
   attached when mapping 2's own bridge appears; without it, it is wired into mapping 1's bridge. *)
Theorem C04_local_wait_revalidates :
  (let s := run current ex_cfg (init ex_db2 stale_rt) ex_wait_other in
   s_wait (run current ex_cfg (init ex_db2 stale_rt) (firstn 3 ex_wait_other)) <> [] /\
   s_tun s 9 = Some {| b_mid := 1; b_src := Some 2000; b_tgt := None |} /\ s_log s = [(2000, 9, true)] /\ s_wait s = []) /\
  (let s := run current ex_cfg (init ex_db2 stale_rt) ex_wait_ok in
   s_tun s 9 = Some {| b_mid := 2; b_src := Some 2000; b_tgt := Some 2001 |} /\ s_log s = [(2001, 9, true); (2000, 9, true)]).
Proof. exact local_wait_revalidates. Qed.
Print Assumptions C04_local_wait_revalidates.

Theorem C04_local_wait_without_recheck_refuted :
  let v := {| v_validate_first := true; v_secret_isvalid := true; v_wait_agree := false |} in
  let s := run v ex_cfg (init ex_db2 stale_rt) ex_wait_other in
  holds s 2001 9 /\ s_tun s 9 = Some {| b_mid := 1; b_src := Some 2000; b_tgt := Some 2001 |} /\ In (2001, 9, false) (s_log s).
Proof. exact local_wait_without_recheck_refuted. Qed.
Print Assumptions C04_local_wait_without_recheck_refuted.

(* (13) a mapping that stores NO secret (connection-code mappings are created with an empty SecretKey): whatever non-empty secret a
   requester presents is not "the mapping's secret" — every store, every requester (the listening client with the mapping id alone is
   the only way in; (1) already says so, this is the headline form) *)
Theorem C04_no_stored_secret_accepts_no_presented_secret :
  forall cfg (d : db) tun rt (c : conn_id) (r : request) (m : mapping),
    d (tunnel_mid tun rt r) = Some m -> m_secret m = 0 -> r_secret r <> 0 ->
    refused (open current cfg d tun rt c r) = true.
Proof. exact no_stored_secret. Qed.
Print Assumptions C04_no_stored_secret_accepts_no_presented_secret.

(* (14) (2) is a statement about each REQUEST (`open` is a function of the request; it has no per-connection memory): a connection may
   send any number of requests, every refused one has its own failure acknowledgement, and a legitimate one afterwards is served.
   Histories (3) quantify over event lists in which the same connection id occurs any number of times.  Witness: *)
Theorem C04_failure_ack_per_request_witness :
  let s0 := init ex_db2 (fun _ => None) in
  open current ex_cfg (s_db s0) (s_tun s0) (s_rt s0) ex_src {| r_mid := 1; r_tid := 7; r_secret := 999; r_resume := false |} = Refuse true /\
  open current ex_cfg (s_db s0) (s_tun s0) (s_rt s0) ex_src {| r_mid := 2; r_tid := 7; r_secret := 0; r_resume := false |} = Refuse true /\
  s_tun (run current ex_cfg s0 ex_same_conn) 7 = Some {| b_mid := 1; b_src := Some 3001; b_tgt := None |} /\
  s_log (run current ex_cfg s0 ex_same_conn) = [(3001, 7, true)].
Proof. exact failure_ack_per_request_witness. Qed.
Print Assumptions C04_failure_ack_per_request_witness.
Close Scope N_scope.

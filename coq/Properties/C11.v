(* Properties/C11.v — C11: control commands act with the connection's proven identity only.
   Statements only; every proof is a single `exact`.  Model: Model/Commands.v; `current_table` is the server's dispatch
   table (all 256 command bytes x {JsonCommand, CommandResp}; bytes without a row are unhandled) with the four
   fixes/C11-*.diff applied; its routes are re-proved equal to the classification regenerated from the real stack in
   Proofs/SideC11.v.  Worlds (mappings, codes, domains, online clients), connection classes, bodies and packet identity
   fields are arbitrary. *)
From TX Require Import Model.CmdContext Proofs.CmdContext Model.Pending Proofs.Pending Model.Commands Proofs.Commands Proofs.SideC11 Gen.C11.
From Coq Require Import NArith List.
Import ListNotations.
Open Scope N_scope.

(* identity_from_connection: SenderId / ReceiverId / Token / body client-id fields (the claim) never change the outcome:
   same world, same success flag, same disclosures, same deliveries — for every command byte, packet type, body,
   connection class and world. *)
Theorem C11_identity_from_connection :
  forall (w : world) (k : connkind) (cl1 cl2 : claim) (c : cmd),
  exec current_table w k cl1 c = exec current_table w k cl2 c.
Proof. exact identity_from_connection. Qed.
Print Assumptions C11_identity_from_connection.

(* "executed with the identity authenticated on the connection it arrived on": every row of the server's table (all handled
   command bytes, C2C notify included) whose effect reads / changes client-owned state or reaches another client computes
   its acting identity as conn_identity (the registry's binding of the connection at dispatch) — for every world, connection
   class and claim; the remaining rows (public HTTP-domain reads, response sinks) touch no state and reach nobody at all *)
Theorem C11_acting_identity_is_the_connections :
  forall r, In r (current_table ++ [aux_row_current]) ->
  (stateless (r_eff r) = false -> forall w k cl, acting r w k cl = conn_identity w k) /\
  (stateless (r_eff r) = true -> forall p a w k c, exists b, run (r_eff r) p a w k c = mk b w).
Proof. exact acting_is_connection_identity. Qed.
Print Assumptions C11_acting_identity_is_the_connections.

(* the same with command.SendNotifyToClientHandler (C2C notification; in the anchored files, not registered by the server
   today) added to the table *)
Theorem C11_identity_from_connection_with_notify :
  forall (w : world) (k : connkind) (cl1 cl2 : claim) (c : cmd),
  exec (current_table ++ [aux_row_current]) w k cl1 c = exec (current_table ++ [aux_row_current]) w k cl2 c.
Proof. exact identity_from_connection_notify. Qed.
Print Assumptions C11_identity_from_connection_with_notify.

(* unauth_refused: on a connection that has proven no identity (unknown id, fresh, handshake pending, or the closed
   connection of a client) NO command of the 256 x 2 changes the world, discloses an object or writes a packet to another
   client.  World invariant (wf_world): client id 0 has no control connection, owns no HTTP domain, and no
   registered connection is bound to it. *)
Theorem C11_unauth_refused :
  forall (w : world) (k : connkind) (cl : claim) (c : cmd),
  wf_world w -> conn_identity w k = 0 ->
  let r := exec current_table w k cl c in
  res_world r = w /\ res_deliv r = [] /\ res_dm r = [] /\ res_dc r = [] /\ res_dd r = [].
Proof. exact unauth_refused. Qed.
Print Assumptions C11_unauth_refused.

Theorem C11_unauth_refused_with_notify :
  forall (w : world) (k : connkind) (cl : claim) (c : cmd),
  wf_world w -> conn_identity w k = 0 ->
  let r := exec (current_table ++ [aux_row_current]) w k cl c in
  res_world r = w /\ res_deliv r = [] /\ res_dm r = [] /\ res_dc r = [] /\ res_dd r = [].
Proof. exact unauth_refused_notify. Qed.
Print Assumptions C11_unauth_refused_with_notify.

(* "refused", literally: the commands behind an explicit authentication gate (ConfigGet, connection codes, mapping
   list/get/delete, HTTPDomainCreate, SOCKS5 tunnel request, C2C notify, traffic report) are answered with failure on a
   connection that has proven no identity; the ungated ones (HTTPDomainList / HTTPDomainDelete / Disconnect) may answer
   success although — by C11_unauth_refused — nothing happens and nothing is disclosed (witnesses below); the DNS requests
   get an error answer written to the sender, the handler itself returns nil *)
Theorem C11_unauth_answered_with_failure :
  forall w k cl c, conn_identity w k = 0 -> In (k_type c) [50; 70; 71; 72; 74; 75; 76; 85; 90; 102; 110] ->
  res_ok (exec (current_table ++ [aux_row_current]) w k cl c) = false.
Proof. exact unauth_answered_with_failure. Qed.
Print Assumptions C11_unauth_answered_with_failure.

Theorem C11_ungated_rows_success_but_inert :
  res_ok (exec current_table w_demo KUnknown 0 (c_demo 87 None None)) = true
  /\ res_ok (exec current_table w_demo KFresh 0 (c_demo 86 (Some 999) None)) = true
  /\ res_ok (exec current_table w_demo KPending 0 (c_demo 11 None None)) = true
  /\ inert w_demo (exec current_table w_demo KUnknown 0 (c_demo 87 None None))
  /\ inert w_demo (exec current_table w_demo KFresh 0 (c_demo 86 (Some 999) None))
  /\ inert w_demo (exec current_table w_demo KPending 0 (c_demo 11 None None)).
Proof. exact ungated_rows_success_but_inert. Qed.
Print Assumptions C11_ungated_rows_success_but_inert.

(* which connection classes prove nothing *)
Theorem C11_unauthenticated_classes :
  forall w, conn_identity w KUnknown = 0 /\ conn_identity w KFresh = 0 /\ conn_identity w KPending = 0
  /\ (forall i, lookup_bind i (w_bind w) = None -> conn_identity w (KConn i) = 0).
Proof. exact unauthenticated_kinds. Qed.
Print Assumptions C11_unauthenticated_classes.

(* party_only, mappings: a mapping that disappears, changes (traffic counters) or appears has the connection's identity
   as listen or target client; every mapping id written to the sender belongs to such a mapping. *)
Theorem C11_party_only_mappings :
  forall (w : world) (k : connkind) (cl : claim) (c : cmd),
  let a := conn_identity w k in let r := exec current_table w k cl c in
  (forall m, In m (w_maps w) -> ~ In m (w_maps (res_world r)) -> a <> 0 /\ (m_listen m = a \/ m_target m = a)) /\
  (forall m, In m (w_maps (res_world r)) -> ~ In m (w_maps w) -> a <> 0 /\ (m_listen m = a \/ m_target m = a)) /\
  (forall i, In i (res_dm r) ->
     exists m, In m (w_maps (res_world r)) /\ m_id m = i /\ a <> 0 /\ (m_listen m = a \/ m_target m = a)).
Proof. exact party_only_mappings. Qed.
Print Assumptions C11_party_only_mappings.

(* party_only, codes and HTTP domains: a deleted / created / listed domain is owned by the connection's identity; a created
   or newly activated code has it as owner resp. activator; listed codes are its own. *)
Theorem C11_party_only_codes_domains :
  forall (w : world) (k : connkind) (cl : claim) (c : cmd),
  let a := conn_identity w k in let r := exec current_table w k cl c in
  (forall d, In d (w_doms w) -> ~ In d (w_doms (res_world r)) -> d_owner d = a) /\
  (forall d, In d (w_doms (res_world r)) -> ~ In d (w_doms w) -> d_owner d = a /\ a <> 0) /\
  (forall i, In i (res_dd r) -> exists d, In d (w_doms (res_world r)) /\ d_id d = i /\ d_owner d = a) /\
  (forall x, In x (w_codes (res_world r)) -> ~ In x (w_codes w) -> a <> 0 /\ (c_owner x = a \/ c_act x = a)) /\
  (forall i, In i (res_dc r) -> exists x, In x (w_codes (res_world r)) /\ c_id x = i /\ c_owner x = a).
Proof. exact party_only_objects. Qed.
Print Assumptions C11_party_only_codes_domains.

(* reaching another client: a packet is written to client t's control connection only if the connection's identity a is
   non-zero and owns a mapping (listen = a, target = t) — or it is a C2C notification stamped with a itself; the only
   control connection a command can take down is the sender's own, and no command makes a client reachable or binds a
   connection to an identity (only the registry events of a handshake do). *)
Theorem C11_reach_only_own_target :
  forall (w : world) (k : connkind) (cl : claim) (c : cmd),
  let a := conn_identity w k in let r := exec (current_table ++ [aux_row_current]) w k cl c in
  (forall t ty s, In (t, ty, s) (res_deliv r) ->
     a <> 0 /\ t <> a /\ ((ty = Model.Commands.C_NotifyClient /\ s = a) \/
                          exists m, In m (w_maps w) /\ m_listen m = a /\ m_target m = t)) /\
  (forall x, In x (w_online w) -> ~ In x (w_online (res_world r)) -> x = a) /\
  (forall x, In x (w_online (res_world r)) -> In x (w_online w)) /\
  (forall p, In p (w_bind (res_world r)) -> In p (w_bind w)).
Proof. exact reach_only_notify. Qed.
Print Assumptions C11_reach_only_own_target.

(* ---- histories on one long-lived session/executor ------------------------------------------------------------
   A history interleaves commands with registry events (a connection re-authenticates as another client; a connection
   leaves the registry).  The identity of a connection is a function of the registry state AT THAT TIME. *)

(* identity follows the registry, not the connection's past *)
Theorem C11_identity_follows_registry :
  forall w i c,
  conn_identity (apply_event (EvReauth i c) w) (KConn i) = c /\ conn_identity (apply_event (EvRemove i) w) (KConn i) = 0.
Proof. exact identity_follows_registry. Qed.
Print Assumptions C11_identity_follows_registry.

(* the result of the command dispatched after ANY prefix hs1 is exec against the world the prefix produced *)
Theorem C11_history_dispatch :
  forall tbl w hs1 k cl c hs2,
  let w1 := world_after tbl w hs1 in
  fst (run_history tbl w (hs1 ++ HCmd k cl c :: hs2)) =
  fst (run_history tbl w hs1) ++ exec tbl w1 k cl c :: fst (run_history tbl (res_world (exec tbl w1 k cl c)) hs2).
Proof. exact history_dispatch. Qed.
Print Assumptions C11_history_dispatch.

(* identity_from_connection over histories: forged identity fields anywhere in a history change neither any result nor
   the final world *)
Theorem C11_history_identity_from_connection :
  forall (hs : list hstep) (w : world),
  run_history (current_table ++ [aux_row_current]) w hs = run_history (current_table ++ [aux_row_current]) w (erase_claims hs).
Proof. exact history_claims_irrelevant. Qed.
Print Assumptions C11_history_identity_from_connection.

(* every command of every history (any prefix of commands and identity changes, from a well-formed world) is judged by
   the identity a := the registry's binding of its connection at dispatch: claims irrelevant; a = 0 => inert; objects
   changed / disclosed belong to a; packets reach only a's own targets — whatever the connection was bound to before *)
Theorem C11_history_step_uses_current_identity :
  forall w hs1 k cl c, wf_world w -> history_ok hs1 ->
  let tbl := current_table ++ [aux_row_current] in
  let w1 := world_after tbl w hs1 in let a := conn_identity w1 k in let r := exec tbl w1 k cl c in
  (forall cl', exec tbl w1 k cl' c = r) /\
  (a = 0 -> inert w1 r) /\
  objects_ok a w1 r /\ reach_ok a w1 r /\
  (forall m, In m (w_maps w1) -> ~ In m (w_maps (res_world r)) -> partyP a m) /\
  (forall m, In m (w_maps (res_world r)) -> ~ In m (w_maps w1) -> partyP a m) /\
  (forall i, In i (res_dm r) -> exists m, In m (w_maps (res_world r)) /\ m_id m = i /\ partyP a m).
Proof. exact history_step. Qed.
Print Assumptions C11_history_step_uses_current_identity.

(* the invariant used above is maintained along every history *)
Theorem C11_history_preserves_wf :
  forall tbl, sound_table tbl = true -> forall hs w, history_ok hs -> wf_world w -> wf_world (world_after tbl w hs).
Proof. exact history_preserves_wf. Qed.
Print Assumptions C11_history_preserves_wf.

(* an executor that caches the first identity it resolved for a connection id (a seeded breaking change) is refuted:
   connection #1 lists its domains as client 1, re-authenticates as client 4, and deletes client 1's domain;
   removed from the registry instead, it still notifies client 2 stamped as client 1 *)
Theorem C11_caching_executor_refuted :
  (conn_identity (world_after current_table w_demo [HCmd (KConn 1) 0 (c_demo 87 None None); HEv (EvReauth 1 4)]) (KConn 1) = 4
   /\ w_doms (snd (run_history_memo current_table [] w_demo h_stale)) = []
   /\ w_doms (snd (run_history current_table w_demo h_stale)) = w_doms w_demo
   /\ history_ok h_stale) /\
  (let hs := [HCmd (KConn 1) 0 (c_demo 87 None None); HEv (EvRemove 1); HCmd (KConn 1) 0 (c_demo 102 None (Some 2))] in
   map res_deliv (fst (run_history_memo (current_table ++ [aux_row_current]) [] w_demo hs)) = [[]; [(2, Model.Commands.C_NotifyClient, 1)]]
   /\ map res_deliv (fst (run_history (current_table ++ [aux_row_current]) w_demo hs)) = [[]; []]).
Proof. exact (conj memo_executor_refuted memo_executor_notify_refuted). Qed.
Print Assumptions C11_caching_executor_refuted.

(* ---- overlapping commands -----------------------------------------------------------------------------------
   Execute returns before the handler has finished for one-way commands and for duplex commands that outlive the RPC
   timeout; other commands (of other connections) are dispatched meanwhile.  One thread = one command in flight; atomic
   steps: dispatch (createCommandContext), ALook (the handler / the response path reads its context), AReturn (Execute
   returns).  For ANY number of commands, ANY scripts and ANY interleaving (Base/Threads.v schedules), everything a handler
   ever reads off its context is its own command: the connection it arrived on, the identity the registry held for that
   connection at dispatch, its own body — the context of a handler is immutable after dispatch. *)
Theorem C11_handler_context_immutable_all_interleavings :
  forall (ths : list (ctxval * list action)) (sched : list nat),
  Forall2 (fun p obs => Forall (eq (fst p)) obs) ths (observations (ctx_run false ths sched)).
Proof. exact context_immutable_all_schedules. Qed.
Print Assumptions C11_handler_context_immutable_all_interleavings.

(* in particular with the identity of the Commands model: a command sent on connection #i in world w is handled, for the
   whole run of its handler, as conn_identity w (KConn i) *)
Theorem C11_handler_identity_is_senders :
  forall (w : world) (cmds : list (N * N * list action)) (sched : list nat),
  let ths := map (fun c => let '(i, tag, script) := c in ((i, conn_identity w (KConn i), tag), script)) cmds in
  Forall2 (fun p obs => Forall (eq (fst p)) obs) ths (observations (ctx_run false ths sched)).
Proof. intros w cmds sched. exact (context_immutable_all_schedules _ sched). Qed.
Print Assumptions C11_handler_identity_is_senders.

(* per-command state kept in a field of the shared handler object (a seeded breaking change) is refuted: two commands of
   different clients in flight on one handler, the first one's party check reads the second one's identity.  The positive
   statement is C11_handler_context_immutable_all_interleavings: what a handler reads during its run is what ITS command
   was dispatched with — the model gives a handler no other place to keep per-command state; the correspondence run checks
   that on the real handlers with concurrent pairs (every storage-touching handler x every parking position). *)
Theorem C11_shared_handler_field_refuted :
  observations (ctx_run_shared ths_shared_demo [0; 0; 1; 0]%nat) = [[(3, 3, 0); (1, 1, 1)]; []]
  /\ observations (ctx_run false ths_shared_demo [0; 0; 1; 0]%nat) = [[(3, 3, 0); (3, 3, 0)]; []].
Proof. exact shared_handler_field_refuted. Qed.
Print Assumptions C11_shared_handler_field_refuted.

(* an answer assembled in a buffer shared by all connections (a seeded breaking change in GetClientConfig) is refuted: two
   interleaved ConfigGet commands, client 1's answer contains client 2's items.  Positive side: C11_party_only_mappings (every
   disclosed id is the sender's) for each command, linearizability of pairs in the correspondence run, and the racing-readers
   harness mode (an answer names only objects of its sender). *)
Theorem C11_shared_answer_buffer_refuted :
  map b_answer (snd (buf_run true [(1, 2%nat); (2, 2%nat)] [0; 0; 1; 1; 0; 1; 0; 1]%nat)) = [Some [2; 1; 2]; Some [2; 1; 2]].
Proof. exact shared_answer_buffer_refuted. Qed.
Print Assumptions C11_shared_answer_buffer_refuted.

(* contexts recycled through a pool when Execute returns (a seeded breaking change) are refuted: the handler of client 1's
   one-way command, still running when client 2's command is dispatched, then reads connection 2 / client 2 / the other body *)
Theorem C11_pooled_context_refuted :
  observations (ctx_run true ths_demo sched_demo) = [[(1, 1, 0); (2, 2, 1)]; []]
  /\ observations (ctx_run false ths_demo sched_demo) = [[(1, 1, 0); (1, 1, 0)]; []].
Proof. exact pooled_context_refuted. Qed.
Print Assumptions C11_pooled_context_refuted.

(* ---- pending-request tables keyed by a client-chosen id (DNS resolve / query answers) ---------------------------
   Events of any number of requests interleave freely (register / response / unregister; ids may collide across
   connections).  SAFETY: whatever payload a request receives was sent on the connection THAT request was forwarded to. *)
Theorem C11_answers_only_from_own_responder :
  forall (evs : list pev) (q t : N), In (q, t) (deliveries false evs) ->
  exists id s, In (PReg id q s) evs /\ In (PResp id s t) evs.
Proof. exact answers_only_from_own_responder. Qed.
Print Assumptions C11_answers_only_from_own_responder.

(* the request that owns the entry receives the genuine answer; an answer from any other connection is dropped *)
Theorem C11_genuine_answer_delivered_foreign_dropped :
  (forall evs id q s t, deliveries false (evs ++ [PReg id q s; PResp id s t]) = deliveries false evs ++ [(q, t)]) /\
  (forall evs id q s x t, x <> s -> deliveries false (evs ++ [PReg id q s; PResp id x t]) = deliveries false evs).
Proof. exact (conj genuine_answer_delivered foreign_answer_dropped). Qed.
Print Assumptions C11_genuine_answer_delivered_foreign_dropped.

(* re-using a pending entry for a colliding id (a seeded breaking change) is refuted: the victim (request 1, forwarded to
   connection 4) receives payload 67, which was sent on the accomplice's connection 2 *)
Theorem C11_shared_pending_entry_refuted :
  got true evs_collide 1 = [67] /\ got false evs_collide 1 = [9]
  /\ ~ (exists id s, In (PReg id 1 s) evs_collide /\ In (PResp id s 67) evs_collide).
Proof. exact shared_entry_refuted. Qed.
Print Assumptions C11_shared_pending_entry_refuted.

(* ---- one storage call fails while a command is handled ---------------------------------------------------------
   For EVERY position p of the failing call: the handler fails closed — a command of nobody is inert, objects change / are
   disclosed only for the connection's identity, mappings only for parties, packets reach only its own targets. *)
Theorem C11_fail_closed_every_fault_position :
  forall w k cl c (p : nat),
  let a := conn_identity w k in let r := exec_faulty false (current_table ++ [aux_row_current]) w k cl c p in
  (wf_world w -> a = 0 -> inert w r) /\
  objects_ok a w r /\ reach_ok a w r /\
  (forall m, In m (w_maps w) -> ~ In m (w_maps (res_world r)) -> partyP a m) /\
  (forall m, In m (w_maps (res_world r)) -> ~ In m (w_maps w) -> partyP a m) /\
  (forall i, In i (res_dm r) -> exists m, In m (w_maps (res_world r)) /\ m_id m = i /\ partyP a m).
Proof. exact fail_closed. Qed.
Print Assumptions C11_fail_closed_every_fault_position.

(* MappingDelete that falls through to delete-by-id when its lookup fails (a seeded breaking change) is refuted *)
Theorem C11_fallthrough_delete_refuted :
  conn_identity w_demo (KConn 3) = 3
  /\ w_maps (res_world (exec_faulty true current_table w_demo (KConn 3) 0 (c_demo 76 (Some 0) None) 0)) = tl (w_maps w_demo)
  /\ exec_faulty false current_table w_demo (KConn 3) 0 (c_demo 76 (Some 0) None) 0 = mk false w_demo.
Proof. exact fallthrough_delete_refuted. Qed.
Print Assumptions C11_fallthrough_delete_refuted.

(* ---- two nodes: relays to another node are effects like any other ------------------------------------------------
   In cluster mode (bridge manager, connection state store and cross-node pool configured; w_xnode, w_remote) a SOCKS5
   tunnel request whose target is not connected here is broadcast to the cluster (code 1035: mapping SecretKey + dial
   address), a DNS query whose target lives on another node is sent there as a frame (code 1121).  Relays are part of
   res_deliv, so C11_reach_only_own_target, C11_unauth_refused and C11_history_step_uses_current_identity cover them:
   nothing is relayed on behalf of a sender that is not the listen client of a mapping towards that target. *)

(* the party check precedes every externally visible effect: a program whose emits all come after the check emits
   nothing for a sender that is not entitled; the handlers' step orders have that shape *)
Theorem C11_check_precedes_effects :
  (forall prog, check_first prog = true -> emitted false prog = []) /\
  check_first socks_prog_local = true /\ check_first socks_prog_remote = true /\ check_first dnsquery_prog_remote = true
  /\ emitted true socks_prog_remote = [C_RelayTunnelOpen] /\ emitted true dnsquery_prog_remote = [C_RelayDNSQuery].
Proof. exact (conj check_first_no_effects handler_orders_check_first). Qed.
Print Assumptions C11_check_precedes_effects.

(* relay-before-check (a seeded breaking change) is refuted, as a step order and on the executable model: in the two-node
   world the stranger's and the unknown connection's SOCKS5 requests are relayed to client 2's node *)
Theorem C11_relay_before_check_refuted :
  (check_first socks_prog_remote_relay_first = false /\ emitted false socks_prog_remote_relay_first = [C_RelayTunnelOpen]) /\
  (res_deliv (exec current_table w_cluster (KConn 1) 0 (c_demo 90 (Some 0) None)) = [(2, C_RelayTunnelOpen, 0)]
   /\ res_deliv (exec current_table w_cluster (KConn 1) 0 (c_demo 121 None (Some 2))) = [(2, C_RelayDNSQuery, 0)]
   /\ res_deliv (exec current_table w_cluster (KConn 3) 1 (c_demo 90 (Some 0) None)) = []
   /\ res_deliv (exec current_table w_cluster (KConn 3) 1 (c_demo 121 None (Some 2))) = []
   /\ res_deliv (exec current_table w_cluster KPending 1 (c_demo 90 (Some 0) None)) = []
   /\ res_deliv (exec current_table w_cluster KUnknown 1 (c_demo 90 (Some 1) None)) = []
   /\ res_deliv (socks_relay_first w_cluster (KConn 3) (c_demo 90 (Some 0) None)) = [(2, C_RelayTunnelOpen, 0)]
   /\ res_deliv (socks_relay_first w_cluster KUnknown (c_demo 90 (Some 0) None)) = [(2, C_RelayTunnelOpen, 0)]
   /\ ~ reach_ok 3 w_cluster (socks_relay_first w_cluster (KConn 3) (c_demo 90 (Some 0) None))).
Proof. exact (conj relay_first_order_refuted cluster_relays_only_for_entitled). Qed.
Print Assumptions C11_relay_before_check_refuted.

(* ---- the per-client mapping index may be stale, dangling or incomplete; decisions are taken on the CURRENT store ------
   w_index is an arbitrary list of (client, mapping id) entries (C11_party_only_mappings, C11_reach_only_own_target and the history
   theorems quantify over it): list / config answers are the index re-read from the records and filtered by the record's CURRENT
   parties; reach decisions (explicit and default DNS target) are taken on the current records.  Histories contain store events
   (EvDelMap / EvSetParty / EvSetActive) besides registry events, so C11_history_dispatch and
   C11_history_step_uses_current_identity say: every command is decided on the store and the registry as they are at dispatch. *)

(* mapping #0 handed from client 1 to client 3 after it was indexed: the raw index still names it for client 1, the answers do not *)
Theorem C11_listing_filtered_by_current_parties_raw_index_refuted :
  conn_identity w_stale (KConn 1) = 1
  /\ maplist_raw_index w_stale 1 = [0]
  /\ res_dm (exec current_table w_stale (KConn 1) 0 (c_demo 74 None None)) = []
  /\ res_dm (exec current_table w_stale (KConn 1) 0 (c_demo 50 None None)) = []
  /\ ~ (exists m, In m (w_maps w_stale) /\ m_id m = 0 /\ partyP 1 m).
Proof. exact stale_index_listing. Qed.
Print Assumptions C11_listing_filtered_by_current_parties_raw_index_refuted.

(* the default DNS target as found in the tree (taken from the index without asking who the listen client is now; repaired by
   fixes/C11-dns-default-target-listen-check.diff) is refuted: the former listen client still reaches client 2 *)
Theorem C11_lax_default_target_refuted :
  res_deliv (exec (common_rows ++ lax_dns_rows) w_stale (KConn 1) 0 (c_demo 121 None None)) = [(2, 121, 0)]
  /\ ~ reach_ok 1 w_stale (exec (common_rows ++ lax_dns_rows) w_stale (KConn 1) 0 (c_demo 121 None None))
  /\ res_deliv (exec current_table w_stale (KConn 1) 0 (c_demo 121 None None)) = [].
Proof. exact lax_default_target_refuted. Qed.
Print Assumptions C11_lax_default_target_refuted.

(* a remembered default target (a seeded breaking change) is refuted: after the mapping is deleted the cached decision still names
   client 2, the decision on the current store names nobody; the history on the current table forwards only the first request *)
Theorem C11_cached_decision_refuted :
  let w1 := apply_event (EvDelMap 0) w_demo in
  let cache := snd (dns_default_cached [] w_demo 1) in
  fst (dns_default_cached [] w_demo 1) = 2
  /\ fst (dns_default_cached cache w1 1) = 2
  /\ default_target true 1 (client_mappings w1 1) = 0
  /\ map res_deliv (fst (run_history current_table w_demo
        [HCmd (KConn 1) 0 (c_demo 121 None None); HEv (EvDelMap 0); HCmd (KConn 1) 0 (c_demo 121 None None);
         HEv (EvSetActive 1 false); HCmd (KConn 2) 0 (c_demo 90 (Some 0) None)])) = [[(2, 121, 0)]; []; []].
Proof. exact cached_default_target_refuted. Qed.
Print Assumptions C11_cached_decision_refuted.

(* expiry is not an input of any decision: an expired mapping / domain is an ordinary object of the (arbitrary) world and still
   its owner's; letting anybody reap expired domains (a seeded breaking change) is refuted *)
Theorem C11_reap_expired_refuted :
  w_doms (dom_delete_reaping (fun _ => true) w_demo 3 0) = []
  /\ exec current_table w_demo (KConn 3) 0 (c_demo 86 (Some 0) None) = mk false w_demo.
Proof. exact reap_expired_refuted. Qed.
Print Assumptions C11_reap_expired_refuted.

(* a command's answer is computed for ITS connection: handing the stranger the result computed for the party's command of the
   same type and (sender-chosen) CommandId — a seeded breaking change that coalesces in-flight duplex commands across
   connections — is refuted *)
Theorem C11_coalesced_result_refuted :
  let rA := exec current_table w_demo (KConn 1) 0 (c_demo 75 (Some 0) None) in
  let rB := exec current_table w_demo (KConn 3) 0 (c_demo 75 (Some 0) None) in
  res_dm rA = [0] /\ res_dm rB = [] /\ res_ok rB = false
  /\ ~ (forall i, In i (res_dm rA) -> exists m, In m (w_maps w_demo) /\ m_id m = i /\ partyP 3 m).
Proof. exact coalesced_result_refuted. Qed.
Print Assumptions C11_coalesced_result_refuted.

(* the three properties hold for ANY dispatch table whose rows carry the columns their effect class requires
   (row_sound: identity from the connection, auth gate, party relation) — the table is data, the check is boolean *)
Theorem C11_any_sound_table :
  forall tbl, sound_table tbl = true ->
  (forall w k cl1 cl2 c, exec tbl w k cl1 c = exec tbl w k cl2 c) /\
  (forall w k cl c, wf_world w -> conn_identity w k = 0 -> inert w (exec tbl w k cl c)) /\
  (forall w k cl c, objects_ok (conn_identity w k) w (exec tbl w k cl c)) /\
  (forall w k cl c, reach_ok (conn_identity w k) w (exec tbl w k cl c)).
Proof.
  intros tbl H.
  exact (conj (identity_from_connection_gen tbl (sound_no_packet tbl H))
        (conj (unauth_refused_gen tbl H) (conj (party_only_objects_gen tbl H) (reach_only_gen tbl H)))).
Qed.
Print Assumptions C11_any_sound_table.

(* the table is complete w.r.t. the real stack: all 512 (command byte, packet type) routes regenerated from /repo equal
   the model's, and bytes outside the 19 handled ones do nothing *)
Theorem C11_table_matches_real_dispatch :
  length dispatch_table = 512%nat /\
  forallb (fun e => let '(t, resp, ro) := e in route_of current_table t resp =? ro) dispatch_table = true.
Proof. exact dispatch_table_complete. Qed.
Print Assumptions C11_table_matches_real_dispatch.

Theorem C11_unhandled_bytes_inert :
  forall w k cl c, ~ In (k_type c) [11; 50; 70; 71; 72; 74; 75; 76; 81; 82; 83; 84; 85; 86; 87; 90; 110; 120; 121] ->
  exec current_table w k cl c = mk false w.
Proof. exact unhandled_inert. Qed.
Print Assumptions C11_unhandled_bytes_inert.

(* the statement (1) has content: a table that takes the identity from the packet depends on it *)
Theorem C11_packet_identity_table_refuted :
  exists w k cl1 cl2 c, exec forged_table w k cl1 c <> exec forged_table w k cl2 c.
Proof. exact packet_identity_table_refuted. Qed.
Print Assumptions C11_packet_identity_table_refuted.

(* the code as found (pinned rows; repaired by fixes/C11-*.diff), kept as refuted statements *)
Theorem C11_pinned_traffic_report_refuted :
  exists w k cl c, conn_identity w k = 0 /\ wf_world w /\ res_world (exec pinned_table w k cl c) <> w.
Proof. exact pinned_traffic_refuted. Qed.
Print Assumptions C11_pinned_traffic_report_refuted.

Theorem C11_pinned_dns_forward_refuted :
  (exists w k cl c, conn_identity w k = 0 /\ res_deliv (exec pinned_table w k cl c) <> []) /\
  (exists w k cl c, conn_identity w k = 3 /\ ~ reach_ok 3 w (exec pinned_table w k cl c)).
Proof. exact (conj pinned_dns_refuted pinned_dns_stranger_refuted). Qed.
Print Assumptions C11_pinned_dns_forward_refuted.

Theorem C11_pinned_socks_zero_listen_refuted :
  exists w k cl c, conn_identity w k = 0 /\ res_deliv (exec pinned_table w k cl c) <> [].
Proof. exact pinned_socks_zero_listen_refuted. Qed.
Print Assumptions C11_pinned_socks_zero_listen_refuted.

Theorem C11_pinned_notify_refuted :
  exists w k cl c, conn_identity w k = 0 /\
  res_deliv (exec (pinned_table ++ [aux_row_pinned]) w k cl c) = [(2, Model.Commands.C_NotifyClient, 0)].
Proof. exact pinned_notify_refuted. Qed.
Print Assumptions C11_pinned_notify_refuted.

(* non-vacuity: a concrete world meets the hypotheses; parties get their commands executed, the stranger and the
   unauthenticated get nothing *)
Theorem C11_premises_satisfiable :
  wf_world w_demo /\ sound_table current_table = true
  /\ conn_identity w_demo (KConn 1) = 1 /\ conn_identity w_demo KPending = 0
  /\ w_maps (res_world (exec current_table w_demo (KConn 1) 0 (c_demo 76 (Some 0) None))) = tl (w_maps w_demo)
  /\ map m_sent (w_maps (res_world (exec current_table w_demo (KConn 2) 0 (c_demo 110 (Some 0) None)))) = [1000000; 0]
  /\ res_deliv (exec current_table w_demo (KConn 1) 0 (c_demo 90 (Some 0) None)) = [(2, 35, 0)]
  /\ res_deliv (exec current_table w_demo (KConn 1) 0 (c_demo 120 None (Some 2))) = [(2, 120, 0)]
  /\ res_deliv (exec current_table w_demo (KConn 1) 0 (c_demo 121 None None)) = [(2, 121, 0)]
  /\ exec current_table w_demo (KConn 3) 1 (c_demo 76 (Some 0) None) = mk false w_demo
  /\ exec current_table w_demo (KConn 3) 1 (c_demo 110 (Some 0) None) = mk false w_demo
  /\ exec current_table w_demo (KConn 3) 1 (c_demo 120 None (Some 2)) = mk true w_demo
  /\ exec current_table w_demo KUnknown 1 (c_demo 90 (Some 1) None) = mk false w_demo.
Proof. exact premises_satisfiable. Qed.
Print Assumptions C11_premises_satisfiable.

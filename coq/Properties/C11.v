(* Properties/C11.v — C11: control commands act with the connection's proven identity only.
   Statements only; every proof is a single `exact`.  Model: Model/Commands.v; `current_table` is the server's dispatch
   table (all 256 command bytes x {JsonCommand, CommandResp}; bytes without a row are unhandled) with the four
   fixes/C11-*.diff applied; its routes are re-proved equal to the classification regenerated from the real stack in
   Proofs/SideC11.v.  Worlds (mappings, codes, domains, online clients), connection classes, bodies and packet identity
   fields are arbitrary. *)
From TX Require Import Model.Commands Proofs.Commands Proofs.SideC11 Gen.C11.
From Coq Require Import NArith List.
Import ListNotations.
Open Scope N_scope.

(* identity_from_connection: SenderId / ReceiverId / Token / body client-id fields (the claim) never change the outcome:
   same world, same success flag, same disclosures, same deliveries — for every command byte, packet type, body,
   connection class and world. *)
Theorem C11_identity_from_connection :
  forall (w : world) (k : connkind) (cl1 cl2 : claim) (c : cmd),
  exec current_table w k cl1 c = exec current_table w k cl2 c.
Proof. exact identity_from_connection. Qed.
Print Assumptions C11_identity_from_connection.

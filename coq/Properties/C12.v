(* Properties/C12.v — C12: client-side relays deliver everything and always terminate.
   Statements only; every proof is a single `exact`.  Model: Model/Relay.v, a transcription of
   internal/utils/iocopy/copy.go (UDP: batching writer + bulk de-framing loop; Bidirectional: two copy
   loops + half-close + join).  deframe_cur is the de-framing loop after
   fixes/C12-udp-deframe-spin-on-truncated-record.diff, deframe_pinned the loop of the pinned tree; the
   buffer sizes are the values regenerated from copy.go on every run (Gen/C12.v). *)
From TX Require Import Model.Relay Proofs.Relay Proofs.SideC12 Gen.C12.
Open Scope N_scope.

(* (2) termination at EVERY cut offset: the encoding of any datagram list, ended at any byte offset
   `cut` by EOF (e = 0) or a transport error, delivered under any chunk oracle (with or without the end
   arriving together with the last chunk): with any fuel above the stream length — a linear bound — the loop
   returns (never DFuel), has written exactly the datagrams whose records lie completely before the cut, counted
   their bytes, and reports: the read error, else io.ErrUnexpectedEOF (3) iff the cut is inside a record. *)
Theorem C12_udp_terminates_at_any_cut :
  forall (ds : list dgram) (cut : nat) (cuts : list nat) (e : N) (wd : bool) (fuel : nat),
  Forall (valid_dgram UdpMaxRecord) ds ->
  (length (firstn cut (encode_all ds)) < fuel)%nat ->
  exists w, deframe_cur fuel (ust0 (firstn cut (encode_all ds)) cuts e wd None)
            = DDone w (final_err 0 e (tail_after cut ds)) /\
            w_log w = complete_before cut ds /\ w_bytes w = sum_len (complete_before cut ds).
Proof. exact c12_deframe_any_cut. Qed.
Print Assumptions C12_udp_terminates_at_any_cut.

(* (1) round trip: any sequence of datagram reads (1..65535 bytes; empty reads are dropped by design)
   interleaved with any ticker firings is written to the tunnel as some sequence of writes; whatever the
   chunking of their concatenation on the other side, exactly those datagrams come out, in order,
   boundaries preserved, with no error and matching byte counters. *)
Theorem C12_udp_roundtrip :
  forall (evs : list uev) (cuts : list nat) (wd : bool) (fuel : nat),
  Forall (valid_dgram UdpMaxRecord) (ev_dgrams evs) ->
  (length (concat (e_out (encode_events UdpBatchBufSize evs))) < fuel)%nat ->
  exists w, deframe_cur fuel (ust0 (concat (e_out (encode_events UdpBatchBufSize evs))) cuts 0 wd None) = DDone w 0 /\
            w_log w = ev_dgrams evs /\ w_bytes w = e_sent (encode_events UdpBatchBufSize evs).
Proof. exact c12_udp_roundtrip. Qed.
Print Assumptions C12_udp_roundtrip.

(* the batching writer alone: flush timing (buffer full / half full / ticker / end) only moves write
   boundaries — the tunnel receives the concatenated records, nothing stays buffered *)
Theorem C12_udp_encoder_stream :
  forall evs,
  concat (e_out (encode_events UdpBatchBufSize evs)) = encode_all (ev_dgrams evs) /\
  e_batch (encode_events UdpBatchBufSize evs) = [] /\
  e_sent (encode_events UdpBatchBufSize evs) = sum_len (ev_dgrams evs).
Proof. exact c12_encoder_stream. Qed.
Print Assumptions C12_udp_encoder_stream.

(* termination on ARBITRARY tunnel bytes (hostile / malformed included) *)
Theorem C12_udp_deframe_total :
  forall (s : list byte) (cuts : list nat) (e : N) (wd : bool) (fuel : nat),
  (length s < fuel)%nat ->
  exists w err, deframe_cur fuel (ust0 s cuts e wd None) = DDone w err /\
                w_log w = fst (fst (split_all UdpMaxRecord s)).
Proof. exact c12_deframe_total. Qed.
Print Assumptions C12_udp_deframe_total.

(* the defect of the pinned tree: tunnel bytes 00 05 'a' 'b' then EOF — out of fuel for EVERY fuel *)
Theorem C12_udp_pinned_terminates_refuted :
  forall fuel, deframe_pinned fuel (ust0 [0; 5; 97; 98] [] 0 false None) = DFuel.
Proof. exact c12_pinned_spin. Qed.
Print Assumptions C12_udp_pinned_terminates_refuted.

Theorem C12_udp_fixed_returns_on_witness :
  deframe_cur 5 (ust0 [0; 5; 97; 98] [] 0 false None) = DDone (w0 None) 3.
Proof. exact c12_fixed_returns_on_witness. Qed.
Print Assumptions C12_udp_fixed_returns_on_witness.

(* non-vacuity *)
Theorem C12_premises_satisfiable :
  Forall (valid_dgram UdpMaxRecord) [[97; 98]; [99; 100; 101]; [255]] /\
  complete_before 6 [[97; 98]; [99; 100; 101]; [255]] = [[97; 98]] /\
  tail_after 6 [[97; 98]; [99; 100; 101]; [255]] = [0; 3].
Proof. exact c12_premises_satisfiable. Qed.
Print Assumptions C12_premises_satisfiable.

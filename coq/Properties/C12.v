(* Properties/C12.v — C12: client-side relays deliver everything and always terminate.
   Statements only; every proof is a single `exact`.  Model: Model/Relay.v, a transcription of
   internal/utils/iocopy/copy.go (UDP: batching writer + bulk de-framing loop; Bidirectional: two copy
   loops + half-close + join).  deframe_cur is the de-framing loop after
   fixes/C12-udp-deframe-spin-on-truncated-record.diff, deframe_pinned the loop of the pinned tree; the
   buffer sizes are the values regenerated from copy.go on every run (Gen/C12.v). *)
From TX Require Import Model.Relay Proofs.Relay Proofs.RelayTcp Proofs.SideC12 Gen.C12.
Open Scope N_scope.

(* (2) termination at EVERY cut offset: the encoding of any datagram list, ended at any byte offset
   `cut` by EOF (e = 0) or a transport error, delivered under any chunk oracle (with or without the end
   arriving together with the last chunk): with any fuel above the stream length — a linear bound — the loop
   returns (never DFuel), has written exactly the datagrams whose records lie completely before the cut, counted
   their bytes, and reports: the read error, else io.ErrUnexpectedEOF (3) iff the cut is inside a record. *)
Theorem C12_udp_terminates_at_any_cut :
  forall (bw : option N) (ds : list dgram) (cut : nat) (cuts : list nat) (e : N) (wd : bool) (emp : list bool) (fuel : nat),
  local_path bw ->     (* the local side is written through the fallback loop OR the sendmmsg batch writer *)
  Forall (valid_dgram UdpMaxRecord) ds ->
  (* emp: ANY pattern of empty (0, nil) tunnel reads interleaved with the chunks; each costs one more iteration.
     The result below does not mention emp: empty reads are no-ops *)
  (length (firstn cut (encode_all ds)) + length emp < fuel)%nat ->
  exists w, deframe_on bw fuel (ust0e (firstn cut (encode_all ds)) cuts e wd emp None)
            = DDone w (final_err 0 e (tail_after cut ds)) /\
            w_log w = complete_before cut ds /\ w_bytes w = sum_len (complete_before cut ds).
Proof. exact c12_deframe_any_cut. Qed.
Print Assumptions C12_udp_terminates_at_any_cut.

(* (1) round trip: any sequence of datagram reads (1..65535 bytes; empty reads are dropped by design)
   interleaved with any ticker firings is written to the tunnel as some sequence of writes; whatever the
   chunking of their concatenation on the other side, exactly those datagrams come out, in order,
   boundaries preserved, with no error and matching byte counters. *)
Theorem C12_udp_roundtrip :
  forall (bw : option N) (evs : list uev) (cuts : list nat) (wd : bool) (emp : list bool) (fuel : nat),
  local_path bw ->
  Forall (valid_dgram UdpMaxRecord) (ev_dgrams evs) ->
  (length (concat (e_out (encode_events UdpBatchBufSize evs))) + length emp < fuel)%nat ->
  exists w, deframe_on bw fuel (ust0e (concat (e_out (encode_events UdpBatchBufSize evs))) cuts 0 wd emp None) = DDone w 0 /\
            w_log w = ev_dgrams evs /\ w_bytes w = e_sent (encode_events UdpBatchBufSize evs).
Proof. exact c12_udp_roundtrip. Qed.
Print Assumptions C12_udp_roundtrip.

(* the batching writer alone: flush timing (buffer full / half full / ticker / end) only moves write
   boundaries — the tunnel receives the concatenated records, nothing stays buffered *)
Theorem C12_udp_encoder_stream :
  forall evs,
  concat (e_out (encode_events UdpBatchBufSize evs)) = encode_all (ev_dgrams evs) /\
  e_batch (encode_events UdpBatchBufSize evs) = [] /\
  e_sent (encode_events UdpBatchBufSize evs) = sum_len (ev_dgrams evs).
Proof. exact c12_encoder_stream. Qed.
Print Assumptions C12_udp_encoder_stream.

(* termination on ARBITRARY tunnel bytes (hostile / malformed included) *)
Theorem C12_udp_deframe_total :
  forall (bw : option N) (s : list byte) (cuts : list nat) (e : N) (wd : bool) (emp : list bool) (fuel : nat),
  local_path bw ->
  (length s + length emp < fuel)%nat ->
  exists w err, deframe_on bw fuel (ust0e s cuts e wd emp None) = DDone w err /\
                w_log w = fst (fst (split_all UdpMaxRecord s)).
Proof. exact c12_deframe_total. Qed.
Print Assumptions C12_udp_deframe_total.

(* datagrams are VALUES: from any loop-head state, whatever the loop does afterwards (refill of the re-assembly
   buffer, compaction, later flushes), the datagrams already handed to the local writer stay exactly as they were —
   later steps only append.  ALIASING ASSUMPTION (not provable here, it is about Go slices): the real loop hands the
   writer sub-slices of readBuf that are valid only until flush() returns, so model = code only if the UDP side's
   Write does not retain p after returning (io.Writer contract).  The correspondence run checks exactly that on
   the real mapping.UDPVirtualConn (gated slow socket) and on a real *net.UDPConn. *)
Theorem C12_udp_delivered_datagrams_are_values :
  forall (bw : option N) (fuel : nat) (s : ust) (w : wst) (e : N),
  local_path bw -> s_pend s = [] -> w_fail (s_w s) = None -> deframe_on bw fuel s = DDone w e ->
  exists more, w_log w = w_log (s_w s) ++ more.
Proof. exact c12_values. Qed.
Print Assumptions C12_udp_delivered_datagrams_are_values.

(* what the regenerated side condition (batch <= writer capacity, flush test is >=) excludes: one packet more than
   the sendmmsg writer holds is dropped silently *)
Theorem C12_udp_batch_writer_overflow_drops :
  let pend := map (fun i => [N.of_nat i]) (seq 1 33) in
  uflush_path (Some 32) pend (w0 None) = (false, snd (uflush (firstn 32 pend) (w0 None))) /\
  length (w_log (snd (uflush_path (Some 32) pend (w0 None)))) = 32%nat.
Proof. exact c12_batch_overflow_drops. Qed.
Print Assumptions C12_udp_batch_writer_overflow_drops.

(* non-vacuity of the batch path: 40 datagrams arriving in one tunnel read go through the sendmmsg path intact *)
Theorem C12_udp_batch_path_example :
  let ds := map (fun i => [N.of_nat i; 7]) (seq 1 40) in
  match deframe_on (Some UdpBatchWriterCap) 200 (ust0 (encode_all ds) [] 0 false None) with
  | DDone w e => w_log w = ds /\ e = 0 /\ w_bytes w = 80
  | DFuel => False
  end.
Proof. exact c12_batch_path_example. Qed.
Print Assumptions C12_udp_batch_path_example.

(* the defect of the pinned tree: tunnel bytes 00 05 'a' 'b' then EOF — out of fuel for EVERY fuel *)
Theorem C12_udp_pinned_terminates_refuted :
  forall fuel, deframe_pinned fuel (ust0 [0; 5; 97; 98] [] 0 false None) = DFuel.
Proof. exact c12_pinned_spin. Qed.
Print Assumptions C12_udp_pinned_terminates_refuted.

Theorem C12_udp_fixed_returns_on_witness :
  deframe_cur 5 (ust0 [0; 5; 97; 98] [] 0 false None) = DDone (w0 None) 3.
Proof. exact c12_fixed_returns_on_witness. Qed.
Print Assumptions C12_udp_fixed_returns_on_witness.

(* non-vacuity *)
Theorem C12_premises_satisfiable :
  Forall (valid_dgram UdpMaxRecord) [[97; 98]; [99; 100; 101]; [255]] /\
  complete_before 6 [[97; 98]; [99; 100; 101]; [255]] = [[97; 98]] /\
  tail_after 6 [[97; 98]; [99; 100; 101]; [255]] = [0; 3].
Proof. exact c12_premises_satisfiable. Qed.
Print Assumptions C12_premises_satisfiable.

(* ---- TCP: iocopy.Bidirectional as three threads (A->B copier, B->A copier, main) over Threads.v.
   tcp_run_w cfgA cfgB sA sB cutsA cutsB endA endB wdA wdB empA empB sched = the state after ANY schedule `sched`, where
   endpoint A sends the bytes sA under chunk oracle cutsA and ends with kind endA (0 = EOF, else an error,
   possibly delivered with the last chunk) and interleaves the empty (0, nil) reads empA with its chunks, likewise B
   — the conclusions below do not mention empA / empB: empty reads are no-ops —, both endpoints accept every write, and endpoint X is
   handed to the relay as cfgX : wcfg — a conn with / without CloseWrite, or iocopy.NewReadWriteCloser
   [WithCloseWrite](reader, writer, closeFunc[, closeWriteFunc]) in any configuration (closeWriteFunc set or not,
   wrapped writer with or without CloseWrite, closeFunc set or nil).  tryCloseWrite + the wrapper's
   CloseWrite are modelled by close_write_dispatch, whose result HcClose would be a FULL close. ---- *)

(* the wrapper's half-close dispatch (closeWriteFunc | writer.CloseWrite | no-op) is never a full close *)
Theorem C12_wrapper_half_close_never_closes :
  forall c : wcfg, close_write_dispatch c <> HcClose.
Proof. exact dispatch_never_closes. Qed.
Print Assumptions C12_wrapper_half_close_never_closes.

(* ... and what it is, for the seven configurations the harness builds with the real constructors:
   (CloseWrite calls reaching the endpoint, closeWriteFunc calls, Close calls reaching the endpoint) *)
Theorem C12_wrapper_dispatch_table :
  map (fun k => (ncw (wrap_cfg k), ncwf (wrap_cfg k), ncl (wrap_cfg k))) [0; 1; 2; 3; 4; 5; 6]
  = [(1, 0, 1); (0, 0, 1); (0, 0, 1); (1, 0, 1); (0, 1, 1); (0, 1, 1); (0, 0, 0)].
Proof. exact c12_wrapper_table. Qed.
Print Assumptions C12_wrapper_dispatch_table.

(* delivered_is_prefix: at every point of every schedule, for every pair of endpoint configurations, what has
   been written to B is a prefix of what A sent and vice versa (in order, nothing invented), and no
   Read/Write has hit an endpoint that was already closed by the relay *)
Theorem C12_tcp_delivered_is_prefix :
  forall cfgA cfgB sA sB cutsA cutsB endA endB wdA wdB empA empB sched,
  let s := tcp_run_w cfgA cfgB sA sB cutsA cutsB endA endB wdA wdB empA empB sched in
  (exists x, sA = d_out (sh_d0 (fst s)) ++ x) /\ (exists y, sB = d_out (sh_d1 (fst s)) ++ y) /\
  sh_io_after_close (fst s) = 0.
Proof. exact c12_tcp_prefix. Qed.
Print Assumptions C12_tcp_delivered_is_prefix.

(* complete + returns_after_both_done: under every schedule and every configuration pair, once Bidirectional
   has returned every byte of both directions has been delivered (read errors included: everything read
   before the error is delivered), the byte counters are exact, the half-close reached each endpoint exactly
   as its configuration dispatches (ncw / ncwf) and each endpoint was closed exactly ncl times (once, or
   never when closeFunc is nil) *)
Theorem C12_tcp_complete_when_returned :
  forall cfgA cfgB sA sB cutsA cutsB endA endB wdA wdB empA empB sched,
  let s := tcp_run_w cfgA cfgB sA sB cutsA cutsB endA endB wdA wdB empA empB sched in
  sh_ret (fst s) = true ->
  d_out (sh_d0 (fst s)) = sA /\ d_out (sh_d1 (fst s)) = sB /\
  d_bytes (sh_d0 (fst s)) = lenN sA /\ d_bytes (sh_d1 (fst s)) = lenN sB /\
  (d_cw (sh_d0 (fst s)) = ncw cfgB /\ d_cwf (sh_d0 (fst s)) = ncwf cfgB) /\
  (d_cw (sh_d1 (fst s)) = ncw cfgA /\ d_cwf (sh_d1 (fst s)) = ncwf cfgA) /\
  sh_ncl_a (fst s) = ncl cfgA /\ sh_ncl_b (fst s) = ncl cfgB /\ sh_io_after_close (fst s) = 0.
Proof. exact c12_tcp_complete. Qed.
Print Assumptions C12_tcp_complete_when_returned.

(* reverse_continues_after_half_close, for EACH wrapper configuration: under every schedule, while at least one
   copier has not finished, NEITHER endpoint is closed and NO Close call has reached either endpoint — the
   half-close performed by the direction that finished first did not close the other direction's path — and
   that half-close reached its destination exactly as the destination's configuration dispatches *)
Theorem C12_tcp_half_close_never_closes_reverse_path :
  forall cfgA cfgB sA sB cutsA cutsB endA endB wdA wdB empA empB sched p0 p1 pm,
  let s := tcp_run_w cfgA cfgB sA sB cutsA cutsB endA endB wdA wdB empA empB sched in
  snd s = [(0%nat, p0); (1%nat, p1); (2%nat, pm)] -> (p0 <> PDone \/ p1 <> PDone) ->
  sh_closed_a (fst s) = false /\ sh_closed_b (fst s) = false /\
  sh_ncl_a (fst s) = 0 /\ sh_ncl_b (fst s) = 0 /\
  (p0 = PDone -> d_cw (sh_d0 (fst s)) = ncw cfgB /\ d_cwf (sh_d0 (fst s)) = ncwf cfgB) /\
  (p1 = PDone -> d_cw (sh_d1 (fst s)) = ncw cfgA /\ d_cwf (sh_d1 (fst s)) = ncwf cfgA).
Proof. exact c12_tcp_half_close. Qed.
Print Assumptions C12_tcp_half_close_never_closes_reverse_path.

(* non-vacuity: the client's construction — local conn A with CloseWrite, tunnel B = NewReadWriteCloser(reader,
   writer without CloseWrite, closeFunc) — A reaches EOF and half-closes B first, B answers afterwards (ending
   in an error delivered with its data); the schedule reaches the returned state with everything delivered *)
Theorem C12_tcp_returns_example :
  let s := tcp_run_w (wrap_cfg 0) (wrap_cfg 2) [1; 2; 3] [4; 5] [1%nat; 1%nat] [] 0 1 false true [false; true; true] [true]
             ([0; 0; 0; 0; 0; 0; 0; 0; 2; 1; 2; 1; 1; 1; 1; 2; 2; 2; 2]%nat) in
  sh_ret (fst s) = true /\ d_out (sh_d0 (fst s)) = [1; 2; 3] /\ d_out (sh_d1 (fst s)) = [4; 5] /\
  d_err (sh_d0 (fst s)) = 0 /\ d_err (sh_d1 (fst s)) = 1 /\
  d_cw (sh_d0 (fst s)) = 0 /\ sh_ncl_b (fst s) = 1.
Proof. exact c12_tcp_returns_example. Qed.
Print Assumptions C12_tcp_returns_example.

(* NOT proved (kept type-checked): every schedule that runs each thread often enough reaches the returned
   state.  The correspondence run exercises it (the model must report sh_ret under the generated fair
   schedules, the real code must return before the watchdog). *)
Definition C12_tcp_termination_full_statement : Prop :=
  forall cfgA cfgB sA sB cutsA cutsB endA endB wdA wdB empA empB sched,
  (forall i, (i < 3)%nat -> (length sA + length sB + length empA + length empB + 8 <= count_occ Nat.eq_dec sched i)%nat) ->
  sh_ret (fst (tcp_run_w cfgA cfgB sA sB cutsA cutsB endA endB wdA wdB empA empB
                 (sched ++ concat (repeat [0; 1; 2]%nat (length sA + length sB + length empA + length empB + 8))))) = true.

(* ---- UDP -> tunnel: who owns batchBuf, and when the tunnel is half-closed.  The main loop (thread 0: Lock / read one
   datagram and frame it in place, with the size flushes / Unlock / final flush under the lock / Unlock / close(done) +
   tryCloseWrite(tunnelConn)) and the 20 ms ticker goroutine (thread 1: Lock / take batchBuf[:batchPos] /
   tunnelConn.Write returns / Unlock) over the real in-place buffer and a tunnel that HONOURS its half-close (a Write
   after CloseWrite is refused); own_run late fac ds sched is the state after ANY schedule.  late = fac = false is the
   code. ---- *)

(* under every schedule the bytes the tunnel has consumed are a prefix of the framed datagrams in arrival order, and
   once the main loop is done they are exactly all of them — whatever the ticker does, however long its Write takes *)
Theorem C12_udp_batch_buffer_owned_until_write_returns :
  forall (ds : list dgram) (sched : list nat),
  let s := own_run false false ds sched in
  (exists rest_, encode_all (ev_dgrams (map EvD ds)) = b_out (fst s) ++ rest_) /\
  (forall p1, snd s = [(0%nat, BDone); (1%nat, p1)] -> b_out (fst s) = encode_all (ev_dgrams (map EvD ds))).
Proof. exact c12_own_stream. Qed.
Print Assumptions C12_udp_batch_buffer_owned_until_write_returns.

(* the final flush precedes the half-close: under every schedule no tunnel Write is ever refused, and at the moment
   the tunnel's write side is shut down it has already consumed every datagram *)
Theorem C12_udp_final_flush_precedes_half_close :
  forall (ds : list dgram) (sched : list nat),
  let s := own_run false false ds sched in
  b_werr (fst s) = false /\
  (b_cw (fst s) = true -> b_out (fst s) = encode_all (ev_dgrams (map EvD ds))).
Proof. exact c12_own_flush_before_half_close. Qed.
Print Assumptions C12_udp_final_flush_precedes_half_close.

(* the variant whose final flush runs after the half-close: the last batch is refused *)
Theorem C12_udp_flush_after_close_variant_refuted :
  let s := own_run false true [[65; 65]] [0; 0; 0; 0; 0; 0; 0; 0]%nat in
  snd s = [(0%nat, BDone); (1%nat, BIdle)] /\ b_out (fst s) = [] /\ b_werr (fst s) = true /\
  b_out (fst s) <> encode_all (ev_dgrams (map EvD [[65; 65]])).
Proof. exact c12_own_flush_after_close_refuted. Qed.
Print Assumptions C12_udp_flush_after_close_variant_refuted.

(* the variant whose timed flush unlocks BEFORE its tunnel Write has returned (the slice aliases batchBuf): a schedule
   in which "BB" arrives while the Write of "AA" is stalled — the tunnel receives BB BB *)
Theorem C12_udp_late_write_variant_refuted :
  let s := own_run true false [[65; 65]; [66; 66]] late_sched in
  snd s = [(0%nat, BDone); (1%nat, BIdle)] /\
  b_out (fst s) = [0; 2; 66; 66; 0; 2; 66; 66] /\
  b_out (fst s) <> encode_all (ev_dgrams (map EvD [[65; 65]; [66; 66]])).
Proof. exact c12_own_late_write_refuted. Qed.
Print Assumptions C12_udp_late_write_variant_refuted.

(* non-vacuity: the same arrival pattern on the code as it is *)
Theorem C12_udp_same_schedule_locked_ok :
  let s := own_run false false [[65; 65]; [66; 66]] ([0; 0; 0; 1; 1; 0; 0; 0; 0; 0; 0; 1; 0; 1; 0; 0; 0; 0; 0; 0; 0]%nat) in
  snd s = [(0%nat, BDone); (1%nat, BIdle)] /\ b_out (fst s) = [0; 2; 65; 65; 0; 2; 66; 66] /\
  b_cw (fst s) = true /\ b_werr (fst s) = false.
Proof. exact c12_own_same_schedule_ok. Qed.
Print Assumptions C12_udp_same_schedule_locked_ok.

(* ---- half-close followed by a long silence on the still-open direction ---- *)
(* under every schedule and every endpoint configuration Bidirectional arms NO read deadline on either endpoint: after
   one direction has half-closed, the other may stay silent for any length of time and is still served when it goes
   on (the model's environment lets any armed deadline expire) *)
Theorem C12_tcp_no_deadline_on_the_open_direction :
  forall cfgA cfgB sA sB cutsA cutsB endA endB wdA wdB empA empB sched,
  let s := tcp_run_w cfgA cfgB sA sB cutsA cutsB endA endB wdA wdB empA empB sched in
  sh_dl_a (fst s) = false /\ sh_dl_b (fst s) = false.
Proof. exact c12_tcp_no_deadline. Qed.
Print Assumptions C12_tcp_no_deadline_on_the_open_direction.

(* the variant that arms a drain deadline on the endpoint it has just half-closed: the reply that comes after a silence
   longer than the deadline is lost, ReceiveError is a timeout *)
Theorem C12_tcp_drain_deadline_variant_refuted :
  let s := run tsh (nat * tpc) (tstep CopyBufferSize true)
             (tcp_init (dirwe [71; 69; 84] [] 0 false [] None false cfg_direct) (dirwe [50; 48; 48] [] 0 false [] None false cfg_direct))
             ([0; 0; 0; 0; 1; 1; 1; 2; 2; 2; 2]%nat) in
  sh_ret (fst s) = true /\ d_out (sh_d0 (fst s)) = [71; 69; 84] /\ d_out (sh_d1 (fst s)) = [] /\
  d_err (sh_d1 (fst s)) = 8 /\ sh_dl_b (fst s) = true.
Proof. exact c12_tcp_drain_deadline_refuted. Qed.
Print Assumptions C12_tcp_drain_deadline_variant_refuted.

(* ---- the client's SOCKS5 UDP tunnel endpoint (socks5_tunnel.go udpTunnelConn) ---- *)
(* whatever the transport does to the stream — records coalesced into one read, split anywhere, any carry-over rule of
   the chunk oracle, any end kind — the receive loop returns exactly the datagrams SendPacket framed (empty ones
   included), in order, and then fails *)
Theorem C12_socks_udp_tunnel_roundtrip_any_chunking :
  forall (ds : list dgram) (r : rd),
  Forall (fun d => lenN d < 65536) ds -> rest r = encode_all ds ->
  tc_recv_all (S (length ds)) r = ds.
Proof. exact tc_roundtrip_any_chunking. Qed.
Print Assumptions C12_socks_udp_tunnel_roundtrip_any_chunking.

(* ---- timing-shaped clauses: their logic core ---- *)
(* every firing of the 20 ms ticker flushes whatever is batched — unconditionally, so batched datagrams leave while the
   flow continues (how soon in real time is the ticker's business: harness mode udptrickle) *)
Theorem C12_udp_every_tick_flushes :
  forall e : est,
  e_batch (estep UdpBatchBufSize e EvTick) = [] /\
  concat (e_out (estep UdpBatchBufSize e EvTick)) = concat (e_out e) ++ e_batch e.
Proof. exact c12_tick_flushes. Qed.
Print Assumptions C12_udp_every_tick_flushes.

(* the variant that flushes only after a quiet interval: a steady trickle is never flushed *)
Theorem C12_udp_quiet_interval_tick_variant_refuted :
  let q := fold_left (qstep UdpBatchBufSize) [EvD [1]; EvTick; EvD [2]; EvTick; EvD [3]; EvTick; EvD [4]; EvTick]
                     {| q_e := est0; q_last := 0 |} in
  e_out (q_e q) = [] /\ e_batch (q_e q) = [0; 1; 1; 0; 1; 2; 0; 1; 3; 0; 1; 4].
Proof. exact c12_quiet_tick_refuted. Qed.
Print Assumptions C12_udp_quiet_interval_tick_variant_refuted.

(* the listening client's UDP session (udp_adapter.go): for every history of application datagrams, relay writes and
   cleanup passes in which every cleanup pass comes within the TTL of the most recent datagram IN EITHER DIRECTION, the
   session is never closed and no tunnel->UDP datagram is refused *)
Theorem C12_udp_session_survives_traffic_in_either_direction :
  forall (evs : list sev) (s : sess),
  ss_closed s = false -> live_traffic UdpSessionTTLSeconds (ss_last s) evs ->
  ss_closed (sess_run true UdpSessionTTLSeconds s evs) = false /\
  ss_lost (sess_run true UdpSessionTTLSeconds s evs) = ss_lost s.
Proof. exact c12_session_survives. Qed.
Print Assumptions C12_udp_session_survives_traffic_in_either_direction.

(* the variant whose Write does not refresh the activity stamp: a one-way feed (a datagram every 10 s) meets the
   hypothesis, yet the session is closed and the rest of the feed is refused *)
Theorem C12_udp_session_write_not_refreshing_variant_refuted :
  live_traffic UdpSessionTTLSeconds 0 feed_history /\
  ss_closed (sess_run false UdpSessionTTLSeconds {| ss_last := 0; ss_closed := false; ss_lost := 0 |} feed_history) = true /\
  ss_lost (sess_run false UdpSessionTTLSeconds {| ss_last := 0; ss_closed := false; ss_lost := 0 |} feed_history) = 2.
Proof. exact c12_session_out_only_refuted. Qed.
Print Assumptions C12_udp_session_write_not_refreshing_variant_refuted.

(* ---- the copy-buffer pool: concurrently active copy directions never share a buffer ---- *)
(* PARTIAL: the unbounded statement (every Get/Put history of the code's discipline — each direction puts the buffer it
   holds back once — keeps the held buffers pairwise distinct) is kept type-checked; decided on the real code by harness
   mode poolprobe after relays ending in every way (tunnel write error, local write error, short write, clean). *)
Definition C12_copy_buffer_pool_full_statement : Prop :=
  forall ops : list bpop, NoDup (bp_held (fold_left (bpool_step false) ops bpool0)).

(* the variant that puts a buffer back twice on the write-error path: the next two directions share one buffer *)
Theorem C12_copy_buffer_double_put_variant_refuted :
  bp_held (fold_left (bpool_step true) [BpGet; BpPut 0; BpGet; BpGet]%nat bpool0) = [0; 0]%nat /\
  ~ NoDup (bp_held (fold_left (bpool_step true) [BpGet; BpPut 0; BpGet; BpGet]%nat bpool0)).
Proof. exact c12_double_put_refuted. Qed.
Print Assumptions C12_copy_buffer_double_put_variant_refuted.

Theorem C12_copy_buffer_single_put_example :
  bp_held (fold_left (bpool_step false) [BpGet; BpPut 0; BpGet; BpGet; BpPut 1; BpGet]%nat bpool0) = [1; 0]%nat /\
  NoDup (bp_held (fold_left (bpool_step false) [BpGet; BpPut 0; BpGet; BpGet; BpPut 1; BpGet]%nat bpool0)).
Proof. exact c12_single_put_example. Qed.
Print Assumptions C12_copy_buffer_single_put_example.

(* Properties/C10.v — C10: cross-node frames carry tunnel bytes faithfully and reject bad input.
   Statements only; every proof is a single `exact`.  Model: Model/CrossFrame.v, a transcription of
   internal/protocol/session/crossnode/frame.go and stream.go; MaxFrameSize is the value regenerated from the
   real constant on every run (Gen/C10.v) and enters through the side conditions of Proofs/SideC10.v.
   The transport (a *net.TCPConn) is the chunk oracle of Base/Chunks.v: every statement is `forall c` (chunking).
   Nothing is bounded: frame lists, write scripts, read-buffer size sequences, byte strings are arbitrary. *)
From TX Require Import Model.CrossFrame Proofs.CrossFrame Model.CrossTracker Proofs.CrossTracker Model.CrossEndpoint Proofs.CrossEndpoint Model.Forward Proofs.Forward Proofs.CrossCompose Proofs.SideC10 Gen.C10.
Close Scope N_scope.

(* (1) every list of frames the writers accept decodes to itself under every chunking, then a clean io.EOF *)
Theorem C10_decode_encode_any_chunking :
  forall (fs : list frame) (c : list nat),
  Forall (wf_frame MaxFrameSize) fs ->
  fst (decode_stream MaxFrameSize (encode_all MaxFrameSize fs) c) = (fs, FEof).
Proof. exact (decode_encode_any_chunking MaxFrameSize max_frame_fits_u32). Qed.
Print Assumptions C10_decode_encode_any_chunking.

(* (1') one frame followed by ANY bytes: the decoder returns that frame and stops exactly at its end *)
Theorem C10_decode_one_frame_exact :
  forall (f : frame) (tail : list byte) (c : list nat) (e : N) (k : bool), wf_frame MaxFrameSize f ->
  exists al r', decode_frame MaxFrameSize {| rest := frame_bytes MaxFrameSize f ++ tail; cuts := c; endk := e; carry := k |}
                = (DOk f, al, r') /\ rest r' = tail.
Proof. exact (decode_frame_encode MaxFrameSize max_frame_fits_u32). Qed.
Print Assumptions C10_decode_one_frame_exact.

(* (2) ReadFrameFromReader on ANY reader state (any bytes, any chunk oracle, any way the stream ends):
   it returns a frame or an error (never runs out of fuel = always terminates) and the sizes it passes to
   make([]byte, n) sum to at most header + MaxFrameSize — the length is checked before the payload allocation *)
Theorem C10_decoder_total_alloc_bounded :
  forall r : rd,
  fst (fst (decode_frame MaxFrameSize r)) <> DErr FFuel /\
  (fold_right N.add 0 (snd (fst (decode_frame MaxFrameSize r))) <= HeaderSize + MaxFrameSize)%N.
Proof. exact (decode_frame_total_bounded MaxFrameSize). Qed.
Print Assumptions C10_decoder_total_alloc_bounded.

(* (2') a whole decoding session over any byte string: ends with a real error, every call's allocation bounded,
   and the sequence of results does not depend on how the transport chunks the bytes *)
Theorem C10_decode_session_safe :
  forall (s : list byte) (c : list nat),
  snd (fst (decode_stream MaxFrameSize s c)) <> FFuel /\
  (snd (decode_stream MaxFrameSize s c) <= HeaderSize + MaxFrameSize)%N.
Proof. exact (decode_stream_safe MaxFrameSize). Qed.
Print Assumptions C10_decode_session_safe.

Theorem C10_decoder_chunking_irrelevant :
  forall (s : list byte) (c1 c2 : list nat),
  decode_stream MaxFrameSize s c1 = decode_stream MaxFrameSize s c2.
Proof. exact (decode_chunking_irrelevant MaxFrameSize). Qed.
Print Assumptions C10_decoder_chunking_irrelevant.

(* the reader against ARBITRARY connection bytes: if the bytes consist of frames fs ended by error e (every byte
   string does, uniquely: C10_every_byte_string_parses), then for every chunking c and every sequence of read
   buffer sizes (caps, then dcap for ever), the concatenation of what FrameStream.Read returns and the way the
   read loop ends are exactly what the frame-level specification `deliver` prescribes for this tunnel *)
Theorem C10_reader_refines_frame_spec :
  forall (tid : list byte) (weof : bool) (caps : list nat) (dcap : nat) (s : list byte) (c : list nat)
         (fs : list frame) (e : ferr),
  Parses MaxFrameSize s fs e -> Forall (fun k => 1 <= k) caps -> 1 <= dcap ->
  data_of (fst (fst (read_stream MaxFrameSize tid weof caps dcap s c))) = fst (deliver tid fs e) /\
  last (fst (fst (read_stream MaxFrameSize tid weof caps dcap s c))) RFuel = snd (deliver tid fs e).
Proof. exact (read_stream_spec MaxFrameSize max_frame_fits_u32). Qed.
Print Assumptions C10_reader_refines_frame_spec.

Theorem C10_every_byte_string_parses :
  forall s : list byte, exists fs e, Parses MaxFrameSize s fs e.
Proof. exact (parses_total MaxFrameSize). Qed.
Print Assumptions C10_every_byte_string_parses.

(* (3) stream transparency: for every script of Write (any sizes: 0, 1, ... many frames) / CloseWrite / Close calls,
   every chunking and every sequence of read buffer sizes, the peer reads exactly the bytes of the Writes that were
   accepted, in order and complete, and then end-of-stream (a close frame, or the transport ending) *)
Theorem C10_stream_transparent :
  forall (tid : list byte) (ops : list wop) (weof : bool) (caps : list nat) (dcap : nat) (c : list nat),
  length tid = 16 -> Forall (fun k => 1 <= k) caps -> 1 <= dcap ->
  data_of (fst (fst (read_stream MaxFrameSize tid weof caps dcap
                       (encode_all MaxFrameSize (script_frames MaxFrameSize tid false ops)) c))) = accepted ops /\
  last (fst (fst (read_stream MaxFrameSize tid weof caps dcap
                       (encode_all MaxFrameSize (script_frames MaxFrameSize tid false ops)) c))) RFuel = REof.
Proof. intros tid ops weof caps dcap c. exact (stream_transparent MaxFrameSize max_frame_fits_u32 tid max_frame_pos ops weof caps dcap c). Qed.
Print Assumptions C10_stream_transparent.

(* (3') after CloseWrite / Close the reader reports end-of-stream whatever follows on the connection *)
Theorem C10_end_of_stream_after_close :
  forall (tid : list byte) (ops : list wop) (tail : list byte) (weof : bool) (caps : list nat) (dcap : nat) (c : list nat),
  length tid = 16 -> has_close ops = true -> Forall (fun k => 1 <= k) caps -> 1 <= dcap ->
  data_of (fst (fst (read_stream MaxFrameSize tid weof caps dcap
                       (encode_all MaxFrameSize (script_frames MaxFrameSize tid false ops) ++ tail) c))) = accepted ops /\
  last (fst (fst (read_stream MaxFrameSize tid weof caps dcap
                       (encode_all MaxFrameSize (script_frames MaxFrameSize tid false ops) ++ tail) c))) RFuel = REof.
Proof. intros tid ops tail weof caps dcap c. exact (stream_transparent_then_anything MaxFrameSize max_frame_fits_u32 tid max_frame_pos ops tail weof caps dcap c). Qed.
Print Assumptions C10_end_of_stream_after_close.

(* end-of-stream is sticky; a Write after CloseWrite/Close is refused and puts nothing on the wire *)
Theorem C10_eof_sticky :
  forall tid cap st r, r_eof st = true -> fs_read MaxFrameSize tid cap st r = (REof, st, r).
Proof. exact (eof_sticky MaxFrameSize). Qed.
Print Assumptions C10_eof_sticky.

Theorem C10_write_after_close_refused :
  forall tid p, fs_write MaxFrameSize tid true (WWrite p) = (true, [], WClosedPipe).
Proof. exact (write_after_close_refused MaxFrameSize). Qed.
Print Assumptions C10_write_after_close_refused.

(* (4) frames of other tunnels and frames of unknown types are never delivered: for EVERY interleaving m of the
   frames this tunnel is owed (mine) with any frames that have another wire id or a type Read does not interpret,
   the reader delivers exactly what it would deliver for `mine` alone *)
Theorem C10_foreign_never_delivered :
  forall (tid : list byte) (mine other m : list frame) (weof : bool) (caps : list nat) (dcap : nat) (c : list nat),
  Interleave mine other m ->
  Forall (fun f => relevant tid f = false) other ->
  Forall (wf_frame MaxFrameSize) m ->
  Forall (fun k => 1 <= k) caps -> 1 <= dcap ->
  data_of (fst (fst (read_stream MaxFrameSize tid weof caps dcap (encode_all MaxFrameSize m) c))) = fst (deliver tid mine FEof) /\
  last (fst (fst (read_stream MaxFrameSize tid weof caps dcap (encode_all MaxFrameSize m) c))) RFuel = snd (deliver tid mine FEof).
Proof. exact (foreign_never_delivered MaxFrameSize max_frame_fits_u32). Qed.
Print Assumptions C10_foreign_never_delivered.

Theorem C10_other_tunnel_is_irrelevant :
  forall tid f, f_tid f <> tid -> relevant tid f = false.
Proof. exact relevant_other_tid. Qed.
Print Assumptions C10_other_tunnel_is_irrelevant.

Theorem C10_unknown_type_is_irrelevant :
  forall tid f, f_ty f <> T_Data -> f_ty f <> T_EOF -> f_ty f <> T_Close -> relevant tid f = false.
Proof. exact relevant_unknown_type. Qed.
Print Assumptions C10_unknown_type_is_irrelevant.

(* (5) the statement of (3)+(4) at the level of tunnel-id STRINGS: two FrameStreams created from the strings s1 and
   s2 share a connection, their frames interleave arbitrarily; the reader of s1 must receive exactly what was
   written to s1.  Full statement (for all s1 <> s2): *)
Definition C10_full_statement : Prop :=
  forall (s1 s2 : list byte) (ops1 ops2 : list wop) (m : list frame) (weof : bool) (caps : list nat) (dcap : nat) (c : list nat),
  s1 <> s2 ->
  Interleave (script_frames MaxFrameSize (wire_id s1) false ops1) (script_frames MaxFrameSize (wire_id s2) false ops2) m ->
  Forall (fun k => 1 <= k) caps -> 1 <= dcap ->
  data_of (fst (fst (read_stream MaxFrameSize (wire_id s1) weof caps dcap (encode_all MaxFrameSize m) c))) = accepted ops1 /\
  last (fst (fst (read_stream MaxFrameSize (wire_id s1) weof caps dcap (encode_all MaxFrameSize m) c))) RFuel = REof.

(* It is FALSE of the faithful model of the TRUNCATING tree (pinned; known finding wire-id-truncation): TunnelIDFromString keeps 16 bytes, and the
   ids the client generates ("tcp-tunnel-<UnixNano>-<port>") agree on their first 16 bytes for ~27 hours. *)
Theorem C10_full_statement_refuted : ~ C10_full_statement.
Proof. exact string_level_separation_refuted. Qed.
Print Assumptions C10_full_statement_refuted.

Theorem C10_wire_id_collision_witness :
  id_a <> id_b /\ wire_id id_a = wire_id id_b /\ id_to_string (wire_id id_a) <> id_a.
Proof. exact wire_id_collision. Qed.
Print Assumptions C10_wire_id_collision_witness.

(* The REPAIRED TunnelIDFromString (fixes/C10-wire-id-hash.diff; wire_id_h H: ids of at most 16 bytes verbatim, longer ids
   hashed as a whole by H): the FULL statement holds for all tunnel ids in use, under exactly these hypotheses on H:
   on the ids in use H yields 16 bytes, is injective on the long ones, and never produces the padded form of a short one;
   short ids contain no zero byte (the padding).  MaxFrameSize and its side conditions as before. *)
Theorem C10_full_statement_repaired :
  forall (H : list byte -> list byte) (used : list byte -> Prop),
  (forall s, used s -> 16 < length s -> length (H s) = 16) ->
  (forall s1 s2, used s1 -> used s2 -> 16 < length s1 -> 16 < length s2 -> H s1 = H s2 -> s1 = s2) ->
  (forall s1 s2, used s1 -> used s2 -> 16 < length s1 -> length s2 <= 16 -> H s1 <> wire_id s2) ->
  (forall s, used s -> length s <= 16 -> Forall (fun b => b <> 0%N) s) ->
  forall (s1 s2 : list byte) (ops1 ops2 : list wop) (m : list frame) (weof : bool) (caps : list nat) (dcap : nat) (c : list nat),
  used s1 -> used s2 -> s1 <> s2 ->
  Interleave (script_frames MaxFrameSize (wire_id_h H s1) false ops1) (script_frames MaxFrameSize (wire_id_h H s2) false ops2) m ->
  Forall (fun k => 1 <= k) caps -> 1 <= dcap ->
  data_of (fst (fst (read_stream MaxFrameSize (wire_id_h H s1) weof caps dcap (encode_all MaxFrameSize m) c))) = accepted ops1 /\
  last (fst (fst (read_stream MaxFrameSize (wire_id_h H s1) weof caps dcap (encode_all MaxFrameSize m) c))) RFuel = REof.
Proof. intros H used Hl Hi Hs Hn. exact (tunnels_separated_hashed H used Hl Hi Hs Hn MaxFrameSize max_frame_fits_u32 max_frame_pos). Qed.
Print Assumptions C10_full_statement_repaired.

(* non-vacuity: a toy hash meets the four hypotheses on a set of ids containing the two ids that collide under truncation
   and a short id, and separates them *)
Theorem C10_repaired_premises_satisfiable :
  (forall s, toy_used s -> 16 < length s -> length (toy_hash s) = 16) /\
  (forall s1 s2, toy_used s1 -> toy_used s2 -> 16 < length s1 -> 16 < length s2 -> toy_hash s1 = toy_hash s2 -> s1 = s2) /\
  (forall s1 s2, toy_used s1 -> toy_used s2 -> 16 < length s1 -> length s2 <= 16 -> toy_hash s1 <> wire_id s2) /\
  (forall s, toy_used s -> length s <= 16 -> Forall (fun b => b <> 0%N) s) /\
  toy_used id_a /\ toy_used id_b /\ id_a <> id_b /\ wire_id id_a = wire_id id_b /\ wire_id_h toy_hash id_a <> wire_id_h toy_hash id_b.
Proof. exact hashed_premises_satisfiable. Qed.
Print Assumptions C10_repaired_premises_satisfiable.

(* What holds: the same statement under the guard that excludes exactly that region — the two strings have
   different wire ids (first 16 bytes, zero padded). *)
Theorem C10_tunnel_strings_separated_partial :
  forall (s1 s2 : list byte) (ops1 ops2 : list wop) (m : list frame) (weof : bool) (caps : list nat) (dcap : nat) (c : list nat),
  wire_id s1 <> wire_id s2 ->
  Interleave (script_frames MaxFrameSize (wire_id s1) false ops1) (script_frames MaxFrameSize (wire_id s2) false ops2) m ->
  Forall (fun k => 1 <= k) caps -> 1 <= dcap ->
  data_of (fst (fst (read_stream MaxFrameSize (wire_id s1) weof caps dcap (encode_all MaxFrameSize m) c))) = accepted ops1 /\
  last (fst (fst (read_stream MaxFrameSize (wire_id s1) weof caps dcap (encode_all MaxFrameSize m) c))) RFuel = REof.
Proof. exact (tunnels_separated MaxFrameSize max_frame_fits_u32 max_frame_pos). Qed.
Print Assumptions C10_tunnel_strings_separated_partial.

(* non-vacuity: a concrete connection (a write larger than a frame, an empty write, a half-close, a write after
   it, a foreign tunnel's data and close frames, an unknown-type frame of this tunnel) meets the hypotheses of (4),
   and the model computes the expected reads on it *)
Theorem C10_premises_satisfiable :
  length ex_mine = 5 /\ Interleave ex_mine ex_foreign ex_conn /\
  Forall (fun f => relevant ex_tid f = false) ex_foreign /\ Forall (wf_frame 4) ex_conn /\
  deliver ex_tid ex_mine FEof = ([1;2;3;4;5;6;7;8;9;10;11]%N, REof) /\
  fst (fst (read_stream 4 ex_tid false [3;1] 4 (encode_all 4 ex_conn) [5;1;30])) =
    [RData [1;2;3]; RData [4]; RData [5;6;7;8]; RData [9;10]; RData [11]; REof]%N.
Proof. exact premises_satisfiable. Qed.
Print Assumptions C10_premises_satisfiable.

(* ------------------------------------------------------------------------------------------------------------
   The bidirectional forwarder (runBidirectionalForward): two copy loops, one per direction, each with ITS OWN
   buffer, interleaved at the granularity of one Read / one Write call by an ARBITRARY schedule (Base/Threads.v;
   token 0 = a step of the upload loop, 1 = of the download loop, anything else = some other goroutine).
   Sources are arbitrary lists of chunks (what each Read returns), initial buffer contents are arbitrary. *)

(* NON-INTERFERENCE: after any schedule, what a direction has delivered equals what its loop delivers running alone for
   as many steps as the schedule gave it — a function of its own source only *)
Theorem C10_forward_directions_independent :
  forall (bu bd : list byte) (up down : list (list byte)) (sched : list nat),
  sink_up (frun false (finit bu bd up down) sched)
    = d_snk (snd (Nat.iter (count_occ Nat.eq_dec sched 0) solo (PRead, dinit bu up false))) /\
  sink_down (frun false (finit bu bd up down) sched)
    = d_snk (snd (Nat.iter (count_occ Nat.eq_dec sched 1) solo (PRead, dinit bd down false))).
Proof. exact directions_independent. Qed.
Print Assumptions C10_forward_directions_independent.

Theorem C10_forward_upload_ignores_download :
  forall eu ed ed' bu bd bd' up down down' sched,
  sink_up (frun false (finit_e eu ed bu bd up down) sched) = sink_up (frun false (finit_e eu ed' bu bd' up down') sched).
Proof. exact upload_ignores_download. Qed.
Print Assumptions C10_forward_upload_ignores_download.

Theorem C10_forward_download_ignores_upload :
  forall eu eu' ed bu bu' bd up up' down sched,
  sink_down (frun false (finit_e eu ed bu bd up down) sched) = sink_down (frun false (finit_e eu' ed bu' bd up' down) sched).
Proof. exact download_ignores_upload. Qed.
Print Assumptions C10_forward_download_ignores_upload.

(* both directions at once: at every moment each has delivered a prefix of ITS source, unchanged and in order, and all
   of it once its loop has ended *)
Theorem C10_forward_conserves :
  forall bu bd up down sched,
  let s := frun false (finit bu bd up down) sched in
  (exists rest, sink_up s ++ rest = concat up) /\ (exists rest, sink_down s ++ rest = concat down) /\
  (phase_of 0 s = PDone -> sink_up s = concat up) /\ (phase_of 1 s = PDone -> sink_down s = concat down).
Proof. exact forward_conserves. Qed.
Print Assumptions C10_forward_conserves.

(* completeness: once a direction has been given two steps per chunk plus the EOF read — interleaved in any way with
   the other direction — it has ended and delivered everything *)
Theorem C10_forward_completes :
  forall bu bd up down sched,
  (2 * length up + 1 <= count_occ Nat.eq_dec sched 0 ->
     phase_of 0 (frun false (finit bu bd up down) sched) = PDone /\ sink_up (frun false (finit bu bd up down) sched) = concat up) /\
  (2 * length down + 1 <= count_occ Nat.eq_dec sched 1 ->
     phase_of 1 (frun false (finit bu bd up down) sched) = PDone /\ sink_down (frun false (finit bu bd up down) sched) = concat down).
Proof. exact forward_completes. Qed.
Print Assumptions C10_forward_completes.

(* the variant with ONE buffer shared by both loops (io.CopyBuffer with a common copyBuf) violates both: schedule
   upload-Read, download-Read, upload-Write delivers the download's bytes upstream *)
Theorem C10_forward_shared_buffer_refuted :
  exists up down down' sched,
    sink_up (frun true (finit [] [] up down) sched) <> sink_up (frun true (finit [] [] up down') sched) /\
    ~ (exists rest, sink_up (frun true (finit [] [] up down) sched) ++ rest = concat up).
Proof. exact shared_buffer_refuted. Qed.
Print Assumptions C10_forward_shared_buffer_refuted.

Theorem C10_forward_example :
  let s := frun false (finit [9;9]%N [] [[1;2;3]; [4]]%N [[7;8]]%N) [0; 1; 0; 0; 1; 7; 1; 0; 0] in
  sink_up s = [1;2;3;4]%N /\ sink_down s = [7;8]%N /\ phase_of 0 s = PDone /\ phase_of 1 s = PDone.
Proof. exact forward_example. Qed.
Print Assumptions C10_forward_example.

(* ------------------------------------------------------------------------------------------------------------
   End of stream together with the last bytes, and the traffic counters.  finit_e eu ed: the upload / download source
   returns its LAST chunk together with io.EOF (legal io.Reader behaviour) instead of a bare (0, io.EOF) afterwards.
   sent_counter / recv_counter: what the CountingReadWriter around LocalConn has counted (n of every Read / Write). *)

(* for both flag values, every chunk list and every schedule: prefixes, completeness, and the counters agree with bytes *)
Theorem C10_forward_conserves_any_eof :
  forall eu ed bu bd up down sched,
  let s := frun false (finit_e eu ed bu bd up down) sched in
  (exists rest, sink_up s ++ rest = concat up) /\ (exists rest, sink_down s ++ rest = concat down) /\
  (phase_of 0 s = PDone -> sink_up s = concat up /\ sent_counter s = length (concat up)) /\
  (phase_of 1 s = PDone -> sink_down s = concat down) /\
  recv_counter s = length (sink_down s) /\ length (sink_up s) <= sent_counter s.
Proof. exact forward_conserves_e. Qed.
Print Assumptions C10_forward_conserves_any_eof.

Theorem C10_forward_completes_any_eof :
  forall eu ed bu bd up down sched,
  (2 * length up + 1 <= count_occ Nat.eq_dec sched 0 ->
     phase_of 0 (frun false (finit_e eu ed bu bd up down) sched) = PDone /\
     sink_up (frun false (finit_e eu ed bu bd up down) sched) = concat up /\
     sent_counter (frun false (finit_e eu ed bu bd up down) sched) = length (concat up)) /\
  (2 * length down + 1 <= count_occ Nat.eq_dec sched 1 ->
     phase_of 1 (frun false (finit_e eu ed bu bd up down) sched) = PDone /\
     sink_down (frun false (finit_e eu ed bu bd up down) sched) = concat down /\
     recv_counter (frun false (finit_e eu ed bu bd up down) sched) = length (concat down)).
Proof. exact forward_completes_e. Qed.
Print Assumptions C10_forward_completes_any_eof.

(* the local source as a byte string behind ANY chunk oracle r of Base/Chunks.v (any cut list, carry mode, end kind), read
   with any positive buffer size, the last chunk carrying io.EOF or not: delivered = the bytes, counted = their number *)
Theorem C10_forward_upload_any_chunking_any_eof :
  forall (cap : N) (r : rd) (eofl ed : bool) bu bd down sched,
  (0 < cap)%N ->
  2 * length (rest r) + 1 <= count_occ Nat.eq_dec sched 0 ->
  sink_up (frun false (finit_e eofl ed bu bd (oracle_chunks (length (rest r)) cap r) down) sched) = rest r /\
  sent_counter (frun false (finit_e eofl ed bu bd (oracle_chunks (length (rest r)) cap r) down) sched) = length (rest r).
Proof. exact upload_delivers_any_chunking_any_eof. Qed.
Print Assumptions C10_forward_upload_any_chunking_any_eof.

(* the delivered stream is independent of the cut list and of whether the final chunk carries io.EOF *)
Theorem C10_forward_eof_flag_irrelevant :
  forall (cap : N) (r r' : rd) (eofl eofl' ed ed' : bool) bu bu' bd bd' down down' sched sched',
  (0 < cap)%N -> rest r = rest r' ->
  2 * length (rest r) + 1 <= count_occ Nat.eq_dec sched 0 -> 2 * length (rest r) + 1 <= count_occ Nat.eq_dec sched' 0 ->
  sink_up (frun false (finit_e eofl ed bu bd (oracle_chunks (length (rest r)) cap r) down) sched) =
  sink_up (frun false (finit_e eofl' ed' bu' bd' (oracle_chunks (length (rest r')) cap r') down') sched').
Proof. exact eof_flag_irrelevant. Qed.
Print Assumptions C10_forward_eof_flag_irrelevant.

(* a reader wrapper that drops the bytes arriving together with io.EOF breaks exactly this (witness) *)
Theorem C10_forward_dropping_last_chunk_refuted :
  exists up sched, sink_up (frun false (finit_e true false [] [] (removelast up) []) sched) <> concat up /\
                   2 * length up + 1 <= count_occ Nat.eq_dec sched 0.
Proof. exact dropping_last_chunk_refuted. Qed.
Print Assumptions C10_forward_dropping_last_chunk_refuted.

Theorem C10_forward_eof_example :
  let s := frun false (finit_e true true [] [] [[1;2;3]; [4]]%N [[7;8]]%N) [0; 1; 0; 0; 1; 0] in
  sink_up s = [1;2;3;4]%N /\ sink_down s = [7;8]%N /\ phase_of 0 s = PDone /\ phase_of 1 s = PDone /\
  sent_counter s = 4 /\ recv_counter s = 2.
Proof. exact forward_eof_example. Qed.
Print Assumptions C10_forward_eof_example.

(* ------------------------------------------------------------------------------------------------------------
   Order of half-closes: the two directions END independently.  If at any point of any schedule the download direction
   has ended (the peer half-closed first), the upload direction still delivers everything its source hands out, and the
   download sink keeps exactly what it had; symmetrically for the other order. *)
Theorem C10_forward_upload_survives_download_end :
  forall eu ed bu bd up down sched1 sched2,
  phase_of 1 (frun false (finit_e eu ed bu bd up down) sched1) = PDone ->
  2 * length up + 1 <= count_occ Nat.eq_dec sched1 0 + count_occ Nat.eq_dec sched2 0 ->
  phase_of 0 (frun false (finit_e eu ed bu bd up down) (sched1 ++ sched2)) = PDone /\
  sink_up (frun false (finit_e eu ed bu bd up down) (sched1 ++ sched2)) = concat up /\
  sink_down (frun false (finit_e eu ed bu bd up down) (sched1 ++ sched2)) = concat down.
Proof. exact upload_survives_download_end. Qed.
Print Assumptions C10_forward_upload_survives_download_end.

Theorem C10_forward_download_survives_upload_end :
  forall eu ed bu bd up down sched1 sched2,
  phase_of 0 (frun false (finit_e eu ed bu bd up down) sched1) = PDone ->
  2 * length down + 1 <= count_occ Nat.eq_dec sched1 1 + count_occ Nat.eq_dec sched2 1 ->
  phase_of 1 (frun false (finit_e eu ed bu bd up down) (sched1 ++ sched2)) = PDone /\
  sink_down (frun false (finit_e eu ed bu bd up down) (sched1 ++ sched2)) = concat down.
Proof. exact download_survives_upload_end. Qed.
Print Assumptions C10_forward_download_survives_upload_end.

(* the variant that CLOSES the local connection when the download direction ends (fallback for a LocalConn without
   CloseWrite; Model/Forward.v fstep_close) violates it *)
Theorem C10_forward_close_on_download_end_refuted :
  exists up down sched1 sched2,
    phase_of 1 (frun_close (finit [] [] up down) sched1) = PDone /\
    2 * length up + 1 <= count_occ Nat.eq_dec sched2 0 /\
    sink_up (frun_close (finit [] [] up down) (sched1 ++ sched2)) <> concat up.
Proof. exact close_on_download_end_refuted. Qed.
Print Assumptions C10_forward_close_on_download_end_refuted.

(* ------------------------------------------------------------------------------------------------------------
   ReadFrameFromReader itself, one call: the result (frame or error), the allocation trace and the bytes left for the next
   call depend only on the bytes — for ALL chunk oracles (any cut lists, 1-byte reads, cuts inside the payload, carry
   mode, any way the stream ends) *)
Theorem C10_decode_any_chunking :
  forall (r1 r2 : rd), rest r1 = rest r2 ->
  fst (decode_frame MaxFrameSize r1) = fst (decode_frame MaxFrameSize r2) /\
  rest (snd (decode_frame MaxFrameSize r1)) = rest (snd (decode_frame MaxFrameSize r2)).
Proof. exact (decode_frame_any_chunking MaxFrameSize). Qed.
Print Assumptions C10_decode_any_chunking.

(* ------------------------------------------------------------------------------------------------------------
   Streams created WITH a TunnelStateTracker (Model/CrossTracker.v): the tracker is an oracle — at every Read it may report
   any set of tunnel ids as closed, the stream's own included (cls: one set per Read, then dcl for ever).  It is consulted
   only for frames whose wire id differs from the stream's, so it never changes what is delivered: read_stream_t equals
   read_stream, and every theorem above (transparency, end-of-stream, foreign frames) holds for tracked streams. *)
Theorem C10_tracker_irrelevant :
  forall tid weof caps dcap cls dcl s c,
  read_stream_t MaxFrameSize false tid weof caps dcap cls dcl s c = read_stream MaxFrameSize tid weof caps dcap s c.
Proof. exact (tracker_irrelevant MaxFrameSize). Qed.
Print Assumptions C10_tracker_irrelevant.

Theorem C10_tracker_state_irrelevant :
  forall tid weof caps dcap cls dcl cls' dcl' s c,
  read_stream_t MaxFrameSize false tid weof caps dcap cls dcl s c = read_stream_t MaxFrameSize false tid weof caps dcap cls' dcl' s c.
Proof. exact (tracker_state_irrelevant MaxFrameSize). Qed.
Print Assumptions C10_tracker_state_irrelevant.

(* the variant that applies the closed-tunnel check BEFORE the tunnel-id filter is refuted: own tunnel "abc" reported closed
   while its frames are still unread, and the bytes written before close are lost *)
Theorem C10_tracker_check_before_filter_refuted :
  exists tid ops cl,
    data_of (fst (fst (read_stream_t 65536 true tid false [] 64 [] cl
                         (encode_all 65536 (script_frames 65536 tid false ops)) []))) <> accepted ops.
Proof. exact check_before_filter_refuted. Qed.
Print Assumptions C10_tracker_check_before_filter_refuted.

(* ------------------------------------------------------------------------------------------------------------
   "any write sizes, including writes larger than one frame": every frame ANY script of Write/CloseWrite/Close calls hands
   to WriteFrame is one the encoder accepts (16-byte id, payload <= MaxFrameSize) — a Write is never refused for its size,
   it is segmented *)
Theorem C10_write_frames_within_limit :
  forall (tid : list byte) (ops : list wop) (w : bool), length tid = 16 ->
  Forall (wf_frame MaxFrameSize) (script_frames MaxFrameSize tid w ops).
Proof. intros tid ops w Ht. exact (script_frames_wf MaxFrameSize max_frame_fits_u32 tid max_frame_pos Ht ops w). Qed.
Print Assumptions C10_write_frames_within_limit.

(* end to end, the upload path of a forwarded tunnel: the bytes `rest r` a local connection hands out under ANY chunk
   oracle r, read with any positive buffer size, each chunk written to the FrameStream, then the half-close: the peer's
   FrameStream reads exactly those bytes and then end-of-stream, for every transport chunking and read-buffer sizes *)
Theorem C10_end_to_end_upload :
  forall (cap : N) (r : rd) tid weof caps dcap c,
  (0 < cap)%N -> length tid = 16 -> Forall (fun k => 1 <= k) caps -> 1 <= dcap ->
  data_of (fst (fst (read_stream MaxFrameSize tid weof caps dcap
     (encode_all MaxFrameSize (script_frames MaxFrameSize tid false (map WWrite (oracle_chunks (length (rest r)) cap r) ++ [WCloseWrite]))) c))) = rest r /\
  last (fst (fst (read_stream MaxFrameSize tid weof caps dcap
     (encode_all MaxFrameSize (script_frames MaxFrameSize tid false (map WWrite (oracle_chunks (length (rest r)) cap r) ++ [WCloseWrite]))) c))) RFuel = REof.
Proof. exact (end_to_end_upload MaxFrameSize max_frame_fits_u32 max_frame_pos). Qed.
Print Assumptions C10_end_to_end_upload.

Theorem C10_end_to_end_example :
  let r := {| rest := [1;2;3;4;5;6;7]%N; cuts := [2;1;9]; endk := 0%N; carry := false |} in
  oracle_chunks 7 3 r = [[1;2]; [3]; [4;5;6]; [7]]%N /\
  fst (fst (read_stream 4 (wire_id [97]%N) false [2] 5
              (encode_all 4 (script_frames 4 (wire_id [97]%N) false (map WWrite (oracle_chunks 7 3 r) ++ [WCloseWrite]))) [1;30]))
  = [RData [1;2]; RData [3]; RData [4;5;6]; RData [7]; REof]%N.
Proof. exact end_to_end_example. Qed.
Print Assumptions C10_end_to_end_example.

(* ------------------------------------------------------------------------------------------------------------
   ONE FrameStream as a whole (Model/CrossEndpoint.v): a script mixes Reads — of whatever the peer has sent: data, its
   HALF-close, its close, garbage (`incoming`: any reader state) — with Write / CloseWrite / Close.  What the stream puts on
   the wire is that of its write-side calls alone: *)
Theorem C10_frames_ignore_reads :
  forall tid (ops : list eop) (s : ep),
  ep_frames MaxFrameSize false tid s ops = script_frames MaxFrameSize tid (e_weof s) (wops ops).
Proof. exact (ep_frames_ignore_reads MaxFrameSize). Qed.
Print Assumptions C10_frames_ignore_reads.

(* ... so Close / CloseWrite always delivers end-of-stream unless the WRITE side had ended before: for every such script that
   contains a close, the peer reads exactly the accepted Writes and then end-of-stream, and that end is a FRAME on the wire
   (anything may follow on the connection, which may equally stay open and silent) *)
Theorem C10_close_always_ends_the_stream :
  forall tid (ops : list eop) (incoming : rd) (tail : list byte) weof caps dcap c,
  length tid = 16 -> has_close (wops ops) = true -> Forall (fun k => 1 <= k) caps -> 1 <= dcap ->
  data_of (fst (fst (read_stream MaxFrameSize tid weof caps dcap
            (encode_all MaxFrameSize (ep_frames MaxFrameSize false tid (ep_init incoming) ops) ++ tail) c))) = accepted (wops ops) /\
  last (fst (fst (read_stream MaxFrameSize tid weof caps dcap
            (encode_all MaxFrameSize (ep_frames MaxFrameSize false tid (ep_init incoming) ops) ++ tail) c))) RFuel = REof /\
  existsb (is_end_frame tid) (ep_frames MaxFrameSize false tid (ep_init incoming) ops) = true.
Proof. exact (close_always_ends_the_stream MaxFrameSize max_frame_fits_u32 max_frame_pos). Qed.
Print Assumptions C10_close_always_ends_the_stream.

(* the variant "Close sends nothing once readEOF is set": the peer half-closes, we read that, answer and Close — the answer goes
   out and no end-of-stream marker ever follows *)
Theorem C10_skip_close_on_read_eof_refuted :
  exists tid incoming ops,
    has_close (wops ops) = true /\
    existsb (is_end_frame tid) (ep_frames 65536 true tid (ep_init incoming) ops) = false /\
    ep_frames 65536 true tid (ep_init incoming) ops <> script_frames 65536 tid false (wops ops).
Proof. exact skip_close_on_read_eof_refuted. Qed.
Print Assumptions C10_skip_close_on_read_eof_refuted.

Theorem C10_endpoint_example :
  let tid := wire_id [97;98;99]%N in
  let incoming := mkrd (encode_all 65536 [{| f_tid := tid; f_ty := T_Data; f_data := [9]%N |}; {| f_tid := tid; f_ty := T_EOF; f_data := [] |}]) [] in
  map f_ty (ep_frames 65536 false tid (ep_init incoming) [ERead 64; ERead 64; EWrite [1;2;3]%N; ERead 1; EClose; EWrite [4]%N])
  = [T_Data; T_Close].
Proof. exact endpoint_example. Qed.
Print Assumptions C10_endpoint_example.

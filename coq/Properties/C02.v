(* Properties/C02.v — C02: a tunnel is a transparent, ordered, loss-free byte pipe between its ends.
   Statements only; every proof is a single `exact`.  Model: Model/Pipe.v with current_variant = Sliced (the code
   repaired by fixes/C02-limiter-wait-in-burst-slices.diff); BatchUpdateThreshold, ContextCheckInterval,
   CopyBufferSize and the limiter table are the values regenerated from /repo on every run (Gen/C02.v).
   Quantification: every read script (chunks, temporary timeouts, EOF/errors, empty reads), every write oracle
   (short writes, errors), every limiter setting, and — for the bridge — every schedule of the two directions
   (one step = one Read+limiter wait, one Write, or the deferred closeBridge).
   External behaviour assumed (hypotheses written into the model, see Model/Pipe.v): x/time/rate's WaitN fails iff
   n > burst or the context is cancelled and otherwise only delays; a Write returns 0 <= n <= len. *)
From TX Require Import Model.Pipe Model.PipeClose Model.PipeLocks Proofs.PipeLocks Proofs.PipeKinds Proofs.Pipe Proofs.PipeTop Proofs.PipeBridge Proofs.PipeLife Proofs.PipeClose Proofs.PipeReattach Proofs.PipeIndep Proofs.PipeAttach Proofs.SideC02 Gen.C02.

(* ---------------- one direction in isolation: Bridge.CopyWithControl ---------------- *)

(* (1) delivered_is_prefix: whatever the scripts, the limiter and a cancellation do, the bytes accepted by the
   destination are a prefix of the bytes the source handed out (in order, no duplication, nothing invented), and
   if the loop ended because the source ended, the prefix is the whole stream *)
Theorem C02_copy_delivered_is_prefix :
  forall lim cancelled rs ws,
  let r := copy_loop current_variant BatchUpdateThreshold ContextCheckInterval lim cancelled rs ws cst0 in
  exists rest, readable rs = c_out (snd r) ++ rest /\ (fst r = XReadEnd -> rest = []).
Proof. exact (copy_delivered_is_prefix current_variant BatchUpdateThreshold ContextCheckInterval). Qed.
Print Assumptions C02_copy_delivered_is_prefix.

(* (2) complete_if_no_early_close: with no limiter or any limiter NewBridge can install (burst > 0), writes that
   accept a whole buffer, reads no larger than the buffer and no cancellation, EVERYTHING is delivered and the
   loop ends only by the source's end of stream *)
Theorem C02_copy_complete_if_no_early_close :
  forall lim rs ws, lim_wf lim ->
  Forall (wr_full CopyBufferSize) ws -> Forall (fun r => lenN (r_data r) <= CopyBufferSize)%N rs ->
  let r := copy_loop current_variant BatchUpdateThreshold ContextCheckInterval lim false rs ws cst0 in
  fst r = XReadEnd /\ c_out (snd r) = readable rs.
Proof.
  intros lim rs ws Hl.
  exact (copy_complete current_variant BatchUpdateThreshold ContextCheckInterval lim CopyBufferSize rs ws (current_limiter_never_fails lim Hl)).
Qed.
Print Assumptions C02_copy_complete_if_no_early_close.

(* (3) counter_exact: when the loop returns, the byte counter, the returned total and the number of bytes the
   destination accepted coincide and no batch remainder is left behind — for streams of any length (batching at
   BatchUpdateThreshold loses nothing) *)
Theorem C02_copy_counter_exact :
  forall lim cancelled rs ws,
  let r := copy_loop current_variant BatchUpdateThreshold ContextCheckInterval lim cancelled rs ws cst0 in
  a_counter (c_acct (snd r)) = lenN (c_out (snd r)) /\
  a_total (c_acct (snd r)) = lenN (c_out (snd r)) /\
  a_batch (c_acct (snd r)) = 0%N.
Proof. exact (copy_counter_exact current_variant BatchUpdateThreshold ContextCheckInterval). Qed.
Print Assumptions C02_copy_counter_exact.

(* the repaired limiter wait: the WaitN calls made for a read of n bytes are all within the burst and add up to n,
   so no read size is ever refused *)
Theorem C02_limiter_slices_cover_exactly :
  forall burst n, (0 < burst)%N ->
  Forall (fun k => 0 < k <= burst)%N (wait_slices current_variant burst n) /\
  fold_right N.add 0%N (wait_slices current_variant burst n) = n.
Proof. exact sliced_slices_spec. Qed.
Print Assumptions C02_limiter_slices_cover_exactly.

(* ---------------- the bridge: both directions + closeOnce, every schedule ---------------- *)

(* (1) delivered_is_prefix, both directions at the same time *)
Theorem C02_bridge_delivered_is_prefix :
  forall lim rs0 ws0 rs1 ws1 (sched : list nat),
  let s := bridge_run current_variant BatchUpdateThreshold lim rs0 ws0 rs1 ws1 sched in
  prefix (s_out0 (fst s)) (readable rs0) /\ prefix (s_out1 (fst s)) (readable rs1).
Proof. exact (bridge_delivered_is_prefix current_variant BatchUpdateThreshold). Qed.
Print Assumptions C02_bridge_delivered_is_prefix.

(* (2) complete_if_no_early_close: if nothing is scripted to fail, then under every schedule a direction that has
   ended either reached its own end of stream having delivered everything, or was cut by the bridge's closure;
   and the bridge closes only after some direction reached its own end of stream, completely delivered *)
Theorem C02_bridge_complete_if_no_early_close :
  forall lim rs0 ws0 rs1 ws1 (sched : list nat), lim_wf lim ->
  Forall (wr_full CopyBufferSize) ws0 -> Forall (wr_full CopyBufferSize) ws1 ->
  Forall (fun r => lenN (r_data r) <= CopyBufferSize)%N rs0 -> Forall (fun r => lenN (r_data r) <= CopyBufferSize)%N rs1 ->
  let s := bridge_run current_variant BatchUpdateThreshold lim rs0 ws0 rs1 ws1 sched in
  (forall t x, In t (snd s) -> (b_pc t = BFinish x \/ b_pc t = BDone x) ->
     (x = XReadEnd /\ sh_out (b_dir t) (fst s) = all_of rs0 rs1 (b_dir t)) \/
     (closed_kind x = true /\ s_closed (fst s) = true)) /\
  (s_closed (fst s) = true ->
     exists t, In t (snd s) /\ b_pc t = BDone XReadEnd /\ sh_out (b_dir t) (fst s) = all_of rs0 rs1 (b_dir t)).
Proof.
  intros lim rs0 ws0 rs1 ws1 sched Hl.
  exact (bridge_complete_if_no_early_close current_variant BatchUpdateThreshold lim rs0 ws0 rs1 ws1 CopyBufferSize sched (current_limiter_never_fails lim Hl)).
Qed.
Print Assumptions C02_bridge_complete_if_no_early_close.

(* (3) counter_exact for GetBytesSent / GetBytesReceived: at every moment counter + pending batch = bytes delivered,
   the pending batch is below the threshold, and a direction that has ended has counter = bytes delivered *)
Theorem C02_bridge_counter_exact :
  forall lim rs0 ws0 rs1 ws1 (sched : list nat),
  let s := bridge_run current_variant BatchUpdateThreshold lim rs0 ws0 rs1 ws1 sched in
  forall t, In t (snd s) ->
    let o := sh_out (b_dir t) (fst s) in
    (a_counter (b_acct t) + a_batch (b_acct t) = lenN o)%N /\
    ((0 < BatchUpdateThreshold)%N -> (a_batch (b_acct t) < BatchUpdateThreshold)%N) /\
    (forall x, (b_pc t = BFinish x \/ b_pc t = BDone x) -> a_counter (b_acct t) = lenN o /\ a_batch (b_acct t) = 0%N).
Proof. exact (bridge_counter_exact current_variant BatchUpdateThreshold). Qed.
Print Assumptions C02_bridge_counter_exact.

(* closeOnce: Close runs at most once, has run as soon as a direction is done, and was run by a direction whose own
   loop had ended (never "because the bridge was already closed") *)
Theorem C02_bridge_close_once :
  forall lim rs0 ws0 rs1 ws1 (sched : list nat),
  let s := bridge_run current_variant BatchUpdateThreshold lim rs0 ws0 rs1 ws1 sched in
  (s_closes (fst s) <= 1)%nat /\
  (s_closed (fst s) = true <-> s_closes (fst s) = 1%nat) /\
  (forall t x, In t (snd s) -> b_pc t = BDone x -> s_closed (fst s) = true) /\
  (forall t x, In t (snd s) -> (b_pc t = BFinish x \/ b_pc t = BDone x) -> closed_kind x = true -> s_closed (fst s) = true) /\
  (s_closed (fst s) = true -> exists t x, In t (snd s) /\ b_pc t = BDone x /\ closed_kind x = false).
Proof. exact (bridge_close_once current_variant BatchUpdateThreshold). Qed.
Print Assumptions C02_bridge_close_once.

(* closure is reached in finitely many steps: a direction scheduled 2*|its script|+3 times is done, whatever the other
   direction and the ends do (the wall-clock bound itself is a runtime fact, see C02_full_statement) *)
Theorem C02_bridge_terminates_partial :
  forall lim rs0 ws0 rs1 ws1 (sched : list nat) i, (i < 2)%nat ->
  (2 * length (if Nat.eqb i 0 then rs0 else rs1) + 3 <= count_occ Nat.eq_dec sched i)%nat ->
  exists t x, nth_error (snd (bridge_run current_variant BatchUpdateThreshold lim rs0 ws0 rs1 ws1 sched)) i = Some t /\
              b_pc t = BDone x.
Proof.
  intros lim rs0 ws0 rs1 ws1 sched.
  exact (bridge_terminates current_variant BatchUpdateThreshold lim rs0 ws0 rs1 ws1 sched).
Qed.
Print Assumptions C02_bridge_terminates_partial.

(* the clause of the property that is a wall-clock fact and is NOT proved: "the other end observes closure within
   bounded time".  Kept as a type-checked statement over an abstract clock; the harness checks it with a watchdog. *)
Definition C02_full_statement : Prop :=
  forall (wall : list nat -> nat)      (* wall-clock time the real runtime needs to execute a schedule *)
         lim rs0 ws0 rs1 ws1,
  exists bound, forall sched : list nat,
    let s := bridge_run current_variant BatchUpdateThreshold lim rs0 ws0 rs1 ws1 sched in
    (exists t x, In t (snd s) /\ (b_pc t = BFinish x \/ b_pc t = BDone x)) ->     (* one end closed or failed ... *)
    (forall t, In t (snd s) -> exists x, b_pc t = BDone x) /\ wall sched <= bound.  (* ... the other observes it in time *)

(* ---------------- the order of actions inside Bridge.Close (Model/PipeClose.v) ---------------- *)

(* closure of both ends does not depend on the completion — or even the start — of any clean handler: with the code's
   order (connections first, ManagerBase.Close() last) two steps of the thread that runs Close make both ends observe
   closure, for EVERY schedule of that thread with the stats backend (whose answer to the final traffic report may come
   arbitrarily late or never) and for every patience of the cleanup *)
Theorem C02_closure_independent_of_clean_handlers :
  forall (patience : option nat) (sched : list nat),
  2 <= count_occ Nat.eq_dec sched 0 ->
  x_src_closed (fst (close_run ConnsFirst patience sched)) = true /\
  x_tgt_closed (fst (close_run ConnsFirst patience sched)) = true.
Proof. exact closure_independent_of_handlers. Qed.
Print Assumptions C02_closure_independent_of_clean_handlers.

(* Close returns (so Start returns and runBridgeLifecycle removes the tunnel: C02_registry_forgets) after k+4 steps of
   its caller even if the backend never answers — for the cleanup that bounds its wait for the report
   (fixes/C02-cleanup-report-bounded.diff; k = the number of polls its 5 s allow) *)
Theorem C02_close_returns_with_bounded_cleanup :
  forall (k : nat) (sched : list nat),
  k + 4 <= count_occ Nat.eq_dec sched 0 ->
  closer_pc (close_run ConnsFirst (Some k) sched) = Some CDone.
Proof. exact close_returns_with_bounded_cleanup. Qed.
Print Assumptions C02_close_returns_with_bounded_cleanup.

(* refuted: with ManagerBase.Close() moved to the front of Close, a silent backend keeps BOTH ends open however long the
   closing thread runs *)
Theorem C02_handlers_first_never_closes_refuted :
  forall n, x_src_closed (fst (close_run HandlersFirst None (repeat 0 n))) = false /\
            x_tgt_closed (fst (close_run HandlersFirst None (repeat 0 n))) = false.
Proof. exact handlers_first_never_closes_refuted. Qed.
Print Assumptions C02_handlers_first_never_closes_refuted.

(* refuted: with the unbounded cleanup a silent backend keeps Close from ever returning (the tunnel stays in the map
   although both ends are closed) *)
Theorem C02_unbounded_cleanup_never_returns_refuted :
  forall n, closer_pc (close_run ConnsFirst None (repeat 0 n)) <> Some CDone.
Proof. exact unbounded_cleanup_never_returns_refuted. Qed.
Print Assumptions C02_unbounded_cleanup_never_returns_refuted.

(* non-vacuity: the backend answers in the middle of the closer's wait; the report completes and Close returns *)
Theorem C02_close_order_run_exists :
  let s := close_run ConnsFirst (Some 3) [0; 0; 0; 0; 0; 1; 0] in
  fst s = {| x_src_closed := true; x_tgt_closed := true; x_cancelled := true; x_released := true; x_reported := true |}
  /\ closer_pc s = Some CDone.
Proof. exact close_nonvacuous. Qed.
Print Assumptions C02_close_order_run_exists.

(* ---------------- source re-attach on a live bridge (SetSourceConnection, dynamicSourceWriter) ---------------- *)

(* for every target-side read script, source-side write oracle, number of re-attaches and schedule of the copy loop with
   the re-attaches: the bytes accepted by the source ends, read end after end in the order the ends were attached, are a
   prefix of what the target end sent — in order, exactly once across all ends *)
Theorem C02_reattach_stream_is_prefix :
  forall rs ws n (sched : list nat),
  prefix (concat (fst (reattach_run rs ws n sched))) (readable rs).
Proof. exact reattach_stream_is_prefix. Qed.
Print Assumptions C02_reattach_stream_is_prefix.

(* after a re-attach every later target->source byte is delivered to the new end: every end that existed before the
   SetSourceConnection step keeps exactly what it had, forever; what is delivered afterwards (to the new end first)
   continues the target's stream exactly where it stood *)
Theorem C02_reattach_later_bytes_go_to_new_end :
  forall rs ws n (s1 : list nat) k (s2 : list nat),
  nth_error (snd (reattach_run rs ws n s1)) 1 = Some (QAttach (S k)) ->
  exists rest, rest <> [] /\
    fst (reattach_run rs ws n (s1 ++ 1%nat :: s2)) = fst (reattach_run rs ws n s1) ++ rest /\
    prefix (concat (fst (reattach_run rs ws n s1)) ++ concat rest) (readable rs).
Proof. exact reattach_later_bytes_go_to_new_end. Qed.
Print Assumptions C02_reattach_later_bytes_go_to_new_end.

(* at every moment: only the current end can still change *)
Theorem C02_reattach_old_ends_frozen :
  forall rs ws n (s1 s2 : list nat),
  exists rest, rest <> [] /\
    fst (reattach_run rs ws n (s1 ++ s2)) = removelast (fst (reattach_run rs ws n s1)) ++ rest.
Proof. exact reattach_old_ends_frozen. Qed.
Print Assumptions C02_reattach_old_ends_frozen.

(* non-vacuity: a run whose re-attach happens between two writes *)
Theorem C02_reattach_run_exists :
  let rs := [{| r_data := [1;2]%N; r_end := RNone |}; {| r_data := [3]%N; r_end := RNone |}; {| r_data := [4;5]%N; r_end := RFatal |}] in
  let s := reattach_run rs [] 1 [0;0;0;1;0;0;0]%nat in
  nth_error (snd (reattach_run rs [] 1 [0;0;0]%nat)) 1 = Some (QAttach 1) /\
  fst s = [[1;2]; [3;4;5]]%N.
Proof. exact reattach_nonvacuous. Qed.
Print Assumptions C02_reattach_run_exists.

(* ---------------- the two directions are independent; closure propagates on close AND on failure ---------------- *)

(* direction independence: for every schedule, as long as the bridge is open, the thread of direction i and the stream it
   has delivered are exactly those of a run in which direction i takes the same number of steps ALONE, against ANY other
   input of the opposite direction (other script, other oracle, never scheduled = parked in its read for ever).  "In both
   directions at the same time, for any timing": what one end receives never waits for what the other end sends. *)
Theorem C02_directions_independent :
  forall lim rs0 ws0 rs1 ws1 rs0' ws0' rs1' ws1' (sched : list nat) i, (i < 2)%nat ->
  (i = 0%nat -> rs0' = rs0 /\ ws0' = ws0) -> (i = 1%nat -> rs1' = rs1 /\ ws1' = ws1) ->
  let s := bridge_run current_variant BatchUpdateThreshold lim rs0 ws0 rs1 ws1 sched in
  let s' := bridge_run current_variant BatchUpdateThreshold lim rs0' ws0' rs1' ws1' (repeat i (count_occ Nat.eq_dec sched i)) in
  s_closed (fst s) = false ->
  nth_error (snd s) i = nth_error (snd s') i /\ sh_out (Nat.eqb i 1) (fst s) = sh_out (Nat.eqb i 1) (fst s').
Proof. exact (directions_independent current_variant BatchUpdateThreshold). Qed.
Print Assumptions C02_directions_independent.

(* refuted: if a Write to an end waits while the opposite direction is parked in its Read of that end (adapter Write under the
   mutex Read holds across ReadAvailable), "server speaks first" is never delivered: the source end stays silent (direction 0
   never gets a step), direction 1 runs for any number n of steps, and the source end still has nothing *)
Theorem C02_coupled_directions_never_deliver_refuted :
  forall n, s_out1 (fst (coupled_run Sliced 1048576 None [{| r_data := [1]%N; r_end := RNone |}] []
                                      [{| r_data := [104; 105]%N; r_end := RNone |}] [] (repeat 1%nat n))) = [].
Proof. exact coupled_never_delivers_refuted. Qed.
Print Assumptions C02_coupled_directions_never_deliver_refuted.

(* the same input in the model of the code: delivered after two steps of direction 1 *)
Theorem C02_independent_directions_deliver :
  s_out1 (fst (bridge_run Sliced 1048576 None [{| r_data := [1]%N; r_end := RNone |}] []
                                   [{| r_data := [104; 105]%N; r_end := RNone |}] [] [1; 1]%nat)) = [104; 105]%N.
Proof. exact independent_delivers_witness. Qed.
Print Assumptions C02_independent_directions_deliver.

(* closure propagation, for closes and for failures alike: the bridge is closed as soon as ANY direction has ended, whatever
   the reason (C02_bridge_close_once: EOF, read error, write error, short write — a Read that fails is RFatal exactly like
   EOF); from then on a direction that gets two more steps is done, i.e. its end has observed the closure *)
Theorem C02_closure_propagates_on_close_or_failure :
  forall lim rs0 ws0 rs1 ws1 (sched1 sched2 : list nat) j, (j < 2)%nat ->
  s_closed (fst (bridge_run current_variant BatchUpdateThreshold lim rs0 ws0 rs1 ws1 sched1)) = true ->
  2 <= count_occ Nat.eq_dec sched2 j ->
  exists t x, nth_error (snd (bridge_run current_variant BatchUpdateThreshold lim rs0 ws0 rs1 ws1 (sched1 ++ sched2))) j = Some t /\
              b_pc t = BDone x.
Proof. exact (closure_propagates current_variant BatchUpdateThreshold). Qed.
Print Assumptions C02_closure_propagates_on_close_or_failure.

(* the half-close relay iocopy.Bidirectional (Model/PipeClose.v hstep): whether end A's stream ends with EOF or with an
   error, after n+2 steps of direction A->B the listening peer of B has seen the end of the stream, under every schedule *)
Theorem C02_relay_peer_sees_end_on_close_or_failure :
  forall n (kind : endkind) (sched : list nat),
  n + 2 <= count_occ Nat.eq_dec sched 0 ->
  h_peerB_sees_end (fst (relay_run HalfCloseAlways n kind sched)) = true.
Proof. exact relay_peer_sees_end_on_close_or_failure. Qed.
Print Assumptions C02_relay_peer_sees_end_on_close_or_failure.

(* refuted: half-closing only after a clean EOF — when end A fails, under EVERY schedule the listening peer never sees the
   end and direction B->A stays parked (Bidirectional never returns) *)
Theorem C02_relay_eof_only_policy_refuted :
  forall n (sched : list nat),
  h_peerB_sees_end (fst (relay_run HalfCloseOnEofOnly n EndErr sched)) = false /\
  nth_error (snd (relay_run HalfCloseOnEofOnly n EndErr sched)) 1 = Some HListen.
Proof. exact relay_eof_only_policy_refuted. Qed.
Print Assumptions C02_relay_eof_only_policy_refuted.

(* non-vacuity: end A fails after two chunks, B's peer reacts to the half-close, the relay returns *)
Theorem C02_relay_returns_after_failure :
  relay_returned (relay_run HalfCloseAlways 2 EndErr [0; 1; 0; 0; 0; 1; 1]) = true.
Proof. exact relay_returns_after_failure. Qed.
Print Assumptions C02_relay_returns_after_failure.

(* ---------------- every kind of read failure; lock order; one direction's end never truncates the other ---------------- *)

(* closure quantified over the error kind: whatever (Timeout, Temporary) pair an end's Read fails with, unless it is BOTH a
   timeout and temporary (the only retried kind: retry_table, re-proved against the real loop in Proofs/SideC02.v), once that
   direction has had 2|script|+3 steps the bridge is closed — both ends closed, under every schedule — and nothing scripted
   after the failure is delivered.  Together with C02_closure_propagates_on_close_or_failure the other end is done two steps later. *)
Theorem C02_every_failure_kind_closes_source_side :
  forall lim tmo tmp, tmo && tmp = false ->
  forall pre data post ws0 rs1 ws1 (sched : list nat),
  let rs0 := pre ++ {| r_data := data; r_end := rkind_of_error tmo tmp |} :: post in
  2 * length rs0 + 3 <= count_occ Nat.eq_dec sched 0 ->
  let s := bridge_run current_variant BatchUpdateThreshold lim rs0 ws0 rs1 ws1 sched in
  s_closed (fst s) = true /\ prefix (s_out0 (fst s)) (readable (pre ++ [{| r_data := data; r_end := RFatal |}])).
Proof. exact (failure_kind_closes_0 current_variant BatchUpdateThreshold). Qed.
Print Assumptions C02_every_failure_kind_closes_source_side.

Theorem C02_every_failure_kind_closes_target_side :
  forall lim tmo tmp, tmo && tmp = false ->
  forall pre data post rs0 ws0 ws1 (sched : list nat),
  let rs1 := pre ++ {| r_data := data; r_end := rkind_of_error tmo tmp |} :: post in
  2 * length rs1 + 3 <= count_occ Nat.eq_dec sched 1 ->
  let s := bridge_run current_variant BatchUpdateThreshold lim rs0 ws0 rs1 ws1 sched in
  s_closed (fst s) = true /\ prefix (s_out1 (fst s)) (readable (pre ++ [{| r_data := data; r_end := RFatal |}])).
Proof. exact (failure_kind_closes_1 current_variant BatchUpdateThreshold). Qed.
Print Assumptions C02_every_failure_kind_closes_target_side.

(* the probed retry decision of the real loop IS the model's, and only temporary errors are retried *)
Theorem C02_retry_decision_matches_code :
  forallb (fun row => let '(tmo, tmp, retried) := row in implb retried tmp) retry_table = true /\
  forallb (fun row => let '(tmo, tmp, retried) := row in
                      Bool.eqb retried (match rkind_of_error tmo tmp with RTimeout => true | _ => false end)) retry_table = true.
Proof. exact (conj retry_table_only_temporary (proj1 (proj2 retry_table_is_model))). Qed.
Print Assumptions C02_retry_decision_matches_code.

(* lock order: the acquire/release paths of Bridge.Close, SetSourceConnection, SetTargetConnection and dynamicSourceWriter.Write
   are read from the syntax tree on every run (the lock_path definitions of Gen/C02.v); none acquires a mutex while holding one, so for ANY mix of
   any number of such calls and every schedule, no reachable state is a deadlock *)
Theorem C02_bridge_locks_never_deadlock :
  forall (mix : list (list lock_op)) (sched : list nat),
  (forall p, In p mix -> In p bridge_lock_paths) -> ~ deadlock (lk_run mix sched).
Proof. exact bridge_lock_paths_never_deadlock. Qed.
Print Assumptions C02_bridge_locks_never_deadlock.

(* the general fact behind it: single-hold paths never deadlock, any number of threads *)
Theorem C02_single_hold_paths_never_deadlock :
  forall paths (sched : list nat), forallb single_hold paths = true -> ~ deadlock (lk_run paths sched).
Proof. exact no_deadlock_single_hold. Qed.
Print Assumptions C02_single_hold_paths_never_deadlock.

(* refuted: Close holding sourceConnMu across its tunnelConnMu section while SetSourceConnection takes sourceConnMu inside
   tunnelConnMu — after one step of each, the state is a deadlock and every continuation leaves it unchanged *)
Theorem C02_inverted_lock_order_deadlocks_refuted :
  deadlock (lk_run [close_inverted; setsource_inverted] [0; 1]) /\
  forall sched, lk_run [close_inverted; setsource_inverted] ([0; 1] ++ sched) = lk_run [close_inverted; setsource_inverted] [0; 1].
Proof. exact inverted_lock_order_deadlocks_refuted. Qed.
Print Assumptions C02_inverted_lock_order_deadlocks_refuted.

(* one direction's end never truncates the other (relay over a transport without half-close): for every schedule in which
   the response direction gets its m+1 steps, all m chunks are delivered, un-truncated, and the stream was never closed —
   wherever the request direction's EOF and its half-close attempt fall *)
Theorem C02_early_end_never_truncates_other_direction :
  forall n m (sched : list nat), m + 1 <= count_occ Nat.eq_dec sched 1 ->
  t_delivered (fst (reqresp_run NoopOnNoCap n m sched)) = m /\
  nth_error (snd (reqresp_run NoopOnNoCap n m sched)) 1 = Some (TRespDone false) /\
  t_stream_closed (fst (reqresp_run NoopOnNoCap n m sched)) = false.
Proof. exact response_never_truncated. Qed.
Print Assumptions C02_early_end_never_truncates_other_direction.

(* refuted: a half-close that falls back to a full close cuts the response short *)
Theorem C02_close_on_half_close_truncates_refuted :
  exists sched, t_delivered (fst (reqresp_run CloseOnNoCap 1 3 sched)) < 3 /\
                nth_error (snd (reqresp_run CloseOnNoCap 1 3 sched)) 1 = Some (TRespDone true).
Proof. exact close_on_half_close_truncates_refuted. Qed.
Print Assumptions C02_close_on_half_close_truncates_refuted.

(* ---------------- interleavings with the target attach; Start returns ---------------- *)

(* "all interleavings of the two copy directions with target-attach": the attach event (index 2) may fall anywhere among the steps
   of the two directions; the resulting state is exactly that of the attached bridge run on the steps that follow the attach, so
   every theorem about bridge_run in this file holds for every such interleaving (steps before the attach move nothing) *)
Theorem C02_attach_anywhere :
  forall lim rs0 ws0 rs1 ws1 (sched : list nat),
  snd (attach_run current_variant BatchUpdateThreshold lim rs0 ws0 rs1 ws1 sched) =
  bridge_run current_variant BatchUpdateThreshold lim rs0 ws0 rs1 ws1 (if existsb (Nat.eqb 2) sched then after_attach sched else []).
Proof. exact (attach_anywhere current_variant BatchUpdateThreshold). Qed.
Print Assumptions C02_attach_anywhere.

Theorem C02_attach_anywhere_delivered_is_prefix :
  forall lim rs0 ws0 rs1 ws1 (sched : list nat),
  prefix (s_out0 (fst (snd (attach_run current_variant BatchUpdateThreshold lim rs0 ws0 rs1 ws1 sched)))) (readable rs0) /\
  prefix (s_out1 (fst (snd (attach_run current_variant BatchUpdateThreshold lim rs0 ws0 rs1 ws1 sched)))) (readable rs1).
Proof. exact (attach_anywhere_prefix current_variant BatchUpdateThreshold). Qed.
Print Assumptions C02_attach_anywhere_delivered_is_prefix.

(* Bridge.Start returns (both directions done = wg.Wait passes, bridge closed) once each direction has been scheduled
   2|script|+3 times, under every schedule; runBridgeLifecycle then deletes the tunnel (C02_registry_forgets, where the
   running time of a bridge is an arbitrary finite number of ticks) *)
Theorem C02_start_returns :
  forall lim rs0 ws0 rs1 ws1 (sched : list nat),
  2 * length rs0 + 3 <= count_occ Nat.eq_dec sched 0 ->
  2 * length rs1 + 3 <= count_occ Nat.eq_dec sched 1 ->
  exists t0 t1 x0 x1, snd (bridge_run current_variant BatchUpdateThreshold lim rs0 ws0 rs1 ws1 sched) = [t0; t1] /\
                      b_pc t0 = BDone x0 /\ b_pc t1 = BDone x1 /\
                      s_closed (fst (bridge_run current_variant BatchUpdateThreshold lim rs0 ws0 rs1 ws1 sched)) = true.
Proof. exact (start_returns current_variant BatchUpdateThreshold). Qed.
Print Assumptions C02_start_returns.

(* non-vacuity: an attach in the middle of a schedule *)
Theorem C02_attach_run_exists :
  let rs0 := [{| r_data := [1;2]%N; r_end := RFatal |}] in
  let rs1 := [{| r_data := [9]%N; r_end := RNone |}] in
  let s := attach_run Sliced 1048576%N None rs0 [] rs1 [] [0;1;0;2;1;1;0;0;0] in
  fst s = true /\ s_out0 (fst (snd s)) = [1;2]%N /\ s_out1 (fst (snd s)) = [9]%N /\ s_closed (fst (snd s)) = true.
Proof. exact attach_nonvacuous. Qed.
Print Assumptions C02_attach_run_exists.

(* ---------------- parent-context cancellation; elapsed time ---------------- *)

(* histories of Close() calls and cancellations of the PARENT context (the bridge context is its child): whatever came before —
   any number of parent cancellations and earlier Close calls, in any order — once Close is called the connections are closed,
   and they stay closed under every continuation.  So "either end closes or fails -> closeBridge -> Close" closes the other end
   also while the server is shutting down. *)
Theorem C02_close_runs_its_sequence_after_parent_cancel :
  forall h1 h2 : list cevent, ch_conns_closed (ch_run CloseAlways (h1 ++ EvClose :: h2)) = true.
Proof. exact close_runs_its_sequence. Qed.
Print Assumptions C02_close_runs_its_sequence_after_parent_cancel.

(* what HEAD does on a parent cancellation alone: nothing is closed (dispose runs no clean-up on cancellation; the copy loops
   poll the context only every ContextCheckInterval iterations): the owner still has to call Close *)
Theorem C02_parent_cancel_alone_closes_nothing :
  forall n, ch_conns_closed (ch_run CloseAlways (repeat EvParentCancel n)) = false.
Proof. exact parent_cancel_alone_closes_nothing. Qed.
Print Assumptions C02_parent_cancel_alone_closes_nothing.

(* refuted: "context already cancelled => the close sequence has run" — after a parent cancellation no history of Close calls
   ever closes the connections *)
Theorem C02_skip_close_when_ctx_done_refuted :
  forall h : list cevent, ch_conns_closed (ch_run SkipWhenCtxDone (EvParentCancel :: h)) = false.
Proof. exact skip_when_ctx_done_never_closes_refuted. Qed.
Print Assumptions C02_skip_close_when_ctx_done_refuted.

Theorem C02_close_history_exists :
  ch_run CloseAlways [EvParentCancel; EvClose; EvParentCancel; EvClose]
  = {| ch_ctx_done := true; ch_conns_closed := true; ch_close_calls := 2 |}.
Proof. exact close_history_nonvacuous. Qed.
Print Assumptions C02_close_history_exists.

(* the relay sets no deadline on a connection a direction still reads (harness obligation `deadline-set-on-live-direction` on
   the real iocopy.Bidirectional), so delivery of the remaining direction is independent of elapsed time: however many clock
   ticks fall anywhere in the schedule, all m chunks are delivered once that direction has had m+1 steps *)
Theorem C02_delivery_independent_of_elapsed_time :
  forall m (sched : list nat), m + 1 <= count_occ Nat.eq_dec sched 0 ->
  d_got (fst (drain_run None m sched)) = m /\ nth_error (snd (drain_run None m sched)) 0 = Some (DRespDone false).
Proof. exact delivery_independent_of_elapsed_time. Qed.
Print Assumptions C02_delivery_independent_of_elapsed_time.

(* refuted: a drain deadline cuts a remaining direction that pauses longer than the deadline *)
Theorem C02_drain_deadline_truncates_refuted :
  exists sched, d_got (fst (drain_run (Some 5) 3 sched)) < 3 /\
                nth_error (snd (drain_run (Some 5) 3 sched)) 0 = Some (DRespDone true).
Proof. exact drain_deadline_truncates_refuted. Qed.
Print Assumptions C02_drain_deadline_truncates_refuted.

(* ---------------- write failures of any kind; a pending token wait and the closure ---------------- *)

(* the write oracle's error flag stands for EVERY kind of Write error (plain, transient timeout, permanent timeout ...): the model
   never reads again after a failed write, and the prefix theorems above hold for every oracle.  Refuted: going on with the
   next read after a failed write (e.g. treating a transient write timeout like a read timeout) leaves a hole — what arrives is
   not a prefix of what was sent *)
Theorem C02_skip_failed_writes_not_prefix_refuted :
  exists chunks : list (list nat * bool), forall rest, concat (map fst chunks) <> skip_failed_writes chunks ++ rest.
Proof. exact skip_failed_writes_not_prefix_refuted. Qed.
Print Assumptions C02_skip_failed_writes_not_prefix_refuted.

(* a direction that is waiting for limiter tokens (w ticks of pacing left, any w) when the bridge is closed ends at its next
   step: for every schedule in which the closure (thread 1) happens and the waiting direction (thread 0) gets one step
   afterwards, it has exited — the time Start needs to return does not depend on the pacing still to do *)
Theorem C02_cancelled_token_wait_ends_at_once :
  forall w (s1 s2 : list nat), In 1 s1 -> In 0 s2 ->
  nth_error (snd (wait_run CancellableWait w (s1 ++ s2))) 0 = Some WExited.
Proof. exact cancelled_wait_ends_at_once. Qed.
Print Assumptions C02_cancelled_token_wait_ends_at_once.

(* refuted: pacing with ReserveN + Sleep — after the closure and any k < w further steps the direction is still waiting *)
Theorem C02_sleep_wait_outlasts_closure_refuted :
  forall w k, k < w -> nth_error (snd (wait_run SleepWait w (1 :: repeat 0 k))) 0 = Some (WWaiting (w - k)).
Proof. exact sleep_wait_outlasts_closure_refuted. Qed.
Print Assumptions C02_sleep_wait_outlasts_closure_refuted.

(* ---------------- the copy loop and the stats backend; retryable read errors ---------------- *)

(* no cloud-control round trip belongs inside a copy loop: whatever the stats backend does — answers early, late or never — a
   direction that gets m+1 steps has copied all m chunks (harness obligation on the real code: >= 3 MiB per direction with the
   cloud-control double stuck from the attach on; key `copy-loop-waits-for-stats-backend`) *)
Theorem C02_copy_independent_of_stats_backend :
  forall m (sched : list nat), m + 1 <= count_occ Nat.eq_dec sched 0 ->
  s_copied (fst (stats_run None m sched)) = m /\ nth_error (snd (stats_run None m sched)) 0 = Some SCopyDone.
Proof. exact copy_independent_of_stats_backend. Qed.
Print Assumptions C02_copy_independent_of_stats_backend.

(* refuted: a synchronous traffic report after every b-th chunk — with a silent backend the direction never gets past chunk b,
   however many steps it is given *)
Theorem C02_report_in_loop_freezes_refuted :
  forall n, s_copied (fst (stats_run (Some 2) 5 (repeat 0 n))) <= 2.
Proof. exact report_in_loop_freezes_refuted. Qed.
Print Assumptions C02_report_in_loop_freezes_refuted.

(* a retryable read error (both a timeout and temporary) does not end the stream: the bytes after it still belong to what the end
   sent, and C02_copy/bridge_complete_if_no_early_close deliver everything `readable` — also through adapter-wrapped ends
   (harness obligation; key `incomplete-without-early-close`) *)
Theorem C02_retryable_read_error_does_not_end_the_stream :
  forall d rs, readable ({| r_data := d; r_end := rkind_of_error true true |} :: rs) = d ++ readable rs.
Proof. exact readable_retry. Qed.
Print Assumptions C02_retryable_read_error_does_not_end_the_stream.

(* refuted: turning any read error into end-of-stream (a sticky `closed` flag set on a transient timeout) loses the later bytes *)
Theorem C02_fabricated_eof_after_timeout_loses_bytes_refuted :
  exists d rs, readable ({| r_data := d; r_end := RFatal |} :: rs) <> d ++ readable rs.
Proof. exact fabricated_eof_loses_bytes. Qed.
Print Assumptions C02_fabricated_eof_after_timeout_loses_bytes_refuted.

(* ---------------- teardown order of runBridgeLifecycle ---------------- *)

(* once Start has returned, ONE step of the lifecycle goroutine takes the tunnel out of s.tunnelBridges — for every history of
   routing-store answers around it (early, late or never): forgetting does not wait for RemoveWaitingTunnel's storage Delete *)
Theorem C02_map_forgets_before_routing_store :
  forall h1 h2 : list td_event, Forall (fun e => e = TdStoreAnswers) h1 ->
  td_in_map (td_run MapFirst (h1 ++ TdStep :: h2)) = false.
Proof. exact map_first_forgets_at_once. Qed.
Print Assumptions C02_map_forgets_before_routing_store.

(* refuted: removing the routing record first — with a stalled store the ended tunnel stays in the map for ever *)
Theorem C02_routing_first_never_forgets_refuted :
  forall n, td_in_map (td_run RoutingFirst (repeat TdStep n)) = true.
Proof. exact routing_first_never_forgets_refuted. Qed.
Print Assumptions C02_routing_first_never_forgets_refuted.

Theorem C02_teardown_run_exists :
  td_run MapFirst [TdStep; TdStep; TdStoreAnswers; TdStep] = {| td_at := TdDone; td_in_map := false; td_answered := true |}.
Proof. exact teardown_nonvacuous. Qed.
Print Assumptions C02_teardown_run_exists.

(* ---------------- a connection joins an existing bridge: the open-ack precedes every tunnel byte ---------------- *)

(* handleExistingBridge writes the TunnelOpenAck before it attaches the joining connection (the attach wakes the copy loop, which
   shares no lock with the ack's WritePacket): for every schedule of the handler and the copy loop and any number of pending
   chunks, whatever is on the joining connection's wire starts with the ack *)
Theorem C02_open_ack_precedes_tunnel_bytes :
  forall n (sched : list nat),
  j_wire (fst (join_run AckThenAttach n sched)) = [] \/
  exists rest, j_wire (fst (join_run AckThenAttach n sched)) = true :: rest.
Proof. exact ack_precedes_tunnel_bytes. Qed.
Print Assumptions C02_open_ack_precedes_tunnel_bytes.

(* refuted: attach first, ack afterwards — the woken copy loop can put tunnel bytes in front of the ack *)
Theorem C02_attach_then_ack_payload_first_refuted :
  exists sched rest, j_wire (fst (join_run AttachThenAck 2 sched)) = false :: rest.
Proof. exact attach_then_ack_payload_first_refuted. Qed.
Print Assumptions C02_attach_then_ack_payload_first_refuted.

(* ---------------- (4) the server forgets the tunnel ---------------- *)

(* registry_forgets: any number of startSourceBridge callers, any tunnel ids (duplicates included), every interleaving
   of their critical sections and bridge lifetimes: once all lifecycle threads have finished the map is empty; at
   every moment an entry exists exactly for the ids with a running bridge and names that bridge *)
Theorem C02_registry_forgets :
  forall (ids : list N) (sched : list nat),
  let s := lifecycle_run ids sched in
  (forallb l_finished (snd s) = true -> forall k, fst s k = None) /\
  (forall k i, fst s k = Some i -> exists t, nth_error (snd s) i = Some t /\ l_active t = true /\ l_id t = k) /\
  (forall i t, nth_error (snd s) i = Some t -> l_active t = true -> fst s (l_id t) = Some i).
Proof. exact registry_forgets. Qed.
Print Assumptions C02_registry_forgets.

(* ---------------- the defect of the pinned tree, kept as refuted statements ---------------- *)

(* pinned CopyWithControl (one WaitN(nr) per read): BandwidthLimit 4096 (burst 8192), one 20000-byte read, no
   close, no write error — nothing is delivered and the loop ends: (2) is false of the pinned code *)
Theorem C02_pinned_limiter_drops_refuted :
  exists rs, Forall (fun r => lenN (r_data r) <= 32768)%N rs /\ readable rs <> [] /\
    c_out (snd (copy_loop Pinned 1048576 10000 (Some 8192%N) false rs [] cst0)) = [] /\
    fst (copy_loop Pinned 1048576 10000 (Some 8192%N) false rs [] cst0) = XLimiter.
Proof. exact pinned_limiter_drops_refuted. Qed.
Print Assumptions C02_pinned_limiter_drops_refuted.

(* the pinned rule refuses a full copy buffer for every tabled limit whose burst is below the buffer size *)
Theorem C02_pinned_refuses_full_buffer :
  forall l p b, In (l, p, b) limiter_table -> p = true -> (b < CopyBufferSize)%N ->
  limiter_ok Pinned (Some b) false CopyBufferSize = false.
Proof. exact pinned_refuses_full_buffer. Qed.
Print Assumptions C02_pinned_refuses_full_buffer.

(* pinned Bridge.Start read b.targetForwarder inside its goroutines: under the schedule [0;0] with the source end at EOF the
   bridge is already closed (forwarder nil) when direction 1 has not yet taken its reader — the real code then dereferences
   nil and the process dies (reproduced by the harness' startrace mode) *)
Theorem C02_pinned_start_pick_after_close_refuted :
  exists sched, let s := bridge_run Sliced 1048576 None [] [] [{| r_data := [170]%N; r_end := RNone |}] [] sched in
    s_closed (fst s) = true /\ nth_error (snd s) 1 = Some (b_init true [{| r_data := [170]%N; r_end := RNone |}] []).
Proof. exact pinned_start_pick_after_close_refuted. Qed.
Print Assumptions C02_pinned_start_pick_after_close_refuted.

(* ---------------- non-vacuity ---------------- *)

(* a concrete interleaved two-way run under a limiter with burst 2 meets every premise of (2): both directions
   deliver, direction 0 ends by its own EOF, closes once, direction 1 is cut by the closure *)
Theorem C02_premises_satisfiable :
  let rs0 := [{| r_data := [1;2;3]%N; r_end := RNone |}; {| r_data := [4;5]%N; r_end := RFatal |}] in
  let rs1 := [{| r_data := [9;8]%N; r_end := RNone |}; {| r_data := [7]%N; r_end := RNone |}] in
  let s := bridge_run Sliced 1048576 (Some 2%N) rs0 [] rs1 [] [0;1;0;1;1;0;0;0;1;1]%nat in
  (forall n, limiter_ok Sliced (Some 2%N) false n = true) /\
  Forall (fun r => lenN (r_data r) <= 32768)%N rs0 /\ Forall (fun r => lenN (r_data r) <= 32768)%N rs1 /\
  s_out0 (fst s) = [1;2;3;4;5]%N /\ s_out1 (fst s) = [9;8]%N /\ s_closes (fst s) = 1%nat /\
  map b_done (snd s) = [Some XReadEnd; Some XClosedWrite].
Proof. exact bridge_nonvacuous. Qed.
Print Assumptions C02_premises_satisfiable.

(* every limiter NewBridge installs for the tabled limits meets the premise lim_wf of (2) *)
Theorem C02_installed_limiters_meet_premise :
  forall l p b, In (l, p, b) limiter_table -> lim_wf (if p then Some b else None).
Proof. exact table_limiters_wf. Qed.
Print Assumptions C02_installed_limiters_meet_premise.

(* a run with a duplicate tunnel id in which every lifecycle thread finishes (premise of (4)) *)
Theorem C02_registry_premise_satisfiable :
  let s := lifecycle_run [7; 7; 9]%N [0; 1; 2; 0; 0; 2; 2; 2; 2; 1; 0]%nat in
  forallb l_finished (snd s) = true /\ map l_pc (snd s) = [LDone true; LDone false; LDone true].
Proof. exact registry_forgets_nonvacuous. Qed.
Print Assumptions C02_registry_premise_satisfiable.

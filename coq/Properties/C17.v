(* Properties/C17.v — C17: configured limits and quotas hold under concurrency.
   Model: Model/Limits.v over Base/Threads.v (one thread step = one mutex-protected section / one atomic
   Load, Add or CAS / one storage-level count or create).  Every theorem quantifies over ANY limit value
   (0 = unlimited where the code says so, 1, n), ANY number of acceptters and ANY schedule.
   `Current` = the code with fixes/C17-*.diff applied, `Pinned` = the code as found (refuted below). *)
From TX Require Import Model.Limits Proofs.Limits Proofs.SideC17 Gen.C17.
From Coq Require Import ZArith.

(* ---- server-wide connection cap: SessionManager.CreateConnection / CloseConnection ---- *)

(* In every reachable state of any number of concurrent callers (each closing its connection again or not):
   len(connMap) <= MaxConnections (when a limit is set), and the bookkeeping is exact — connMap holds the pre-existing
   entries plus one per accepted, not yet closed caller; the StreamManager one per caller that was not refused.
   A refused caller is counted in neither. *)
Theorem C17_server_cap_never_exceeds :
  forall (max base sbase : nat) (closes : list bool) (sched : list nat),
  (0 < max -> base <= max) ->
  let s := srun Current max {| conns := base; streams := sbase |} (map s_new closes) sched in
  (0 < max -> conns (fst s) <= max) /\
  conns (fst s) = base + countb (s_is SAccepted) (snd s) /\
  streams (fst s) = sbase + countb s_holds_stream (snd s).
Proof. exact server_cap_never_exceeds. Qed.
Print Assumptions C17_server_cap_never_exceeds.

(* the step on which a caller is refused either changes no shared state at all (refusal at the first check) or is the
   removal of the caller's own stream after the refusal under the write lock *)
Theorem C17_server_refused_changes_nothing :
  forall v max lo sh lo' sh',
  sstep v max lo sh = (lo', sh') -> s_pc lo' = SRefused -> s_pc lo <> SRefused ->
  (s_pc lo = SStart /\ sh' = sh) \/
  (s_pc lo = SUndo /\ conns sh' = conns sh /\ streams sh' = pred (streams sh)).
Proof. exact server_refusal_step. Qed.
Print Assumptions C17_server_refused_changes_nothing.

(* the code as found (count check under the read lock, insert under the write lock later) *)
Theorem C17_server_cap_pinned_refuted :
  exists sched, conns (fst (srun Pinned 1 {| conns := 0; streams := 0 |} [s_new false; s_new false] sched)) = 2.
Proof. exact server_cap_pinned_refuted. Qed.
Print Assumptions C17_server_cap_pinned_refuted.

(* ---- tunnel registry cap (one step per operation, refuse at the cap) ---- *)
Theorem C17_tunnel_registry_never_exceeds :
  forall (max : nat) (m : list (N * N)) (ts : list rloc) (sched : list nat),
  NoDup (keys m) /\ (0 < max -> length m <= max) ->
  let m' := fst (rrun (treg_apply max) m ts sched) in
  NoDup (keys m') /\ (0 < max -> length m' <= max).
Proof. exact tunnel_registry_never_exceeds. Qed.
Print Assumptions C17_tunnel_registry_never_exceeds.

Theorem C17_tunnel_registry_refused_changes_nothing :
  forall max o m, fst (treg_apply max o m) = RRefused -> snd (treg_apply max o m) = m.
Proof. exact treg_refused_unchanged. Qed.
Print Assumptions C17_tunnel_registry_refused_changes_nothing.

Theorem C17_tunnel_registry_accepts_below_cap :
  forall max id t m, id <> 0%N -> at_cap max (length m) = false ->
  fst (treg_apply max (RReg id t) m) = ROk /\ In id (keys (snd (treg_apply max (RReg id t) m))).
Proof. exact treg_accepts_below. Qed.
Print Assumptions C17_tunnel_registry_accepts_below_cap.

(* "a registration whose TunnelID is already registered is a replacement and skips the capacity check" (NOT the code): the
   cap is on connMap, keyed by ConnID — full registry (limit 2), NEW ConnID 3 with a known TunnelID => 3 entries; the code
   refuses that registration and changes nothing *)
Theorem C17_tunnel_registry_tid_replacement_refuted :
  length (snd (treg_tid_skip_apply 2 true 3 3 [(1, 1); (2, 2)]%N)) = 3 /\
  treg_apply 2 (RReg 3 3) [(1, 1); (2, 2)]%N = (RRefused, [(1, 1); (2, 2)]%N).
Proof. exact treg_tid_skip_refuted. Qed.
Print Assumptions C17_tunnel_registry_tid_replacement_refuted.

(* ---- control-connection cap (one step per operation; model cregx_apply: connMap + the identity each connection carries +
   the client index, as of /repo eb41b39; `authevict` = UpdateAuth removes the connection the client id resolved to — the
   theorems hold for both values, i.e. on both sides of that commit) ---- *)
Theorem C17_control_registry_never_exceeds :
  forall (authevict : bool) (max : nat) (r : cregx) (ts : list xloc) (sched : list nat),
  NoDup (keys (x_map r)) /\ (0 < max -> length (x_map r) <= max) ->
  let m' := x_map (fst (xrun (cregx_apply authevict max) r ts sched)) in
  NoDup (keys m') /\ (0 < max -> length m' <= max).
Proof. exact control_registry_never_exceeds. Qed.
Print Assumptions C17_control_registry_never_exceeds.

(* a NEW ConnID at the cap: an entry with the minimal CreatedAt is evicted, the new one is in, the count does not grow *)
Theorem C17_control_registry_evicts_oldest :
  forall b max id t cl r, id <> 0%N -> ~ In id (keys (x_map r)) -> at_cap max (length (x_map r)) = true ->
  exists old, In old (x_map r) /\ (forall e, In e (x_map r) -> (snd old <= snd e)%N) /\
              fst (cregx_apply b max (XReg id t cl) r) = REvicted (fst old) /\
              In id (keys (x_map (snd (cregx_apply b max (XReg id t cl) r)))) /\
              ~ In (fst old) (keys (x_map (snd (cregx_apply b max (XReg id t cl) r)))) /\
              length (x_map (snd (cregx_apply b max (XReg id t cl) r))) <= length (x_map r).
Proof. exact cregx_evicts_oldest. Qed.
Print Assumptions C17_control_registry_evicts_oldest.

(* a ConnID that already has a record (/repo c61cb06): replacement — accepted, same key set, same count, nobody evicted,
   at the cap or not *)
Theorem C17_control_registry_replace_keeps_count :
  forall b max id t cl r, id <> 0%N -> NoDup (keys (x_map r)) -> In id (keys (x_map r)) ->
  fst (cregx_apply b max (XReg id t cl) r) = ROk /\
  length (x_map (snd (cregx_apply b max (XReg id t cl) r))) = length (x_map r) /\
  (forall k, In k (keys (x_map (snd (cregx_apply b max (XReg id t cl) r)))) <-> In k (keys (x_map r))).
Proof. exact cregx_replace_keeps. Qed.
Print Assumptions C17_control_registry_replace_keeps_count.

(* UpdateAuth(c, k) (/repo eb41b39): the registered set afterwards is the old one, or the old one minus ONE other connection
   (the one client k resolved to); c itself stays; the count never grows and drops by at most one *)
Theorem C17_control_registry_updateauth_shrinks_by_at_most_one :
  forall b max id cl r,
  (x_map (snd (cregx_apply b max (XAuth id cl) r)) = x_map r \/
   exists old, old <> id /\ x_map (snd (cregx_apply b max (XAuth id cl) r)) = del (x_map r) old) /\
  (In id (keys (x_map r)) -> In id (keys (x_map (snd (cregx_apply b max (XAuth id cl) r))))) /\
  (NoDup (keys (x_map r)) ->
   length (x_map (snd (cregx_apply b max (XAuth id cl) r))) <= length (x_map r) /\
   length (x_map r) <= S (length (x_map (snd (cregx_apply b max (XAuth id cl) r))))).
Proof. intros b max id cl r. exact (conj (cregx_auth_map b max id cl r) (conj (cregx_auth_keeps_self b max id cl r) (cregx_auth_shrinks b max id cl r))). Qed.
Print Assumptions C17_control_registry_updateauth_shrinks_by_at_most_one.

(* non-vacuity of the UpdateAuth eviction: two logins of client 7 — with eb41b39 only the second connection is left, before
   it both stayed registered *)
Theorem C17_control_registry_relogin_witness :
  let ops := [XReg 1 10 0; XAuth 1 7; XReg 2 20 0; XAuth 2 7] in
  keys (x_map (fold_left (fun r o => snd (cregx_apply true 5 o r)) ops x_empty)) = [2%N] /\
  keys (x_map (fold_left (fun r o => snd (cregx_apply false 5 o r)) ops x_empty)) = [2%N; 1%N].
Proof. exact cregx_relogin_witness. Qed.
Print Assumptions C17_control_registry_relogin_witness.

Theorem C17_control_registry_refused_changes_nothing :
  forall b max o r, fst (cregx_apply b max o r) = RRefused -> snd (cregx_apply b max o r) = r.
Proof. exact cregx_refused_unchanged. Qed.
Print Assumptions C17_control_registry_refused_changes_nothing.

(* removeConnectionLocked with the client index explicit: after removing connection c, c is NOT in connMap — whatever the
   client index points to (the same client may be authenticated on a second connection) — and the map is exactly the old
   one without c, which is what creg_apply uses for eviction, replacement and Remove *)
Theorem C17_control_registry_remove_removes :
  forall (r : cregx) (id : N),
  ~ In id (keys (x_map (remove_conn false r id))) /\ x_map (remove_conn false r id) = del (x_map r) id.
Proof. exact remove_conn_removes. Qed.
Print Assumptions C17_control_registry_remove_removes.

(* ... and an index entry that points to ANOTHER connection of the same client is left alone *)
Theorem C17_control_registry_remove_keeps_foreign_index :
  forall r id cl other,
  lookup2 (x_ident r) id = cl -> has (x_index r) cl = true -> lookup2 (x_index r) cl = other -> other <> id ->
  x_index (remove_conn false r id) = x_index r.
Proof. exact remove_conn_keeps_foreign_index. Qed.
Print Assumptions C17_control_registry_remove_keeps_foreign_index.

(* the flattened guard clause (early return before the connMap delete): a superseded connection is never removed, so an
   eviction at the cap removes nothing and the count grows *)
Theorem C17_control_registry_remove_guarded_refuted :
  exists r id, In id (keys (x_map (remove_conn true r id))) /\ length (x_map (remove_conn true r id)) = length (x_map r).
Proof. exact remove_conn_guarded_refuted. Qed.
Print Assumptions C17_control_registry_remove_guarded_refuted.

(* Register's ATOMICITY is what C17_control_registry_never_exceeds rests on (one thread step = the whole Register).  The
   variant that releases the registry lock between the eviction and the insert (around the evicted stream's Close()) is
   refuted: limit 2, two callers, schedule evict_A / register_B / insert_A => 3 entries; the atomic Register stays at 2 on
   every schedule.  The harness parks the evicted connection's Stream.Close() to tell the two apart on the real code. *)
Theorem C17_control_registry_split_refuted :
  exists sched, length (fst (run _ _ (creg_split_step 2) ([(1, 1); (2, 2)]%N, [PStart 3 3; PStart 4 4]) sched)) = 3.
Proof. exact creg_split_refuted. Qed.
Print Assumptions C17_control_registry_split_refuted.

Theorem C17_control_registry_atomic_witness :
  forall b sched, length (x_map (fst (xrun (cregx_apply b 2) {| x_map := [(1, 1); (2, 2)]%N; x_ident := []; x_index := [] |}
                                  [{| xl_todo := [XReg 3 3 0]; xl_log := [] |}; {| xl_todo := [XReg 4 4 0]; xl_log := [] |}] sched))) <= 2.
Proof. exact creg_atomic_witness. Qed.
Print Assumptions C17_control_registry_atomic_witness.

(* ---- per-mapping concurrent-connection limit on the listening client ---- *)

(* any number of local connections arriving — each either carried through to a running tunnel, or closed by its peer
   between RegisterTunnel and Start (`earlies`) —, any schedule of their atomic actions (Load / CAS / tunnel start /
   OnClosed release / deferred release / tunnel close): live tunnels <= slots held = activeConnCount <= limit, and the
   counter never goes below zero *)
Theorem C17_mapping_cap_never_exceeds :
  forall (max : nat) (earlies : list bool) (sched : list nat),
  let s := mrun Current max {| counter := 0; live := 0 |} (map MStart earlies) sched in
  (0 < max -> (counter (fst s) <= Z.of_nat max)%Z) /\
  counter (fst s) = Z.of_nat (countb m_holds (snd s)) /\
  live (fst s) = Z.of_nat (countb m_live (snd s)) /\
  (0 <= live (fst s) <= counter (fst s))%Z.
Proof. exact mapping_cap_never_exceeds. Qed.
Print Assumptions C17_mapping_cap_never_exceeds.

Theorem C17_mapping_refused_changes_nothing :
  forall max pc sh pc' sh', mstep Current max pc sh = (pc', sh') -> pc' = MRefused -> sh' = sh.
Proof. exact mapping_refusal_step. Qed.
Print Assumptions C17_mapping_refused_changes_nothing.

(* the code as found: Load, Load, Add, Add *)
Theorem C17_mapping_cap_pinned_refuted :
  exists sched, counter (fst (mrun Pinned 1 {| counter := 0; live := 0 |} [MStart false; MStart false] sched)) = 2%Z.
Proof. exact mapping_cap_pinned_refuted. Qed.
Print Assumptions C17_mapping_cap_pinned_refuted.

(* the code as found, strictly sequential arrivals: the slot is returned when handleConnection returns, not when the
   tunnel ends — two live tunnels under limit 1 *)
Theorem C17_mapping_slot_lifetime_pinned_refuted :
  exists sched, let s := mrun Pinned 1 {| counter := 0; live := 0 |} [MStart false; MStart false] sched in
                live (fst s) = 2%Z /\ snd s = [MLive; MLive].
Proof. exact mapping_slot_lifetime_pinned_refuted. Qed.
Print Assumptions C17_mapping_slot_lifetime_pinned_refuted.

(* the slot release WITHOUT the sync.Once (one acquire, OnClosed releases, the deferred cleanup releases again): a
   connection closed by its peer between RegisterTunnel and Start drives the counter to -1, and afterwards two tunnels are
   live under limit 1 — strictly sequential history *)
Theorem C17_mapping_release_not_idempotent_refuted :
  exists sched,
    let s := run _ _ (mstep_gen false true Current 1) ({| counter := 0; live := 0 |}, [MStart true; MStart false; MStart false]) sched in
    live (fst s) = 2%Z /\ snd s = [MDone; MLive; MLive] /\
    counter (fst (run _ _ (mstep_gen false true Current 1) ({| counter := 0; live := 0 |}, [MStart true; MStart false; MStart false])
                      (firstn 4 sched))) = (-1)%Z.
Proof. exact mapping_release_not_idempotent_refuted. Qed.
Print Assumptions C17_mapping_release_not_idempotent_refuted.

(* the slot as events: for EVERY sequence of acquire (limit known) / acquire during a quota fault (GetUserQuota fails: let
   through AND counted) / release / release-again events of every connection, any number of connections and every schedule,
   the counter equals the number of connections holding a slot — never below zero, nobody is accepted uncounted, nothing is
   released twice — and the holders accepted against a known limit stay within it *)
Theorem C17_slot_release_idempotent :
  forall (max : nat) (scripts : list (list hev)) (sched : list nat),
  let s := hrun true true max 0%Z (map h_new scripts) sched in
  fst s = Z.of_nat (countb h_holding (snd s)) /\ (0 <= fst s)%Z /\ (0 < max -> countb h_known_holding (snd s) <= max).
Proof. exact slot_release_idempotent. Qed.
Print Assumptions C17_slot_release_idempotent.

Theorem C17_slot_release_not_idempotent_refuted :
  exists sched, let s := hrun false true 1 0%Z (map h_new [[HAcq; HRel; HRel]; [HAcq]; [HAcq]]) sched in
                countb h_holding (snd s) = 2 /\ fst (hrun false true 1 0%Z (map h_new [[HAcq; HRel; HRel]; [HAcq]; [HAcq]]) (firstn 3 sched)) = (-1)%Z.
Proof. exact slot_release_not_idempotent_refuted. Qed.
Print Assumptions C17_slot_release_not_idempotent_refuted.

(* accept-without-count on a quota fault (an early `return nil` before the counting branch): the counter under-reports while
   that connection is open (0 with one holder), is -1 after its release, and then THREE connections hold a slot against the
   known limit 2 *)
Theorem C17_slot_fault_accept_uncounted_refuted :
  exists sched,
    let scripts := map h_new [[HAcqFault; HRel]; [HAcq]; [HAcq]; [HAcq]] in
    fst (hrun true false 2 0%Z scripts (firstn 1 sched)) = 0%Z /\
    countb h_holding (snd (hrun true false 2 0%Z scripts (firstn 1 sched))) = 1 /\
    fst (hrun true false 2 0%Z scripts (firstn 2 sched)) = (-1)%Z /\
    countb h_known_holding (snd (hrun true false 2 0%Z scripts sched)) = 3.
Proof. exact slot_fault_accept_uncounted_refuted. Qed.
Print Assumptions C17_slot_fault_accept_uncounted_refuted.

(* ---- per-client quotas on active connection codes / active mappings (storage level) ---- *)

(* the full statement for the BARE count-then-create shape (the code before /repo 6d9c096, no per-client marker): the quota
   holds on every schedule.  FALSE for that shape: see C17_quota_refuted; what holds for it is C17_quota_count_exact and the
   guarded C17_quota_never_exceeds_partial.  For the code as it is now (marker taken with SetNX around count + create) the
   full statement is PROVED: C17_quota_locked_never_exceeds below. *)
Definition C17_quota_full_statement : Prop :=
  forall (max base n : nat) (sched : list nat), base <= max -> fst (qrun max base (repeat QStart n) sched) <= max.

(* what does hold on EVERY schedule: the stored count is exact (initial + accepted creations; refused requests
   contribute nothing) *)
Theorem C17_quota_count_exact :
  forall (max base n : nat) (sched : list nat),
  let s := qrun max base (repeat QStart n) sched in fst s = base + countb q_is_created (snd s).
Proof. exact quota_count_exact. Qed.
Print Assumptions C17_quota_count_exact.

(* the limit holds on exactly the schedules in which no admission starts counting while another one sits between its
   count and its create (boolean guard overlap_free) *)
Theorem C17_quota_never_exceeds_partial :
  forall (max base n : nat) (sched : list nat),
  base <= max -> overlap_free max (base, repeat QStart n) sched = true ->
  fst (qrun max base (repeat QStart n) sched) <= max.
Proof. exact quota_never_exceeds_guarded. Qed.
Print Assumptions C17_quota_never_exceeds_partial.

Theorem C17_quota_refused_changes_nothing :
  forall max pc n pc' n', qstep max pc n = (pc', n') -> pc' = QRefused -> n' = n.
Proof. exact quota_step_refused_unchanged. Qed.
Print Assumptions C17_quota_refused_changes_nothing.

Theorem C17_quota_refuted :
  exists sched, fst (qrun 10 9 [QStart; QStart] sched) = 11 /\ overlap_free 10 (9, [QStart; QStart]) sched = false.
Proof. exact quota_refuted. Qed.
Print Assumptions C17_quota_refuted.

(* ---- non-vacuity: concrete states meet the hypotheses and exercise refusal, eviction and the guard ---- *)
Theorem C17_nonvacuous :
  (NoDup (keys [(3, 10); (4, 11)]%N) /\ (0 < 2 -> length [(3, 10); (4, 11)]%N <= 2)) /\
  creg_apply 2 (RReg 5 12) [(4, 11); (3, 10)]%N = (REvicted 3%N, [(5, 12); (4, 11)]%N) /\
  treg_apply 2 (RReg 5 12) [(4, 11); (3, 10)]%N = (RRefused, [(4, 11); (3, 10)]%N).
Proof. exact reg_nonvacuous. Qed.
Print Assumptions C17_nonvacuous.

Theorem C17_nonvacuous_schedules :
  (let s := srun Current 1 {| conns := 0; streams := 0 |} [s_new false; s_new false] [0; 1; 0; 0; 0; 1; 1; 1; 1] in
   fst s = {| conns := 1; streams := 1 |} /\ map s_pc (snd s) = [SAccepted; SRefused]) /\
  (overlap_free 10 (9, repeat QStart 3) [0; 0; 1; 2; 1] = true /\ fst (qrun 10 9 (repeat QStart 3) [0; 0; 1; 2; 1]) = 10).
Proof. exact (conj server_cap_current_witness quota_guard_nonvacuous). Qed.
Print Assumptions C17_nonvacuous_schedules.

(* ---- the quota count as a fold over storage reads, each of which may fail ---- *)

(* FAIL CLOSED (CreateConnectionCode as coded: a failing read aborts the listing): a request at a full quota is refused
   or fails, and changes nothing, whichever reads fail — the index read, any subset of the by-id reads *)
Theorem C17_quota_fail_closed :
  forall (max : nat) (recs : list bool) (idxfault : bool) (rfaults : list bool),
  max <= active recs ->
  fst (accept_once Abort max recs idxfault rfaults) <> ACreated /\ snd (accept_once Abort max recs idxfault rfaults) = recs.
Proof. exact quota_fail_closed. Qed.
Print Assumptions C17_quota_fail_closed.

Theorem C17_quota_abort_preserves_limit :
  forall max recs idxfault rfaults,
  active recs <= max -> active (snd (accept_once Abort max recs idxfault rfaults)) <= max.
Proof. exact quota_abort_preserves_limit. Qed.
Print Assumptions C17_quota_abort_preserves_limit.

(* a request that is not accepted changes nothing, under every read policy *)
Theorem C17_quota_not_accepted_changes_nothing :
  forall p max recs idxfault rfaults,
  fst (accept_once p max recs idxfault rfaults) <> ACreated -> snd (accept_once p max recs idxfault rfaults) = recs.
Proof. exact accept_not_created_unchanged. Qed.
Print Assumptions C17_quota_not_accepted_changes_nothing.

(* C17 quantifies over limits and schedules, NOT over storage fault sequences: on its own domain — no read fails — every
   listing policy counts exactly and refuses at the full quota (the guard is the property's domain, not a restriction) *)
Theorem C17_quota_lenient_refuses_partial :
  forall p max recs, max <= active recs -> accept_once p max recs false [] = (ARefused, recs).
Proof. exact quota_lenient_refuses_without_fault. Qed.
Print Assumptions C17_quota_lenient_refuses_partial.

(* a variant of CreateConnectionCode's listing that logs and skips an unreadable record (NOT the code, which aborts and is
   fail closed above): one failing by-id read at a full quota lets one more in *)
Theorem C17_quota_skip_refuted :
  exists recs f, active recs = 3 /\ countb (fun b => b) f = 1 /\
                 accept_once SkipRecord 3 recs false f = (ACreated, true :: recs).
Proof. exact quota_skip_refuted. Qed.
Print Assumptions C17_quota_skip_refuted.

(* model fact, recorded neutrally: ActivateConnectionCode step 5 counts through the generic repository List / Get, which by
   documented choice ("do not block the activation because the query failed") read a failing index read as an empty
   listing and a failing by-id read as an absent record.  Storage faults are outside C17's quantifier, so this is the
   behaviour of the code on inputs the property does not speak about (fault sequences belong to C06 / C12 / C14). *)
Theorem C17_activation_count_treats_failed_read_as_absent :
  accept_once Open 1 [true] true [] = (ACreated, [true; true]) /\
  accept_once Open 1 [true] false [true] = (ACreated, [true; true]).
Proof. exact activation_count_failed_read_as_absent. Qed.
Print Assumptions C17_activation_count_treats_failed_read_as_absent.

(* ---- the repaired quota admission: per-client SetNX marker around count + create ---- *)

(* any limit, any number of requests of one client, any of them hitting a failing read, any schedule of the storage-level
   steps SetNX / count / create / Delete: the active count never exceeds the limit, the bookkeeping is exact, and the
   marker is held by at most one request *)
Theorem C17_quota_locked_never_exceeds :
  forall (max base : nat) (faults : list bool) (sched : list nat),
  base <= max ->
  let s := lrun max {| q_n := base; q_lock := false |} (map l_new faults) sched in
  q_n (fst s) <= max /\
  q_n (fst s) = base + countb l_created (snd s) /\
  countb l_holds (snd s) + countb l_counted (snd s) = (if q_lock (fst s) then 1 else 0).
Proof. exact quota_locked_never_exceeds. Qed.
Print Assumptions C17_quota_locked_never_exceeds.

(* the only step that changes the stored count is the create of a request that counted below the limit while holding the
   marker: a request that lost the SetNX, was refused, or hit a failing read changes nothing *)
Theorem C17_quota_locked_refused_changes_nothing :
  forall max lo sh lo' sh',
  lstep max lo sh = (lo', sh') -> q_n sh' <> q_n sh -> l_pc lo = LCounted /\ l_pc lo' = LDoneHeld /\ q_n sh' = S (q_n sh).
Proof. exact quota_locked_step_count. Qed.
Print Assumptions C17_quota_locked_refused_changes_nothing.

Theorem C17_quota_locked_nonvacuous :
  let s := lrun 2 {| q_n := 1; q_lock := false |} [l_new false; l_new false; l_new true]
                [0; 1; 2; 0; 0; 1; 0; 0; 2; 2; 2; 2] in
  fst s = {| q_n := 2; q_lock := false |} /\ map l_pc (snd s) = [LCreated; LBusy; LFailed].
Proof. exact quota_locked_witness. Qed.
Print Assumptions C17_quota_locked_nonvacuous.

(* ---- what the quota count counts: the client's index tracks the records under concurrent lists ---- *)

(* Create writes the by-id record and then appends the id to the client's index; a List drops index entries whose record is
   missing.  For ANY number of concurrent creates (distinct ids) and of concurrent lists and EVERY schedule of their storage
   calls: every index entry has its record, every code whose Create has returned is in the index and stored, and the count
   the quota compares with its limit is the whole index — no existing code is missed *)
Theorem C17_quota_index_tracks_records :
  forall (ids : list N) (lists : list nat) (sched : list nat),
  let s := irun RecordFirst {| i_stored := []; i_index := [] |} (map (fun id => ICreate id 0) ids ++ map IList lists) sched in
  (forall k, In k (i_index (fst s)) -> In k (i_stored (fst s))) /\
  (forall id n, In (ICreate id (S (S n))) (snd s) -> In id (i_stored (fst s)) /\ In id (i_index (fst s))) /\
  i_counted (fst s) = length (i_index (fst s)).
Proof. exact index_tracks_records. Qed.
Print Assumptions C17_quota_index_tracks_records.

(* the two writes swapped (NOT the code): append, LIST, record — the code exists, its Create has returned, it is not counted *)
Theorem C17_quota_index_first_refuted :
  exists sched, let s := irun IndexFirst {| i_stored := []; i_index := [] |} [ICreate 7 0; IList 1] sched in
                snd s = [ICreate 7 2; IList 0] /\ i_stored (fst s) = [7%N] /\ i_counted (fst s) = 0.
Proof. exact index_first_refuted. Qed.
Print Assumptions C17_quota_index_first_refuted.

(* ---- the admission step is ONE storage call (SetNX, won or lost) ---- *)

(* `C17_quota_locked_never_exceeds` above is about lstep = lstep_gen false: a lost SetNX is a Conflict.  The variant that, after
   a lost SetNX, looks at the marker again (Exists) and lets the request in when the marker has gone — without taking it — is
   refuted: three requests of one client, A holds the marker, B's SetNX is lost, A finishes and releases, B's Exists finds the
   marker gone, C's SetNX succeeds; B and C are both between count and create => 3 active entries under limit 2 *)
Theorem C17_quota_recheck_refuted :
  exists sched,
    let s := run _ _ (lstep_gen true 2) ({| q_n := 0; q_lock := false |}, [l_new false; l_new false; l_new false]) sched in
    q_n (fst s) = 3 /\ map l_pc (snd s) = [LCreated; LDoneHeld; LDoneHeld].
Proof. exact quota_recheck_refuted. Qed.
Print Assumptions C17_quota_recheck_refuted.

(* the code on the same schedule: B is answered Conflict, A and C create, the limit holds *)
Theorem C17_quota_no_recheck_witness :
  let s := lrun 2 {| q_n := 0; q_lock := false |} [l_new false; l_new false; l_new false] [0; 0; 1; 1; 0; 0; 0; 1; 1; 2; 2; 2; 1; 2; 2] in
  fst s = {| q_n := 2; q_lock := false |} /\ map l_pc (snd s) = [LCreated; LBusy; LCreated].
Proof. exact quota_no_recheck_witness. Qed.
Print Assumptions C17_quota_no_recheck_witness.

(* ---- the slot is held until the connection is CLOSED ---- *)

(* `live` in C17_mapping_cap_never_exceeds counts OPEN connections: a connection whose tunnel is being closed from outside the
   copy loop (MClosing: localConn.Close() has not returned) still holds its slot.  Returning the slot before the connections are
   closed (Tunnel.Close running OnClosed first) is refuted: limit 1, the first connection is closing, a second one arrives and
   is let in — two open connections *)
Theorem C17_mapping_release_before_close_refuted :
  exists sched,
    let s := run _ _ (mstep_gen true false Current 1) ({| counter := 0; live := 0 |}, [MStart false; MStart false]) sched in
    live (fst s) = 2%Z /\ snd s = [MClosing; MLive].
Proof. exact mapping_release_before_close_refuted. Qed.
Print Assumptions C17_mapping_release_before_close_refuted.

Theorem C17_mapping_close_first_witness :
  let s := mrun Current 1 {| counter := 0; live := 0 |} [MStart false; MStart false] [0; 0; 0; 0; 1; 1; 1] in
  fst s = {| counter := 1; live := 1 |} /\ snd s = [MClosing; MRefused].
Proof. exact mapping_close_first_witness. Qed.
Print Assumptions C17_mapping_close_first_witness.

(* ---- "active" codes include the ones an activation has claimed but not yet written back as used ---- *)

(* creates of the client (serialised by the `codes` marker: one step each) and activations of its codes (under another
   client's `mappings` marker, NOT serialised with the creates) in any number and under any schedule: the active codes —
   claimed ones included, a claim can be given back — never exceed the limit *)
Theorem C17_quota_claimed_codes_count :
  forall (max base : nat) (ts : list kpc) (sched : list nat),
  base <= max -> countb k_is_claimed ts = 0 ->
  let s := krun true max {| k_active := base; k_claimed := 0 |} ts sched in
  k_active (fst s) <= max /\ k_claimed (fst s) <= k_active (fst s).
Proof. exact claim_counted_never_exceeds. Qed.
Print Assumptions C17_quota_claimed_codes_count.

(* a count that skips claimed codes (NOT the code): limit 1, one active code; its activation claims it, a create sees 0 and is
   let in — two active codes at that instant *)
Theorem C17_quota_claim_skipped_refuted :
  exists sched, let s := krun false 1 {| k_active := 1; k_claimed := 0 |} [KActivate; KCreate] sched in
                k_active (fst s) = 2 /\ snd s = [KClaimed; KCreated].
Proof. exact claim_skipped_refuted. Qed.
Print Assumptions C17_quota_claim_skipped_refuted.

Theorem C17_quota_claim_counted_witness :
  let s := krun true 1 {| k_active := 1; k_claimed := 0 |} [KActivate; KCreate; KCreate] [0; 1; 0; 2] in
  fst s = {| k_active := 1; k_claimed := 0 |} /\ snd s = [KUsed; KRefusedK; KCreated].
Proof. exact claim_counted_witness. Qed.
Print Assumptions C17_quota_claim_counted_witness.

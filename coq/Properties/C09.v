(* Properties/C09.v — C09: a waiting tunnel is routable from any node until served or expired.
   Statements only; every proof is a single `exact`.  Model: Model/Routing.v (RoutingTable of
   internal/protocol/session/tunnel/routing.go over an abstract TTL store standing for memory / Redis / hybrid
   storage).  Quantified over: every configuration c that meets the written hypotheses (the real deployments do:
   C09_deployments_meet_hypotheses, from the regenerated key layout and hybrid prefix tables), every start state,
   every record (all ten fields, any strings and integers), every node, EVERY history h of register / lookup /
   remove / tick / node-address operations by any nodes on any ids (no length bound), every post-deadline behaviour
   of the backend (keep) and every codec (enc/dec/...) — the hypotheses on external code are written out:
     dec (enc r) = Some r       (Go encoding/json on tunnel.WaitingState; exercised field by field by the tie)
   Two clocks: now = time.Now() on the nodes, bnow = the shared backend's expiry clock. *)
From Coq Require Import List NArith ZArith Bool.
Import ListNotations.
From TX Require Import Base.Val Model.RoutingConc Model.RoutingBridge Model.RoutingForward Proofs.Routing Proofs.RoutingRefine Proofs.RoutingConc Proofs.RoutingBridge Proofs.RoutingForward Proofs.SideC09 Gen.C09.
Open Scope N_scope.

(* (1) lookup_exact.  After RegisterWaitingTunnel(r) on node n1 at time T, along every history that does not
   register/remove the same id, a lookup from ANY node n2 returns exactly r with CreatedAt = T and
   ExpiresAt = T + ttl (all ten fields), as long as the node clock has not passed ExpiresAt and the backend's
   clock has not advanced by more than ttl. *)
Theorem C09_routable_from_any_node :
  forall gstr enc dec decm of_addr to_addr keep c s n1 r h n2,
  keys_disjoint c -> c_route c (wait_key c (w_tunnel r)) = true -> c_ttl c <> 0 -> w_tunnel r <> [] ->
  let r' := stamp r (now gstr s) (now gstr s + c_ttl c) in
  dec (enc r') = Some r' ->
  Forall (fun o => ~ sets_tunnel (w_tunnel r) o) h ->
  let s2 := final gstr enc dec decm of_addr to_addr keep c
                  (fst (step gstr enc dec decm of_addr to_addr keep c s (ORegister n1 r))) h in
  now gstr s2 <= now gstr s + c_ttl c -> bnow gstr s2 <= bnow gstr s + c_ttl c ->
  lookup gstr enc dec decm of_addr to_addr keep c s2 n2 (w_tunnel r) = ROk r'.
Proof. exact routable_from_any_node. Qed.
Print Assumptions C09_routable_from_any_node.

(* The statement at full strength over ALL byte strings, i.e. without the codec hypothesis.  It is NOT claimed: Go's
   encoding/json replaces bytes that are not valid UTF-8 by U+FFFD, so on JSON-backed stores dec (enc r) <> Some r for such
   records (harness stream invalid_utf8, reported).  C09_routable_from_any_node is this statement under
   dec (enc r') = Some r'; such strings cannot arrive through the JSON-decoded packets that feed startSourceBridge. *)
Definition C09_full_statement_without_codec_hypothesis : Prop :=
  forall gstr enc dec decm of_addr to_addr keep c s n1 r h n2,
  keys_disjoint c -> c_route c (wait_key c (w_tunnel r)) = true -> c_ttl c <> 0 -> w_tunnel r <> [] ->
  let r' := stamp r (now gstr s) (now gstr s + c_ttl c) in
  Forall (fun o => ~ sets_tunnel (w_tunnel r) o) h ->
  let s2 := final gstr enc dec decm of_addr to_addr keep c
                  (fst (step gstr enc dec decm of_addr to_addr keep c s (ORegister n1 r))) h in
  now gstr s2 <= now gstr s + c_ttl c -> bnow gstr s2 <= bnow gstr s + c_ttl c ->
  lookup gstr enc dec decm of_addr to_addr keep c s2 n2 (w_tunnel r) = ROk r'.

(* the same at the level of storage cells (covers a deployment WITHOUT shared cache: every node that reads the cell
   the registering node wrote - there: only that node - gets the record) *)
Theorem C09_lookup_exact_same_cell :
  forall gstr enc dec decm of_addr to_addr keep c s n1 r h n2,
  c_ttl c <> 0 -> w_tunnel r <> [] ->
  let r' := stamp r (now gstr s) (now gstr s + c_ttl c) in
  dec (enc r') = Some r' ->
  let cl := cell_of c n1 (wait_key c (w_tunnel r)) in
  cell_of c n2 (wait_key c (w_tunnel r)) = cl ->
  Forall (fun o => sets c o <> Some cl) h ->
  let s2 := final gstr enc dec decm of_addr to_addr keep c
                  (fst (step gstr enc dec decm of_addr to_addr keep c s (ORegister n1 r))) h in
  now gstr s2 <= now gstr s + c_ttl c -> clk gstr s2 cl <= clk gstr s cl + c_ttl c ->
  step gstr enc dec decm of_addr to_addr keep c s2 (OLookup n2 (w_tunnel r)) = (s2, ROk r').
Proof. exact lookup_exact. Qed.
Print Assumptions C09_lookup_exact_same_cell.

(* (1c) concurrency, at the granularity of storage calls (Model/RoutingConc.v on Base/Threads.v).  After
   RegisterWaitingTunnel(r) took effect - on ANY state, e.g. one that still holds the lapsed, unswept record of an
   earlier life of the same id - for ANY number of threads with ANY programs that do not register/remove that id
   (concurrent registrations and removals of other ids by any nodes, lookups of any id, address refreshes, SWEEPS of any
   store (memory.Storage.CleanupExpired), clock ticks) and EVERY schedule of their atomic steps: in the state reached, a
   lookup from any node returns exactly r with its stamps while ExpiresAt / the backend deadline have not passed.
   Atomic step = one RoutingTable call = one storage call (Set: encode and store as one action; the sweep: one
   critical section) - the obligations the harness checks on the real backends (streams "conc" and "sweep"). *)
Theorem C09_routable_under_every_schedule :
  forall gstr enc dec decm of_addr to_addr keep c s n1 r ls sched n2,
  keys_disjoint c -> c_route c (wait_key c (w_tunnel r)) = true -> c_ttl c <> 0 -> w_tunnel r <> [] ->
  let r' := stamp r (now gstr s) (now gstr s + c_ttl c) in
  dec (enc r') = Some r' ->
  Forall (thread_free_of (w_tunnel r)) ls ->
  let sh := fst (crun gstr enc dec decm of_addr to_addr keep false c
                      (fst (step gstr enc dec decm of_addr to_addr keep c s (ORegister n1 r))) ls sched) in
  now gstr sh <= now gstr s + c_ttl c -> bnow gstr sh <= bnow gstr s + c_ttl c ->
  lookup gstr enc dec decm of_addr to_addr keep c sh n2 (w_tunnel r) = ROk r'.
Proof. exact routable_from_any_node_all_schedules. Qed.
Print Assumptions C09_routable_under_every_schedule.

(* the same per storage cell (any deployment): threads must not set the cell the registration wrote *)
Theorem C09_routable_under_every_schedule_cell :
  forall gstr enc dec decm of_addr to_addr keep c s n1 r ls sched n2,
  c_ttl c <> 0 -> w_tunnel r <> [] ->
  let r' := stamp r (now gstr s) (now gstr s + c_ttl c) in
  dec (enc r') = Some r' ->
  let cl := cell_of c n1 (wait_key c (w_tunnel r)) in
  cell_of c n2 (wait_key c (w_tunnel r)) = cl ->
  Forall (thread_ok c cl) ls ->
  let sh := fst (crun gstr enc dec decm of_addr to_addr keep false c
                      (fst (step gstr enc dec decm of_addr to_addr keep c s (ORegister n1 r))) ls sched) in
  now gstr sh <= now gstr s + c_ttl c -> clk gstr sh cl <= clk gstr s cl + c_ttl c ->
  step gstr enc dec decm of_addr to_addr keep c sh (OLookup n2 (w_tunnel r)) = (sh, ROk r').
Proof. exact routable_all_schedules. Qed.
Print Assumptions C09_routable_under_every_schedule_cell.

(* ... and it does depend on the sweep being one critical section: a sweep that collects the lapsed keys in one section
   and deletes them in a later one loses a re-registration that lands in between (schedule scan ; register ; delete),
   while with the sweep as found every order of {sweep, register} leaves the fresh record routable. *)
Theorem C09_two_phase_sweep_refuted :
  let c := cfg_direct 30000000000 true in
  let s0 := ex_final c (fst (ex_step c (init ex_gstr) (ORegister 0 ex_rec))) [OTick 30000000001 30000000001] in
  let fresh := ROk (stamp ex_rec_b 30000000001 60000000001) in
  ex_lookup c s0 0 (w_tunnel ex_rec) = RNotFound
  /\ ex_lookup c (fst (ex_crun false c s0 ex_sweep_threads [0; 1]%nat)) 0 (w_tunnel ex_rec) = fresh
  /\ ex_lookup c (fst (ex_crun false c s0 ex_sweep_threads [1; 0]%nat)) 0 (w_tunnel ex_rec) = fresh
  /\ ex_lookup c (fst (ex_crun true c s0 ex_sweep_threads [1; 0; 0]%nat)) 0 (w_tunnel ex_rec) = fresh
  /\ ex_lookup c (fst (ex_crun true c s0 ex_sweep_threads [0; 1; 0]%nat)) 0 (w_tunnel ex_rec) = RNotFound.
Proof. exact two_phase_sweep_refuted. Qed.
Print Assumptions C09_two_phase_sweep_refuted.

(* (1d)/(2d) the statement's own words, at the level of the call sites (Model/RoutingBridge.v: startSourceBridge registers
   unless a bridge for the id is already indexed on that node; the end of the bridge lifecycle - whichever way - removes).
   "While a tunnel's source end is waiting on some node, a target connection arriving at any node resolves that tunnel
   id to the correct source node and to exactly the data that was registered": *)
Theorem C09_waiting_bridge_routable :
  forall gstr enc dec decm of_addr to_addr keep c s ix n r h n2,
  keys_disjoint c -> c_route c (wait_key c (w_tunnel r)) = true -> c_ttl c <> 0 -> w_tunnel r <> [] ->
  let r' := stamp r (now gstr s) (now gstr s + c_ttl c) in
  dec (enc r') = Some r' ->
  ix n (w_tunnel r) = false -> Forall (bwaiting n (w_tunnel r)) h ->
  let (os1, ix1) := bcalls ix (BStart n r) in
  let s2 := final gstr enc dec decm of_addr to_addr keep c
                  (final gstr enc dec decm of_addr to_addr keep c s os1) (fst (bcompile ix1 h)) in
  now gstr s2 <= now gstr s + c_ttl c -> bnow gstr s2 <= bnow gstr s + c_ttl c ->
  lookup gstr enc dec decm of_addr to_addr keep c s2 n2 (w_tunnel r) = ROk r'.
Proof. exact waiting_bridge_routable. Qed.
Print Assumptions C09_waiting_bridge_routable.

(* "After the tunnel ends ... the id no longer resolves": *)
Theorem C09_gone_after_tunnel_end :
  forall gstr enc dec decm of_addr to_addr keep c s ix n t h n2,
  keys_disjoint c -> c_route c (wait_key c t) = true -> t <> [] ->
  ix n t = true -> Forall (bquiet t) h ->
  let (os1, ix1) := bcalls ix (BEnd n t) in
  lookup gstr enc dec decm of_addr to_addr keep c
         (final gstr enc dec decm of_addr to_addr keep c
                (final gstr enc dec decm of_addr to_addr keep c s os1) (fst (bcompile ix1 h))) n2 t = RNotFound.
Proof. exact gone_after_tunnel_end. Qed.
Print Assumptions C09_gone_after_tunnel_end.

(* non-vacuity of the two: start on node 0, rejected duplicate start with other data, another tunnel's whole life on node 1,
   time passing; node 1 resolves node 0's record; node 0's lifecycle ends; gone on both nodes *)
Theorem C09_bridge_example :
  let c := cfg_hybrid true 30000000000 in
  let '(os1, ix1) := bcalls ex_ix0 (BStart 0 ex_rec) in
  let '(os2, ix2) := bcompile ix1 ex_bridge_history in
  let s2 := ex_final c (ex_final c (init ex_gstr) os1) os2 in
  Forall (bwaiting 0 (w_tunnel ex_rec)) ex_bridge_history
  /\ ix2 0%nat (w_tunnel ex_rec) = true
  /\ length os2 = 4%nat
  /\ ex_lookup c s2 1 (w_tunnel ex_rec) = ROk (stamp ex_rec 0 30000000000)
  /\ let '(os3, ix3) := bcalls ix2 (BEnd 0 (w_tunnel ex_rec)) in
     ex_lookup c (ex_final c s2 os3) 1 (w_tunnel ex_rec) = RNotFound
     /\ ex_lookup c (ex_final c s2 os3) 0 (w_tunnel ex_rec) = RNotFound.
Proof. exact ex_bridge_run. Qed.
Print Assumptions C09_bridge_example.

(* (1e) placement of connections: the model registers whatever node the target client's control connection is on
   (C09_waiting_bridge_routable has no hypothesis about it).  The variant of startSourceBridge that skips the publication
   when that control connection is on the starting node leaves a waiting tunnel unroutable from the other node: *)
Theorem C09_skip_publication_for_local_target_refuted :
  let c := cfg_hybrid true 30000000000 in
  let ctl : nat -> Z -> bool := fun n _ => Nat.eqb n 0 in
  ex_lookup c (ex_final c (init ex_gstr) (fst (bcalls ex_ix0 (BStart 0 ex_rec)))) 1 (w_tunnel ex_rec)
    = ROk (stamp ex_rec 0 30000000000)
  /\ snd (bcalls_skip_local ctl ex_ix0 (BStart 0 ex_rec)) 0%nat (w_tunnel ex_rec) = true
  /\ ex_lookup c (ex_final c (init ex_gstr) (fst (bcalls_skip_local ctl ex_ix0 (BStart 0 ex_rec)))) 1 (w_tunnel ex_rec)
    = RNotFound.
Proof. exact skip_local_target_refuted. Qed.
Print Assumptions C09_skip_publication_for_local_target_refuted.

(* (1f) refused opens.  A source-side TunnelOpen that startSourceBridge refuses (duplicate for a waiting id on the same node,
   failed open on another node) makes no routing-table call: C09_waiting_bridge_routable allows BRefused of ANY id - the waiting
   id included - on ANY node and duplicate BStart on the node.  The variant whose error path removes the id's record wipes the
   record of the tunnel that is legitimately waiting: *)
Theorem C09_cleanup_on_refusal_refuted :
  let c := cfg_hybrid true 30000000000 in
  let '(os1, ix1) := bcalls ex_ix0 (BStart 0 ex_rec) in
  let s1 := ex_final c (init ex_gstr) os1 in
  Forall (bwaiting 0 (w_tunnel ex_rec)) ex_refused_history
  /\ ex_lookup c (ex_final c s1 (fst (bcompile ix1 ex_refused_history))) 1 (w_tunnel ex_rec) = ROk (stamp ex_rec 0 30000000000)
  /\ ex_lookup c (ex_final c s1 (fst (bcalls_cleanup_on_refusal ix1 (BStart 0 ex_rec_dup)))) 1 (w_tunnel ex_rec) = RNotFound
  /\ ex_lookup c (ex_final c s1 (fst (bcalls_cleanup_on_refusal ix1 (BRefused 1 (w_tunnel ex_rec))))) 0 (w_tunnel ex_rec) = RNotFound.
Proof. exact cleanup_on_refusal_refuted. Qed.
Print Assumptions C09_cleanup_on_refusal_refuted.

(* (2e) the target node's polling lookup (lookupTunnelRouting / handleLocalBridgeWait), target arrives FIRST: it polls through
   any number of rounds in which anything may happen; the source publishes during some round; then the polling resolves at
   the latest at the first poll after the publication, with exactly the registered record ... *)
Theorem C09_poll_resolves_at_first_poll_after_publication :
  forall gstr enc dec decm of_addr to_addr keep c n1 r h1 h2 n2 pre post s i,
  keys_disjoint c -> c_route c (wait_key c (w_tunnel r)) = true -> c_ttl c <> 0 -> w_tunnel r <> [] ->
  let s0 := fold_left (fun st h => final gstr enc dec decm of_addr to_addr keep c st h) pre s in
  let s1 := final gstr enc dec decm of_addr to_addr keep c s0 h1 in
  let r' := stamp r (now gstr s1) (now gstr s1 + c_ttl c) in
  dec (enc r') = Some r' ->
  Forall (fun o => ~ sets_tunnel (w_tunnel r) o) h2 ->
  let s2 := final gstr enc dec decm of_addr to_addr keep c
                  (fst (step gstr enc dec decm of_addr to_addr keep c s1 (ORegister n1 r))) h2 in
  now gstr s2 <= now gstr s1 + c_ttl c -> bnow gstr s2 <= bnow gstr s1 + c_ttl c ->
  exists j x, poll_run gstr enc dec decm of_addr to_addr keep c s n2 (w_tunnel r)
                       (pre ++ (h1 ++ ORegister n1 r :: h2) :: post) i = Some (j, x)
              /\ (j <= i + length pre + 1)%nat /\ (j = (i + length pre + 1)%nat -> x = r').
Proof. exact poll_resolves_at_first_poll_after_publication. Qed.
Print Assumptions C09_poll_resolves_at_first_poll_after_publication.

(* ... and that poll comes at most pollMaxInterval after the previous one: the back-off (interval *= factor, capped) never
   sleeps longer than the cap, for the regenerated constants and every number of misses *)
Theorem C09_poll_interval_capped :
  forall k, poll_interval PollInitialNs PollFactor PollMaxNs k <= PollMaxNs.
Proof. exact (fun k => poll_interval_capped PollInitialNs PollFactor PollMaxNs k poll_init_le_max). Qed.
Print Assumptions C09_poll_interval_capped.

(* (2) no_stale, first form.  After Register(r), along every history in which nobody registers the id again
   (removals, lookups, ticks of BOTH clocks by any amounts, other ids: all allowed), a lookup from any node answers
   either exactly r - and then ExpiresAt has not passed - or NotFound/Expired.  No hypothesis on the backend: it
   may keep the key forever (keep, bnow arbitrary); the explicit ExpiresAt check carries the statement. *)
Theorem C09_never_stale_or_foreign :
  forall gstr enc dec decm of_addr to_addr keep c s n1 r h n2,
  keys_disjoint c -> c_route c (wait_key c (w_tunnel r)) = true -> w_tunnel r <> [] ->
  let r' := stamp r (now gstr s) (now gstr s + c_ttl c) in
  dec (enc r') = Some r' ->
  Forall (fun o => ~ writes_tunnel (w_tunnel r) o) h ->
  let s2 := final gstr enc dec decm of_addr to_addr keep c
                  (fst (step gstr enc dec decm of_addr to_addr keep c s (ORegister n1 r))) h in
  (lookup gstr enc dec decm of_addr to_addr keep c s2 n2 (w_tunnel r) = ROk r' /\ now gstr s2 <= now gstr s + c_ttl c)
  \/ lookup gstr enc dec decm of_addr to_addr keep c s2 n2 (w_tunnel r) = RNotFound
  \/ lookup gstr enc dec decm of_addr to_addr keep c s2 n2 (w_tunnel r) = RExpired.
Proof. exact never_stale_or_foreign. Qed.
Print Assumptions C09_never_stale_or_foreign.

(* (2) no_stale after the waiting period *)
Theorem C09_gone_after_ttl :
  forall gstr enc dec decm of_addr to_addr keep c s n1 r h n2,
  keys_disjoint c -> c_route c (wait_key c (w_tunnel r)) = true -> w_tunnel r <> [] ->
  let r' := stamp r (now gstr s) (now gstr s + c_ttl c) in
  dec (enc r') = Some r' ->
  Forall (fun o => ~ writes_tunnel (w_tunnel r) o) h ->
  let s2 := final gstr enc dec decm of_addr to_addr keep c
                  (fst (step gstr enc dec decm of_addr to_addr keep c s (ORegister n1 r))) h in
  now gstr s + c_ttl c < now gstr s2 ->
  lookup gstr enc dec decm of_addr to_addr keep c s2 n2 (w_tunnel r) = RNotFound
  \/ lookup gstr enc dec decm of_addr to_addr keep c s2 n2 (w_tunnel r) = RExpired.
Proof. exact gone_after_ttl. Qed.
Print Assumptions C09_gone_after_ttl.

(* (2) no_stale after RemoveWaitingTunnel by any node, until somebody registers the id again *)
Theorem C09_gone_after_remove :
  forall gstr enc dec decm of_addr to_addr keep c s n1 t h n2,
  keys_disjoint c -> c_route c (wait_key c t) = true -> t <> [] ->
  Forall (fun o => ~ writes_tunnel t o) h ->
  lookup gstr enc dec decm of_addr to_addr keep c
         (final gstr enc dec decm of_addr to_addr keep c
                (fst (step gstr enc dec decm of_addr to_addr keep c s (ORemove n1 t))) h) n2 t = RNotFound.
Proof. exact gone_after_remove. Qed.
Print Assumptions C09_gone_after_remove.

(* whatever is stored, a lookup never hands out a record whose ExpiresAt has passed, and a successful lookup changes nothing *)
Theorem C09_lookup_never_returns_expired :
  forall gstr enc dec decm of_addr to_addr keep c s n t s' r,
  step gstr enc dec decm of_addr to_addr keep c s (OLookup n t) = (s', ROk r) ->
  now gstr s <= w_expires r /\ s' = s.
Proof. exact lookup_ok_not_expired. Qed.
Print Assumptions C09_lookup_never_returns_expired.

(* (3) isolation: operations that name other tunnel ids, and node-address operations, never change what a lookup
   of t answers (any number of them, any nodes; time standing still) *)
Theorem C09_other_ids_do_not_interfere :
  forall gstr enc dec decm of_addr to_addr keep c n t h s,
  keys_disjoint c ->
  Forall (fun o => ~ mentions_tunnel t o /\ is_tick o = false) h ->
  lookup gstr enc dec decm of_addr to_addr keep c (final gstr enc dec decm of_addr to_addr keep c s h) n t
  = lookup gstr enc dec decm of_addr to_addr keep c s n t.
Proof. exact other_ids_do_not_interfere. Qed.
Print Assumptions C09_other_ids_do_not_interfere.

(* (3b) keep-alive of the node address a waiting tunnel resolves to.  After RegisterNodeAddress(id, a) on node n0, along
   EVERY history in which each RegisterNodeAddress on that key re-registers a before the remaining lifetime has run
   out on the backend's clock (every registration restarts NodeAddressTTL) and nobody else sets the key - any other
   operations by any nodes in between - GetNodeAddress(id) from every node reading the same cell returns a. *)
Theorem C09_node_address_kept_alive :
  forall gstr enc dec decm of_addr to_addr keep c s n0 id a h n2,
  (forall x, to_addr (of_addr x) = x) -> c_addr_ttl c <> 0 -> a <> [] ->
  let cl := cell_of c n0 (addr_key c id) in
  cell_of c n2 (addr_key c id) = cl ->
  kept_alive c cl a (c_addr_ttl c) h ->
  snd (step gstr enc dec decm of_addr to_addr keep c
            (final gstr enc dec decm of_addr to_addr keep c
                   (fst (step gstr enc dec decm of_addr to_addr keep c s (ORegAddr n0 id a))) h)
            (OGetAddr n2 id)) = RAddr a.
Proof. exact addr_kept_alive. Qed.
Print Assumptions C09_node_address_kept_alive.

(* the server's refresh loop, for ANY uptime: k rounds of { the refresh interval passes; register the same address again }
   (k unbounded) and then any wait within one lifetime: the address resolves.  The real interval (1 h, regenerated from
   components_session.go) fits twice into the real NodeAddressTTL: Proofs/SideC09.v refresh_inside_address_ttl. *)
Theorem C09_refreshed_address_resolves :
  forall gstr enc dec decm of_addr to_addr keep c s n id a dn db k tail_n tail_b n2,
  (forall x, to_addr (of_addr x) = x) -> c_addr_ttl c <> 0 -> a <> [] ->
  let cl := cell_of c n (addr_key c id) in
  cell_of c n2 (addr_key c id) = cl ->
  cl_adv cl dn db <= c_addr_ttl c -> cl_adv cl tail_n tail_b <= c_addr_ttl c ->
  snd (step gstr enc dec decm of_addr to_addr keep c
            (final gstr enc dec decm of_addr to_addr keep c
                   (fst (step gstr enc dec decm of_addr to_addr keep c s (ORegAddr n id a)))
                   (periodic_refresh n id a dn db k ++ [OTick tail_n tail_b]))
            (OGetAddr n2 id)) = RAddr a.
Proof. exact refreshed_address_resolves. Qed.
Print Assumptions C09_refreshed_address_resolves.

(* the real numbers: hourly refresh, 24 h lifetime, clustered deployment - after 1000 refreshes (41 days) and 23 h 59 min
   more the address registered by node 0 resolves on node 1; without the refreshes it is gone after 24 h *)
Theorem C09_refresh_example :
  let c := cfg_hybrid true 0 in
  let id := [110;111;100;101;45;48] in let a := [49;48;46;48;46;48;46;49] in
  let s1 := fst (ex_step c (init ex_gstr) (ORegAddr 0 id a)) in
  snd (ex_step c (ex_final c s1 (periodic_refresh 0 id a AddrRefreshIntervalNs AddrRefreshIntervalNs 1000
                                   ++ [OTick 86340000000000 86340000000000])) (OGetAddr 1 id)) = RAddr a
  /\ snd (ex_step c (ex_final c s1 [OTick 86400000000001 86400000000001]) (OGetAddr 1 id)) = RAddrNotFound.
Proof. exact ex_refresh. Qed.
Print Assumptions C09_refresh_example.

(* (3c) the last hop: where a forward is dialled.  forward_now = what forwardToSourceNode + CreateDedicatedConnection do when
   a target connection for the tunnel arrives: look the tunnel up, read the source node's address from the routing table
   AT THAT MOMENT, dial it.  Node n0 registers address a for node id (whatever id's address was before, whatever
   lookups / address reads / forwards any node made before - they are ordinary operations of the histories); a tunnel
   whose SourceNodeID is id is registered later; the address is kept alive and the tunnel not set again.  Then the
   target connection arriving on ANY node is forwarded to (id, a): the address registered now, never an earlier one. *)
Theorem C09_forward_dials_current_address :
  forall gstr enc dec decm of_addr to_addr keep c s n0 id a h1 n1 r h2 n2,
  (forall x, to_addr (of_addr x) = x) ->
  keys_disjoint c -> c_route c (wait_key c (w_tunnel r)) = true -> c_route c (addr_key c id) = true ->
  c_ttl c <> 0 -> c_addr_ttl c <> 0 -> w_tunnel r <> [] -> a <> [] -> w_node r = id ->
  let sa := fst (step gstr enc dec decm of_addr to_addr keep c s (ORegAddr n0 id a)) in
  let s1 := final gstr enc dec decm of_addr to_addr keep c sa h1 in
  let r' := stamp r (now gstr s1) (now gstr s1 + c_ttl c) in
  dec (enc r') = Some r' ->
  kept_alive c (cell_of c n0 (addr_key c id)) a (c_addr_ttl c) (h1 ++ ORegister n1 r :: h2) ->
  Forall (fun o => ~ sets_tunnel (w_tunnel r) o) h2 ->
  let s2 := final gstr enc dec decm of_addr to_addr keep c
                  (fst (step gstr enc dec decm of_addr to_addr keep c s1 (ORegister n1 r))) h2 in
  now gstr s2 <= now gstr s1 + c_ttl c -> bnow gstr s2 <= bnow gstr s1 + c_ttl c ->
  forward_now gstr enc dec decm of_addr to_addr keep c s2 n2 (w_tunnel r) = FDial id a.
Proof. exact forward_dials_current_address. Qed.
Print Assumptions C09_forward_dials_current_address.

(* the variant that remembers nodeID -> address on the forwarding node and asks the routing table only on a miss dials the
   EARLIER address after the node re-registered (same history, memo off: address 2; memo on: address 1, although the
   routing table answers address 2 at that moment) *)
Theorem C09_memo_forward_refuted :
  let c := cfg_hybrid true 30000000000 in
  snd (ex_frun false c (init ex_gstr, ex_memo0) ex_forward_history)
  = [None; None; Some (FDial ex_nodeid ex_addr1); None; None; None; None; Some (FDial ex_nodeid ex_addr2)]
  /\ snd (ex_frun true c (init ex_gstr, ex_memo0) ex_forward_history)
  = [None; None; Some (FDial ex_nodeid ex_addr1); None; None; None; None; Some (FDial ex_nodeid ex_addr1)]
  /\ ex_forward_now c (fst (fst (ex_frun true c (init ex_gstr, ex_memo0) ex_forward_history))) 1 (w_tunnel ex_rec2)
     = FDial ex_nodeid ex_addr2.
Proof. exact memo_forward_refuted. Qed.
Print Assumptions C09_memo_forward_refuted.

(* ... and a forwarding node must not keep its own verdict about an id: the variant that refuses ids in the node's closed-tunnel
   tracker (an earlier life of the id was forwarded here and ended) leaves a re-registered, waiting id unroutable on exactly
   that node, while forward_now (the routing table is the authority) and every other node dial it *)
Theorem C09_closed_tracker_guard_refuted :
  let c := cfg_hybrid true 30000000000 in
  let s := ex_final c (init ex_gstr) [ORegAddr 0 ex_nodeid ex_addr1; ORegister 0 ex_rec; OLookup 1 (w_tunnel ex_rec);
                                      ORemove 0 (w_tunnel ex_rec); OTick 1000 1000; ORegister 0 ex_rec] in
  let closed : nat -> str -> bool := fun n t => Nat.eqb n 1 && list_eqb t (w_tunnel ex_rec) in
  ex_forward_now c s 1 (w_tunnel ex_rec) = FDial ex_nodeid ex_addr1
  /\ forward_with_closed_guard ex_gstr ex_enc ex_dec ex_dec ex_of_addr ex_to_addr ex_keep closed c s 1 (w_tunnel ex_rec) = FNoRoute
  /\ forward_with_closed_guard ex_gstr ex_enc ex_dec ex_dec ex_of_addr ex_to_addr ex_keep closed c s 2 (w_tunnel ex_rec)
     = FDial ex_nodeid ex_addr1.
Proof. exact closed_tracker_guard_refuted. Qed.
Print Assumptions C09_closed_tracker_guard_refuted.

(* (5) single-call failures of the shared tier (Redis down for one command), at EVERY storage call position.
   A failed call is reported to the caller and writes nothing anywhere (only RemoveWaitingTunnel swallows its failed Delete): *)
Theorem C09_fault_reported_nothing_diverted :
  forall gstr enc dec decm of_addr to_addr keep c s o, hits_shared c o = true ->
  qstep gstr enc dec decm of_addr to_addr keep false c s (QFault o)
  = (s, match o with ORemove _ _ => QR RUnit | _ => QStorageErr end).
Proof. exact fault_reported_nothing_diverted. Qed.
Print Assumptions C09_fault_reported_nothing_diverted.

(* "registered => routable from ANY node, or the registration reported an error" - faults at any later positions *)
Theorem C09_registered_or_reported :
  forall gstr enc dec decm of_addr to_addr keep c s n1 r x h n2,
  keys_disjoint c -> c_route c (wait_key c (w_tunnel r)) = true -> c_ttl c <> 0 -> w_tunnel r <> [] ->
  let r' := stamp r (now gstr s) (now gstr s + c_ttl c) in
  dec (enc r') = Some r' ->
  x = QOk (ORegister n1 r) \/ x = QFault (ORegister n1 r) ->
  Forall (q_no_set (w_tunnel r)) h ->
  qstep gstr enc dec decm of_addr to_addr keep false c s x = (s, QStorageErr)
  \/ (snd (qstep gstr enc dec decm of_addr to_addr keep false c s x) = QR (RReg r') /\
      let s2 := qfinal gstr enc dec decm of_addr to_addr keep false c
                       (fst (qstep gstr enc dec decm of_addr to_addr keep false c s x)) h in
      (now gstr s2 <= now gstr s + c_ttl c -> bnow gstr s2 <= bnow gstr s + c_ttl c ->
       lookup gstr enc dec decm of_addr to_addr keep c s2 n2 (w_tunnel r) = ROk r')).
Proof. exact registered_or_reported. Qed.
Print Assumptions C09_registered_or_reported.

(* "ended => gone everywhere" - after a Remove that took effect, faults at any later positions, no registration that succeeds *)
Theorem C09_gone_after_end_despite_faults :
  forall gstr enc dec decm of_addr to_addr keep c s n1 t h n2,
  keys_disjoint c -> c_route c (wait_key c t) = true -> t <> [] ->
  Forall (q_no_write t) h ->
  lookup gstr enc dec decm of_addr to_addr keep c
         (qfinal gstr enc dec decm of_addr to_addr keep false c
                 (fst (step gstr enc dec decm of_addr to_addr keep c s (ORemove n1 t))) h) n2 t = RNotFound.
Proof. exact gone_after_end_despite_faults. Qed.
Print Assumptions C09_gone_after_end_despite_faults.

(* the "degraded mode" variant (failed shared Set diverted to the node-local cache and reported as success; shared reads
   fall back to the local cache; Delete only touches the shared tier) breaks both: fault during Register on node 0 ->
   success reported but node 1 cannot resolve; tunnel ends -> node 0 still resolves the ended tunnel *)
Theorem C09_local_fallback_refuted :
  let c := cfg_hybrid true 30000000000 in
  snd (ex_qrun false c (init ex_gstr) ex_fault_history)
  = [QStorageErr; QR RNotFound; QR RNotFound; QR RUnit; QR RNotFound; QR RNotFound]
  /\ snd (ex_qrun true c (init ex_gstr) ex_fault_history)
  = [QR (RReg (stamp ex_rec 0 30000000000)); QR RNotFound; QR (ROk (stamp ex_rec 0 30000000000)); QR RUnit;
     QR (ROk (stamp ex_rec 0 30000000000)); QR RNotFound].
Proof. exact local_fallback_refuted. Qed.
Print Assumptions C09_local_fallback_refuted.

(* a model fact, not a finding (the property does not quantify over storage faults): when the shared tier fails during
   RemoveWaitingTunnel itself, the failed Delete is logged and nil is returned (routing.go: the TTL cleans up), so the record
   stays and resolves until ExpiresAt - exactly, not a nanosecond longer.  C09_gone_after_end_despite_faults is about a Remove
   that took effect, with faults at OTHER positions. *)
Theorem C09_faulted_remove_leaves_record_until_expiry :
  let c := cfg_hybrid true 30000000000 in
  snd (ex_qrun false c (init ex_gstr)
         [QOk (ORegister 0 ex_rec); QFault (ORemove 0 (w_tunnel ex_rec)); QOk (OLookup 1 (w_tunnel ex_rec));
          QOk (OTick 30000000000 0); QOk (OLookup 1 (w_tunnel ex_rec)); QOk (OTick 1 0); QOk (OLookup 1 (w_tunnel ex_rec))])
  = [QR (RReg (stamp ex_rec 0 30000000000)); QR RUnit; QR (ROk (stamp ex_rec 0 30000000000)); QR RUnit;
     QR (ROk (stamp ex_rec 0 30000000000)); QR RUnit; QR RExpired].
Proof. exact faulted_remove_leaves_record_until_expiry. Qed.
Print Assumptions C09_faulted_remove_leaves_record_until_expiry.

(* (4) refinement: from the empty store, for every history whose registered records satisfy the codec and in which
   the backend clock never runs ahead of the node clock (db <= dn in every tick: keys are not expired early), the
   answers are those of the specification map  tunnel id -> record with expiry  (Model/Routing.v spec_step) *)
Theorem C09_refines_expiring_map :
  forall gstr enc dec decm of_addr to_addr keep (valid : waiting -> Prop),
  (forall r, valid r -> dec (enc r) = Some r) -> (forall r a b, valid r -> valid (stamp r a b)) ->
  forall c, keys_disjoint c -> (forall t, c_route c (wait_key c t) = true) -> c_ttl c <> 0 ->
  forall h, Forall (op_ok valid) h ->
  map proj (snd (run gstr enc dec decm of_addr to_addr keep c (init gstr) h)) = snd (spec_run (c_ttl c) sp_init h).
Proof. exact refines_spec. Qed.
Print Assumptions C09_refines_expiring_map.

(* the real deployments meet the hypotheses on c: all tables on one store, and hybrid.DefaultConfig() with a
   shared cache - for EVERY tunnel id and node id (regenerated key layout and prefix tables, Proofs/SideC09.v).
   Without a shared cache the hybrid storage routes the waiting keys to the node-local cache (= false). *)
Theorem C09_deployments_meet_hypotheses :
  (forall ttl ident, keys_disjoint (cfg_direct ttl ident) /\ (forall k, c_route (cfg_direct ttl ident) k = true)
                     /\ c_ttl (cfg_direct ttl ident) <> 0)
  /\ (forall hs ttl, keys_disjoint (cfg_hybrid hs ttl)
        /\ (forall t, c_route (cfg_hybrid hs ttl) (wait_key (cfg_hybrid hs ttl) t) = hs)
        /\ (forall id, c_route (cfg_hybrid hs ttl) (addr_key (cfg_hybrid hs ttl) id) = hs)
        /\ (forall t, hybrid_pure_shared HybridSharedPersistent HybridShared (wait_key (cfg_hybrid hs ttl) t) = true)
        /\ c_ttl (cfg_hybrid hs ttl) <> 0).
Proof. exact (conj direct_meets hybrid_meets). Qed.
Print Assumptions C09_deployments_meet_hypotheses.

(* "from any node" needs the shared cache: with hybrid storage and no shared cache a tunnel registered on node 0
   resolves on node 0 and NOT on node 1 (the single-node default deployment has only node 0) *)
Theorem C09_unshared_cross_node_refuted :
  let c := cfg_hybrid false 30000000000 in
  let s1 := fst (ex_step c (init ex_gstr) (ORegister 0 ex_rec)) in
  ex_lookup c s1 0 (w_tunnel ex_rec) = ROk (stamp ex_rec 0 30000000000)
  /\ ex_lookup c s1 1 (w_tunnel ex_rec) = RNotFound.
Proof. exact ex_unshared_cross_node. Qed.
Print Assumptions C09_unshared_cross_node_refuted.

(* Atomicity.  Every statement above takes one RoutingTable call as one atomic step.  LookupWaitingTunnel is Get, then
   (if the record is expired) Delete.  With the repaired code (c_del_expired = false) a lookup writes nothing, so no
   interleaving of its storage calls with other nodes' calls can make it destroy a registration: *)
Theorem C09_repaired_lookup_is_read_only :
  forall gstr enc dec decm of_addr to_addr keep c s n t,
  c_del_expired c = false -> fst (step gstr enc dec decm of_addr to_addr keep c s (OLookup n t)) = s.
Proof. exact lookup_read_only. Qed.
Print Assumptions C09_repaired_lookup_is_read_only.

(* ... whereas on the tree as found (c_del_expired = true) the split execution loses a fresh registration: node 1 reads
   the expired first registration, node 0 registers the id again, node 1's Delete removes the fresh record - it does not
   resolve although both atomic orders of the same two calls leave it routable.  Reproduced on the real code by the
   harness (known finding expired-lookup-deletes-fresh-registration; fixes/C09-lookup-does-not-delete.diff). *)
Theorem C09_found_split_lookup_refuted :
  let c := race_cfg true in
  let s0 := ex_final c (fst (ex_step c (init ex_gstr) (ORegister 0 ex_rec))) [OTick 30000000001 0] in
  snd (ex_step c s0 (OLookup 1 (w_tunnel ex_rec))) = RExpired
  /\ let s1 := fst (ex_step c s0 (ORegister 0 ex_rec)) in
     ex_lookup c s1 1 (w_tunnel ex_rec) = ROk (stamp ex_rec 30000000001 60000000001)
     /\ ex_lookup c (st_del ex_gstr s1 race_cell) 1 (w_tunnel ex_rec) = RNotFound
  /\ ex_lookup c (ex_final c s0 [OLookup 1 (w_tunnel ex_rec); ORegister 0 ex_rec]) 1 (w_tunnel ex_rec)
     = ROk (stamp ex_rec 30000000001 60000000001)
  /\ ex_lookup c (ex_final c s0 [ORegister 0 ex_rec; OLookup 1 (w_tunnel ex_rec)]) 1 (w_tunnel ex_rec)
     = ROk (stamp ex_rec 30000000001 60000000001).
Proof. exact ex_split_lookup_loses_fresh_registration. Qed.
Print Assumptions C09_found_split_lookup_refuted.

(* non-vacuity: a concrete codec satisfies the codec hypothesis, and a concrete non-trivial history of the
   clustered deployment (other ids, node addresses, both clocks ticking) meets the hypotheses of (1)/(2): the record
   registered on node 0 resolves on node 1 with all ten fields up to the last nanosecond of its waiting period,
   is Expired one nanosecond later, NotFound once the backend dropped it or a third node removed it *)
Theorem C09_premises_satisfiable :
  (forall r, ex_dec (ex_enc r) = Some r) /\
  let c := cfg_hybrid true 30000000000 in
  let s1 := fst (ex_step c (init ex_gstr) (ORegister 0 ex_rec)) in
  let s2 := ex_final c s1 ex_history in
  Forall (fun o => ~ sets_tunnel (w_tunnel ex_rec) o) ex_history
  /\ now _ s2 = 29999999000 /\ bnow _ s2 = 29999998900
  /\ ex_lookup c s2 1 (w_tunnel ex_rec) = ROk (stamp ex_rec 0 30000000000)
  /\ ex_lookup c (ex_final c s2 [OTick 1000 0]) 1 (w_tunnel ex_rec) = ROk (stamp ex_rec 0 30000000000)
  /\ ex_lookup c (ex_final c s2 [OTick 1001 0]) 1 (w_tunnel ex_rec) = RExpired
  /\ ex_lookup c (ex_final c s2 [OTick 1001 0; OLookup 2 (w_tunnel ex_rec)]) 1 (w_tunnel ex_rec)
     = (if LookupDeletesExpired then RNotFound else RExpired)
  /\ ex_lookup c (ex_final c s2 [OTick 0 1101]) 1 (w_tunnel ex_rec) = RNotFound
  /\ ex_lookup c (ex_final c s2 [ORemove 2 (w_tunnel ex_rec)]) 1 (w_tunnel ex_rec) = RNotFound
  /\ snd (ex_step c s2 (OGetAddr 1 [110;111;100;101;45;48])) = RAddr [49;48;46;48;46;48;46;49].
Proof. exact (conj ex_codec ex_run). Qed.
Print Assumptions C09_premises_satisfiable.

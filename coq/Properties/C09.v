From Coq Require Import List NArith ZArith.
From TX Require Import Model.Routing Proofs.Routing Proofs.SideC09 Gen.C09.
Theorem C09_lookup_never_returns_expired :
  forall gstr enc dec decm of_addr to_addr keep c s n t s' r,
  step gstr enc dec decm of_addr to_addr keep c s (OLookup n t) = (s', ROk r) -> (now _ s <= w_expires r)%N /\ s' = s.
Proof. exact lookup_ok_not_expired. Qed.
Print Assumptions C09_lookup_never_returns_expired.

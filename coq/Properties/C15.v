(* Properties/C15.v — C15: generated identifiers are unique among live identifiers.
   Model: Model/IdGen.v (one thread step = one storage action).  Quantified over ANY number of callers /
   generator instances on one store, ANY candidate streams (adversarial: every candidate may collide),
   ANY pattern of failing storage calls, ANY ids taken beforehand, and ANY schedule. *)
From TX Require Import Model.IdGen Proofs.IdGen Proofs.SideC15 Gen.C15.

(* In every reachable state:
   (1) the ids currently held (returned and not released), over all callers, are pairwise distinct;
   (2) each of them is marked in the store;
   (3) every marker in the store belongs to an id taken beforehand or to a held id — a failed or exhausted
       generation leaves nothing behind (clean exhaustion), a release removes exactly its marker;
   (4) an id taken beforehand stays marked and is never handed out. *)
Theorem C15_unique_live_all_schedules :
  forall (pre : markers) (ts : list gen) (sched : list nat),
  (forall g, In g ts -> held g = []) ->
  let s := grun MaxAttempts pre ts sched in
  NoDup (all_held (snd s)) /\
  (forall i, In i (all_held (snd s)) -> fst s i = true) /\
  (forall i, fst s i = true -> pre i = true \/ In i (all_held (snd s))) /\
  (forall i, pre i = true -> fst s i = true /\ ~ In i (all_held (snd s))).
Proof. intros pre ts sched H. exact (unique_live_all_schedules MaxAttempts pre ts sched H). Qed.
Print Assumptions C15_unique_live_all_schedules.

(* the node-id allocator is the same loop with the fixed candidate list node-0001..node-1000 and as many attempts as the range has
   slots (both regenerated from the code): the four clauses above hold for it as well, for ANY set of slots held by other live nodes
   (pre), any number of allocators and any schedule of their SetNX / Delete calls — in particular an allocation that finds the range
   full, and a Release after it, leave the store exactly as it was (clause 3) and never touch a live node's slot (clause 4).
   (Corr/C15.check_node replays allocate / Release histories of the real NodeIDAllocator on exactly this instance.) *)
Theorem C15_node_ids_unique_all_schedules :
  forall (pre : markers) (ts : list gen) (sched : list nat),
  (forall g, In g ts -> held g = []) ->
  let s := grun (N.to_nat (NodeIDMax - NodeIDMin + 1)) pre ts sched in
  NoDup (all_held (snd s)) /\
  (forall i, In i (all_held (snd s)) -> fst s i = true) /\
  (forall i, fst s i = true -> pre i = true \/ In i (all_held (snd s))) /\
  (forall i, pre i = true -> fst s i = true /\ ~ In i (all_held (snd s))).
Proof. intros pre ts sched H. exact (unique_live_all_schedules (N.to_nat (NodeIDMax - NodeIDMin + 1)) pre ts sched H). Qed.
Print Assumptions C15_node_ids_unique_all_schedules.

(* the non-atomic fallback (a store WITHOUT set-if-absent) is only safe within one generator instance:
   two instances, each with its own mutex, hand out the same id.  No shipped store takes this branch
   (side condition shipped_store_is_atomic); recorded as a refuted statement about that branch. *)
Theorem C15_fallback_two_instances_refuted :
  exists sched,
    let s := run _ _ fstep ({| f_marks := fun _ => false; f_locks := fun _ => false |},
                            [ {| f_inst := 0; f_cand := 7%N; f_faults := []; f_pc := FIdle |};
                              {| f_inst := 1; f_cand := 7%N; f_faults := []; f_pc := FIdle |} ]) sched in
    map f_pc (snd s) = [FDone 7%N; FDone 7%N].
Proof. exact fallback_two_instances_refuted. Qed.
Print Assumptions C15_fallback_two_instances_refuted.

(* ... and within ONE generator instance (one mutex) the fallback is safe for any number of callers, any
   candidates, ANY pattern of failing Exists/Set calls (a failed call abandons the attempt) and any schedule at
   Exists/Set granularity: no id is handed out twice *)
Theorem C15_fallback_one_instance_unique :
  forall (cands : list (id * list bool)) (sched : list nat),
  let s := run _ _ fstep ({| f_marks := fun _ => false; f_locks := fun _ => false |},
                          map (fun c => {| f_inst := 0; f_cand := fst c; f_faults := snd c; f_pc := FIdle |}) cands) sched in
  NoDup (flat_map f_done (snd s)).
Proof. exact fallback_one_instance_unique. Qed.
Print Assumptions C15_fallback_one_instance_unique.

(* ... whereas treating a failing Exists as "not taken" hands a live id to a second caller of the same instance *)
Theorem C15_fallback_lenient_exists_refuted :
  exists sched,
    let s := run _ _ fstep_lenient ({| f_marks := fun _ => false; f_locks := fun _ => false |},
                            [ {| f_inst := 0; f_cand := 7%N; f_faults := []; f_pc := FIdle |};
                              {| f_inst := 0; f_cand := 7%N; f_faults := [true]; f_pc := FIdle |} ]) sched in
    map f_pc (snd s) = [FDone 7%N; FDone 7%N].
Proof. exact fallback_lenient_exists_refuted. Qed.
Print Assumptions C15_fallback_lenient_exists_refuted.

(* UUID-based generators (connection / tunnel / mapping-instance ids): for ANY pattern of failing entropy draws the
   ids handed out are pairwise distinct, provided the successful draws are (the 122-bit randomness assumption,
   measured by the birthday run of the correspondence) — the fallback draw is really used ... *)
Theorem C15_uuid_unique_any_entropy_faults :
  forall (n : nat) (draws : list (option id)), NoDup (somes draws) -> NoDup (ugen false n draws).
Proof. exact ugen_unique. Qed.
Print Assumptions C15_uuid_unique_any_entropy_faults.

(* ... whereas a fallback whose result is dropped hands out the nil UUID twice *)
Theorem C15_uuid_dropped_fallback_refuted :
  exists draws, NoDup (somes draws) /\ ~ NoDup (ugen true 2 draws).
Proof. exact ugen_shadow_refuted. Qed.
Print Assumptions C15_uuid_dropped_fallback_refuted.

(* the node-id lease: with the heartbeat period and the lease lifetime regenerated from the code (side condition
   heartbeat_within_lease) the slot marker of a living holder is in the store at every second, for ever — so the uniqueness
   theorem above (which needs held ids to stay marked) applies to node ids for the whole life of the node ... *)
Theorem C15_node_lease_never_lapses :
  forall n : nat, marker_live NodeLockTTLSeconds (lease true NodeHeartbeatSeconds n) = true.
Proof. intros n. exact (lease_never_lapses NodeHeartbeatSeconds NodeLockTTLSeconds n (proj1 heartbeat_within_lease) (proj2 heartbeat_within_lease)). Qed.
Print Assumptions C15_node_lease_never_lapses.

(* ... whereas a holder whose heartbeat does not run loses its slot after one lease lifetime *)
Theorem C15_node_lease_without_heartbeat_refuted :
  marker_live NodeLockTTLSeconds (lease false 30 NodeLockTTLSeconds) = false.
Proof. exact (lease_without_heartbeat_lapses NodeLockTTLSeconds). Qed.
Print Assumptions C15_node_lease_without_heartbeat_refuted.

(* non-vacuity: concrete callers satisfy the hypothesis *)
Theorem C15_premises_satisfiable :
  forall g, In g [init_gen 100 [OpGen; OpRel; OpGen] [5;5;6]%N []; init_gen 100 [OpGen] [5;6]%N [true]] -> held g = [].
Proof. exact gen_premises. Qed.
Print Assumptions C15_premises_satisfiable.

(* Properties/C05.v — C05: hostile bytes cannot crash the server or make it allocate without bound.
   Model: Model/Framing.v (decoder) + Model/Hostile.v (allocation trace, dispatcher). The clauses
   "never panics" and "real allocation" are runtime facts checked only by the harness (partial). *)
From TX Require Import Model.Hostile Proofs.Framing Proofs.Hostile Proofs.SideC05 Gen.C05.

(* (1) totality / no spin: for EVERY byte string and chunk oracle the reader returns a finite list of
   packets ended by an error or clean end of stream — it equals the oracle-free parser, and the
   parser never runs out of its fuel |s|+1 (each iteration consumes at least one byte). *)
Theorem C05_total_decode :
  forall inflate json_norm (s : list byte) (cuts : list nat),
  read_stream current_variant MaxPacketBodySize inflate json_norm s cuts
    = parse_stream current_variant MaxPacketBodySize inflate json_norm s
  /\ ~ In (PErr EFuel 0) (parse_stream current_variant MaxPacketBodySize inflate json_norm s).
Proof.
  intros inflate json_norm s cuts.
  exact (conj (read_stream_is_parse_stream MaxPacketBodySize id_deflate inflate json_norm s cuts)
              (parse_all_no_fuel MaxPacketBodySize id_deflate inflate json_norm (S (length s)) s (Nat.lt_succ_diag_r _))).
Qed.
Print Assumptions C05_total_decode.

(* (2) bounded allocation: every buffer filled while decoding ANY byte string is at most
   MaxPacketBodySize+1 bytes, whatever the gzip inverse of a body is (its size is unconstrained) *)
Theorem C05_alloc_bounded :
  forall inflate json_norm fuel (s : list byte),
  Forall (fun a => (a <= MaxPacketBodySize + 1)%N)
         (alloc_all current_variant MaxPacketBodySize inflate fuel json_norm s).
Proof.
  intros inflate json_norm fuel s.
  exact (alloc_all_bounded MaxPacketBodySize inflate json_norm fuel s max_body_at_least_header).
Qed.
Print Assumptions C05_alloc_bounded.

(* (2') a payload handed to the dispatcher is never larger than the limit, compressed or not *)
Theorem C05_payload_bounded :
  forall inflate json_norm,
  (forall x y, json_norm x = Some y -> (lenN y <= MaxPacketBodySize)%N) ->
  forall s ty b c s',
  parse_packet current_variant MaxPacketBodySize inflate json_norm s = (POk ty b c, s') ->
  (lenN b <= MaxPacketBodySize)%N.
Proof.
  intros inflate json_norm Hj s ty b c s'.
  exact (payload_bounded MaxPacketBodySize inflate json_norm s ty b c s' Hj).
Qed.
Print Assumptions C05_payload_bounded.

(* (3) the dispatcher maps every type byte to exactly one handler class or "unhandled" *)
Theorem C05_dispatch_total :
  forall ty,
  match dispatch ty with
  | HCommand => is_json_cmd ty = true
  | HHandshake => is_json_cmd ty = false /\ base_ty ty = 1%N
  | HTunnelOpen => is_json_cmd ty = false /\ base_ty ty = 32%N
  | HHeartbeat => is_json_cmd ty = false /\ is_heartbeat ty = true
  | HUnhandled => is_json_cmd ty = false /\ base_ty ty <> 1%N /\ base_ty ty <> 32%N /\ is_heartbeat ty = false
  end.
Proof. exact dispatch_cases. Qed.
Print Assumptions C05_dispatch_total.

(* the defect of the pinned tree (repaired by a fix: commit): unbounded inflate *)
Theorem C05_pinned_unbounded_inflate_refuted :
  exists (inflate : list byte -> option (list byte)) s,
    ~ Forall (fun a => (a <= 16777216 + 1)%N) (alloc_packet pinned_variant 16777216 inflate s).
Proof. exact pinned_unbounded_inflate_refuted. Qed.
Print Assumptions C05_pinned_unbounded_inflate_refuted.

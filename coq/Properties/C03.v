(* Properties/C03.v — C03: only a proven key holder is ever authenticated as a client.
   Statements only; every proof is a single `exact`.  Model: Model/Auth.v (current_variant = the code with the
   two repairs of /verif/fixes/C03-*.diff; pinned_variant = the tree as found).  MaxFailures / PermanentBanAt
   are the values regenerated from internal/security on every run.  hmac is universally quantified: no
   cryptographic assumption is made, "a correct keyed response" is literally resp = hmac secret challenge.
   Histories are arbitrary lists of events: handshake messages (any fields, malformed payloads) on any number
   of connections, interleaved with ban / unban / blacklist / expiry / deletion / re-keying / registration /
   rate-limit / close / open events. *)
From Coq Require Import List NArith.
From TX Require Import Model.Auth Proofs.Auth Proofs.AuthNonce Proofs.SideC03 Gen.C03.
Import ListNotations.
Local Open Scope N_scope.

(* (1) step form: whenever an event makes connection k authenticated as client x (it was not before), the event is a
   handshake message on that same connection k, from an address that is neither banned nor blacklisted, and
   either the server just issued x as a brand-new identity, or the message names x, x is known and not expired,
   the stored credential of x decrypts to a secret (stored = CKey sec),
   and the response equals hmac sec (the challenge pending on k) [proof_step = gate_ok /\ proof_core].
   Handshakes of several connections overlap in the real server: EBody k m is the completion of a handshake on k whose gate
   checks were passed EARLIER (other handshakes, failures and bans may have completed in between; an EBody anywhere in a
   history over-approximates every such overlap).  It authenticates only with the same credential proof (proof_core), which
   holds in the state in which it completes; its gate clause refers to the state in which it began. *)
Theorem C03_auth_step_justified :
  forall hmac v s e k x, wf s ->
  authed_as (fst (step hmac MaxFailures PermanentBanAt v s e)) k x ->
  authed_as s k x \/ (exists m, e = EMsg k (Some m) /\ proof_step hmac s k m x)
                  \/ (exists m, e = EBody k m /\ proof_core hmac s k m x).
Proof. intros hmac. exact (auth_step_justified hmac MaxFailures PermanentBanAt). Qed.
Print Assumptions C03_auth_step_justified.

(* (1) history form: in every reachable state, an authenticated connection has such a proof step, on itself, in its past *)
Theorem C03_auth_only_if_proved :
  forall hmac v es k x,
  authed_as (run hmac MaxFailures PermanentBanAt v init es) k x ->
  exists pre m post,
    (es = (pre ++ EMsg k (Some m) :: post)%list /\ proof_step hmac (run hmac MaxFailures PermanentBanAt v init pre) k m x) \/
    (es = (pre ++ EBody k m :: post)%list /\ proof_core hmac (run hmac MaxFailures PermanentBanAt v init pre) k m x).
Proof. intros hmac. exact (auth_only_if_proved hmac MaxFailures PermanentBanAt). Qed.
Print Assumptions C03_auth_only_if_proved.

(* unknown (never issued or deleted) and expired clients are never newly authenticated *)
Theorem C03_unknown_or_expired_never_authenticated :
  forall hmac v s e k x, wf s ->
  (clients s x = None \/ exists cl, clients s x = Some cl /\ expired cl = true) ->
  x < next_id s ->
  authed_as (fst (step hmac MaxFailures PermanentBanAt v s e)) k x -> authed_as s k x.
Proof. intros hmac. exact (unknown_or_expired_never_authenticated hmac MaxFailures PermanentBanAt). Qed.
Print Assumptions C03_unknown_or_expired_never_authenticated.

(* a client whose stored credential gives the server no usable secret (SecretKeyEncrypted empty, not base64,
   not decryptable, or sealed under another master key) is never newly authenticated — whatever response is sent,
   whichever client the challenge was requested for *)
Theorem C03_no_usable_secret_never_authenticated :
  forall hmac v s e k x cl, wf s -> clients s x = Some cl -> secret_of (stored cl) = None ->
  authed_as (fst (step hmac MaxFailures PermanentBanAt v s e)) k x -> authed_as s k x.
Proof. intros hmac. exact (no_usable_secret_never_authenticated hmac MaxFailures PermanentBanAt). Qed.
Print Assumptions C03_no_usable_secret_never_authenticated.

(* the authentication gate is a function of exactly the record fields the property names — the stored credential and
   "ExpiresAt set and in the past" — and of nothing else in the client record (UserID / bound to a user or not, Type, Name,
   legacy SecretKey, version, timestamps = meta): two server states whose client records differ only in those other
   fields get the same response and the same ControlConnection from HandleHandshake, and stay so related. *)
Theorem C03_gate_ignores_non_gate_fields :
  forall hmac chk v s s' c a m, same_gate s s' ->
  let '(s1, c1, r) := auth hmac MaxFailures PermanentBanAt chk v s c a m in
  let '(s1', c1', r') := auth hmac MaxFailures PermanentBanAt chk v s' c a m in
  c1 = c1' /\ r = r' /\ same_gate s1 s1'.
Proof. intros hmac. exact (auth_ignores_meta hmac MaxFailures PermanentBanAt). Qed.
Print Assumptions C03_gate_ignores_non_gate_fields.

(* ... and rewriting only such fields of a record (binding it to a user, changing its type) produces a state related in
   that way; in particular an expired record stays refused (C03_unknown_or_expired_never_authenticated reads only [expired]) *)
Theorem C03_rewriting_non_gate_fields_is_invisible :
  forall hmac v s x m cl, clients s x = Some cl ->
  same_gate s (fst (step hmac MaxFailures PermanentBanAt v s (ESetRecord x (expired cl) m))).
Proof. intros hmac. exact (set_meta_same_gate hmac MaxFailures PermanentBanAt). Qed.
Print Assumptions C03_rewriting_non_gate_fields_is_invisible.

(* the asynchronous removal of an expired ban (unbanIfExpired, spawned by IsBanned), a short ban that runs out, and the periodic
   cleanup tick (ECleanup: it deletes only records whose own deadline has passed — a ban in force, e.g. an operator ban longer than
   the configured BanDuration, is untouched; C03_ban_in_force_persists and C03_perm_ban_absorbing quantify over it) are events
   of every history above; neither changes the state: a ban in force is never lifted by them, so C03_gated keeps applying *)
Theorem C03_async_unban_is_inert :
  forall hmac v s a,
  fst (step hmac MaxFailures PermanentBanAt v s (EUnbanLands a)) = s /\
  fst (step hmac MaxFailures PermanentBanAt current_variant s (EBanLapse a)) = s /\
  fst (step hmac MaxFailures PermanentBanAt v s (ECleanup a)) = s.
Proof. intros hmac. exact (async_unban_is_inert hmac MaxFailures PermanentBanAt). Qed.
Print Assumptions C03_async_unban_is_inert.

(* (3) a handshake message whose outcome is not Success (failed, replayed, out of order, malformed, phase 1)
   leaves "who is authenticated as whom" of EVERY connection, the whole registry and the client table unchanged *)
Theorem C03_failure_is_inert :
  forall hmac chk s k m, wf s ->
  not_success (snd (handle hmac MaxFailures PermanentBanAt chk current_variant s k m)) ->
  inert s (fst (handle hmac MaxFailures PermanentBanAt chk current_variant s k m)).
Proof. intros hmac. exact (failure_is_inert hmac MaxFailures PermanentBanAt). Qed.
Print Assumptions C03_failure_is_inert.

(* (4) from a banned or blacklisted address every handshake fails, is inert, and does not even consume the challenge *)
Theorem C03_gated :
  forall hmac v s k h cn, wf s -> conns s k = Some cn ->
  (blocked s (c_addr cn) = true \/ banned s (c_addr cn) = true) ->
  o_auth (snd (handle hmac MaxFailures PermanentBanAt true v s k (Some h))) = Some AFail /\
  inert s (fst (handle hmac MaxFailures PermanentBanAt true v s k (Some h))) /\
  pending_of (fst (handle hmac MaxFailures PermanentBanAt true v s k (Some h))) k = pending_of s k.
Proof. intros hmac. exact (gated hmac MaxFailures PermanentBanAt). Qed.
Print Assumptions C03_gated.

(* restart of the server process (ERestart is an event of every history above): it is invisible for the IP lists — the
   blacklist, the whitelist and hence the gate decision for every address are the same before and after, whatever
   sequence of list edits came before — while every connection and registry entry is dropped (so nobody is authenticated
   after it, by C03_auth_step_justified) and the client table is kept.  With a short-lived blacklist entry for a' that
   lapsed just before the restart only the exact-IP blacklist entry of a' is gone.  C03_gated applies unchanged afterwards. *)
Theorem C03_restart_keeps_lists :
  forall hmac v s lapsed,
  let s' := fst (step hmac MaxFailures PermanentBanAt v s (ERestart lapsed)) in
  (lapsed = None -> black s' = black s /\ forall a, blocked s' a = blocked s a) /\
  white s' = white s /\
  (forall a a', lapsed = Some a' -> a <> a' -> blocked s' a = blocked s a) /\
  (forall a a', lapsed = Some a' -> black s (k_cidr a) = true -> blocked s' a = blocked s a) /\
  (forall k, conns s' k = None) /\ (forall x, index s' x = None) /\ clients s' = clients s.
Proof. intros hmac. exact (restart_keeps_lists hmac MaxFailures PermanentBanAt). Qed.
Print Assumptions C03_restart_keeps_lists.

Theorem C03_restart_invisible_for_lists :
  forall hmac v s es,
  let s1 := run hmac MaxFailures PermanentBanAt v s es in
  let s2 := run hmac MaxFailures PermanentBanAt v s (es ++ [ERestart None]) in
  black s2 = black s1 /\ white s2 = white s1 /\ forall a, blocked s2 a = blocked s1 a.
Proof. intros hmac. exact (restart_invisible_for_lists hmac MaxFailures PermanentBanAt). Qed.
Print Assumptions C03_restart_invisible_for_lists.

(* once a ban is in place it stays in place — through every handshake outcome of every connection (including the success
   of a handshake of the same address: RecordSuccess clears failures, never a ban), failures, lapses of short bans and the
   asynchronous removal — until UnbanIP on that address, the end of its own temporary period, or a restart (lifts_ban); with C03_gated: every handshake from it is refused *)
Theorem C03_ban_in_force_persists :
  forall hmac v es s a,
  banned s a = true -> forallb (fun e => negb (lifts_ban a e)) es = true ->
  banned (run hmac MaxFailures PermanentBanAt v s es) a = true.
Proof. intros hmac. exact (ban_in_force_persists hmac MaxFailures PermanentBanAt). Qed.
Print Assumptions C03_ban_in_force_persists.

(* ban strength only increases: a PERMANENT ban in force (by PermanentBanAt failures or by an operator BanIP(ip, 0)) is absorbing
   under every event except UnbanIP on that address and a restart — under every later failure of a handshake that was already
   past the gate (a temporary-ban request), under RecordSuccess of an overlapped handshake, under the end of any temporary
   period (ETempLapse), under short bans and the asynchronous removal.  With C03_gated: refused for ever. *)
Theorem C03_perm_ban_absorbing :
  forall hmac v es, v_ban_monotone v = true -> forall s a,
  perm_banned s a -> forallb (fun e => negb (lifts_perm a e)) es = true ->
  perm_banned (run hmac MaxFailures PermanentBanAt v s es) a.
Proof. intros hmac. exact (perm_ban_absorbing hmac MaxFailures PermanentBanAt). Qed.
Print Assumptions C03_perm_ban_absorbing.

(* the tree as found (banIP overwrote the record): after a permanent ban, the failure of an overlapped handshake requests a
   temporary ban, and when that period is over the address is free; the repaired code keeps it permanently banned *)
Theorem C03_pinned_perm_overwritten_refuted :
  exists es a,
    perm_banned (run toy_hmac 1 20 pinned_variant init (List.firstn 2 es)) a /\
    forallb (fun e => negb (lifts_perm a e)) (List.skipn 2 es) = true /\
    banned (run toy_hmac 1 20 pinned_variant init es) a = false /\
    perm_banned (run toy_hmac 1 20 current_variant init es) a.
Proof. exact pinned_perm_overwritten_refuted. Qed.
Print Assumptions C03_pinned_perm_overwritten_refuted.

(* (5) the registry maps client x to connection k only if k is authenticated as x — after every history *)
Theorem C03_registry_respects_auth :
  forall hmac v es x k,
  index (run hmac MaxFailures PermanentBanAt v init es) x = Some k ->
  authed_as (run hmac MaxFailures PermanentBanAt v init es) k x.
Proof. intros hmac. exact (registry_respects_auth hmac MaxFailures PermanentBanAt). Qed.
Print Assumptions C03_registry_respects_auth.

(* every reachable state is well-formed (the hypothesis `wf s` of the step theorems) *)
Theorem C03_reachable_wf :
  forall hmac v es, wf (run hmac MaxFailures PermanentBanAt v init es).
Proof. intros hmac v es. exact (run_wf hmac MaxFailures PermanentBanAt v es init init_wf). Qed.
Print Assumptions C03_reachable_wf.

(* "the latest challenge it issued on that connection": in every reachable state the challenge pending on connection k — the one
   proof_core compares the response with — is the challenge of the most recent handshake on k that was answered with a challenge
   (last_issued reads the handler outcomes along the history only) *)
Theorem C03_pending_is_latest_issued :
  forall hmac v es k ch,
  pending_of (run hmac MaxFailures PermanentBanAt v init es) k = Some ch ->
  last_issued hmac MaxFailures PermanentBanAt v init es k None = Some ch.
Proof. intros hmac. exact (pending_is_latest_issued hmac MaxFailures PermanentBanAt). Qed.
Print Assumptions C03_pending_is_latest_issued.

Theorem C03_latest_issued_satisfiable :
  let es := [ERegister; EOpen 1 0; EMsg 1 (p1 1 false); EMsg 1 (p1 1 false)] in
  pending_of (run toy_hmac 5 20 current_variant init es) 1 = Some 2 /\
  last_issued toy_hmac 5 20 current_variant init es 1 None = Some 2.
Proof. exact latest_issued_satisfiable. Qed.
Print Assumptions C03_latest_issued_satisfiable.

(* (2) every challenge is used for at most one verification, over any history; and a challenge-response
   success is one of these verifications, against a challenge issued earlier *)
Theorem C03_challenge_single_use :
  forall hmac v es, List.NoDup (targets hmac MaxFailures PermanentBanAt v init es).
Proof. intros hmac. exact (challenge_single_use hmac MaxFailures PermanentBanAt). Qed.
Print Assumptions C03_challenge_single_use.

Theorem C03_success_is_a_counted_verification :
  forall hmac chk v s k h, pend_inv s ->
  o_auth (snd (handle hmac MaxFailures PermanentBanAt chk v s k (Some h))) = Some ASuccess ->
  exists ch, verif_target chk s k h = Some ch /\ ch < next_nonce s.
Proof. intros hmac. exact (success_is_a_counted_verification hmac MaxFailures PermanentBanAt). Qed.
Print Assumptions C03_success_is_a_counted_verification.

(* the two defects of the tree as found (repaired by fixes/C03-*.diff), kept as refuted statements *)
Theorem C03_pinned_nonsuccess_reinstall_refuted :
  exists es k m,
    let s := run toy_hmac 5 20 pinned_variant init es in
    not_success (snd (handle toy_hmac 5 20 true pinned_variant s k m)) /\
    index s 1 = Some 1%N /\ index (fst (handle toy_hmac 5 20 true pinned_variant s k m)) 1 = Some 2%N.
Proof. exact pinned_nonsuccess_reinstall_refuted. Qed.
Print Assumptions C03_pinned_nonsuccess_reinstall_refuted.

Theorem C03_pinned_anon_delete_refuted :
  exists es k x,
    clients (run toy_hmac 5 20 current_variant init [ERegister; EDelAnon x]) x = None /\
    authed_as (run toy_hmac 5 20 pinned_variant init (ERegister :: EDelAnon x :: es)) k x.
Proof. exact pinned_anon_delete_refuted. Qed.
Print Assumptions C03_pinned_anon_delete_refuted.

(* non-vacuity: a concrete reachable well-formed state with a connection authenticated through a proof step,
   installed in the registry, and a non-success message to which C03_failure_is_inert applies *)
Theorem C03_premises_satisfiable :
  let es := [ERegister; ERegister; EOpen 1 0; EOpen 2 1; EMsg 1 (p1 1 false); EMsg 1 (p2 1 (toy_hmac 1 1) false)] in
  let s := run toy_hmac 5 20 current_variant init es in
  wf s /\ authed_as s 1 1 /\ index s 1 = Some 1%N /\
  proof_step toy_hmac (run toy_hmac 5 20 current_variant init (List.firstn 5 es)) 1
             {| h_cid := 1; h_new := false; h_resp := Some (toy_hmac 1 1); h_tunnel := false |} 1 /\
  not_success (snd (handle toy_hmac 5 20 true current_variant s 2 (p2 1 7 false))).
Proof. exact premises_satisfiable. Qed.
Print Assumptions C03_premises_satisfiable.

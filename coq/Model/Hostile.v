(* Model/Hostile.v — C05: what a hostile, unauthenticated peer can make the packet reader allocate, and
   the first-level decision of SessionManager.HandlePacket (session/packet_handler.go).
   The decoder itself is Model/Framing.v; here we add
   (a) the allocation trace of one ReadPacket (stream_processor_read.go readPacketBody: pool buffer of
       bodySize, result copy; decompressData: bytes.Buffer filled through LimitReader(MaxBody+1)), as a
       function of the bytes only (justified by C01_reader_is_parser: the reader equals the parser);
   (b) the dispatcher's type switch. *)
From TX Require Export Model.Framing.
Open Scope N_scope.

Section Hostile.
  Variable V : fvariant.
  Variable MaxBody : N.
  Variable inflate : list byte -> option (list byte).   (* mathematical gzip inverse: output length unconstrained *)

  (* logical sizes of the buffers filled while decoding the first packet of s *)
  Definition alloc_packet (s : list byte) : list N :=
    match s with
    | [] => []
    | ty :: s1 =>
      if is_heartbeat ty then [] else
      if lenN s1 <? 4 then [4] else
      let n := de32 (firstn 4 s1) in
      let s2 := skipn 4 s1 in
      if MaxBody <? n then [4] else              (* rejected BEFORE any body allocation *)
      if lenN s2 <? n then [4; n] else           (* pool buffer allocated, stream ends early *)
      let body := firstn (N.to_nat n) s2 in
      [4; n; n] ++
      (if is_encrypted ty then [] else
       if is_compressed ty then
         match inflate body with
         | None => []
         | Some b => [if v_unbounded_inflate V then lenN b else N.min (lenN b) (MaxBody + 1)]
         end
       else [])
    end.

  Fixpoint alloc_all (fuel : nat) (json_norm : list byte -> option (list byte)) (s : list byte) : list N :=
    match fuel with
    | O => []
    | S f => alloc_packet s ++
             match parse_packet V MaxBody inflate json_norm s with
             | (POk _ _ _, s') => alloc_all f json_norm s'
             | (PErr _ _, _) => []
             end
    end.
End Hostile.

(* ---- dispatcher: SessionManager.HandlePacket's switch ---- *)
Inductive hclass := HCommand | HHandshake | HTunnelOpen | HHeartbeat | HUnhandled.
Definition dispatch (ty : N) : hclass :=
  if is_json_cmd ty then HCommand
  else if base_ty ty =? 1 then HHandshake
  else if base_ty ty =? 32 then HTunnelOpen
  else if is_heartbeat ty then HHeartbeat
  else HUnhandled.
Close Scope N_scope.

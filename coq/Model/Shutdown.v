(* Model/Shutdown.v — C16: close protocols as thread programs at atomic-op granularity (Base/Threads.v).
   Definitions only.  Four protocols, each a (shared state, thread-local pc) step function:

   A. dispose.Dispose            internal/core/dispose/dispose.go   Close / runCleanHandlers / AddCleanHandler
   B. client tunnel.Tunnel.Close internal/client/tunnel/tunnel.go   Close (+ Start's CAS Connecting->Connected)
   C. Bridge.reportTrafficStats  internal/protocol/session/tunnel/bridge_traffic.go (called from the cleanup
                                 handler of bridge.go and from periodicTrafficReport's tick / final report)
   D. StreamProcessor read op vs Close   internal/stream/stream_processor.go acquireReadLock / onClose

   One thread step = one atomic action: one mutex-protected section (or one action inside a section that other
   locks may interleave with), one atomic Load / CompareAndSwap / Store / Add, one call of a collaborator.
   B and C exist in two variants: `fixed = true` transcribes the repaired code (fixes/C16-*.diff),
   `fixed = false` the code as pinned. *)
From TX Require Export Base.Threads.
From Coq Require Export ZArith.

(* ------------------------------------------------------------------------------------------------ *)
(* A. Dispose                                                                                        *)
(* ------------------------------------------------------------------------------------------------ *)
Record hnd := { h_id : nat; h_fail : bool }.          (* a clean handler: identity, and whether it returns an error *)

Record dsh := {
  d_closed : bool;                 (* c.closed *)
  d_lock : bool;                   (* c.currentLock held *)
  d_handlers : list hnd;           (* c.cleanHandlers (guarded by linkLock; append only) *)
  d_runlog : list nat;             (* ids of the handlers invoked so far, in invocation order *)
  d_errors : list nat;             (* c.errors: HandlerIndex of every recorded DisposeError, in order *)
  d_snap : option (list hnd) }.    (* ghost: the slice copied by runCleanHandlers (set once, never read by the code) *)

Inductive dpc :=
| DStart                                      (* Close(): about to take currentLock *)
| DSnap                                       (* holds currentLock, closed set, ctx cancelled; about to copy the handler slice *)
| DRun (todo : list (nat * hnd)) (res : list nat)   (* running the copied handlers; res = result.Errors so far *)
| DDone (res : list nat) (actual : bool)      (* Close returned: the error indices it reported; actual = ran the handlers itself *)
| AAdd (h : hnd)                              (* AddCleanHandler(h): about to append under linkLock *)
| ADone.

Definition ix (hs : list hnd) : list (nat * hnd) := combine (seq 0 (length hs)) hs.
Definition ids (l : list (nat * hnd)) : list nat := map (fun p => h_id (snd p)) l.
Definition fidx (l : list (nat * hnd)) : list nat := map fst (filter (fun p => h_fail (snd p)) l).

Definition dstep (t : dpc) (s : dsh) : dpc * dsh :=
  match t with
  | DStart =>
      if d_lock s then (t, s)                                        (* blocked on currentLock *)
      else if d_closed s then (DDone (d_errors s) false, s)          (* lock; closed: return &DisposeResult{Errors: c.errors}; unlock *)
      else (DSnap, {| d_closed := true; d_lock := true; d_handlers := d_handlers s; d_runlog := d_runlog s;
                      d_errors := d_errors s; d_snap := d_snap s |})  (* lock; closed = true; cancel() *)
  | DSnap => (DRun (ix (d_handlers s)) [],
              {| d_closed := d_closed s; d_lock := d_lock s; d_handlers := d_handlers s; d_runlog := d_runlog s;
                 d_errors := d_errors s; d_snap := Some (d_handlers s) |})   (* linkLock: handlers := copy(c.cleanHandlers) *)
  | DRun [] res => (DDone res true,
              {| d_closed := d_closed s; d_lock := false; d_handlers := d_handlers s; d_runlog := d_runlog s;
                 d_errors := d_errors s; d_snap := d_snap s |})               (* return result; deferred Unlock *)
  | DRun ((i, h) :: todo) res =>
      (DRun todo (if h_fail h then res ++ [i] else res),
       {| d_closed := d_closed s; d_lock := d_lock s; d_handlers := d_handlers s;
          d_runlog := d_runlog s ++ [h_id h];
          d_errors := if h_fail h then d_errors s ++ [i] else d_errors s; d_snap := d_snap s |})
  | AAdd h => (ADone, {| d_closed := d_closed s; d_lock := d_lock s; d_handlers := d_handlers s ++ [h];
                         d_runlog := d_runlog s; d_errors := d_errors s; d_snap := d_snap s |})
  | DDone _ _ | ADone => (t, s)
  end.

Definition dinit (hs : list hnd) : dsh :=
  {| d_closed := false; d_lock := false; d_handlers := hs; d_runlog := []; d_errors := []; d_snap := None |}.
Definition d_initial (t : dpc) : bool := match t with DStart | AAdd _ => true | _ => false end.
Definition drun (hs : list hnd) (ts : list dpc) (sched : list nat) : dsh * list dpc := run _ _ dstep (dinit hs, ts) sched.

(* ------------------------------------------------------------------------------------------------ *)
(* B. Tunnel.Close                                                                                   *)
(* ------------------------------------------------------------------------------------------------ *)
(* states: 0 Connecting, 1 Connected, 2 Closing, 3 Closed (TunnelState iota order; regenerated in Gen/C16.v) *)
Inductive tact := ADispose | ACloseLocal | ACloseRWC | ANotify | AUnreg | ACallback.

(* the close body in program order; the peer notification depends on the closer's reason (shouldNotifyPeer) *)
Definition body (notify : bool) : list tact :=
  [ADispose; ACloseLocal; ACloseRWC] ++ (if notify then [ANotify] else []) ++ [AUnreg; ACallback].

Record tsh := { t_state : nat; t_trace : list tact }.

Inductive tpc :=
| TLoad                      (* about to Load the state *)
| TCas (cur : nat)           (* loaded cur (neither Closing nor Closed); about to CompareAndSwap *)
| TStore                     (* pinned code only: the CAS failed; about to Store(Closing) *)
| TBody (rest : list tact)   (* running the close body; rest = actions still to perform; [] = about to Store(Closed) *)
| TRet (won : bool)          (* Close returned; won = it ran the body *)
| TStartCas                  (* Start(): about to CAS(Connecting -> Connected) *)
| TStartRet (ok : bool).

Record tth := { t_notify : bool; t_pc : tpc }.

Section Tunnel.
  Variable fixed : bool.
  Definition with_pc (t : tth) (p : tpc) : tth := {| t_notify := t_notify t; t_pc := p |}.
  Definition tstep (t : tth) (s : tsh) : tth * tsh :=
    match t_pc t with
    | TLoad => if (t_state s =? 2) || (t_state s =? 3) then (with_pc t (TRet false), s) else (with_pc t (TCas (t_state s)), s)
    | TCas cur =>
        if fixed
        then (* for { cur := Load; ...; if CompareAndSwap(cur, Closing) { break } } *)
             if t_state s =? cur then (with_pc t (TBody (body (t_notify t))), {| t_state := 2; t_trace := t_trace s |})
             else (with_pc t TLoad, s)
        else (* if !CompareAndSwap(Connected, Closing) { Store(Closing) } *)
             if t_state s =? 1 then (with_pc t (TBody (body (t_notify t))), {| t_state := 2; t_trace := t_trace s |})
             else (with_pc t TStore, s)
    | TStore => (with_pc t (TBody (body (t_notify t))), {| t_state := 2; t_trace := t_trace s |})
    | TBody (a :: r) => (with_pc t (TBody r), {| t_state := t_state s; t_trace := t_trace s ++ [a] |})
    | TBody [] => (with_pc t (TRet true), {| t_state := 3; t_trace := t_trace s |})          (* Store(Closed) *)
    | TStartCas => if t_state s =? 0 then (with_pc t (TStartRet true), {| t_state := 1; t_trace := t_trace s |})
                   else (with_pc t (TStartRet false), s)
    | TRet _ | TStartRet _ => (t, s)
    end.
  Definition trun (st0 : nat) (ts : list tth) (sched : list nat) : tsh * list tth :=
    run _ _ tstep ({| t_state := st0; t_trace := [] |}, ts) sched.
End Tunnel.

Definition t_initial (t : tth) : bool := match t_pc t with TLoad | TStartCas => true | _ => false end.
Definition t_is_closer (t : tth) : bool := match t_pc t with TStartCas | TStartRet _ => false | _ => true end.
Definition t_returned (t : tth) : bool := match t_pc t with TRet _ | TStartRet _ => true | _ => false end.
Definition t_parked_at_cas (t : tth) : bool := match t_pc t with TCas _ => true | _ => false end.
Definition tact_eqb (a b : tact) : bool :=
  match a, b with
  | ADispose, ADispose | ACloseLocal, ACloseLocal | ACloseRWC, ACloseRWC | ANotify, ANotify | AUnreg, AUnreg
  | ACallback, ACallback => true
  | _, _ => false
  end.
Definition tcount (a : tact) (l : list tact) : nat := length (filter (tact_eqb a) l).

(* ------------------------------------------------------------------------------------------------ *)
(* C. reportTrafficStats (one of the two symmetric counters; see Properties/C16.v for the reading)   *)
(* ------------------------------------------------------------------------------------------------ *)
Record rsh := {
  r_cnt : Z;              (* b.bytesSent: grows by the copy loops' counter.Add *)
  r_last : Z;             (* b.lastReportedSent *)
  r_stats : Z;            (* mapping.TrafficStats.BytesSent held by cloud control *)
  r_mu : bool;            (* repaired code: b.trafficReportMu held *)
  r_calls : list Z }.     (* deltas handed to UpdatePortMappingStats, in order *)

Inductive rpc :=
| RLock                               (* reportTrafficStats entered (nil checks passed) *)
| RLoadCur                            (* about to Load bytesSent *)
| RLoadLast (cur : Z)                 (* about to Load lastReportedSent *)
| RGet (cur last : Z)                 (* delta != 0; about to GetPortMapping *)
| RUpdate (cur last m : Z)            (* about to UpdatePortMappingStats(m + delta) *)
| RStore (cur : Z)                    (* about to Store lastReportedSent *)
| RUnlock
| RDone
| CAdd (todo : list Z).               (* a copy loop: remaining counter.Add(batch) calls *)

Section Traffic.
  Variable fixed : bool.
  Definition set_mu (s : rsh) (b : bool) : rsh :=
    {| r_cnt := r_cnt s; r_last := r_last s; r_stats := r_stats s; r_mu := b; r_calls := r_calls s |}.
  Definition rstep (t : rpc) (s : rsh) : rpc * rsh :=
    match t with
    | RLock => if fixed then (if r_mu s then (t, s) else (RLoadCur, set_mu s true)) else (RLoadCur, s)
    | RLoadCur => (RLoadLast (r_cnt s), s)
    | RLoadLast cur => if (cur - r_last s =? 0)%Z then (RUnlock, s) else (RGet cur (r_last s), s)
    | RGet cur last => (RUpdate cur last (r_stats s), s)
    | RUpdate cur last m =>
        (RStore cur, {| r_cnt := r_cnt s; r_last := r_last s; r_stats := (m + (cur - last))%Z; r_mu := r_mu s;
                        r_calls := r_calls s ++ [(cur - last)%Z] |})
    | RStore cur => (RUnlock, {| r_cnt := r_cnt s; r_last := cur; r_stats := r_stats s; r_mu := r_mu s; r_calls := r_calls s |})
    | RUnlock => (RDone, if fixed then set_mu s false else s)
    | CAdd (d :: todo) => (CAdd todo, {| r_cnt := (r_cnt s + d)%Z; r_last := r_last s; r_stats := r_stats s; r_mu := r_mu s;
                                         r_calls := r_calls s |})
    | CAdd [] | RDone => (t, s)
    end.
  Definition rinit (base : Z) : rsh := {| r_cnt := 0; r_last := 0; r_stats := base; r_mu := false; r_calls := [] |}.
  Definition rrun (base : Z) (ts : list rpc) (sched : list nat) : rsh * list rpc := run _ _ rstep (rinit base, ts) sched.
End Traffic.

Definition r_initial (t : rpc) : bool :=
  match t with RLock => true | CAdd todo => forallb (fun d => (0 <=? d)%Z) todo | _ => false end.
Definition r_finished (t : rpc) : bool := match t with RDone | CAdd [] => true | _ => false end.
Definition zsum (l : list Z) : Z := fold_right Z.add 0%Z l.
(* one complete report by a single caller, nobody else moving: 9 steps suffice (lock, 2 loads, get, update, store, unlock) *)
Definition report_alone (fixed : bool) (s : rsh) : rsh := fst (run _ _ (rstep fixed) (s, [RLock]) (repeat 0 9)).

(* ------------------------------------------------------------------------------------------------ *)
(* D. StreamProcessor: a read operation against Close                                                *)
(* ------------------------------------------------------------------------------------------------ *)
Record psh := {
  p_closed : bool;        (* Dispose.closed *)
  p_dlock : bool;         (* Dispose.currentLock (held by Close for the whole of onClose; IsClosed takes it too) *)
  p_rlock : bool;         (* ps.readLock *)
  p_reader : bool;        (* ps.reader != nil *)
  p_rclose : nat;         (* number of Close calls made on the underlying reader *)
  p_panics : nat }.       (* nil-interface method calls (a Go panic) *)

Inductive ppc :=
| PClose | PCleanBuf | PCleanWriter | PCleanReader | PUnlock | PClosed (actual : bool)     (* a closer *)
| OStart | OHaveLock | OChecked | OUse (left : nat) | ORet (ok : bool) | OPanicked.           (* a reader op with `left` Read calls *)

(* fixed = true: onClose closes reader / writer but keeps the fields (repository commit cedd5da);
   fixed = false: the pinned code, which also sets them to nil without holding readLock / writeLock *)
Definition pstep (fixed : bool) (reads : nat) (t : ppc) (s : psh) : ppc * psh :=
  let upd c d r rd rc pn := {| p_closed := c; p_dlock := d; p_rlock := r; p_reader := rd; p_rclose := rc; p_panics := pn |} in
  match t with
  | PClose => if p_dlock s then (t, s)
              else if p_closed s then (PClosed false, s)
              else (PCleanBuf, upd true true (p_rlock s) (p_reader s) (p_rclose s) (p_panics s))
  | PCleanBuf => (PCleanWriter, s)                                       (* bufferMgr.Close(); bufferMgr = nil *)
  | PCleanWriter => (PCleanReader, s)                                    (* writer.Close(); writer = nil *)
  | PCleanReader => (PUnlock, if p_reader s   (* reader.Close(); pinned code: reader = nil *)
                              then upd (p_closed s) (p_dlock s) (p_rlock s) fixed (S (p_rclose s)) (p_panics s) else s)
  | PUnlock => (PClosed true, upd (p_closed s) false (p_rlock s) (p_reader s) (p_rclose s) (p_panics s))
  | OStart => if p_rlock s then (t, s) else (OHaveLock, upd (p_closed s) (p_dlock s) true (p_reader s) (p_rclose s) (p_panics s))
  | OHaveLock => if p_dlock s then (t, s)                                (* IsClosed() blocks on currentLock *)
                 else if p_closed s then (ORet false, upd (p_closed s) (p_dlock s) false (p_reader s) (p_rclose s) (p_panics s))
                 else (OChecked, s)
  | OChecked => if p_reader s then (OUse reads, s)
                else (ORet false, upd (p_closed s) (p_dlock s) false (p_reader s) (p_rclose s) (p_panics s))   (* ErrReaderNil *)
  | OUse 0 => (ORet true, upd (p_closed s) (p_dlock s) false (p_reader s) (p_rclose s) (p_panics s))
  | OUse (S k) => if p_reader s
                  then (* a Read on a reader that Close has closed returns an error: the operation returns it *)
                       if fixed && (0 <? p_rclose s)
                       then (ORet false, upd (p_closed s) (p_dlock s) false (p_reader s) (p_rclose s) (p_panics s))
                       else (OUse k, s)
                  else (OPanicked, upd (p_closed s) (p_dlock s) false (p_reader s) (p_rclose s) (S (p_panics s)))   (* nil-interface call: panic; the deferred readLock.Unlock runs *)
  | PClosed _ | ORet _ | OPanicked => (t, s)
  end.
Definition p_initial (t : ppc) : bool := match t with PClose | OStart => true | _ => false end.
Definition pinit : psh := {| p_closed := false; p_dlock := false; p_rlock := false; p_reader := true; p_rclose := 0; p_panics := 0 |}.

(* ------------------------------------------------------------------------------------------------ *)
(* E. Tunnel.Start against Tunnel.Close: {state, context, dispose latch}                              *)
(* ------------------------------------------------------------------------------------------------ *)
(* internal/client/tunnel/tunnel.go Start: SetCtx(manager.Ctx(), onClose) [Dispose.SetCtx: if no context yet, create a
   cancelable one AND reset the close latch]; CompareAndSwap(Connecting -> Connected) or return an error; three `go`
   statements (monitorPeerNotification and monitorTimeout wait for ctx.Done, runDataCopy ends when the connections are
   closed).  `ctx_first = true` is the order in the repository; `ctx_first = false` is the CAS moved ahead of SetCtx.
   Close is the repaired CAS loop of section B with the body folded to: Dispose.Close (latch; cancel a live context),
   the rest of the body up to onClosed, Store(Closed). *)
Record esh := {
  e_state : nat;         (* 0 Connecting, 1 Connected, 2 Closing, 3 Closed *)
  e_ctx : nat;           (* 0 no context yet, 1 live, 2 cancelled *)
  e_latch : bool;        (* Dispose.closed *)
  e_started : bool;      (* ghost: some Start won the Connecting -> Connected transition *)
  e_spawned : nat;       (* go statements executed by Start *)
  e_cb : nat }.          (* onClosed invocations *)

Inductive epc :=
| ESetCtx | EStartCas | ESpawn (left : nat) | EStartRet (ok : bool)
| ELoad | ECas (cur : nat) | EDispose | ECallback | EStoreClosed | ECloseRet (won : bool).

Section Lifecycle.
  Variable ctx_first : bool.
  Variable spawns : nat.
  Definition estep (t : epc) (s : esh) : epc * esh :=
    match t with
    | ESetCtx =>
        (if ctx_first then EStartCas else ESpawn spawns,
         if e_ctx s =? 0
         then {| e_state := e_state s; e_ctx := 1; e_latch := false; e_started := e_started s; e_spawned := e_spawned s; e_cb := e_cb s |}
         else s)                                                      (* "ctx already set, ignoring SetCtx call" *)
    | EStartCas =>
        if e_state s =? 0
        then (if ctx_first then ESpawn spawns else ESetCtx,
              {| e_state := 1; e_ctx := e_ctx s; e_latch := e_latch s; e_started := true; e_spawned := e_spawned s; e_cb := e_cb s |})
        else (EStartRet false, s)                                     (* "invalid state transition" *)
    | ESpawn (S k) => (ESpawn k, {| e_state := e_state s; e_ctx := e_ctx s; e_latch := e_latch s; e_started := e_started s;
                                    e_spawned := S (e_spawned s); e_cb := e_cb s |})
    | ESpawn 0 => (EStartRet true, s)
    | ELoad => if (e_state s =? 2) || (e_state s =? 3) then (ECloseRet false, s) else (ECas (e_state s), s)
    | ECas cur => if e_state s =? cur
                  then (EDispose, {| e_state := 2; e_ctx := e_ctx s; e_latch := e_latch s; e_started := e_started s;
                                     e_spawned := e_spawned s; e_cb := e_cb s |})
                  else (ELoad, s)
    | EDispose => (ECallback,                                          (* Dispose.Close: latched; cancel() if there is a context *)
                   if e_latch s then s
                   else {| e_state := e_state s; e_ctx := if e_ctx s =? 1 then 2 else e_ctx s; e_latch := true;
                           e_started := e_started s; e_spawned := e_spawned s; e_cb := e_cb s |})
    | ECallback => (EStoreClosed, {| e_state := e_state s; e_ctx := e_ctx s; e_latch := e_latch s; e_started := e_started s;
                                     e_spawned := e_spawned s; e_cb := S (e_cb s) |})
    | EStoreClosed => (ECloseRet true, {| e_state := 3; e_ctx := e_ctx s; e_latch := e_latch s; e_started := e_started s;
                                          e_spawned := e_spawned s; e_cb := e_cb s |})
    | EStartRet _ | ECloseRet _ => (t, s)
    end.
  Definition e_start_pc : epc := if ctx_first then ESetCtx else EStartCas.
  Definition einit : esh := {| e_state := 0; e_ctx := 0; e_latch := false; e_started := false; e_spawned := 0; e_cb := 0 |}.
  Definition erun (ts : list epc) (sched : list nat) : esh * list epc := run _ _ estep (einit, ts) sched.
End Lifecycle.
Definition e_initial (ctx_first : bool) (t : epc) : bool :=
  match t with ELoad => true | ESetCtx => ctx_first | EStartCas => negb ctx_first | _ => false end.
Definition e_returned (t : epc) : bool := match t with EStartRet _ | ECloseRet _ => true | _ => false end.
Definition e_is_closer (t : epc) : bool :=
  match t with ELoad | ECas _ | EDispose | ECallback | EStoreClosed | ECloseRet _ => true | _ => false end.
(* the monitors started by Start that are still alive: they only end when the context is cancelled *)
Definition e_monitors_alive (s : esh) : bool := (0 <? e_spawned s) && negb (e_ctx s =? 2).

(* ------------------------------------------------------------------------------------------------ *)
(* F. Bridge.Close against a forwarding write to a stalled peer: lock ownership                       *)
(* ------------------------------------------------------------------------------------------------ *)
(* bridge_forward.go dynamicSourceWriter.Write: sourceConnMu.RLock; read sourceForwarder; RUnlock; forwarder.Write(p)
   (`hold = false`, the repository) — or RUnlock deferred, i.e. the read lock is held across the Write (`hold = true`).
   bridge.go Close: sourceConnMu.Lock; sourceForwarder.Close() [the step that makes a blocked Write return]; Unlock; ...
   A Write to a stalled peer (f_stall) returns only once the forwarder has been closed. *)
(* round 5: the copy loop first waits for bandwidth tokens (CopyWithControl -> waitForTokens: limiter.WaitN(b.Ctx(), k));
   `cancellable = true` (the repository): the wait ends with an error as soon as the bridge context is cancelled, the copy
   loop ends; `cancellable = false`: an uncancellable sleep.  Close cancels the context (ManagerBase.Close) after the locks. *)
Record fsh := { f_readers : nat; f_w : bool; f_closed : bool; f_cancel : bool }.
Inductive fpc := WThrottle | WLock | WHave | WIO (held : bool) | WRel | WDone | KLock | KClose | KUnlock | KCancel | KDone.
Record fth := { f_stall : bool;      (* the peer does not read: the Write blocks until the forwarder is closed *)
                f_starved : bool;    (* the bucket never holds enough tokens while this chunk waits *)
                f_pc : fpc }.

Section Locks.
  Variable hold : bool.
  Variable cancellable : bool.
  Definition fwith (t : fth) (p : fpc) : fth := {| f_stall := f_stall t; f_starved := f_starved t; f_pc := p |}.
  Definition fstep (t : fth) (s : fsh) : fth * fsh :=
    let upd r w c k := {| f_readers := r; f_w := w; f_closed := c; f_cancel := k |} in
    match f_pc t with
    | WThrottle => if cancellable && f_cancel s then (fwith t WDone, s)       (* WaitN returns ctx.Err(): the copy loop breaks *)
                   else if f_starved t then (t, s) else (fwith t WLock, s)
    | WLock => if f_w s then (t, s) else (fwith t WHave, upd (S (f_readers s)) (f_w s) (f_closed s) (f_cancel s))
    | WHave => if hold then (fwith t (WIO true), s)
               else (fwith t (WIO false), upd (pred (f_readers s)) (f_w s) (f_closed s) (f_cancel s))
    | WIO h => if f_stall t && negb (f_closed s) then (t, s)          (* blocked in Write: the peer does not read *)
               else (fwith t (if h then WRel else WDone), s)
    | WRel => (fwith t WDone, upd (pred (f_readers s)) (f_w s) (f_closed s) (f_cancel s))
    | KLock => if f_w s || (0 <? f_readers s) then (t, s) else (fwith t KClose, upd (f_readers s) true (f_closed s) (f_cancel s))
    | KClose => (fwith t KUnlock, upd (f_readers s) (f_w s) true (f_cancel s))
    | KUnlock => (fwith t KCancel, upd (f_readers s) false (f_closed s) (f_cancel s))
    | KCancel => (fwith t KDone, upd (f_readers s) (f_w s) (f_closed s) true)     (* ManagerBase.Close: cancel() *)
    | WDone | KDone => (t, s)
    end.
  Definition finit : fsh := {| f_readers := 0; f_w := false; f_closed := false; f_cancel := false |}.
End Locks.
Definition f_initial (t : fth) : bool := match f_pc t with WThrottle | WLock | KLock => true | _ => false end.
Definition f_close_pending (t : fth) : bool := match f_pc t with KLock | KClose | KUnlock | KCancel => true | _ => false end.
Definition f_is_closer (t : fth) : bool := match f_pc t with KLock | KClose | KUnlock | KCancel | KDone => true | _ => false end.
Definition f_finished (t : fth) : bool := match f_pc t with WDone | KDone => true | _ => false end.

(* ------------------------------------------------------------------------------------------------ *)
(* D2. StreamProcessor: an operation queued behind the read (write) lock while Close runs            *)
(* ------------------------------------------------------------------------------------------------ *)
(* stream_processor.go acquireReadLock / acquireWriteLock.  `lockfirst = true` (the repository): take the lock, THEN test
   Dispose.IsClosed() (which itself waits for Close's currentLock).  `lockfirst = false`: test first, then take the lock
   without re-testing.  An operation = acquire; `reads` calls on the underlying reader; release. *)
Record qsh := {
  q_closed : bool;     (* Dispose.closed *)
  q_dlock : bool;      (* Dispose.currentLock: held while Close runs its handlers *)
  q_rlock : bool;      (* readLock / writeLock *)
  q_late : nat }.      (* ghost: calls made on the underlying reader/writer after Close had returned, by an operation that
                          entered its I/O phase after Close had returned *)
Inductive qpc :=
| QStart | QWait | QHave | QIO (late : bool) (left : nat) | QRet (ok : bool)
| QClose | QCleaning | QClosed.

Definition qstep (lockfirst : bool) (reads : nat) (t : qpc) (s : qsh) : qpc * qsh :=
  let upd c d r l := {| q_closed := c; q_dlock := d; q_rlock := r; q_late := l |} in
  match t with
  | QStart => if lockfirst
              then (if q_rlock s then (t, s) else (QHave, upd (q_closed s) (q_dlock s) true (q_late s)))
              else (if q_dlock s then (t, s) else if q_closed s then (QRet false, s) else (QWait, s))
  | QHave => if q_dlock s then (t, s)
             else if q_closed s then (QRet false, upd (q_closed s) (q_dlock s) false (q_late s))
             else (QIO false reads, s)
  | QWait => if q_rlock s then (t, s)
             else (QIO (q_closed s && negb (q_dlock s)) reads, upd (q_closed s) (q_dlock s) true (q_late s))
  | QIO l (S k) => (QIO l k, upd (q_closed s) (q_dlock s) (q_rlock s) (if l then S (q_late s) else q_late s))
  | QIO l 0 => (QRet true, upd (q_closed s) (q_dlock s) false (q_late s))
  | QClose => if q_dlock s then (t, s) else if q_closed s then (QClosed, s) else (QCleaning, upd true true (q_rlock s) (q_late s))
  | QCleaning => (QClosed, upd (q_closed s) false (q_rlock s) (q_late s))
  | QRet _ | QClosed => (t, s)
  end.
Definition qinit : qsh := {| q_closed := false; q_dlock := false; q_rlock := false; q_late := 0 |}.
Definition q_not_in_io (t : qpc) : bool := match t with QStart | QHave | QWait => true | _ => false end.

(* ------------------------------------------------------------------------------------------------ *)
(* G. Composite clean-up bodies: sub-component shutdown calls that may fail                           *)
(* ------------------------------------------------------------------------------------------------ *)
(* A clean handler of a composite component (mapping handler: final stats report, tunnel manager Close, adapter Close;
   StreamProcessor.onClose: buffer manager, writer, reader; SessionManager.onClose; Bridge.Close; Tunnel.Close) calls the
   shutdown of each sub-component in turn.  `early = false`: errors are collected / returned at the end (the repository);
   `early = true`: the body returns at the first failing sub-component. *)
Record sub := { s_id : nat; s_fail : bool }.
Fixpoint run_body (early : bool) (subs : list sub) : list nat * list nat :=
  match subs with
  | [] => ([], [])
  | s :: r => if early && s_fail s then ([s_id s], [s_id s])
              else let '(ran, errs) := run_body early r in (s_id s :: ran, if s_fail s then s_id s :: errs else errs)
  end.
(* the sub-component bodies run by a Dispose whose handler `h` has the composite body `bodies h`, given its run log *)
Definition sub_runlog (early : bool) (bodies : nat -> list sub) (runlog : list nat) : list nat :=
  flat_map (fun h => fst (run_body early (bodies h))) runlog.

(* ------------------------------------------------------------------------------------------------ *)
(* H. Bridge: connections attached after a Close                                                     *)
(* ------------------------------------------------------------------------------------------------ *)
(* bridge.go Close: under the connection locks close and nil whatever connection fields are set NOW (one slot per side;
   the model follows one side), then ManagerBase.Close (latch).  bridge_connection.go SetTargetConnection /
   SetSourceConnection: store the connection in the slot (no closed test).  `fastpath = true`: Close returns at once when
   the bridge is already closed. *)
Record bsh := {
  b_latch : bool;              (* Dispose.closed *)
  b_slot : option nat;         (* the connection currently attached on this side *)
  b_closedlog : list nat;      (* connections closed by a Close sweep, in order *)
  b_attached : list nat;       (* ghost: every connection ever attached *)
  b_dropped : list nat }.      (* ghost: connections displaced by a later attach before any sweep saw them *)
Inductive bpc := BClose | BSweep | BLatch | BDone | BAttach (c : nat) | BAttached.

Definition bstep (fastpath : bool) (t : bpc) (s : bsh) : bpc * bsh :=
  match t with
  | BClose => if fastpath && b_latch s then (BDone, s) else (BSweep, s)
  | BSweep => (BLatch, match b_slot s with
                       | Some c => {| b_latch := b_latch s; b_slot := None; b_closedlog := b_closedlog s ++ [c];
                                      b_attached := b_attached s; b_dropped := b_dropped s |}
                       | None => s
                       end)
  | BLatch => (BDone, {| b_latch := true; b_slot := b_slot s; b_closedlog := b_closedlog s; b_attached := b_attached s;
                         b_dropped := b_dropped s |})
  | BAttach c => (BAttached, {| b_latch := b_latch s; b_slot := Some c; b_closedlog := b_closedlog s;
                                b_attached := b_attached s ++ [c];
                                b_dropped := match b_slot s with Some o => b_dropped s ++ [o] | None => b_dropped s end |})
  | BDone | BAttached => (t, s)
  end.
Definition binit : bsh := {| b_latch := false; b_slot := None; b_closedlog := []; b_attached := []; b_dropped := [] |}.
Definition b_pending (t : bpc) : list nat := match t with BAttach c => [c] | _ => [] end.
Definition b_initial (t : bpc) : bool := match t with BClose | BAttach _ => true | _ => false end.
Definition cnt (c : nat) (l : list nat) : nat := count_occ Nat.eq_dec l c.
Definition slot_list (o : option nat) : list nat := match o with Some c => [c] | None => [] end.

(* ------------------------------------------------------------------------------------------------ *)
(* I. SessionManager: closers of one connection                                                      *)
(* ------------------------------------------------------------------------------------------------ *)
(* connection_lifecycle.go CloseConnection: `remove_first = true` (the repository): under connLock look the entry up AND
   delete it (the deletion is the run-once latch: only the caller that removed it owns the connection), then release it
   (Stream.Close, RawConn.Close) outside the lock.  `remove_first = false`: look up under RLock, release, delete afterwards.
   manager.go onClose (SessionManager.Close): under connLock release every entry still in the map and empty the map. *)
Record ish := { i_present : bool; i_released : nat }.
Inductive ipc :=
| ILookup                 (* CloseConnection: about to look the entry up *)
| IRelease (own : bool)   (* about to release what it found (own = it found the entry) *)
| IRemove                 (* release-first variant: about to delete the entry *)
| IDone
| IMgrClose.              (* SessionManager.onClose: one critical section *)

Definition istep (remove_first : bool) (t : ipc) (s : ish) : ipc * ish :=
  match t with
  | ILookup => (IRelease (i_present s), if remove_first then {| i_present := false; i_released := i_released s |} else s)
  | IRelease own => (if remove_first then IDone else IRemove,
                     if own then {| i_present := i_present s; i_released := S (i_released s) |} else s)
  | IRemove => (IDone, {| i_present := false; i_released := i_released s |})
  | IMgrClose => (IDone, if i_present s then {| i_present := false; i_released := S (i_released s) |} else s)
  | IDone => (t, s)
  end.
Definition iinit : ish := {| i_present := true; i_released := 0 |}.
Definition i_initial (t : ipc) : bool := match t with ILookup | IMgrClose => true | _ => false end.
Definition i_done (t : ipc) : bool := match t with IDone => true | _ => false end.

(* ------------------------------------------------------------------------------------------------ *)
(* J. dispose.ResourceManager                                                                        *)
(* ------------------------------------------------------------------------------------------------ *)
(* manager.go.  Sequential part: Register (refused for a name already present), Unregister, DisposeAll (every registered
   resource once, in reverse registration order; the lists are emptied; errors collected). *)
Inductive rmop := RmRegister (id : nat) (fail : bool) | RmUnregister (id : nat) | RmDisposeAll.
Record rmst := { rm_order : list (nat * bool); rm_log : list nat; rm_results : list nat }.
Definition rm_has (id : nat) (l : list (nat * bool)) : bool := existsb (fun p => Nat.eqb (fst p) id) l.
Definition rm_apply (s : rmst) (op : rmop) : rmst :=
  match op with
  | RmRegister id f => if rm_has id (rm_order s) then {| rm_order := rm_order s; rm_log := rm_log s; rm_results := rm_results s ++ [1] |}
                       else {| rm_order := rm_order s ++ [(id, f)]; rm_log := rm_log s; rm_results := rm_results s ++ [0] |}
  | RmUnregister id => if rm_has id (rm_order s)
                       then {| rm_order := filter (fun p => negb (Nat.eqb (fst p) id)) (rm_order s); rm_log := rm_log s; rm_results := rm_results s ++ [0] |}
                       else {| rm_order := rm_order s; rm_log := rm_log s; rm_results := rm_results s ++ [1] |}
  | RmDisposeAll => {| rm_order := []; rm_log := rm_log s ++ map fst (rev (rm_order s));
                       rm_results := rm_results s ++ [length (filter snd (rm_order s))] |}
  end.
Definition rm_run (ops : list rmop) : rmst := fold_left rm_apply ops {| rm_order := []; rm_log := []; rm_results := [] |}.

(* DisposeWithTimeout: a helper goroutine runs DisposeAll (which may be held up by a slow resource until `t_gate` opens)
   and sends the result on a channel; the caller selects between that channel and the timeout.  `buffered = true` (the
   repository): capacity 1, the send never blocks.  `buffered = false`: the send completes only while the caller is still
   receiving. *)
Record tsh2 := { t_gate : bool; t_fired : bool; t_waiting : bool; t_sent : bool }.
Inductive tpc2 :=
| HRun | HSend | HDone                   (* the helper *)
| CSelect (prefer_timeout : bool) | CRet (timed_out : bool)   (* the caller; prefer_timeout resolves a select with both cases ready *)
| TFire | TFired                         (* the timer *)
| GOpen | GOpened.                       (* the slow resource finishing *)

Definition tstep2 (buffered : bool) (t : tpc2) (s : tsh2) : tpc2 * tsh2 :=
  match t with
  | HRun => if t_gate s then (HSend, s) else (t, s)
  | HSend => if buffered || t_waiting s
             then (HDone, {| t_gate := t_gate s; t_fired := t_fired s; t_waiting := t_waiting s; t_sent := true |})
             else (t, s)
  | CSelect p =>
      if t_sent s && (negb buffered || negb (p && t_fired s)) then (CRet false, {| t_gate := t_gate s; t_fired := t_fired s; t_waiting := false; t_sent := t_sent s |})
      else if t_fired s then (CRet true, {| t_gate := t_gate s; t_fired := t_fired s; t_waiting := false; t_sent := t_sent s |})
      else (t, s)
  | TFire => (TFired, {| t_gate := t_gate s; t_fired := true; t_waiting := t_waiting s; t_sent := t_sent s |})
  | GOpen => (GOpened, {| t_gate := true; t_fired := t_fired s; t_waiting := t_waiting s; t_sent := t_sent s |})
  | HDone | CRet _ | TFired | GOpened => (t, s)
  end.
Definition tinit2 : tsh2 := {| t_gate := false; t_fired := false; t_waiting := true; t_sent := false |}.

(* ------------------------------------------------------------------------------------------------ *)
(* J2. ResourceManager.DisposeAll against Register calls made while it runs                          *)
(* ------------------------------------------------------------------------------------------------ *)
(* manager.go DisposeAll: under rm.mu take a snapshot of resources / order and reset the manager's own lists; then, outside
   the lock, dispose order[i] for i = n-1 .. 0, looking each name up in the snapshot map.  `alias = false` (the repository):
   the snapshot is a copy.  `alias = true`: the loop reads the manager's own backing array (rm.order = rm.order[:0]), so the
   k-th Register made meanwhile overwrites slot k of what the loop is still going to read. *)
Record ash := { a_arr : list nat; a_old : list nat; a_live : list nat; a_disposed : list nat }.
Inductive apc := ALoopStart | ALoop (i : nat) | ALoopDone | AReg (id : nat) | ARegDone (id : nat).
Definition astep (alias : bool) (t : apc) (s : ash) : apc * ash :=
  match t with
  | ALoopStart => (ALoop (length (a_live s)),
                   {| a_arr := a_live s; a_old := a_live s; a_live := []; a_disposed := a_disposed s |})
  | ALoop (S i) => let name := nth i (a_arr s) 0 in
                   (ALoop i, if existsb (Nat.eqb name) (a_old s)
                             then {| a_arr := a_arr s; a_old := a_old s; a_live := a_live s; a_disposed := a_disposed s ++ [name] |}
                             else s)                                   (* resources[name] == nil: skipped *)
  | ALoop 0 => (ALoopDone, s)
  | AReg id => (ARegDone id, {| a_arr := if alias then upd_nth (length (a_live s)) id (a_arr s) else a_arr s;
                                a_old := a_old s; a_live := a_live s ++ [id]; a_disposed := a_disposed s |})
  | ALoopDone | ARegDone _ => (t, s)
  end.
Definition ainit (l0 : list nat) : ash := {| a_arr := []; a_old := []; a_live := l0; a_disposed := [] |}.
Definition a_is_reg (t : apc) : bool := match t with AReg _ | ARegDone _ => true | _ => false end.

(* ------------------------------------------------------------------------------------------------ *)
(* K. mapping handler statistics: reportStats (periodic tick, final report of the clean-up handler)  *)
(* ------------------------------------------------------------------------------------------------ *)
(* client/mapping/base_utils.go reportStats, one of the two symmetric counters.  `swap = true` (the repository):
   v := counter.Swap(0); if v > 0 { upload v; on failure counter.Add(v) }.  `swap = false`: v := counter.Load(); upload v;
   on success counter.Add(-v).  KAdd threads are the tunnels' OnClosed callbacks adding their totals. *)
Record ksh := { k_cnt : Z; k_up : Z; k_added : Z }.
Inductive kpc := KTake (fail : bool) | KUpload (v : Z) (fail : bool) | KSub (v : Z) | KRDone | KAdd (todo : list Z).
Definition kstep (swap : bool) (t : kpc) (s : ksh) : kpc * ksh :=
  match t with
  | KTake f => (if (0 <? k_cnt s)%Z then KUpload (k_cnt s) f else KRDone,
                if swap then {| k_cnt := 0; k_up := k_up s; k_added := k_added s |} else s)
  | KUpload v f =>
      if f then (KRDone, if swap then {| k_cnt := (k_cnt s + v)%Z; k_up := k_up s; k_added := k_added s |} else s)
      else (if swap then KRDone else KSub v, {| k_cnt := k_cnt s; k_up := (k_up s + v)%Z; k_added := k_added s |})
  | KSub v => (KRDone, {| k_cnt := (k_cnt s - v)%Z; k_up := k_up s; k_added := k_added s |})
  | KAdd (d :: r) => (KAdd r, {| k_cnt := (k_cnt s + d)%Z; k_up := k_up s; k_added := (k_added s + d)%Z |})
  | KAdd [] | KRDone => (t, s)
  end.
Definition kinit : ksh := {| k_cnt := 0; k_up := 0; k_added := 0 |}.
Definition k_initial (t : kpc) : bool :=
  match t with KTake _ => true | KAdd todo => forallb (fun d => (0 <=? d)%Z) todo | _ => false end.
Definition k_finished (t : kpc) : bool := match t with KRDone | KAdd [] => true | _ => false end.
Definition k_inflight (t : kpc) : list Z := match t with KUpload v _ => [v] | _ => [] end.

(* ------------------------------------------------------------------------------------------------ *)
(* L. Bridge.cleanup: the final traffic report against a statistics backend that does not answer     *)
(* ------------------------------------------------------------------------------------------------ *)
(* bridge.go cleanup (runs inside Close, under the Dispose latch): `guarded = true` (the repository): the report runs in a
   helper goroutine and the clean-up handler waits for it OR for a 5 s timer; `guarded = false`: a synchronous call.
   Threads of the system: [closer; report helper; timer; backend] — the backend thread may never be scheduled. *)
Record lsh := { l_backend : bool; l_reported : bool; l_timer : bool }.
Inductive lpc := LSpawn | LWait | LRest | LDone | LReport | LReported | LTimer | LTimerFired | LBackend | LBackendUp.
Definition lstep (guarded : bool) (t : lpc) (s : lsh) : lpc * lsh :=
  match t with
  | LSpawn => (LWait, s)
  | LWait => if l_reported s || (guarded && l_timer s) then (LRest, s) else (t, s)
  | LRest => (LDone, s)                                    (* UnregisterMeter, ReleaseCrossNodeConnection; Close returns *)
  | LReport => if l_backend s then (LReported, {| l_backend := l_backend s; l_reported := true; l_timer := l_timer s |}) else (t, s)
  | LTimer => (LTimerFired, {| l_backend := l_backend s; l_reported := l_reported s; l_timer := true |})
  | LBackend => (LBackendUp, {| l_backend := true; l_reported := l_reported s; l_timer := l_timer s |})
  | LDone | LReported | LTimerFired | LBackendUp => (t, s)
  end.
Definition linit : lsh := {| l_backend := false; l_reported := false; l_timer := false |}.

(* ------------------------------------------------------------------------------------------------ *)
(* M. the close latch of dispose.Dispose in isolation                                                *)
(* ------------------------------------------------------------------------------------------------ *)
(* dispose.go Close.  `atomic = true` (the repository, as in section A): currentLock.Lock(); if closed return; closed = true;
   ... — test and set are one critical section.  `atomic = false`: if IsClosed() return (IsClosed takes and releases the
   lock); Lock(); closed = true; run the handlers — check-then-act. *)
Record msh := { m_closed : bool; m_lock : bool; m_runs : nat }.
Inductive mpc := MCheck | MLock | MRun | MUnlock | MDone.
Definition mstep (atomic : bool) (t : mpc) (s : msh) : mpc * msh :=
  match t with
  | MCheck => if m_lock s then (t, s)
              else if m_closed s then (MDone, s)
              else if atomic then (MRun, {| m_closed := true; m_lock := true; m_runs := m_runs s |}) else (MLock, s)
  | MLock => if m_lock s then (t, s) else (MRun, {| m_closed := true; m_lock := true; m_runs := m_runs s |})
  | MRun => (MUnlock, {| m_closed := m_closed s; m_lock := m_lock s; m_runs := S (m_runs s) |})
  | MUnlock => (MDone, {| m_closed := m_closed s; m_lock := false; m_runs := m_runs s |})
  | MDone => (t, s)
  end.
Definition minit : msh := {| m_closed := false; m_lock := false; m_runs := 0 |}.

(* ------------------------------------------------------------------------------------------------ *)
(* N. client tunnel manager: a tunnel registered under the id of a tunnel that is closing            *)
(* ------------------------------------------------------------------------------------------------ *)
(* client/tunnel/manager.go RegisterTunnel (LoadOrStore: refused while ANY entry exists under the id; `replace = true`: an
   entry whose tunnel is Closing / Closed is swapped for the new tunnel) and tunnel.go Close, which ends with
   manager.UnregisterTunnel(t.id) — deletion BY ID.  Tunnel 0 is registered and being closed by the one closer that won its
   state CAS (section B); NReg b threads register tunnels b >= 1 under the same id. *)
Record nsh := { n_entry : option nat; n_closing : bool; n_closed0 : bool; n_regok : list nat }.
Inductive npc := NMark | NUnreg | NDone | NReg (b : nat) | NRegRet (ok : bool).
Definition nstep (replace : bool) (t : npc) (s : nsh) : npc * nsh :=
  match t with
  | NMark => (NUnreg, {| n_entry := n_entry s; n_closing := true; n_closed0 := n_closed0 s; n_regok := n_regok s |})   (* state CAS -> Closing *)
  | NUnreg => (NDone, {| n_entry := None; n_closing := n_closing s; n_closed0 := true; n_regok := n_regok s |})      (* LoadAndDelete(id) *)
  | NReg b =>
      match n_entry s with
      | None => (NRegRet true, {| n_entry := Some b; n_closing := n_closing s; n_closed0 := n_closed0 s; n_regok := n_regok s ++ [b] |})
      | Some o => if replace && Nat.eqb o 0 && n_closing s
                  then (NRegRet true, {| n_entry := Some b; n_closing := n_closing s; n_closed0 := n_closed0 s; n_regok := n_regok s ++ [b] |})
                  else (NRegRet false, s)
      end
  | NDone | NRegRet _ => (t, s)
  end.
Definition ninit : nsh := {| n_entry := Some 0; n_closing := false; n_closed0 := false; n_regok := [] |}.

(* ------------------------------------------------------------------------------------------------ *)
(* O. a clean handler that takes the Dispose lock of its own component                               *)
(* ------------------------------------------------------------------------------------------------ *)
(* Dispose.Close runs the clean handlers while holding currentLock (not re-entrant).  `reenter = true`: a handler reaches,
   on the same goroutine, a call that takes that lock again (IsClosed() / Close() of the same component). *)
Record osh := { o_lock : bool; o_closed : bool; o_ran : nat }.
Inductive opc := OLock | ORun | OUnlock | ODone.
Definition ostep (reenter : bool) (t : opc) (s : osh) : opc * osh :=
  match t with
  | OLock => if o_lock s then (t, s)
             else if o_closed s then (ODone, s)
             else (ORun, {| o_lock := true; o_closed := true; o_ran := o_ran s |})
  | ORun => if reenter && o_lock s then (t, s)               (* waits for the lock it holds itself *)
            else (OUnlock, {| o_lock := o_lock s; o_closed := o_closed s; o_ran := S (o_ran s) |})
  | OUnlock => (ODone, {| o_lock := false; o_closed := o_closed s; o_ran := o_ran s |})
  | ODone => (t, s)
  end.
Definition oinit : osh := {| o_lock := false; o_closed := false; o_ran := 0 |}.

(* ------------------------------------------------------------------------------------------------ *)
(* P. CopyWithControl: the batched traffic counter on every exit path                                *)
(* ------------------------------------------------------------------------------------------------ *)
(* bridge_forward.go CopyWithControl: every delivered chunk is added to a local batch, the batch to the shared counter when
   it reaches the threshold; what is left is flushed when the loop ends.  Flush sites: `ctx_flush` = the explicit
   counter.Add in the `<-b.Ctx().Done()` branch, `tail_flush` = the flush after the loop (every `break` path), `defer_flush`
   = a deferred flush on every return.  Repository: ctx_flush && tail_flush && not defer_flush. *)
Record cpst := { cp_counter : N; cp_batch : N; cp_total : N }.
Definition cp_chunk (threshold : N) (s : cpst) (n : N) : cpst :=
  let b := (cp_batch s + n)%N in
  if (threshold <=? b)%N then {| cp_counter := (cp_counter s + b)%N; cp_batch := 0; cp_total := (cp_total s + n)%N |}
  else {| cp_counter := cp_counter s; cp_batch := b; cp_total := (cp_total s + n)%N |}.
Definition cp_exit (ctx_flush tail_flush defer_flush : bool) (via_ctx : bool) (s : cpst) : cpst :=
  let once := if via_ctx then ctx_flush else tail_flush in
  let k := ((if once then 1 else 0) + (if defer_flush then 1 else 0))%N in
  {| cp_counter := (cp_counter s + k * cp_batch s)%N; cp_batch := cp_batch s; cp_total := cp_total s |}.
Definition cp_run (ctx_flush tail_flush defer_flush : bool) (threshold : N) (chunks : list N) (via_ctx : bool) : cpst :=
  cp_exit ctx_flush tail_flush defer_flush via_ctx
          (fold_left (cp_chunk threshold) chunks {| cp_counter := 0; cp_batch := 0; cp_total := 0 |}).

(* ------------------------------------------------------------------------------------------------ *)
(* Q. the connection slot of the mapping handler: released by the tunnel's OnClosed or by the deferred failure path *)
(* ------------------------------------------------------------------------------------------------ *)
(* client/mapping/base.go handleConnection: releaseSlot := func() { releaseOnce.Do(func() { activeConnCount.Add(-1) }) }
   (`once = true`, the repository) is called by the tunnel's OnClosed closure and by the deferred failure path (Start failed
   because a close landed between RegisterTunnel and Start) — possibly both.  `once = false`: the plain decrement. *)
Record qslot := { qs_active : Z; qs_once : bool }.
Definition qrelease (once : bool) (t : bool) (s : qslot) : bool * qslot :=
  if t then (t, s)                                                   (* this caller has already released *)
  else (true, if once then (if qs_once s then s else {| qs_active := (qs_active s - 1)%Z; qs_once := true |})
              else {| qs_active := (qs_active s - 1)%Z; qs_once := qs_once s |}).
Definition qsinit : qslot := {| qs_active := 1; qs_once := false |}.

(* ------------------------------------------------------------------------------------------------ *)
(* R. ReadExact / ReadExactZeroCopy on a polling reader                                              *)
(* ------------------------------------------------------------------------------------------------ *)
(* stream_processor_read.go: `for totalRead < length { select { case <-ctx.Done(): return ...; default: }; n, err := reader.Read(...);
   ...; if n == 0 { continue } }`.  The reader is a polling transport: (0, nil) while idle, not unblocked by closing the
   processor.  `per_iter = true` (the repository): the context is tested on every iteration; `per_iter = false`: once,
   before the loop.  RCl is Close cancelling the processor's context. *)
Record rdsh := { rd_cancel : bool }.
Inductive rdpc := RChk | RRd | RRet | RCl | RClDone.
Definition rdstep (per_iter : bool) (t : rdpc) (s : rdsh) : rdpc * rdsh :=
  match t with
  | RChk => if rd_cancel s then (RRet, s) else (RRd, s)
  | RRd => (if per_iter then RChk else RRd, s)          (* Read returned (0, nil): continue *)
  | RCl => (RClDone, {| rd_cancel := true |})
  | RRet | RClDone => (t, s)
  end.

(* Model/Forward.v — the two copy loops of session/cross_node_forward_helper.go runBidirectionalForward:
     upload   goroutine: io.Copy(RemoteConn, localConn)      download goroutine: io.Copy(localConn, RemoteConn)
   at the granularity of one Read or one Write call (io.Copy: `nr := src.Read(buf); dst.Write(buf[0:nr])`), interleaved by
   an arbitrary schedule (Base/Threads.v).  Each io.Copy allocates ITS OWN buffer; the variant `shared = true` is the
   "one copyBuf for both directions through io.CopyBuffer" design, kept to state what goes wrong with it.
   Definitions only; proofs are in Proofs/Forward.v. *)
From TX Require Export Base.Bytes Base.Chunks Base.Threads.

Inductive phase :=
| PRead                             (* about to call src.Read(buf) *)
| PWrite (n : nat) (last : bool)    (* Read returned n bytes (last: together with io.EOF); about to call dst.Write(buf[:n]) *)
| PDone.                            (* Read returned io.EOF: the copy loop has ended *)

(* one direction: the copy buffer, what its source will still return (one list element per Read call: the chunk
   oracle of that connection), whether the source hands out its LAST chunk together with io.EOF (legal io.Reader
   behaviour) or reports a bare (0, io.EOF) afterwards, what its destination has received so far, and the two
   byte counters a CountingReadWriter keeps when it wraps the source (counts n of every Read) or the destination
   (counts n of every Write) *)
Record dirst := { d_buf : list byte; d_src : list (list byte); d_eofl : bool; d_snk : list byte; d_rcnt : nat; d_wcnt : nat }.
Record fsh := { sh_up : dirst; sh_down : dirst }.
Definition flo := (bool * phase)%type.      (* false = upload loop, true = download loop *)

Definition getd (d : bool) (s : fsh) : dirst := if d then sh_down s else sh_up s.
Definition setd (d : bool) (x : dirst) (s : fsh) : fsh :=
  if d then {| sh_up := sh_up s; sh_down := x |} else {| sh_up := x; sh_down := sh_down s |}.
Definition with_buf (x : dirst) (b : list byte) : dirst :=
  {| d_buf := b; d_src := d_src x; d_eofl := d_eofl x; d_snk := d_snk x; d_rcnt := d_rcnt x; d_wcnt := d_wcnt x |}.
(* a Read consumed chunk c: the rest of the source and the read counter *)
Definition with_src (x : dirst) (t : list (list byte)) (n : nat) : dirst :=
  {| d_buf := d_buf x; d_src := t; d_eofl := d_eofl x; d_snk := d_snk x; d_rcnt := d_rcnt x + n; d_wcnt := d_wcnt x |}.
(* a Write delivered k: the sink and the write counter *)
Definition with_snk (x : dirst) (k : list byte) : dirst :=
  {| d_buf := d_buf x; d_src := d_src x; d_eofl := d_eofl x; d_snk := d_snk x ++ k; d_rcnt := d_rcnt x; d_wcnt := d_wcnt x + length k |}.

(* whose buffer direction d copies through *)
Definition bufdir (shared d : bool) : bool := if shared then false else d.
(* copy(p, chunk): the chunk overwrites the front of the buffer *)
Definition fill (c buf : list byte) : list byte := c ++ skipn (length c) buf.
(* does this Read return its chunk together with io.EOF *)
Definition is_last (x : dirst) (t : list (list byte)) : bool := d_eofl x && match t with [] => true | _ => false end.

Definition fstep (shared : bool) (l : flo) (s : fsh) : flo * fsh :=
  let d := fst l in
  match snd l with
  | PDone => (l, s)
  | PRead =>
    match d_src (getd d s) with
    | [] => ((d, PDone), s)
    | c :: t =>
      let s1 := setd d (with_src (getd d s) t (length c)) s in
      let bd := bufdir shared d in
      ((d, PWrite (length c) (is_last (getd d s) t)), setd bd (with_buf (getd bd s1) (fill c (d_buf (getd bd s1)))) s1)
    end
  | PWrite n last =>
    let bd := bufdir shared d in
    ((d, if last then PDone else PRead), setd d (with_snk (getd d s) (firstn n (d_buf (getd bd s)))) s)
  end.

Definition dinit (b : list byte) (src : list (list byte)) (e : bool) : dirst :=
  {| d_buf := b; d_src := src; d_eofl := e; d_snk := []; d_rcnt := 0; d_wcnt := 0 |}.
(* eu / ed: the upload / download source returns its last chunk together with io.EOF *)
Definition finit_e (eu ed : bool) (bu bd : list byte) (up down : list (list byte)) : fsh * list flo :=
  ({| sh_up := dinit bu up eu; sh_down := dinit bd down ed |}, [(false, PRead); (true, PRead)]).
Definition finit := finit_e false false.

Definition frun (shared : bool) (s : fsh * list flo) (sched : list nat) : fsh * list flo := run fsh flo (fstep shared) s sched.
Definition sink_up (s : fsh * list flo) : list byte := d_snk (sh_up (fst s)).
Definition sink_down (s : fsh * list flo) : list byte := d_snk (sh_down (fst s)).
(* BytesSentCounter: bytes the wrapped LocalConn returned from Read; BytesReceivedCounter: bytes written to it *)
Definition sent_counter (s : fsh * list flo) : nat := d_rcnt (sh_up (fst s)).
Definition recv_counter (s : fsh * list flo) : nat := d_wcnt (sh_down (fst s)).
Definition phase_of (i : nat) (s : fsh * list flo) : phase := match nth_error (snd s) i with Some l => snd l | None => PDone end.

(* the variant "propagate EOF to the local side by CLOSING it" (LocalConn without CloseWrite): at the step at which the
   download loop ends the local connection is closed, so the upload loop's source yields nothing any more.  Kept only
   to state what goes wrong with it (Proofs/Forward.v close_on_download_end_refuted). *)
Definition fstep_close (l : flo) (s : fsh) : flo * fsh :=
  let '(l', s') := fstep false l s in
  match fst l, snd l, snd l' with
  | true, PDone, _ => (l', s')
  | true, _, PDone => (l', setd false (with_src (getd false s') [] 0) s')
  | _, _, _ => (l', s')
  end.
Definition frun_close (s : fsh * list flo) (sched : list nat) : fsh * list flo := run fsh flo fstep_close s sched.

(* one copy loop on its own *)
Definition solo (x : phase * dirst) : phase * dirst :=
  match fst x with
  | PDone => x
  | PRead => match d_src (snd x) with
             | [] => (PDone, snd x)
             | c :: t => (PWrite (length c) (is_last (snd x) t), with_buf (with_src (snd x) t (length c)) (fill c (d_buf (snd x))))
             end
  | PWrite n last => (if last then PDone else PRead, with_snk (snd x) (firstn n (d_buf (snd x))))
  end.

(* what a reader over the chunk oracle of Base/Chunks.v hands to a loop that reads with a cap-byte buffer until the end *)
Fixpoint oracle_chunks (fuel : nat) (cap : N) (r : rd) : list (list byte) :=
  match fuel with
  | O => []
  | S f => match read1 cap r with
           | None => []
           | Some (got, r') => got :: oracle_chunks f cap r'
           end
  end.

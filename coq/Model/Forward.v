(* Model/Forward.v — the two copy loops of session/cross_node_forward_helper.go runBidirectionalForward:
     upload   goroutine: io.Copy(RemoteConn, localConn)      download goroutine: io.Copy(localConn, RemoteConn)
   at the granularity of one Read or one Write call (io.Copy: `nr := src.Read(buf); dst.Write(buf[0:nr])`), interleaved by
   an arbitrary schedule (Base/Threads.v).  Each io.Copy allocates ITS OWN buffer; the variant `shared = true` is the
   "one copyBuf for both directions through io.CopyBuffer" design, kept to state what goes wrong with it.
   Definitions only; proofs are in Proofs/Forward.v. *)
From TX Require Export Base.Bytes Base.Threads.

Inductive phase :=
| PRead                 (* about to call src.Read(buf) *)
| PWrite (n : nat)      (* Read returned n bytes into the buffer; about to call dst.Write(buf[:n]) *)
| PDone.                (* Read returned io.EOF: the copy loop has ended *)

(* one direction: the copy buffer, what its source will still return (one list element per Read call: the chunk
   oracle of that connection) and what its destination has received so far *)
Record dirst := { d_buf : list byte; d_src : list (list byte); d_snk : list byte }.
Record fsh := { sh_up : dirst; sh_down : dirst }.
Definition flo := (bool * phase)%type.      (* false = upload loop, true = download loop *)

Definition getd (d : bool) (s : fsh) : dirst := if d then sh_down s else sh_up s.
Definition setd (d : bool) (x : dirst) (s : fsh) : fsh :=
  if d then {| sh_up := sh_up s; sh_down := x |} else {| sh_up := x; sh_down := sh_down s |}.
Definition with_buf (x : dirst) (b : list byte) : dirst := {| d_buf := b; d_src := d_src x; d_snk := d_snk x |}.
Definition with_src (x : dirst) (t : list (list byte)) : dirst := {| d_buf := d_buf x; d_src := t; d_snk := d_snk x |}.
Definition with_snk (x : dirst) (k : list byte) : dirst := {| d_buf := d_buf x; d_src := d_src x; d_snk := k |}.

(* whose buffer direction d copies through *)
Definition bufdir (shared d : bool) : bool := if shared then false else d.
(* copy(p, chunk): the chunk overwrites the front of the buffer *)
Definition fill (c buf : list byte) : list byte := c ++ skipn (length c) buf.

Definition fstep (shared : bool) (l : flo) (s : fsh) : flo * fsh :=
  let d := fst l in
  match snd l with
  | PDone => (l, s)
  | PRead =>
    match d_src (getd d s) with
    | [] => ((d, PDone), s)
    | c :: t =>
      let s1 := setd d (with_src (getd d s) t) s in
      let bd := bufdir shared d in
      ((d, PWrite (length c)), setd bd (with_buf (getd bd s1) (fill c (d_buf (getd bd s1)))) s1)
    end
  | PWrite n =>
    let bd := bufdir shared d in
    ((d, PRead), setd d (with_snk (getd d s) (d_snk (getd d s) ++ firstn n (d_buf (getd bd s)))) s)
  end.

Definition finit (bu bd : list byte) (up down : list (list byte)) : fsh * list flo :=
  ({| sh_up := {| d_buf := bu; d_src := up; d_snk := [] |}; sh_down := {| d_buf := bd; d_src := down; d_snk := [] |} |},
   [(false, PRead); (true, PRead)]).

Definition frun (shared : bool) (s : fsh * list flo) (sched : list nat) : fsh * list flo := run fsh flo (fstep shared) s sched.
Definition sink_up (s : fsh * list flo) : list byte := d_snk (sh_up (fst s)).
Definition sink_down (s : fsh * list flo) : list byte := d_snk (sh_down (fst s)).
Definition phase_of (i : nat) (s : fsh * list flo) : phase := match nth_error (snd s) i with Some l => snd l | None => PDone end.

(* one copy loop on its own *)
Definition solo (x : phase * dirst) : phase * dirst :=
  match fst x with
  | PDone => x
  | PRead => match d_src (snd x) with
             | [] => (PDone, snd x)
             | c :: t => (PWrite (length c), with_buf (with_src (snd x) t) (fill c (d_buf (snd x))))
             end
  | PWrite n => (PRead, with_snk (snd x) (d_snk (snd x) ++ firstn n (d_buf (snd x))))
  end.

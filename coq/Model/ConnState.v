(* Model/ConnState.v — executable model of the cross-node client lookup (C08).
   Transcribed from /repo:
     internal/protocol/session/connstate/store.go   Store.RegisterConnection / UnregisterConnection / GetConnectionState /
                                                    FindClientNode / RefreshConnection (keys tunnox:conn_state:<conn>,
                                                    tunnox:client_conn:<client>, both written with the store's ttl)
     internal/protocol/session/packet_handler_handshake.go  handleHandshake: ReconcileIndex, "unregister the old connection of
                                                    this client on this node first", UpdateAuth, RegisterConnection
     internal/protocol/session/connection_lifecycle.go      CreateConnection, CloseConnection (-> UnregisterConnection, always)
     internal/protocol/session/command_integration.go       handleHeartbeat (-> RefreshConnection in the repaired code)
     internal/protocol/session/client_registry.go          removeConnectionLocked, KickOldConnection, dropStaleIndexLocked
     internal/core/storage/memory/memory.go, redis/redis.go Get/Set/Delete with a ttl (value shapes: memory hands back the
                                                    stored *Info pointer, Redis a JSON string)
   Definitions only, no proofs.  Connection ids, client ids (0 = none), node ids and times (ms) are N.

   `variant` selects the code that is modelled; current_variant = the tree with the three fixes/C08-*.diff applied,
   pinned_variant = the tree before them:
     v_guard        UnregisterConnection deletes client_conn:X only if it still names the connection being removed
     v_refresh_idx  RefreshConnection also renews client_conn:X (when it still names this connection)
     v_hb           handleHeartbeat calls RefreshConnection
     v_ptr          GetConnectionState accepts the *Info / Info shape the memory backend hands back
   `backend`: b_ptr = Get returns the stored Go value itself (memory, and hybrid without a shared cache);
              b_incl = a key is still readable at exactly its deadline (memory: now.After(exp); Redis: gone at exp). *)
From Coq Require Export List NArith Bool.
Export ListNotations.
Open Scope N_scope.

Record variant := { v_guard : bool; v_refresh_idx : bool; v_hb : bool; v_ptr : bool }.
Definition current_variant := {| v_guard := true; v_refresh_idx := true; v_hb := true; v_ptr := true |}.
Definition pinned_variant := {| v_guard := false; v_refresh_idx := false; v_hb := false; v_ptr := false |}.

Record backend := { b_ptr : bool; b_incl : bool }.
Definition memory_backend := {| b_ptr := true; b_incl := true |}.
Definition redis_backend := {| b_ptr := false; b_incl := false |}.

(* connstate.Info: the fields the lookup reads; i_exp = ExpiresAt = the storage deadline of the key
   (both are now+ttl of the same Set; GetConnectionState's own ExpiresAt test is subsumed by the key's deadline) *)
Record info := { i_client : N; i_node : N; i_ctl : bool; i_exp : N }.

(* the shared storage, restricted to the two key families (disjoint prefixes: Proofs/SideC08.v) *)
Record store := { cs : N -> option info;          (* tunnox:conn_state:<conn> *)
                  ci : N -> option (N * N) }.     (* tunnox:client_conn:<client> -> (conn, deadline) *)
Definition empty_store : store := {| cs := fun _ => None; ci := fun _ => None |}.

Definition upd {A} (f : N -> option A) (k : N) (v : option A) : N -> option A :=
  fun k' => if k' =? k then v else f k'.

Definition alive (b : backend) (now exp : N) : bool := if b_incl b then now <=? exp else now <? exp.

Inductive gres := GOk (i : info) | GAbsent | GErr.

(* Store.GetConnectionState *)
Definition get_state (v : variant) (b : backend) (now : N) (st : store) (c : N) : gres :=
  match cs st c with
  | None => GAbsent
  | Some i => if alive b now (i_exp i)
              then (if b_ptr b && negb (v_ptr v) then GErr (* "unexpected value type: *connstate.Info" *) else GOk i)
              else GAbsent
  end.

(* storage.Get(client key) decoded as a connection id (string and []byte are both accepted) *)
Definition idx_get (b : backend) (now : N) (st : store) (x : N) : option N :=
  match ci st x with
  | Some (c, e) => if alive b now e then Some c else None
  | None => None
  end.

(* Store.RegisterConnection (on node n): conn_state always, the client index for control connections with ClientID > 0 *)
Definition store_register (ttl n now : N) (st : store) (c x : N) (ctl : bool) : store :=
  let cs' := upd (cs st) c (Some {| i_client := x; i_node := n; i_ctl := ctl; i_exp := now + ttl |}) in
  {| cs := cs'; ci := if ctl && (0 <? x) then upd (ci st) x (Some (c, now + ttl)) else ci st |}.

(* Store.UnregisterConnection *)
Definition store_unregister (v : variant) (b : backend) (now : N) (st : store) (c : N) : store :=
  let ci' :=
    match get_state v b now st c with
    | GOk i =>
        if i_ctl i && (0 <? i_client i) then
          if v_guard v then
            match idx_get b now st (i_client i) with
            | Some c' => if c' =? c then upd (ci st) (i_client i) None else ci st
            | None => ci st
            end
          else upd (ci st) (i_client i) None
        else ci st
    | _ => ci st
    end in
  {| cs := upd (cs st) c None; ci := ci' |}.

(* Store.RefreshConnection (NodeID of the record is kept) *)
Definition store_refresh (v : variant) (b : backend) (ttl now : N) (st : store) (c : N) : store :=
  match get_state v b now st c with
  | GOk i =>
      let cs' := upd (cs st) c (Some {| i_client := i_client i; i_node := i_node i; i_ctl := i_ctl i; i_exp := now + ttl |}) in
      let ci' :=
        if v_refresh_idx v && i_ctl i && (0 <? i_client i) then
          match idx_get b now st (i_client i) with
          | Some c' => if c' =? c then upd (ci st) (i_client i) (Some (c, now + ttl)) else ci st
          | None => ci st
          end
        else ci st in
      {| cs := cs'; ci := ci' |}
  | _ => st
  end.

Inductive fres := Found (n c : N) | Absent | FErr.

(* Store.FindClientNode (the asking node plays no role in the answer) *)
Definition store_find (v : variant) (b : backend) (now : N) (st : store) (x : N) : fres :=
  if x =? 0 then FErr
  else match idx_get b now st x with
       | None => Absent
       | Some c => match get_state v b now st c with
                   | GOk i => Found (i_node i) c
                   | GAbsent => Absent
                   | GErr => FErr
                   end
       end.

(* ---------------------------------------------------------------------------------------------
   the cluster: any number of nodes, each with its SessionManager state, over ONE store
   --------------------------------------------------------------------------------------------- *)
Definition upd2 {A} (f : N -> N -> A) (n k : N) (v : A) : N -> N -> A :=
  fun n' k' => if (n' =? n) && (k' =? k) then v else f n' k'.

Record world := {
  w_now : N;
  w_st : store;
  w_conns : N -> N -> bool;        (* node, conn: in SessionManager.connMap with a usable stream *)
  w_ctl : N -> N -> option N;      (* node, conn -> client id of the authenticated control connection (ClientRegistry.connMap) *)
  w_idx : N -> N -> option N }.    (* node, client -> conn (ClientRegistry.clientIDMap) *)

Definition init : world :=
  {| w_now := 0; w_st := empty_store; w_conns := fun _ _ => false; w_ctl := fun _ _ => None; w_idx := fun _ _ => None |}.

Inductive event :=
| Connect (n c : N)        (* CreateConnection *)
| AuthOK (n c x : N)       (* HandlePacket(Handshake), the auth handler authenticates the connection as client x *)
| AuthFail (n c : N)       (* HandlePacket(Handshake), rejected: no registration *)
| Kick (n x c : N)         (* KickOldControlConnection(x, newConn = c): part of a new login of x on node n *)
| Heartbeat (n c : N)      (* HandlePacket(Heartbeat) *)
| Close (n c : N)          (* CloseConnection — whenever node n notices (also the LATE cleanup of an old connection) *)
| Tick (d : N).            (* d ms pass *)

(* handleHandshake: isControlConnection := req.ConnectionType != "tunnel" (an omitted / empty / otherwise spelled
   connection_type, and a handshake packet without payload, are control handshakes).  Request shapes as numbered by the
   harness: shape mod 4 = 0 "control" | 1 omitted | 2 "tunnel" | 3 other spelling; +4 version omitted; +8 protocol
   omitted; +16 empty payload.  A handshake the server does not take for a control handshake registers nothing in the
   store and is the event AuthFail as far as the lookup is concerned (Proofs/SideC08.v ties this to the code). *)
Definition shape_is_control (k : N) : bool := (16 <=? k) || negb (k mod 4 =? 2).

Definition opt_is (o : option N) (c : N) : bool := match o with Some c' => c' =? c | None => false end.

(* ClientRegistry.removeConnectionLocked / KickOldConnection: drop conn o and its index entry if it names o *)
Definition reg_remove (n o : N) (ctl idx : N -> N -> option N) : (N -> N -> option N) * (N -> N -> option N) :=
  match ctl n o with
  | None => (ctl, idx)
  | Some y => (upd2 ctl n o None, if opt_is (idx n y) o then upd2 idx n y None else idx)
  end.

(* both also close the removed connection's stream: no later handshake can succeed on it *)
Definition reg_close (n o : N) (ctl : N -> N -> option N) (conns : N -> N -> bool) : N -> N -> bool :=
  match ctl n o with Some _ => upd2 conns n o false | None => conns end.

Definition step (v : variant) (b : backend) (ttl : N) (w : world) (e : event) : world :=
  match e with
  | Connect n c =>
      {| w_now := w_now w; w_st := w_st w; w_conns := upd2 (w_conns w) n c true; w_ctl := w_ctl w; w_idx := w_idx w |}
  | AuthOK n c x =>
      if negb (w_conns w n c) || (x =? 0) then w else
      (* ReconcileIndex: the connection may have been indexed under another id *)
      let idx1 := match w_ctl w n c with
                  | Some y => if (negb (y =? x)) && opt_is (w_idx w n y) c then upd2 (w_idx w) n y None else w_idx w
                  | None => w_idx w
                  end in
      (* an older connection of x on THIS node: unregister it from the store, remove it from the registry *)
      let '(st1, ctl1, idx2, cn1) :=
        match idx1 n x with
        | Some o => if o =? c then (w_st w, w_ctl w, idx1, w_conns w)
                    else let '(ctl', idx') := reg_remove n o (w_ctl w) idx1 in
                         (store_unregister v b (w_now w) (w_st w) o, ctl', idx', reg_close n o (w_ctl w) (w_conns w))
        | None => (w_st w, w_ctl w, idx1, w_conns w)
        end in
      {| w_now := w_now w;
         w_st := store_register ttl n (w_now w) st1 c x true;
         w_conns := cn1;
         w_ctl := upd2 ctl1 n c (Some x);
         w_idx := upd2 idx2 n x (Some c) |}
  | AuthFail n c => w
  | Kick n x c =>
      match w_idx w n x with
      | Some o => if o =? c then w
                  else let '(ctl', idx') := reg_remove n o (w_ctl w) (w_idx w) in
                       {| w_now := w_now w; w_st := w_st w; w_conns := reg_close n o (w_ctl w) (w_conns w);
                          w_ctl := ctl'; w_idx := idx' |}
      | None => w
      end
  | Heartbeat n c =>
      match w_ctl w n c with
      | Some _ => if v_hb v
                  then {| w_now := w_now w; w_st := store_refresh v b ttl (w_now w) (w_st w) c;
                          w_conns := w_conns w; w_ctl := w_ctl w; w_idx := w_idx w |}
                  else w
      | None => w
      end
  | Close n c =>
      let '(ctl', idx') := reg_remove n c (w_ctl w) (w_idx w) in
      {| w_now := w_now w; w_st := store_unregister v b (w_now w) (w_st w) c;
         w_conns := upd2 (w_conns w) n c false; w_ctl := ctl'; w_idx := idx' |}
  | Tick d =>
      {| w_now := w_now w + d; w_st := w_st w; w_conns := w_conns w; w_ctl := w_ctl w; w_idx := w_idx w |}
  end.

Definition run (v : variant) (b : backend) (ttl : N) (w : world) (h : list event) : world :=
  fold_left (step v b ttl) h w.

(* FindClientNode(x) asked on any node of the cluster *)
Definition find (v : variant) (b : backend) (w : world) (asking_node x : N) : fres :=
  store_find v b (w_now w) (w_st w) x.

(* ---- vocabulary of the property statements ---- *)
Definition ev_eqb (a b : event) : bool :=
  match a, b with
  | Connect n c, Connect n' c' => (n =? n') && (c =? c')
  | AuthOK n c x, AuthOK n' c' x' => (n =? n') && (c =? c') && (x =? x')
  | AuthFail n c, AuthFail n' c' => (n =? n') && (c =? c')
  | Kick n x c, Kick n' x' c' => (n =? n') && (x =? x') && (c =? c')
  | Heartbeat n c, Heartbeat n' c' => (n =? n') && (c =? c')
  | Close n c, Close n' c' => (n =? n') && (c =? c')
  | Tick d, Tick d' => d =? d'
  | _, _ => false
  end.

(* events after X's most recent handshake on connection c that would end "X holds c":
   another login of X (handshake or its kick), another handshake on c, a close of c on any node *)
Definition disturbs (x c : N) (e : event) : bool :=
  match e with
  | AuthOK _ c' x' => (x' =? x) || (c' =? c)
  | Kick _ x' _ => x' =? x
  | Close _ c' => c' =? c
  | _ => false
  end.
Definition quiet (x c : N) (post : list event) : bool := forallb (fun e => negb (disturbs x c e)) post.

(* heartbeats on (n, c) keep arriving at intervals < ttl (since = ms since the last renewal) *)
Fixpoint kept (ttl n c : N) (post : list event) (since : N) : bool :=
  match post with
  | [] => since <? ttl
  | Tick d :: r => kept ttl n c r (since + d)
  | Heartbeat n' c' :: r => if (n' =? n) && (c' =? c) then (since <? ttl) && kept ttl n c r 0 else kept ttl n c r since
  | _ :: r => kept ttl n c r since
  end.

(* a connection id authenticates as at most one client id in the history *)
Definition single_client (h : list event) : Prop :=
  forall n1 n2 c x1 x2, In (AuthOK n1 c x1) h -> In (AuthOK n2 c x2) h -> x1 = x2.

(* direct store-level histories, for the correspondence run on bare connstate.Store instances *)
Inductive sop :=
| SReg (n c x : N) (ctl : bool)
| SUnreg (n c : N)
| SRefresh (n c : N)
| STick (d : N).

Definition sstep (v : variant) (b : backend) (ttl : N) (ns : N * store) (o : sop) : N * store :=
  let '(now, st) := ns in
  match o with
  | SReg n c x ctl => (now, store_register ttl n now st c x ctl)
  | SUnreg _ c => (now, store_unregister v b now st c)
  | SRefresh _ c => (now, store_refresh v b ttl now st c)
  | STick d => (now + d, st)
  end.

(* ---- the statement of lookup_current, parametric in the code variant (so that the same statement can be
        proved of the repaired code and refuted of each pinned behaviour) ---- *)
Definition lookup_current_at (v : variant) (b : backend) (ttl X n c : N) (pre post : list event) : Prop :=
  X <> 0 ->
  w_conns (run v b ttl init pre) n c = true ->            (* c is an open connection of node n when it handshakes *)
  (forall n' x, In (AuthOK n' c x) pre -> n' = n) ->       (* connection ids are not shared between nodes *)
  quiet X c post = true ->                                 (* AuthOK n c X is X's most recent login and c is not closed *)
  kept ttl n c post 0 = true ->                            (* heartbeats on (n, c) at intervals < ttl *)
  forall asking_node, find v b (run v b ttl init (pre ++ AuthOK n c X :: post)) asking_node X = Found n c.

(* each pinned behaviour on its own *)
Definition without_guard := {| v_guard := false; v_refresh_idx := true; v_hb := true; v_ptr := true |}.
Definition without_refresh_idx := {| v_guard := true; v_refresh_idx := false; v_hb := true; v_ptr := true |}.
Definition without_hb := {| v_guard := true; v_refresh_idx := true; v_hb := false; v_ptr := true |}.
Definition without_ptr := {| v_guard := true; v_refresh_idx := true; v_hb := true; v_ptr := false |}.

(* a client that sends a heartbeat every d ms, k times *)
Fixpoint beats (n c d : N) (k : nat) : list event :=
  match k with O => [] | S k' => Tick d :: Heartbeat n c :: beats n c d k' end.

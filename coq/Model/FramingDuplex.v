(* Model/FramingDuplex.v — full-duplex use of ONE StreamProcessor: ReadPacket calls (under readLock) and the
   transport writes of WritePacket calls (under writeLock) proceed concurrently on the same object
   (stream_processor_read.go / stream_processor_write.go).  In the model the two directions own disjoint
   state: the reader side owns the incoming chunk oracle, the writer side owns the outgoing wire.  One schedule
   step = one ReadPacket (true) or one transport write (false).  Definitions only. *)
From TX Require Export Model.Framing.

Section Duplex.
  Variable V : fvariant.
  Variable MaxBody : N.
  Variable inflate : list byte -> option (list byte).
  Variable json_norm : list byte -> option (list byte).

  Record dside_r := { dr_rd : rd; dr_res : list pres; dr_stop : bool }.
  Record dside_w := { dw_todo : list (list byte); dw_wire : list byte }.

  Definition dr_step (s : dside_r) : dside_r :=
    if dr_stop s then s else
    match read_packet V MaxBody inflate json_norm (dr_rd s) with
    | (POk ty b c, r') => {| dr_rd := r'; dr_res := dr_res s ++ [POk ty b c]; dr_stop := false |}
    | (PErr e c, r') => {| dr_rd := r'; dr_res := dr_res s ++ [PErr e c]; dr_stop := true |}
    end.

  Definition dw_step (w : dside_w) : dside_w :=
    match dw_todo w with
    | [] => w
    | c :: cs => {| dw_todo := cs; dw_wire := dw_wire w ++ c |}
    end.

  Fixpoint drun (sched : list bool) (s : dside_r * dside_w) : dside_r * dside_w :=
    match sched with
    | [] => s
    | true :: t => drun t (dr_step (fst s), snd s)
    | false :: t => drun t (fst s, dw_step (snd s))
    end.

  Definition dr_init (r : rd) : dside_r := {| dr_rd := r; dr_res := []; dr_stop := false |}.
  Definition dw_init (chunks : list (list byte)) : dside_w := {| dw_todo := chunks; dw_wire := [] |}.

  Fixpoint count_b (b : bool) (l : list bool) : nat :=
    match l with [] => O | x :: t => (if Bool.eqb x b then 1 else 0) + count_b b t end.

  (* a writer that shares its scratch buffer with the reader (the shape of seeded change C01-8: the compressed body
     lives in a pooled buffer that a concurrent ReadPacket may take and overwrite): every reader step clobbers the
     pending chunks *)
  Definition dw_clobber (w : dside_w) : dside_w :=
    {| dw_todo := map (map (fun _ => 0%N)) (dw_todo w); dw_wire := dw_wire w |}.
  Fixpoint drun_shared (sched : list bool) (s : dside_r * dside_w) : dside_r * dside_w :=
    match sched with
    | [] => s
    | true :: t => drun_shared t (dr_step (fst s), dw_clobber (snd s))
    | false :: t => drun_shared t (fst s, dw_step (snd s))
    end.
End Duplex.

(* Model/ClientState.v — the OTHER cross-node location record of C08: the client runtime state kept by cloud control
   (key tunnox:runtime:client:state:<client>; read by GetClientNodeID / IsClientOnNode / online status).
   Transcribed from /repo:
     internal/cloud/services/client/state.go     ConnectClient (handshake: Set state := (node, conn), unconditionally),
                                                 EnsureClientOnline (every heartbeat: state present -> Touch only, node/conn kept;
                                                 state absent -> rebuilt from the heart-beating connection),
                                                 DisconnectClientIfMatch (delete only if the state still names (node, conn))
     internal/cloud/repos/client_state_repository.go   GetState / SetState / DeleteState (one storage call each, ttl 90 s)
     internal/app/server/auth_handler.go         updateClientRuntimeState -> ConnectClient on successful authentication
     internal/protocol/session/command_integration.go   handleHeartbeat -> EnsureClientOnline for a registered control connection
     internal/protocol/session/control_connection_mgr.go  RemoveControlConnection (CloseConnection) and cleanupStaleConnections ->
                                                 DisconnectClientIfMatch for a registered authenticated connection;
                                                 KickOldControlConnection and handleHandshake's old-connection removal make NO cloud call
   The record rides on the cluster model of Model/ConnState.v (same events, same per-node registries).  Its ttl (90 s,
   renewed by every heartbeat of any connection of the client) is not modelled: no history here lasts that long.
   `touch_moves` = the pinned-variant behaviour refuted below: the heartbeat's touch also overwrites node/conn with the
   heart-beating connection (seeded change C08-9).  Definitions only. *)
From TX Require Import Base.Threads.
From TX Require Import Model.ConnState.
Open Scope N_scope.

Definition rstate := N -> option (N * N).           (* client -> (node, conn) *)
Definition rs_empty : rstate := fun _ => None.

Definition loc_eqb (o : option (N * N)) (n c : N) : bool :=
  match o with Some (n', c') => (n' =? n) && (c' =? c) | None => false end.

Definition rs_event (touch_moves : bool) (w : world) (rs : rstate) (e : event) : rstate :=
  match e with
  | AuthOK n c x =>
      (* the auth handler's ConnectClient; the handshake runs only on a usable connection *)
      if negb (w_conns w n c) || (x =? 0) then rs else upd rs x (Some (n, c))
  | Heartbeat n c =>
      match w_ctl w n c with
      | Some x => match rs x with
                  | None => upd rs x (Some (n, c))                          (* state lost: rebuilt *)
                  | Some _ => if touch_moves then upd rs x (Some (n, c)) else rs   (* Touch: location kept *)
                  end
      | None => rs
      end
  | Close n c =>
      match w_ctl w n c with
      | Some x => if loc_eqb (rs x) n c then upd rs x None else rs     (* DisconnectClientIfMatch *)
      | None => rs
      end
  | _ => rs
  end.

(* the tree with the atomic service (fixes/C08-atomic-client-runtime-state.diff) but WITHOUT the rebuild-over-tombstone follow-up:
   a matched delete leaves a tombstone for tomb_ms, during which the heartbeat's rebuild (SetNX) fails; a login overwrites it.
   tomb_ms = 0 is rs_event false (a deadline equal to "now" never blocks).  Used by Corr/C08.v with the probed tomb_ms. *)
Definition rs_event_tomb (tomb_ms : N) (w : world) (st : rstate * (N -> option N)) (e : event) : rstate * (N -> option N) :=
  let '(rs, tb) := st in
  match e with
  | AuthOK n c x => if negb (w_conns w n c) || (x =? 0) then st else (upd rs x (Some (n, c)), upd tb x None)
  | Heartbeat n c =>
      match w_ctl w n c with
      | Some x => match rs x with
                  | None => match tb x with
                            | Some d => if w_now w <? d then st else (upd rs x (Some (n, c)), upd tb x None)
                            | None => (upd rs x (Some (n, c)), tb)
                            end
                  | Some _ => st
                  end
      | None => st
      end
  | Close n c =>
      match w_ctl w n c with
      | Some x => if loc_eqb (rs x) n c then (upd rs x None, upd tb x (Some (w_now w + tomb_ms))) else st
      | None => st
      end
  | _ => st
  end.

Definition rs_step (tm : bool) (v : variant) (b : backend) (ttl : N) (s : world * rstate) (e : event) : world * rstate :=
  (step v b ttl (fst s) e, rs_event tm (fst s) (snd s) e).

Definition rs_run (tm : bool) (v : variant) (b : backend) (ttl : N) (h : list event) : world * rstate :=
  fold_left (rs_step tm v b ttl) h (init, rs_empty).

(* the statement of "the state record names X's most recent login", parametric in touch_moves *)
Definition state_current_at (tm : bool) (v : variant) (b : backend) (ttl X n c : N) (pre post : list event) : Prop :=
  X <> 0 ->
  w_conns (fst (rs_run tm v b ttl pre)) n c = true ->
  quiet X c post = true ->
  snd (rs_run tm v b ttl (pre ++ AuthOK n c X :: post)) X = Some (n, c).

(* a tunnel-typed authenticated handshake on (n, c): the real ServerAuthHandler called ConnectClient for it as well
   (pinned = true; refuted in Proofs/ClientState.v); with fixes/C08-tunnel-handshake-keeps-runtime-state.diff it does not *)
Definition tunnel_handshake_effect (pinned : bool) (rs : rstate) (x n c : N) : rstate :=
  if pinned then upd rs x (Some (n, c)) else rs.

(* ---- the service's own read-modify-write sequences at storage-call granularity (one step = one call of the shared
        storage on the state key).  The stored value is the JSON of the state INCLUDING LastSeen, so every write produces a
        value different from all earlier ones: modelled by a version number taken from a global counter.
        cas = false: the two-call code (GetState ; SetState / DeleteState).
        cas = true : the code with fixes/C08-atomic-client-runtime-state.diff:
          EnsureClientOnline      up to 3 x [Get ; CompareAndSwap(read value -> touched value)], absent -> SetNX(rebuilt state)
          DisconnectClientIfMatch up to 3 x [Get ; CompareAndSwap(read value -> tombstone)] while the value read still matches
          ConnectClient           Get ; Set   (unchanged: a login overwrites unconditionally)
        rot = true : additionally fixes/C08-rebuild-state-over-tombstone.diff: a SetNX that meets a tombstone is followed by
                     CompareAndSwap(tombstone -> rebuilt state), so a tombstone behaves as "absent" for the rebuild too.
        tombstone = (0, 0, 0): reads as "absent", but the key exists (SetNX fails on it). ---- *)
Definition rval := (N * N * N)%type.                 (* node, conn, version *)
Record rshared := { rmap : N -> option rval; rnext : N }.
Definition rsh_empty : rshared := {| rmap := fun _ => None; rnext := 1 |}.
Definition tomb : rval := (0, 0, 0).
Definition rval_eqb (a b : rval) : bool :=
  let '(n, c, v) := a in let '(n', c', v') := b in (n =? n') && (c =? c') && (v =? v').
Definition is_tomb (a : rval) : bool := rval_eqb a tomb.
Definition live (o : option rval) : option rval := match o with Some a => if is_tomb a then None else Some a | None => None end.
Definition rloc (sh : rshared) (x : N) : option (N * N) := match live (rmap sh x) with Some (n, c, _) => Some (n, c) | None => None end.
Definition rwrite (sh : rshared) (x n c : N) : rshared :=
  {| rmap := upd (rmap sh) x (Some (n, c, rnext sh)); rnext := rnext sh + 1 |}.
Definition rput (sh : rshared) (x : N) (v : option rval) : rshared := {| rmap := upd (rmap sh) x v; rnext := rnext sh |}.
Definition holds_val (sh : rshared) (x : N) (a : rval) : bool :=
  match rmap sh x with Some b => rval_eqb a b | None => false end.

Inductive rprog :=
| RConnect (x n c : N) | RConnect2 (x n c : N)
| REnsure (x n c : N) (i : nat)                   (* about to Get (attempt i) *)
| REnsureSet (x : N) (n c : N)                    (* cas = false: Set the touched value / the rebuilt state *)
| REnsureCas (x n c : N) (a : rval) (i : nat)     (* cas = true: CompareAndSwap(a -> touched a) *)
| REnsureNX (x n c : N)                           (* cas = true: SetNX(rebuilt state) *)
| REnsureTomb (x n c : N)                         (* cas = true, rot = true: CompareAndSwap(tombstone -> rebuilt state) *)
| RDisc (x n c : N) (i : nat)
| RDiscDel (x : N)                                (* cas = false: DeleteState *)
| RDiscCas (x n c : N) (a : rval) (i : nat)       (* cas = true: CompareAndSwap(a -> tombstone) *)
| RDone.

Definition retries : nat := 3.

Definition rstep (cas rot : bool) (lo : rprog) (sh : rshared) : rprog * rshared :=
  match lo with
  | RConnect x n c => (RConnect2 x n c, sh)
  | RConnect2 x n c => (RDone, rwrite sh x n c)
  | REnsure x n c i =>
      (match live (rmap sh x) with
       | Some (n0, c0, v0) => if cas then REnsureCas x n c (n0, c0, v0) i else REnsureSet x n0 c0
       | None => if cas then REnsureNX x n c else REnsureSet x n c
       end, sh)
  | REnsureSet x n c => (RDone, rwrite sh x n c)
  | REnsureCas x n c a i =>
      if holds_val sh x a then (RDone, rwrite sh x (fst (fst a)) (snd (fst a)))
      else (if Nat.ltb (S i) retries then REnsure x n c (S i) else RDone, sh)
  | REnsureNX x n c =>
      match rmap sh x with
      | None => (RDone, rwrite sh x n c)
      | Some a => (if rot && is_tomb a then REnsureTomb x n c else RDone, sh)
      end
  | REnsureTomb x n c => (RDone, if holds_val sh x tomb then rwrite sh x n c else sh)
  | RDisc x n c i =>
      (match live (rmap sh x) with
       | Some (n0, c0, v0) => if (n0 =? n) && (c0 =? c) then (if cas then RDiscCas x n c (n0, c0, v0) i else RDiscDel x) else RDone
       | None => RDone
       end, sh)
  | RDiscDel x => (RDone, rput sh x None)
  | RDiscCas x n c a i =>
      if holds_val sh x a then (RDone, rput sh x (Some tomb))
      else (if Nat.ltb (S i) retries then RDisc x n c (S i) else RDone, sh)
  | RDone => (RDone, sh)
  end.

Definition rrun (cas rot : bool) (s : Threads.st rshared rprog) (sched : list nat) : Threads.st rshared rprog :=
  Threads.run rshared rprog (rstep cas rot) s sched.
Definition rs_old : rshared := rwrite rsh_empty 7 1 10.

(* ---- "X's login (B, b) survives everything else" for the repaired service (cas = true) ---- *)
Definition rsafe (X B b : N) (lo : rprog) : Prop :=
  match lo with
  | RConnect x n c | RConnect2 x n c => x = X -> (n = B /\ c = b)
  | RDisc x n c _ => x = X -> ~ (n = B /\ c = b)
  | RDiscCas x n c a _ => x = X -> (~ (n = B /\ c = b)) /\ fst (fst a) = n /\ snd (fst a) = c
  | REnsureSet _ _ _ | RDiscDel _ => False                       (* states of the two-call code only *)
  | _ => True
  end.
Definition rest (X B b : N) (sh : rshared) : Prop := exists v, rmap sh X = Some (B, b, v).
Definition rinv (X B b : N) (i0 : nat) (s : Threads.st rshared rprog) : Prop :=
  Forall (rsafe X B b) (snd s)
  /\ match nth_error (snd s) i0 with
     | Some (RConnect x n c) | Some (RConnect2 x n c) => x = X /\ n = B /\ c = b
     | Some RDone => rest X B b (fst s)
     | _ => False
     end.

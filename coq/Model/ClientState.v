(* Model/ClientState.v — the OTHER cross-node location record of C08: the client runtime state kept by cloud control
   (key tunnox:runtime:client:state:<client>; read by GetClientNodeID / IsClientOnNode / online status).
   Transcribed from /repo:
     internal/cloud/services/client/state.go     ConnectClient (handshake: Set state := (node, conn), unconditionally),
                                                 EnsureClientOnline (every heartbeat: state present -> Touch only, node/conn kept;
                                                 state absent -> rebuilt from the heart-beating connection),
                                                 DisconnectClientIfMatch (delete only if the state still names (node, conn))
     internal/cloud/repos/client_state_repository.go   GetState / SetState / DeleteState (one storage call each, ttl 90 s)
     internal/app/server/auth_handler.go         updateClientRuntimeState -> ConnectClient on successful authentication
     internal/protocol/session/command_integration.go   handleHeartbeat -> EnsureClientOnline for a registered control connection
     internal/protocol/session/control_connection_mgr.go  RemoveControlConnection (CloseConnection) and cleanupStaleConnections ->
                                                 DisconnectClientIfMatch for a registered authenticated connection;
                                                 KickOldControlConnection and handleHandshake's old-connection removal make NO cloud call
   The record rides on the cluster model of Model/ConnState.v (same events, same per-node registries).  Its ttl (90 s,
   renewed by every heartbeat of any connection of the client) is not modelled: no history here lasts that long.
   `touch_moves` = the pinned-variant behaviour refuted below: the heartbeat's touch also overwrites node/conn with the
   heart-beating connection (seeded change C08-9).  Definitions only. *)
From TX Require Import Base.Threads.
From TX Require Import Model.ConnState.
Open Scope N_scope.

Definition rstate := N -> option (N * N).           (* client -> (node, conn) *)
Definition rs_empty : rstate := fun _ => None.

Definition loc_eqb (o : option (N * N)) (n c : N) : bool :=
  match o with Some (n', c') => (n' =? n) && (c' =? c) | None => false end.

Definition rs_event (touch_moves : bool) (w : world) (rs : rstate) (e : event) : rstate :=
  match e with
  | AuthOK n c x =>
      (* the auth handler's ConnectClient; the handshake runs only on a usable connection *)
      if negb (w_conns w n c) || (x =? 0) then rs else upd rs x (Some (n, c))
  | Heartbeat n c =>
      match w_ctl w n c with
      | Some x => match rs x with
                  | None => upd rs x (Some (n, c))                          (* state lost: rebuilt *)
                  | Some _ => if touch_moves then upd rs x (Some (n, c)) else rs   (* Touch: location kept *)
                  end
      | None => rs
      end
  | Close n c =>
      match w_ctl w n c with
      | Some x => if loc_eqb (rs x) n c then upd rs x None else rs     (* DisconnectClientIfMatch *)
      | None => rs
      end
  | _ => rs
  end.

Definition rs_step (tm : bool) (v : variant) (b : backend) (ttl : N) (s : world * rstate) (e : event) : world * rstate :=
  (step v b ttl (fst s) e, rs_event tm (fst s) (snd s) e).

Definition rs_run (tm : bool) (v : variant) (b : backend) (ttl : N) (h : list event) : world * rstate :=
  fold_left (rs_step tm v b ttl) h (init, rs_empty).

(* the statement of "the state record names X's most recent login", parametric in touch_moves *)
Definition state_current_at (tm : bool) (v : variant) (b : backend) (ttl X n c : N) (pre post : list event) : Prop :=
  X <> 0 ->
  w_conns (fst (rs_run tm v b ttl pre)) n c = true ->
  quiet X c post = true ->
  snd (rs_run tm v b ttl (pre ++ AuthOK n c X :: post)) X = Some (n, c).

(* ---- the service's own read-modify-write sequences at storage-call granularity (one step = GetState / SetState /
        DeleteState); used for the race-window candidates ---- *)
Inductive rprog :=
| RConnect (x n c : N) | RConnect2 (x n c : N)                 (* Get (old state, for the counters) ; Set *)
| REnsure (x n c : N) | REnsureSet (x : N) (loc : N * N)       (* Get ; Set (the value READ when present, else (n, c)) *)
| RDisc (x n c : N) | RDiscDel (x : N)                         (* Get ; Delete if it matched *)
| RLookup (x : N) | RLookupDone (r : option (N * N))
| RDone.

Definition rstep (lo : rprog) (sh : rstate) : rprog * rstate :=
  match lo with
  | RConnect x n c => (RConnect2 x n c, sh)
  | RConnect2 x n c => (RDone, upd sh x (Some (n, c)))
  | REnsure x n c => (REnsureSet x (match sh x with Some l => l | None => (n, c) end), sh)
  | REnsureSet x l => (RDone, upd sh x (Some l))
  | RDisc x n c => (if loc_eqb (sh x) n c then RDiscDel x else RDone, sh)
  | RDiscDel x => (RDone, upd sh x None)
  | RLookup x => (RLookupDone (sh x), sh)
  | RLookupDone r => (RLookupDone r, sh)
  | RDone => (RDone, sh)
  end.

Definition rrun (s : Threads.st rstate rprog) (sched : list nat) : Threads.st rstate rprog := Threads.run rstate rprog rstep s sched.
Definition rs_old : rstate := upd rs_empty 7 (Some (1, 10)).

(* Model/TunnelRace.v — interleavings of concurrent TunnelOpen requests (property C04).  Definitions only.
   handleTunnelOpen is not atomic: the tunnelBridges lookup (under bridgeLock) and the later create / attach
   (startSourceBridge re-locks and inserts; handleTargetBridge re-locks and looks the bridge up again) are separate critical
   sections, with the success acknowledgement and several cloud-control reads in between.  One request is a thread with
   two atomic actions, at exactly that granularity:
     pc 0  validate + lookup:  findOrCreateControlConnection, HandleTunnelOpen, tunnelBridges[tid];
                               bridge present -> mapping agreement test, handleExistingBridge (attach) or refusal;
                               bridge absent  -> success ack, go on to pc 1
     pc 1  create / attach:    listening client -> startSourceBridge: insert unless the id is taken ("already exists");
                               otherwise        -> handleTargetBridge: bridge present NOW -> SetTargetConnection
   The mapping store is fixed during the race; no routing table (single node).
   Variants of pc 1:
     late_agree = false : the tree with only the first C04 repairs — handleTargetBridge attaches to whatever bridge is
                          registered under the id by now, without comparing mappings
     late_agree = true  : fixes/C04-late-bridge-mapping-agreement.diff
     source_reattach    : a startSourceBridge that re-attaches to an already registered bridge instead of failing *)
From TX Require Import Base.Threads Model.TunnelOpen.
From Coq Require Import List NArith Bool.
Import ListNotations.
Open Scope N_scope.

Record rvariant := { late_agree : bool; source_reattach : bool }.
Definition head_variant : rvariant := {| late_agree := false; source_reattach := false |}.
Definition fixed_variant : rvariant := {| late_agree := true; source_reattach := false |}.

Record shared := {
  sh_tun : tid -> option bridge;
  sh_log : list (connref * tid * bool) }.   (* ghost: every attachment, with "entitled to THIS bridge's mapping" *)

Inductive rpc := PcLookup | PcAttach | PcDone.
Record rlocal := { l_pc : rpc; l_cr : connref; l_conn : conn_id; l_req : request }.

Definition is_listen (d : db) (c : conn_id) (r : request) : bool :=
  if N.eqb (r_mid r) 0 then false
  else match get_mapping d (r_mid r) with
       | Some m => N.eqb (c_client c) (m_listen m)
       | None => false
       end.

Definition set_pc (lo : rlocal) (pc : rpc) : rlocal :=
  {| l_pc := pc; l_cr := l_cr lo; l_conn := l_conn lo; l_req := l_req lo |}.

Definition rstep (rv : rvariant) (d : db) (lo : rlocal) (sh : shared) : rlocal * shared :=
  let c := l_conn lo in let r := l_req lo in let t := r_tid r in let cr := l_cr lo in
  (* entitlement to the mapping the request names, as established by its validation *)
  let ok := entitledb d c r (r_mid r) in
  match l_pc lo with
  | PcDone => (lo, sh)
  | PcLookup =>
      if negb (c_registered c) then (set_pc lo PcDone, sh)
      else if negb (validate current d (c_client c) r) then (set_pc lo PcDone, sh)
      else match sh_tun sh t with
           | Some b =>
               if N.eqb (b_mid b) (r_mid r) then
                 let b' := match existing d r with
                           | AttachSource => {| b_mid := b_mid b; b_src := Some cr; b_tgt := b_tgt b |}
                           | _ => {| b_mid := b_mid b; b_src := b_src b; b_tgt := Some cr |}
                           end in
                 (set_pc lo PcDone, {| sh_tun := upd (sh_tun sh) t (Some b'); sh_log := (cr, t, ok && N.eqb (b_mid b) (r_mid r)) :: sh_log sh |})
               else (set_pc lo PcDone, sh)
           | None => (set_pc lo PcAttach, sh)
           end
  | PcAttach =>
      if is_listen d c r then
        match sh_tun sh t with
        | None => (set_pc lo PcDone,
                   {| sh_tun := upd (sh_tun sh) t (Some {| b_mid := r_mid r; b_src := Some cr; b_tgt := None |});
                      sh_log := (cr, t, ok) :: sh_log sh |})
        | Some b =>
            if source_reattach rv then
              (set_pc lo PcDone,
               {| sh_tun := upd (sh_tun sh) t (Some {| b_mid := b_mid b; b_src := Some cr; b_tgt := b_tgt b |});
                  sh_log := (cr, t, ok && N.eqb (b_mid b) (r_mid r)) :: sh_log sh |})
            else (set_pc lo PcDone, sh)                       (* "tunnel already exists" *)
        end
      else
        match sh_tun sh t with
        | None => (set_pc lo PcDone, sh)                      (* nothing to attach to *)
        | Some b =>
            if late_agree rv && negb (N.eqb (b_mid b) (r_mid r)) then (set_pc lo PcDone, sh)
            else (set_pc lo PcDone,
                  {| sh_tun := upd (sh_tun sh) t (Some {| b_mid := b_mid b; b_src := b_src b; b_tgt := Some cr |});
                     sh_log := (cr, t, ok && N.eqb (b_mid b) (r_mid r)) :: sh_log sh |})
        end
  end.

Definition rstate := st shared rlocal.
Definition rrun (rv : rvariant) (d : db) (s : rstate) (sched : list nat) : rstate := Threads.run shared rlocal (rstep rv d) s sched.
Definition request_thread (cr : connref) (c : conn_id) (r : request) : rlocal :=
  {| l_pc := PcLookup; l_cr := cr; l_conn := c; l_req := r |}.
Definition rinit (ths : list rlocal) : rstate := ({| sh_tun := fun _ => None; sh_log := [] |}, ths).

(* connection cr is wired into the bridge registered under t *)
Definition rholds (sh : shared) (cr : connref) (t : tid) : Prop :=
  exists b, sh_tun sh t = Some b /\ (b_src b = Some cr \/ b_tgt b = Some cr).
Close Scope N_scope.

(* Model/TunnelRace.v — interleavings of concurrent TunnelOpen requests (property C04).  Definitions only.
   handleTunnelOpen is not atomic: the tunnelBridges lookup (under bridgeLock) and the later create / attach
   (startSourceBridge re-locks and inserts; handleTargetBridge re-locks and looks the bridge up again) are separate critical
   sections, with the success acknowledgement and several cloud-control reads in between.  One request is a thread with
   two atomic actions, at exactly that granularity:
     pc 0  validate + lookup:  findOrCreateControlConnection, HandleTunnelOpen, tunnelBridges[tid];
                               bridge present -> mapping agreement test, handleExistingBridge (attach) or refusal;
                               bridge absent  -> success ack, go on to pc 1
     pc 1' attach to the bridge OBJECT looked up at pc 0 (handleExistingBridge after its ack write)
     pc 1  create / attach:    listening client -> startSourceBridge: insert unless the id is taken ("already exists");
                               otherwise        -> handleTargetBridge: bridge present NOW -> SetTargetConnection
   The mapping store is fixed during the race; no routing table (single node).
   Variants of pc 1:
     late_agree = false : the tree with only the first C04 repairs — handleTargetBridge attaches to whatever bridge is
                          registered under the id by now, without comparing mappings
     late_agree = true  : fixes/C04-late-bridge-mapping-agreement.diff
     source_reattach    : a startSourceBridge that re-attaches to an already registered bridge instead of failing
     refetch_existing   : a handleExistingBridge that looks the tunnel id up AGAIN after its ack write and attaches to whatever is
                          registered then, without comparing mappings
   Besides requests there are "bridge ends" threads (PcEnd): the bridge registered under a tunnel id is removed, so that a
   later request can register ANOTHER bridge object (of another mapping) under the same client-chosen id. *)
From TX Require Import Base.Threads Model.TunnelOpen.
From Coq Require Import List NArith Bool.
Import ListNotations.
Open Scope N_scope.

Record rvariant := {
  late_agree : bool;          (* handleTargetBridge compares the mapping of the bridge it finds at attach time *)
  source_reattach : bool;     (* startSourceBridge re-attaches to an already registered bridge instead of failing *)
  refetch_existing : bool }.  (* handleExistingBridge looks tunnelBridges[T] up AGAIN after the ack write and attaches to that *)
Definition head_variant : rvariant := {| late_agree := false; source_reattach := false; refetch_existing := false |}.
Definition fixed_variant : rvariant := {| late_agree := true; source_reattach := false; refetch_existing := false |}.

(* bridges are OBJECTS: a bridge registered under a tunnel id can end (runBridgeLifecycle removes it) and ANOTHER bridge can be
   registered under the same client-chosen id later.  sh_id t is the identity (generation) of the object registered under t. *)
Record shared := {
  sh_tun : tid -> option bridge;
  sh_id : tid -> N;
  sh_next : N;
  sh_log : list (connref * tid * bool) }.   (* ghost: every attachment to a REGISTERED bridge, with "entitled to THIS bridge's mapping" *)

Inductive rpc := PcLookup | PcAttachExisting | PcAttach | PcEnd | PcDone.
Record rlocal := { l_pc : rpc; l_cr : connref; l_conn : conn_id; l_req : request; l_gen : N }.

Definition is_listen (d : db) (c : conn_id) (r : request) : bool :=
  if N.eqb (r_mid r) 0 then false
  else match get_mapping d (r_mid r) with
       | Some m => N.eqb (c_client c) (m_listen m)
       | None => false
       end.

Definition set_pc (lo : rlocal) (pc : rpc) : rlocal :=
  {| l_pc := pc; l_cr := l_cr lo; l_conn := l_conn lo; l_req := l_req lo; l_gen := l_gen lo |}.
Definition set_pc_gen (lo : rlocal) (pc : rpc) (g : N) : rlocal :=
  {| l_pc := pc; l_cr := l_cr lo; l_conn := l_conn lo; l_req := l_req lo; l_gen := g |}.

(* wiring connection cr into the registered bridge b (object identity unchanged) *)
Definition wire (d : db) (r : request) (cr : connref) (b : bridge) : bridge :=
  match existing d r with
  | AttachSource => {| b_mid := b_mid b; b_src := Some cr; b_tgt := b_tgt b |}
  | _ => {| b_mid := b_mid b; b_src := b_src b; b_tgt := Some cr |}
  end.
Definition put (sh : shared) (t : tid) (b : bridge) (e : connref * tid * bool) : shared :=
  {| sh_tun := upd (sh_tun sh) t (Some b); sh_id := sh_id sh; sh_next := sh_next sh; sh_log := e :: sh_log sh |}.
Definition register (sh : shared) (t : tid) (b : bridge) (e : connref * tid * bool) : shared :=
  {| sh_tun := upd (sh_tun sh) t (Some b); sh_id := (fun k => if N.eqb k t then sh_next sh else sh_id sh k);
     sh_next := sh_next sh + 1; sh_log := e :: sh_log sh |}.

Definition rstep (rv : rvariant) (d : db) (lo : rlocal) (sh : shared) : rlocal * shared :=
  let c := l_conn lo in let r := l_req lo in let t := r_tid r in let cr := l_cr lo in
  (* entitlement to the mapping the request names, as established by its validation *)
  let ok := entitledb d c r (r_mid r) in
  match l_pc lo with
  | PcDone => (lo, sh)
  | PcEnd =>                                               (* the bridge registered under t ends: removed from tunnelBridges *)
      (set_pc lo PcDone, {| sh_tun := upd (sh_tun sh) t None; sh_id := sh_id sh; sh_next := sh_next sh; sh_log := sh_log sh |})
  | PcLookup =>
      if negb (c_registered c) then (set_pc lo PcDone, sh)
      else if negb (validate current d (c_client c) r) then (set_pc lo PcDone, sh)
      else match sh_tun sh t with
           | Some b =>
               (* mapping agreement on the bridge object just looked up; the ack write and the attach come later *)
               if N.eqb (b_mid b) (r_mid r) then (set_pc_gen lo PcAttachExisting (sh_id sh t), sh)
               else (set_pc lo PcDone, sh)
           | None => (set_pc lo PcAttach, sh)
           end
  | PcAttachExisting =>
      match sh_tun sh t with
      | None => (set_pc lo PcDone, sh)                     (* the object it holds is no longer registered: attaching to it changes nothing visible *)
      | Some b =>
          if refetch_existing rv || N.eqb (sh_id sh t) (l_gen lo) then
            (set_pc lo PcDone, put sh t (wire d r cr b) (cr, t, ok && N.eqb (b_mid b) (r_mid r)))
          else (set_pc lo PcDone, sh)                       (* another object is registered under t now: ours is an orphan *)
      end
  | PcAttach =>
      if is_listen d c r then
        match sh_tun sh t with
        | None => (set_pc lo PcDone, register sh t {| b_mid := r_mid r; b_src := Some cr; b_tgt := None |} (cr, t, ok))
        | Some b =>
            if source_reattach rv then
              (set_pc lo PcDone, put sh t {| b_mid := b_mid b; b_src := Some cr; b_tgt := b_tgt b |} (cr, t, ok && N.eqb (b_mid b) (r_mid r)))
            else (set_pc lo PcDone, sh)                       (* "tunnel already exists" *)
        end
      else
        match sh_tun sh t with
        | None => (set_pc lo PcDone, sh)                      (* nothing to attach to *)
        | Some b =>
            if late_agree rv && negb (N.eqb (b_mid b) (r_mid r)) then (set_pc lo PcDone, sh)
            else (set_pc lo PcDone, put sh t {| b_mid := b_mid b; b_src := b_src b; b_tgt := Some cr |} (cr, t, ok && N.eqb (b_mid b) (r_mid r)))
        end
  end.

Definition rstate := st shared rlocal.
Definition rrun (rv : rvariant) (d : db) (s : rstate) (sched : list nat) : rstate := Threads.run shared rlocal (rstep rv d) s sched.
Definition request_thread (cr : connref) (c : conn_id) (r : request) : rlocal :=
  {| l_pc := PcLookup; l_cr := cr; l_conn := c; l_req := r; l_gen := 0 |}.
(* "the bridge registered under t ends" as a thread with one action *)
Definition end_thread (t : tid) : rlocal :=
  {| l_pc := PcEnd; l_cr := 0; l_conn := {| c_registered := false; c_client := 0 |};
     l_req := {| r_mid := 0; r_tid := t; r_secret := 0; r_resume := false |}; l_gen := 0 |}.
Definition rinit (ths : list rlocal) : rstate := ({| sh_tun := fun _ => None; sh_id := fun _ => 0; sh_next := 1; sh_log := [] |}, ths).

(* connection cr is wired into the bridge registered under t *)
Definition rholds (sh : shared) (cr : connref) (t : tid) : Prop :=
  exists b, sh_tun sh t = Some b /\ (b_src b = Some cr \/ b_tgt b = Some cr).
Close Scope N_scope.

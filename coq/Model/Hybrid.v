(* Model/Hybrid.v — C14: the tiered store internal/core/storage/hybrid (hybrid.go Set/Get/getSharedPersistent/
   Delete/Exists/getCategory/getCacheForKey, hybrid_ops.go AppendToList/RemoveFromList/Incr/SetNX, config.go
   prefix tables).  One thread step = ONE tier call (cache.Get, persistent.Set, ...), the granularity the
   property names; the asynchronous cache write-back spawned by Get is its own thread (a write-back worker that
   executes the j-th spawned write-back).  Tier failures are per-call fault flags carried by each caller.
   `fix_incr` / `fix_setnx` select the repaired code (fixes/C14-incr.diff) or the pinned code.
   Definitions only. *)
From TX Require Export Base.Threads.
From Coq Require Export NArith List Bool.
Export ListNotations.

Definition kbytes := list N.

Fixpoint keq (a b : kbytes) : bool :=
  match a, b with
  | [], [] => true
  | x :: a', y :: b' => N.eqb x y && keq a' b'
  | _, _ => false
  end.

(* strings.HasPrefix(key, prefix) *)
Fixpoint is_prefix (p k : kbytes) : bool :=
  match p, k with
  | [], _ => true
  | x :: p', y :: k' => N.eqb x y && is_prefix p' k'
  | _ :: _, [] => false
  end.
Definition has_prefix (tbl : list kbytes) (k : kbytes) : bool := existsb (fun p => is_prefix p k) tbl.

(* config.go Config: the three prefix tables (regenerated into Gen/C14.v) *)
Record tables := { t_pers : list kbytes; t_shared : list kbytes; t_sp : list kbytes }.

Inductive cat := CRuntime | CPersistent | CShared | CSharedPersistent.

(* hybrid.go getCategory: shared+persistent first, then shared, then persistent, else runtime *)
Definition category (T : tables) (k : kbytes) : cat :=
  if has_prefix (t_sp T) k then CSharedPersistent
  else if has_prefix (t_shared T) k then CShared
  else if has_prefix (t_pers T) k then CPersistent
  else CRuntime.

Inductive tier := TLocal | TShared | TPers.
Definition tier_eqb (a b : tier) : bool :=
  match a, b with TLocal, TLocal | TShared, TShared | TPers, TPers => true | _, _ => false end.

Record cfg := { has_shared : bool;      (* a shared cache (Redis) is configured *)
                en_pers : bool;         (* config.EnablePersistent (and a persistent tier is present) *)
                fix_incr : bool;        (* Incr routed to the key's cache tier and atomic (repaired) / local get-then-set (pinned) *)
                fix_setnx : bool;       (* SetNX on the key's cache tier + write-through (repaired) / getCacheForKey only (pinned) *)
                fix_wb : bool;          (* fixes/C14-writeback-key-lock.diff: every mutation holds the key's lock; a cache miss takes it, re-checks
                                           the cache, reads the persistent tier and fills the cache synchronously (no write-back goroutine) *)
                fix_list : bool;        (* fixes/C14-list-rmw-key-lock.diff: AppendToList/RemoveFromList hold the key's lock around read-modify-write *)
                fix_cwf : bool;         (* fixes/C14-failed-cache-write-invalidate.diff: a failing cache.Set after the persistent write invalidates *)
                fix_cre : bool;         (* fixes/C14-cache-read-error.diff: a cache read error on a cache-only key is an error, not "not found" *)
                exp_locked : bool }.    (* SetExpiration holds the key lock from its cache read to its cache write (the shipped code) /
                                           reads the cache BEFORE taking the lock (variant kept for the `_refuted` witness) *)

(* hybrid.go getCacheForKey: isShared(key) && sharedCache != nil *)
Definition cache_for_key (T : tables) (c : cfg) (k : kbytes) : tier :=
  if has_prefix (t_shared T) k && has_shared c then TShared else TLocal.
(* `cache := h.sharedCache; if cache == nil { cache = h.cache }` (getSharedPersistent, Delete, Exists, setSharedPersistent) *)
Definition sp_cache (c : cfg) : tier := if has_shared c then TShared else TLocal.
(* repaired helper cacheTierForKey: the cache tier Set/Get/Delete use for the key's category *)
Definition cache_tier_for_key (T : tables) (c : cfg) (k : kbytes) : tier :=
  match category T k with CShared | CSharedPersistent => sp_cache c | _ => TLocal end.
Definition is_pers_cat (x : cat) : bool := match x with CPersistent | CSharedPersistent => true | _ => false end.
Definition two_tier (T : tables) (c : cfg) (k : kbytes) : bool := is_pers_cat (category T k) && en_pers c.

(* the tier class of a key: the one cache tier, plus the persistent tier for persistent categories *)
Definition allowed (T : tables) (c : cfg) (k : kbytes) (t : tier) : bool :=
  match t with
  | TPers => two_tier T c k
  | _ => tier_eqb t (cache_tier_for_key T c k)
  end.

(* ---- values, stores, world ---- *)
Inductive value := VStr (n : N) | VList (l : list N) | VInt (n : N).
Definition store := kbytes -> option value.
Definition supd (s : store) (k : kbytes) (o : option value) : store := fun k' => if keq k' k then o else s k'.

Inductive op :=
| OSet (k : kbytes) (v : value) | OGet (k : kbytes) | ODel (k : kbytes) | OExists (k : kbytes)
| OAppend (k : kbytes) (x : N) | ORemove (k : kbytes) (x : N) | OIncr (k : kbytes) | OSetNX (k : kbytes) (v : value)
| OSetExp (k : kbytes).       (* SetExpiration: read the cached value, write it back with the new TTL (TTLs are not modelled) *)
Inductive res := ROk | RErr | RNotFound | RVal (v : value) | RBool (b : bool) | RInt (n : N).

Record world := {
  w_local : store; w_shared : store; w_pers : store;
  w_spawned : list (kbytes * tier * value);     (* write-backs spawned so far, in spawn order: cache.Set(key, value) on that cache *)
  w_acc : list (tier * kbytes);                 (* ghost: every tier call made, newest first *)
  w_hist : list (nat * op * res);               (* ghost: completed operations (caller, op, result), newest first *)
  w_locks : kbytes -> bool }.                   (* repaired code: the per-key lock (keyLock(key)) is held *)

Definition tget (w : world) (t : tier) (k : kbytes) : option value :=
  match t with TLocal => w_local w k | TShared => w_shared w k | TPers => w_pers w k end.
Definition tset (w : world) (t : tier) (k : kbytes) (o : option value) : world :=
  match t with
  | TLocal => {| w_local := supd (w_local w) k o; w_shared := w_shared w; w_pers := w_pers w;
                 w_spawned := w_spawned w; w_acc := w_acc w; w_hist := w_hist w; w_locks := w_locks w |}
  | TShared => {| w_local := w_local w; w_shared := supd (w_shared w) k o; w_pers := w_pers w;
                  w_spawned := w_spawned w; w_acc := w_acc w; w_hist := w_hist w; w_locks := w_locks w |}
  | TPers => {| w_local := w_local w; w_shared := w_shared w; w_pers := supd (w_pers w) k o;
                w_spawned := w_spawned w; w_acc := w_acc w; w_hist := w_hist w; w_locks := w_locks w |}
  end.
(* record a tier call (also for reads and failed calls) *)
Definition acc (w : world) (t : tier) (k : kbytes) : world :=
  {| w_local := w_local w; w_shared := w_shared w; w_pers := w_pers w;
     w_spawned := w_spawned w; w_acc := (t, k) :: w_acc w; w_hist := w_hist w; w_locks := w_locks w |}.
Definition wr (w : world) (t : tier) (k : kbytes) (o : option value) : world := acc (tset w t k o) t k.
Definition spawn (w : world) (k : kbytes) (t : tier) (v : value) : world :=
  {| w_local := w_local w; w_shared := w_shared w; w_pers := w_pers w;
     w_spawned := w_spawned w ++ [(k, t, v)]; w_acc := w_acc w; w_hist := w_hist w; w_locks := w_locks w |}.
Definition add_hist (w : world) (e : nat * op * res) : world :=
  {| w_local := w_local w; w_shared := w_shared w; w_pers := w_pers w;
     w_spawned := w_spawned w; w_acc := w_acc w; w_hist := e :: w_hist w; w_locks := w_locks w |}.
Definition set_lock (w : world) (k : kbytes) (b : bool) : world :=
  {| w_local := w_local w; w_shared := w_shared w; w_pers := w_pers w;
     w_spawned := w_spawned w; w_acc := w_acc w; w_hist := w_hist w;
     w_locks := fun k' => if keq k' k then b else w_locks w k' |}.

(* ---- callers ---- *)
Inductive pc :=
| PIdle
| PSetCache (k : kbytes) (v : value) (ct : tier)   (* Set: persistent written, cache.Set on ct pending *)
| PGetPers (k : kbytes) (ct : tier)                (* Get: cache ct missed, persistent.Get pending *)
| PDelPers (k : kbytes) (e : bool)                 (* Delete: cache deleted (e = it failed), persistent.Delete pending *)
| PExPers (k : kbytes)                             (* Exists: cache said no, persistent.Exists pending *)
| PSetStart (k : kbytes) (v : value)               (* list op: GetList done, h.Set(key, list) not started *)
| PIncrSet (k : kbytes) (n : N)                    (* pinned Incr: local cache read, cache.Set(n) pending *)
| PNxPers (k : kbytes) (v : value) (ct : tier)     (* repaired SetNX: cache SetNX won, persistent.Set pending *)
| PNxUndo (k : kbytes) (ct : tier)                 (* repaired SetNX: persistent.Set failed, cache.Delete pending *)
| PWant (nxt : pc)                                 (* key lock: waiting for keyLock(key); continues at nxt once acquired (no tier call) *)
| PBegin                                           (* key lock held, the operation's first tier call pending *)
| PGetRecheck (k : kbytes) (ct : tier)             (* repaired Get: lock held, cache re-check pending *)
| PGetPersL (k : kbytes) (ct : tier)               (* repaired Get: lock held, persistent.Get pending *)
| PGetFill (k : kbytes) (ct : tier) (v : value)    (* repaired Get: lock held, synchronous cache fill pending *)
| PSetInval (k : kbytes) (ct : tier)               (* repaired Set: cache.Set failed after the persistent write, cache.Delete pending *)
| PExpSet (k : kbytes) (ct : tier) (v : value).    (* SetExpiration: cached value read, cache.Set(value, ttl) pending *)

Record caller := { me : nat; ops : list op; cur : option op; cpc : pc; faults : list bool; log : list res; held : bool }.
Inductive thread := TCaller (c : caller) | TWb (j : nat) (landed : bool).

Definition set_pc (cl : caller) (p : pc) : caller :=
  {| me := me cl; ops := ops cl; cur := cur cl; cpc := p; faults := faults cl; log := log cl; held := held cl |}.
Definition pop_fault (cl : caller) : bool * caller :=
  match faults cl with
  | [] => (false, cl)
  | f :: fs => (f, {| me := me cl; ops := ops cl; cur := cur cl; cpc := cpc cl; faults := fs; log := log cl; held := held cl |})
  end.
Definition op_key (o : op) : kbytes :=
  match o with OSet k _ | OGet k | ODel k | OExists k | OAppend k _ | ORemove k _ | OIncr k | OSetNX k _ | OSetExp k => k end.
Definition cur_key (cl : caller) : kbytes := match cur cl with Some o => op_key o | None => [] end.
(* the current operation returns r (`defer mu.Unlock()` runs: the key lock is released if held) *)
Definition finish (cl : caller) (w : world) (r : res) : caller * world :=
  ({| me := me cl; ops := ops cl; cur := None; cpc := PIdle; faults := faults cl; log := r :: log cl; held := false |},
   let w1 := match cur cl with Some o => add_hist w (me cl, o, r) | None => w end in
   if held cl then set_lock w1 (cur_key cl) false else w1).
(* mu.Lock(): taken if free (continue at nxt), otherwise wait *)
Definition acquire (cl : caller) (w : world) (nxt : pc) : caller * world :=
  if w_locks w (cur_key cl) then (set_pc cl (PWant nxt), w)
  else ({| me := me cl; ops := ops cl; cur := cur cl; cpc := nxt; faults := faults cl; log := log cl; held := true |},
        set_lock w (cur_key cl) true).
(* mu.Unlock() in the middle of an operation (Get inside a list operation of the lock-less list code) *)
Definition release (cl : caller) (w : world) : caller * world :=
  if held cl then ({| me := me cl; ops := ops cl; cur := cur cl; cpc := cpc cl; faults := faults cl; log := log cl; held := false |},
                   set_lock w (cur_key cl) false)
  else (cl, w).

Definition is_some {A} (o : option A) : bool := match o with Some _ => true | None => false end.

Section Step.
  Variable T : tables.
  Variable c : cfg.

  (* h.Set(key, value): first tier call (hybrid.go Set / setPersistent / setRuntime / setShared / setSharedPersistent) *)
  Definition set_start (cl : caller) (w : world) (k : kbytes) (v : value) (f : bool) : caller * world :=
    let two ct :=
      if en_pers c
      then (if f then finish cl (acc w TPers k) RErr                       (* persistent.Set failed: error, cache untouched *)
            else (set_pc cl (PSetCache k v ct), wr w TPers k (Some v)))
      else if f then finish cl (acc w ct k) (if fix_cwf c then RErr else ROk)  (* cache is the only tier; pinned: failure only logged *)
           else finish cl (wr w ct k (Some v)) ROk
    in
    match category T k with
    | CRuntime => if f then finish cl (acc w TLocal k) RErr else finish cl (wr w TLocal k (Some v)) ROk
    | CShared => let ct := cache_for_key T c k in
                 if f then finish cl (acc w ct k) RErr else finish cl (wr w ct k (Some v)) ROk
    | CPersistent => two TLocal
    | CSharedPersistent => two (sp_cache c)
    end.

  (* a list operation has read the list and goes on to h.Set(key, newlist): with the list fix the key lock is simply kept;
     without it the Get part has released its lock (if it took one) and Set takes the lock again (write-back fix only) *)
  Definition list_go_on (cl : caller) (w : world) (k : kbytes) (v : value) : caller * world :=
    if fix_list c then (set_pc cl (PSetStart k v), w)
    else let '(cl1, w1) := release cl w in
         if fix_wb c then (set_pc cl1 (PWant (PSetStart k v)), w1) else (set_pc cl1 (PSetStart k v), w1).

  (* a cache miss on a two-tier key: pinned -> read the persistent tier and spawn the write-back; repaired -> take the key lock
     (already held inside a list operation) and go through re-check / persistent read / synchronous fill *)
  Definition get_miss (cl : caller) (w : world) (k : kbytes) (ct : tier) : caller * world :=
    if fix_wb c
    then (if held cl then (set_pc cl (PGetPersL k ct), w) else (set_pc cl (PWant (PGetRecheck k ct)), w))
    else (set_pc cl (PGetPers k ct), w).

  (* the Get part of the current operation produced r: Get returns it; AppendToList/RemoveFromList go on *)
  Definition get_done (cl : caller) (w : world) (r : res) : caller * world :=
    match cur cl with
    | Some (OAppend k x) =>
        match r with
        | RVal (VList l) => list_go_on cl w k (VList (l ++ [x]))
        | RNotFound => list_go_on cl w k (VList [x])
        | _ => finish cl w RErr                                            (* storage error / ErrInvalidType *)
        end
    | Some (ORemove k x) =>
        match r with
        | RVal (VList l) => list_go_on cl w k (VList (filter (fun y => negb (N.eqb y x)) l))
        | RNotFound => finish cl w RNotFound
        | _ => finish cl w RErr
        end
    | _ => finish cl w r
    end.

  Definition val_res (o : option value) : res := match o with Some v => RVal v | None => RNotFound end.

  (* h.Get(key): first tier call *)
  Definition get_start (cl : caller) (w : world) (k : kbytes) (f : bool) : caller * world :=
    match category T k with
    | CShared =>
        let ct := cache_for_key T c k in
        get_done cl (acc w ct k) (if f then RErr else val_res (tget w ct k))
    | CSharedPersistent =>
        let ct := sp_cache c in
        match (if f then None else tget w ct k) with
        | Some v => get_done cl (acc w ct k) (RVal v)
        | None => if en_pers c then get_miss cl (acc w ct k) k ct
                  else get_done cl (acc w ct k) (if f && fix_cre c then RErr else RNotFound)
        end
    | x =>
        match (if f then None else tget w TLocal k) with
        | Some v => get_done cl (acc w TLocal k) (RVal v)
        | None => if is_pers_cat x && en_pers c then get_miss cl (acc w TLocal k) k TLocal
                  else get_done cl (acc w TLocal k) (if f && fix_cre c then RErr else RNotFound)
        end
    end.

  Definition del_start (cl : caller) (w : world) (k : kbytes) (f : bool) : caller * world :=
    let after ct (twot : bool) :=
      let w' := if f then acc w ct k else wr w ct k None in
      if twot then (set_pc cl (PDelPers k f), w') else finish cl w' (if f then RErr else ROk) in
    match category T k with
    | CShared => after (cache_for_key T c k) false
    | CSharedPersistent => after (sp_cache c) (en_pers c)
    | x => after TLocal (is_pers_cat x && en_pers c)
    end.

  Definition exists_start (cl : caller) (w : world) (k : kbytes) (f : bool) : caller * world :=
    match category T k with
    | CShared => let ct := cache_for_key T c k in
                 finish cl (acc w ct k) (if f then RErr else RBool (is_some (tget w ct k)))
    | CSharedPersistent =>
        let ct := sp_cache c in
        if negb f && is_some (tget w ct k) then finish cl (acc w ct k) (RBool true)
        else if en_pers c then (set_pc cl (PExPers k), acc w ct k)
             else finish cl (acc w ct k) (if f && fix_cre c then RErr else RBool false)
    | x =>
        if negb f && is_some (tget w TLocal k) then finish cl (acc w TLocal k) (RBool true)
        else if is_pers_cat x && en_pers c then (set_pc cl (PExPers k), acc w TLocal k)
             else finish cl (acc w TLocal k) (if f && fix_cre c then RErr else RBool false)
    end.

  Definition incr_start (cl : caller) (w : world) (k : kbytes) (f : bool) : caller * world :=
    if fix_incr c
    then (* repaired: the cache tier's atomic IncrBy *)
      let ct := cache_tier_for_key T c k in
      if f then finish cl (acc w ct k) RErr
      else match tget w ct k with
           | None => finish cl (wr w ct k (Some (VInt 1))) (RInt 1)
           | Some (VInt n) => finish cl (wr w ct k (Some (VInt (n + 1)))) (RInt (n + 1))
           | Some _ => finish cl (acc w ct k) RErr
           end
    else (* pinned: h.cache.Get, then h.cache.Set *)
      if f then finish cl (acc w TLocal k) RErr
      else (set_pc cl (PIncrSet k (match tget w TLocal k with Some (VInt n) => n + 1 | _ => 1 end)), acc w TLocal k).

  Definition setnx_start (cl : caller) (w : world) (k : kbytes) (v : value) (f : bool) : caller * world :=
    let ct := if fix_setnx c then cache_tier_for_key T c k else cache_for_key T c k in
    if f then finish cl (acc w ct k) RErr
    else match tget w ct k with
         | Some _ => finish cl (acc w ct k) (RBool false)
         | None => if fix_setnx c && two_tier T c k
                   then (set_pc cl (PNxPers k v ct), wr w ct k (Some v))
                   else finish cl (wr w ct k (Some v)) (RBool true)
         end.

  (* hybrid_ops.go SetExpiration: value, err := cache.Get(key); if err != nil { return err }; return cache.Set(key, value, ttl) *)
  Definition setexp_start (cl : caller) (w : world) (k : kbytes) (f : bool) : caller * world :=
    let ct := if fix_incr c then cache_tier_for_key T c k else TLocal in
    if f then finish cl (acc w ct k) RErr
    else match tget w ct k with
         | None => finish cl (acc w ct k) RNotFound
         | Some v => if fix_wb c && negb (exp_locked c) && negb (held cl)
                     then (set_pc cl (PWant (PExpSet k ct v)), acc w ct k)          (* read done WITHOUT the lock; now mu.Lock() *)
                     else (set_pc cl (PExpSet k ct v), acc w ct k)
         end.

  Definition op_start (cl : caller) (w : world) (o : op) (f : bool) : caller * world :=
    match o with
    | OSet k v => set_start cl w k v f
    | OGet k | OAppend k _ | ORemove k _ => get_start cl w k f
    | ODel k => del_start cl w k f
    | OExists k => exists_start cl w k f
    | OIncr k => incr_start cl w k f
    | OSetNX k v => setnx_start cl w k v f
    | OSetExp k => setexp_start cl w k f
    end.

  (* operations that take the key lock before their first tier call *)
  Definition locks_op (o : op) : bool :=
    match o with
    | OSet _ _ | ODel _ | OIncr _ | OSetNX _ _ => fix_wb c
    | OAppend _ _ | ORemove _ _ => fix_wb c && fix_list c
    | OSetExp _ => fix_wb c && exp_locked c
    | OGet _ | OExists _ => false
    end.

  (* one step of a caller: ONE tier call, or one lock acquisition *)
  Definition caller_step (cl0 : caller) (w : world) : caller * world :=
    match cpc cl0 with
    | PIdle =>
        match ops cl0 with
        | [] => (cl0, w)
        | o :: r =>
            if locks_op o
            then acquire {| me := me cl0; ops := r; cur := Some o; cpc := PIdle; faults := faults cl0; log := log cl0; held := held cl0 |} w PBegin
            else
            let '(f, cl1) := pop_fault cl0 in
            let cl := {| me := me cl1; ops := r; cur := Some o; cpc := PIdle; faults := faults cl1; log := log cl1; held := held cl1 |} in
            op_start cl w o f
        end
    | PWant nxt => acquire cl0 w nxt
    | PBegin =>
        let '(f, cl) := pop_fault cl0 in
        match cur cl with Some o => op_start cl w o f | None => (cl0, w) end
    | PGetRecheck k ct =>
        let '(f, cl) := pop_fault cl0 in
        match (if f then None else tget w ct k) with
        | Some v => get_done cl (acc w ct k) (RVal v)
        | None => (set_pc cl (PGetPersL k ct), acc w ct k)
        end
    | PGetPersL k ct =>
        let '(f, cl) := pop_fault cl0 in
        if f then get_done cl (acc w TPers k) RErr
        else match tget w TPers k with
             | None => get_done cl (acc w TPers k) RNotFound
             | Some v => (set_pc cl (PGetFill k ct v), acc w TPers k)
             end
    | PGetFill k ct v =>
        let '(f, cl) := pop_fault cl0 in
        get_done cl (if f then acc w ct k else wr w ct k (Some v)) (RVal v)      (* a failing fill is only logged *)
    | PSetInval k ct =>
        let '(f, cl) := pop_fault cl0 in
        if f then finish cl (acc w ct k) RErr else finish cl (wr w ct k None) ROk
    | PExpSet k ct v =>
        let '(f, cl) := pop_fault cl0 in
        if f then finish cl (acc w ct k) RErr else finish cl (wr w ct k (Some v)) ROk
    | PSetCache k v ct =>
        let '(f, cl) := pop_fault cl0 in
        if f then (if fix_cwf c then (set_pc cl (PSetInval k ct), acc w ct k) else finish cl (acc w ct k) ROk)
        else finish cl (wr w ct k (Some v)) ROk
    | PGetPers k ct =>
        let '(f, cl) := pop_fault cl0 in
        if f then get_done cl (acc w TPers k) RErr
        else match tget w TPers k with
             | None => get_done cl (acc w TPers k) RNotFound
             | Some v => get_done cl (spawn (acc w TPers k) k ct v) (RVal v)      (* go func() { cache.Set(key, value) }() *)
             end
    | PDelPers k e =>
        let '(f, cl) := pop_fault cl0 in
        finish cl (if f then acc w TPers k else wr w TPers k None) (if e || f then RErr else ROk)
    | PExPers k =>
        let '(f, cl) := pop_fault cl0 in
        finish cl (acc w TPers k) (if f then RErr else RBool (is_some (tget w TPers k)))
    | PSetStart k v =>
        let '(f, cl) := pop_fault cl0 in set_start cl w k v f
    | PIncrSet k n =>
        let '(f, cl) := pop_fault cl0 in
        if f then finish cl (acc w TLocal k) RErr else finish cl (wr w TLocal k (Some (VInt n))) (RInt n)
    | PNxPers k v ct =>
        let '(f, cl) := pop_fault cl0 in
        if f then (set_pc cl (PNxUndo k ct), acc w TPers k) else finish cl (wr w TPers k (Some v)) (RBool true)
    | PNxUndo k ct =>
        let '(f, cl) := pop_fault cl0 in
        finish cl (if f then acc w ct k else wr w ct k None) RErr
    end.

  Definition tstep (t : thread) (w : world) : thread * world :=
    match t with
    | TCaller cl => let '(cl', w') := caller_step cl w in (TCaller cl', w')
    | TWb j true => (t, w)
    | TWb j false =>
        match nth_error (w_spawned w) j with
        | Some (k, ct, v) => (TWb j true, wr w ct k (Some v))
        | None => (t, w)
        end
    end.

  Definition hrun (w : world) (ts : list thread) (sched : list nat) : world * list thread :=
    run _ _ tstep (w, ts) sched.
End Step.

Definition init_caller (i : nat) (o : list op) (f : list bool) : caller :=
  {| me := i; ops := o; cur := None; cpc := PIdle; faults := f; log := []; held := false |}.
Definition empty_store : store := fun _ => None.
Definition init_world (l s p : store) : world :=
  {| w_local := l; w_shared := s; w_pers := p; w_spawned := []; w_acc := []; w_hist := []; w_locks := fun _ => false |}.
Definition wb_workers (n : nat) : list thread := map (fun j => TWb j false) (seq 0 n).

(* ---- the sequential specification: one register per key ---- *)
Definition spec_op (st : option value) (o : op) : option value * res :=
  match o with
  | OSet _ v => (Some v, ROk)
  | OGet _ => (st, val_res st)
  | ODel _ => (None, ROk)
  | OExists _ => (st, RBool (is_some st))
  | OAppend _ x =>
      match st with
      | None => (Some (VList [x]), ROk)
      | Some (VList l) => (Some (VList (l ++ [x])), ROk)
      | Some _ => (st, RErr)
      end
  | ORemove _ x =>
      match st with
      | None => (st, RNotFound)
      | Some (VList l) => (Some (VList (filter (fun y => negb (N.eqb y x)) l)), ROk)
      | Some _ => (st, RErr)
      end
  | OIncr _ =>
      match st with
      | None => (Some (VInt 1), RInt 1)
      | Some (VInt n) => (Some (VInt (n + 1)), RInt (n + 1))
      | Some _ => (st, RErr)
      end
  | OSetNX _ v => match st with None => (Some v, RBool true) | Some _ => (st, RBool false) end
  | OSetExp _ => (st, match st with Some _ => ROk | None => RNotFound end)    (* on a two-tier key a cold cache also answers RNotFound: see exp_res_ok *)
  end.

Definition is_list_op (o : op) : bool := match o with OAppend _ _ | ORemove _ _ => true | _ => false end.
Definition is_cache_only_op (o : op) : bool := match o with OIncr _ | OSetNX _ _ | OSetExp _ => true | _ => false end.
(* SetExpiration only looks at the cache tier: its answer is nil when the register holds a value and the cache has it, "not found" otherwise;
   it never changes the register *)
Definition exp_res_ok (st : option value) (r : res) : Prop := r = RNotFound \/ (r = ROk /\ st <> None).

(* ---- sequential execution: one caller, every operation runs to completion and its write-back lands before
   the next operation starts ---- *)
Section Seq.
  Variable T : tables.
  Variable c : cfg.
  Fixpoint run_caller (fuel : nat) (cl : caller) (w : world) : caller * world :=
    match fuel with
    | 0 => (cl, w)
    | S f => let '(cl', w') := caller_step T c cl w in
             match cpc cl' with PIdle => (cl', w') | _ => run_caller f cl' w' end
    end.
  Definition land_all (from : nat) (w : world) : world :=
    fold_left (fun w e => let '(k, ct, v) := e in wr w ct k (Some v)) (skipn from (w_spawned w)) w.
  (* result None = out of fuel (excluded by the theorems) *)
  Definition exec_op (w : world) (o : op) : world * option res :=
    let '(cl, w') := run_caller 12 (init_caller 0 [o] []) w in
    match cpc cl, ops cl, log cl with
    | PIdle, [], [r] => (land_all (length (w_spawned w)) w', Some r)
    | _, _, _ => (w', None)
    end.
  Fixpoint exec_seq (w : world) (os : list op) : world * list (option res) :=
    match os with
    | [] => (w, [])
    | o :: r => let '(w1, x) := exec_op w o in let '(w2, xs) := exec_seq w1 r in (w2, x :: xs)
    end.
End Seq.

Fixpoint spec_seq (st : option value) (os : list op) : option value * list (option res) :=
  match os with
  | [] => (st, [])
  | o :: r => let '(st1, x) := spec_op st o in let '(st2, xs) := spec_seq st1 r in (st2, Some x :: xs)
  end.

(* what the facade shows for key k: the key's cache tier, else (two-tier keys) the persistent tier *)
Definition visible (T : tables) (c : cfg) (w : world) (k : kbytes) : option value :=
  match tget w (cache_tier_for_key T c k) k with
  | Some v => Some v
  | None => if two_tier T c k then tget w TPers k else None
  end.
Definition coherent (T : tables) (c : cfg) (w : world) (k : kbytes) : Prop :=
  two_tier T c k = true ->
  tget w (cache_tier_for_key T c k) k = None \/ tget w (cache_tier_for_key T c k) k = tget w TPers k.

(* Model/Auth.v — executable model of the server-side handshake (C03).  Definitions only.

   Transcribed from
     internal/app/server/auth_handler.go          HandleHandshake, handleFirstConnection,
                                                  handleChallengePhase1, handleChallengePhase2      -> [auth]
     internal/protocol/session/packet_handler_handshake.go   handleHandshake                         -> [handle]
     internal/protocol/session/client_registry.go Register / ReconcileIndex / Remove / UpdateAuth    -> [reconcile], [evict]
     internal/protocol/session/connection/types.go ControlConnection {Authenticated, ClientID, PendingChallenge} -> [cc]
     internal/security/brute_force_protector.go   RecordFailure / RecordSuccess / IsBanned / BanIP   -> [record_failure], [banned]
     internal/security/ip_manager.go              IsAllowed (blacklist, empty whitelist)             -> [black]
     internal/security/secretkey_manager.go       VerifyResponse = (resp == HMAC(decrypt(stored), challenge)) -> [hmac] (Section function)
     internal/cloud/services/anonymous            GenerateAnonymousCredentials / DeleteAnonymousClient -> [register], EDelAnon
     internal/cloud/models/client_config.go       IsExpired                                           -> [expired]

   Abstractions: client ids, secrets and challenges are numbered in order of creation (the Go harness checks
   that equal numbers <=> equal strings on every run); a ControlConnection object is identified with its
   connection id while it is registered; time is not modelled (credentials expire by an explicit event, bans
   and blacklist entries are lifted by explicit events; every automatic ban is a [record_failure] step). *)
From Coq Require Import List NArith Bool.
Import ListNotations.
Open Scope N_scope.

(* which of the two repairs proposed in /verif/fixes are present in the tree *)
Record variant := {
  v_success_gate : bool;   (* handleHandshake touches the registry only when the handshake response is Success *)
  v_anon_delete : bool;    (* DeleteAnonymousClient also deletes the stored credentials (ClientConfig) *)
  v_first_keeps : bool;    (* handleFirstConnection no longer calls RecordSuccess (fixes/C18-anon-registration-keeps-failures.diff) *)
  v_ban_monotone : bool }. (* banIP never weakens a ban in force, in particular never replaces a permanent ban by a temporary one
                              (fixes/C18-ban-never-weakened.diff; the tree as found overwrote the record unconditionally) *)
Definition current_variant := {| v_success_gate := true; v_anon_delete := true; v_first_keeps := true; v_ban_monotone := true |}.
Definition pinned_variant := {| v_success_gate := false; v_anon_delete := false; v_first_keeps := false; v_ban_monotone := false |}.

Definition upd {A} (f : N -> A) (k : N) (v : A) : N -> A := fun x => if x =? k then v else f x.

(* connection/types.go ControlConnection *)
Record cc := { authed : bool; ccid : N; pending : option N }.
Definition new_cc := {| authed := false; ccid := 0; pending := None |}.
(* a session connection (types.Connection): its stream is open or closed, its peer address, and the
   ControlConnection registered for it in ClientRegistry.connMap (if any) *)
Record conn := { c_open : bool; c_addr : N; c_cc : option cc }.
(* models.ClientConfig.SecretKeyEncrypted: what the server can recover from the stored credential.
     CKey n   it decrypts under the master key to secret number n
     CEmpty   the field is "" (legacy record that was never migrated)
     CBroken  non-empty but unusable: not base64, too short, not decryptable, sealed under another master key *)
Inductive cred := CKey (n : N) | CEmpty | CBroken.
Definition secret_of (c : cred) : option N := match c with CKey n => Some n | _ => None end.
(* models.ClientConfig.  The handshake gates on exactly two things of the record:
     stored    what SecretKeyEncrypted decrypts to
     expired   IsExpired(): ExpiresAt is set and lies in the past
   Every other field (UserID — bound to a user or not —, Type, Name, AuthCode, SecretKey (legacy), SecretKeyVersion,
   Config, FirstConnectedAt, LastIP*, timestamps) is abstracted into [meta]; no model function reads it. *)
Record client := { stored : cred; expired : bool; meta : N }.

Record srv := {
  clients : N -> option client;     (* CloudControl.GetClientConfig *)
  next_id : N; next_secret : N; next_nonce : N;
  banned : N -> bool;               (* BruteForceProtector.bannedIPs: a ban record in force *)
  permb : N -> bool;                (* ... whose ExpiresAt is zero: permanent (meaningful while banned) *)
  black : N -> bool;                (* IPManager.blacklist, by entry key: [k_ip a] = the entry "a", [k_cidr a] = a CIDR entry covering a;
                                       persisted in storage (ip_manager_storage.go) *)
  white : N -> bool;                (* IPManager.whitelist, same keys; persisted likewise *)
  fails : N -> N;                   (* BruteForceProtector.failures[ip] (all inside the time window) *)
  rl_deny : bool;                   (* RateLimiter.AllowIP refuses *)
  conns : N -> option conn;         (* SessionManager.connMap + ClientRegistry.connMap *)
  index : N -> option N }.          (* ClientRegistry.clientIDMap : client id -> connection *)

(* blacklist entry keys for address a: the exact-IP entry and a CIDR entry (/32) covering it *)
Definition k_ip (a : N) : N := 3 * a.
Definition k_cidr (a : N) : N := 3 * a + 1.
Definition k_wide (a : N) : N := 3 * a + 2.   (* a wider range (/31, /127) covering a and no other address in use *)
(* IPManager.IsAllowed = false *)
(* findActiveInList after the repair "any active entry": SOME in-force entry, exact or any covering range *)
Definition listed (l : N -> bool) (a : N) : bool := l (k_ip a) || l (k_cidr a) || l (k_wide a).
(* whitelist first, then blacklist (an in-force exact or covering entry) *)
Definition blocked (s : srv) (a : N) : bool := negb (listed (white s) a) && listed (black s) a.

Definition init : srv :=
  {| clients := fun _ => None; next_id := 1; next_secret := 1; next_nonce := 1;
     banned := fun _ => false; permb := fun _ => false; black := fun _ => false; white := fun _ => false; fails := fun _ => 0; rl_deny := false;
     conns := fun _ => None; index := fun _ => None |}.

Definition set_clients (s : srv) v := {| clients := v; next_id := next_id s; next_secret := next_secret s;
  next_nonce := next_nonce s; banned := banned s; permb := permb s; black := black s; white := white s; fails := fails s; rl_deny := rl_deny s;
  conns := conns s; index := index s |}.
Definition set_banned (s : srv) v := {| clients := clients s; next_id := next_id s; next_secret := next_secret s;
  next_nonce := next_nonce s; banned := v; permb := permb s; black := black s; white := white s; fails := fails s; rl_deny := rl_deny s;
  conns := conns s; index := index s |}.
Definition set_permb (s : srv) v := {| clients := clients s; next_id := next_id s; next_secret := next_secret s;
  next_nonce := next_nonce s; banned := banned s; permb := v; black := black s; white := white s; fails := fails s; rl_deny := rl_deny s;
  conns := conns s; index := index s |}.
Definition set_black (s : srv) v := {| clients := clients s; next_id := next_id s; next_secret := next_secret s;
  next_nonce := next_nonce s; banned := banned s; permb := permb s; black := v; white := white s; fails := fails s; rl_deny := rl_deny s;
  conns := conns s; index := index s |}.
Definition set_white (s : srv) v := {| clients := clients s; next_id := next_id s; next_secret := next_secret s;
  next_nonce := next_nonce s; banned := banned s; permb := permb s; black := black s; white := v; fails := fails s; rl_deny := rl_deny s;
  conns := conns s; index := index s |}.
Definition set_fails (s : srv) v := {| clients := clients s; next_id := next_id s; next_secret := next_secret s;
  next_nonce := next_nonce s; banned := banned s; permb := permb s; black := black s; white := white s; fails := v; rl_deny := rl_deny s;
  conns := conns s; index := index s |}.
Definition set_rl (s : srv) v := {| clients := clients s; next_id := next_id s; next_secret := next_secret s;
  next_nonce := next_nonce s; banned := banned s; permb := permb s; black := black s; white := white s; fails := fails s; rl_deny := v;
  conns := conns s; index := index s |}.
Definition set_conns (s : srv) v := {| clients := clients s; next_id := next_id s; next_secret := next_secret s;
  next_nonce := next_nonce s; banned := banned s; permb := permb s; black := black s; white := white s; fails := fails s; rl_deny := rl_deny s;
  conns := v; index := index s |}.
Definition set_index (s : srv) v := {| clients := clients s; next_id := next_id s; next_secret := next_secret s;
  next_nonce := next_nonce s; banned := banned s; permb := permb s; black := black s; white := white s; fails := fails s; rl_deny := rl_deny s;
  conns := conns s; index := v |}.
Definition bump_nonce (s : srv) := {| clients := clients s; next_id := next_id s; next_secret := next_secret s;
  next_nonce := next_nonce s + 1; banned := banned s; permb := permb s; black := black s; white := white s; fails := fails s; rl_deny := rl_deny s;
  conns := conns s; index := index s |}.
(* GenerateAnonymousCredentials: a new id with a new secret, not expired (ExpiresAt = now + 30 days) *)
Definition register (s : srv) := {|
  clients := upd (clients s) (next_id s) (Some {| stored := CKey (next_secret s); expired := false; meta := 0 |});
  next_id := next_id s + 1; next_secret := next_secret s + 1;
  next_nonce := next_nonce s; banned := banned s; permb := permb s; black := black s; white := white s; fails := fails s; rl_deny := rl_deny s;
  conns := conns s; index := index s |}.
(* ResetSecretKey *)
Definition rekey (s : srv) (x : N) := match clients s x with
  | None => s
  | Some cl => {|
      clients := upd (clients s) x (Some {| stored := CKey (next_secret s); expired := expired cl; meta := meta cl |});
      next_id := next_id s; next_secret := next_secret s + 1;
      next_nonce := next_nonce s; banned := banned s; permb := permb s; black := black s; white := white s; fails := fails s; rl_deny := rl_deny s;
      conns := conns s; index := index s |}
  end.

(* the handshake request (packet.HandshakeRequest) as far as the server looks at it *)
Record hs := {
  h_cid : N;               (* ClientID *)
  h_new : bool;            (* Token == "new-client" || HasPrefix(Token, "anonymous:") *)
  h_resp : option N;       (* ChallengeResponse, None = "" *)
  h_tunnel : bool }.       (* ConnectionType == "tunnel" *)

(* result of ServerAuthHandler.HandleHandshake: AFail <=> err != nil *)
Inductive aresp := ASuccessNew (id : N) | ASuccess | AChallenge (n : N) | AFail.
Definition is_success (a : aresp) : bool := match a with ASuccessNew _ | ASuccess => true | _ => false end.
(* the HandshakeResponse that reaches the wire *)
Inductive wire := WNone | WSuccess | WSuccessNew (id : N) | WChallenge (n : N) | WFail.
Record out := { o_err : bool; o_wire : wire; o_auth : option aresp }.
Definition wire_of (a : aresp) : wire :=
  match a with ASuccessNew i => WSuccessNew i | ASuccess => WSuccess | AChallenge n => WChallenge n | AFail => WFail end.

Section WithHmac.
Variable hmac : N -> N -> N.         (* HMAC-SHA256(secret, challenge); no assumption is made about it *)
Variables max_failures perm_ban : N. (* BruteForceConfig.MaxFailures / PermanentBanAt (regenerated, Gen/C03.v) *)

(* BruteForceProtector.RecordFailure *)
(* BruteForceProtector.banIP(a, 0 | duration): a permanent request always ends in a permanent ban; a temporary request never
   weakens a permanent ban in force (mono) — the tree as found overwrote the record *)
Definition ban_req (mono perm : bool) (s : srv) (a : N) : srv :=
  if perm then set_permb (set_banned s (upd (banned s) a true)) (upd (permb s) a true)
  else if mono && banned s a && permb s a then s
  else set_permb (set_banned s (upd (banned s) a true)) (upd (permb s) a false).

Definition record_failure (mono : bool) (s : srv) (a : N) : srv :=
  let f := fails s a + 1 in
  let s1 := set_fails s (upd (fails s) a f) in
  if perm_ban <=? f then ban_req mono true s1 a
  else if max_failures <=? f then ban_req mono false s1 a else s1.
(* BruteForceProtector.RecordSuccess *)
Definition clear_fails (s : srv) (a : N) : srv := set_fails s (upd (fails s) a 0).

(* server state after handleFirstConnection: a new client; the tree as found also clears the address's failure record *)
Definition first_state (keep : bool) (s : srv) (a : N) : srv :=
  if keep then register s else clear_fails (register s) a.

(* auth_handler.go HandleHandshake, on the ControlConnection [c] of a peer at address [a] *)
(* steps 1-3 of HandleHandshake: 1. IPManager.IsAllowed, 2. BruteForceProtector.IsBanned, 3. rate limit (anonymous only).
   chk = false: the gate checks are not (re-)evaluated — the completion of a handshake that passed them earlier (EBody) *)
Definition gate_fail (chk : bool) (s : srv) (a : N) (m : hs) : bool :=
  chk && (blocked s a || banned s a || ((h_cid m =? 0) && rl_deny s)).

Definition auth (chk : bool) (v : variant) (s : srv) (c : cc) (a : N) (m : hs) : srv * cc * aresp :=
  if gate_fail chk s a m then (s, c, AFail)
  else if (h_cid m =? 0) && h_new m then                                 (* 4. handleFirstConnection *)
    let id := next_id s in
    (first_state (v_first_keeps v) s a, {| authed := true; ccid := id; pending := pending c |}, ASuccessNew id)
  else match clients s (h_cid m) with
  | None => (record_failure (v_ban_monotone v) s a, c, AFail)                               (* client not found *)
  | Some cl =>
    if expired cl then (s, c, AFail) else                                (* credentials expired *)
    match h_resp m with
    | None =>                                                            (* 5.1 handleChallengePhase1 *)
      match stored cl with
      | CEmpty => (s, c, AFail)                                          (* SecretKeyEncrypted == "": not configured *)
      | _ =>
        let n := next_nonce s in
        (bump_nonce s, {| authed := authed c; ccid := ccid c; pending := Some n |}, AChallenge n)
      end
    | Some r =>                                                          (* 5.2 handleChallengePhase2 *)
      match pending c with
      | None => (record_failure (v_ban_monotone v) s a, c, AFail)                           (* no pending challenge *)
      | Some ch =>
        (* ClearPendingChallenge happens before VerifyResponse; VerifyResponse is false whenever the stored
           credential does not decrypt, whatever the response is *)
        if match secret_of (stored cl) with Some sec => r =? hmac sec ch | None => false end
        then (clear_fails s a, {| authed := true; ccid := h_cid m; pending := None |}, ASuccess)
        else (record_failure (v_ban_monotone v) s a, {| authed := authed c; ccid := ccid c; pending := None |}, AFail)
      end
    end
  end.

(* ClientRegistry.dropStaleIndexLocked for the ControlConnection of connection k *)
Definition reconcile (idx : N -> option N) (k : N) (c : cc) : N -> option N :=
  fun x => match idx x with
           | Some k' => if (k' =? k) && (negb (authed c) || negb (x =? ccid c)) then None else Some k'
           | None => None
           end.

(* ClientRegistry.Remove(k): closes the stream, deletes clientIDMap[cid] if it points at k, deletes connMap[k] *)
Definition evict (s : srv) (k : N) : srv :=
  match conns s k with
  | Some cn =>
    match c_cc cn with
    | Some c =>
      let idx := if authed c && (0 <? ccid c)
                 then match index s (ccid c) with
                      | Some j => if j =? k then upd (index s) (ccid c) None else index s
                      | None => index s
                      end
                 else index s in
      set_index (set_conns s (upd (conns s) k (Some {| c_open := false; c_addr := c_addr cn; c_cc := None |}))) idx
    | None => s
    end
  | None => s
  end.

(* packet_handler_handshake.go handleHandshake for a packet on connection k; m = None: the payload is not JSON *)
Definition handle (chk : bool) (v : variant) (s : srv) (k : N) (m : option hs) : srv * out :=
  match m with
  | None => (s, {| o_err := true; o_wire := WNone; o_auth := None |})
  | Some h =>
    match conns s k with
    | None => (s, {| o_err := true; o_wire := WNone; o_auth := None |})   (* connection not found *)
    | Some cn =>
      let c0 := match c_cc cn with Some c => c | None => new_cc end in    (* existing or NewControlConnection+Register *)
      let '(s1, c1, ar) := auth chk v s c0 (c_addr cn) h in
      let s2 := set_conns s1 (upd (conns s1) k (Some {| c_open := c_open cn; c_addr := c_addr cn; c_cc := Some c1 |})) in
      let s3 := set_index s2 (reconcile (index s2) k c1) in               (* ReconcileIndex *)
      match ar with
      | AFail => (s3, {| o_err := true; o_wire := if c_open cn then WFail else WNone; o_auth := Some ar |})
      | _ =>
        if negb (c_open cn) then (s3, {| o_err := true; o_wire := WNone; o_auth := Some ar |})   (* response write fails *)
        else if negb (h_tunnel h) && authed c1 && (0 <? ccid c1) && (negb (v_success_gate v) || is_success ar) then
          let s4 := match index s3 (ccid c1) with
                    | Some k' => if k' =? k then s3 else evict s3 k'      (* old connection of the same client *)
                    | None => s3
                    end in
          (* UpdateAuth(k, cid): Authenticated = true, dropStaleIndex, clientIDMap[cid] = k *)
          let c2 := {| authed := true; ccid := ccid c1; pending := pending c1 |} in
          let s5 := set_conns s4 (upd (conns s4) k (Some {| c_open := c_open cn; c_addr := c_addr cn; c_cc := Some c2 |})) in
          let s6 := set_index s5 (upd (reconcile (index s5) k c2) (ccid c2) (Some k)) in
          (s6, {| o_err := false; o_wire := wire_of ar; o_auth := Some ar |})
        else (s3, {| o_err := false; o_wire := wire_of ar; o_auth := Some ar |})
      end
    end
  end.

Inductive ev :=
| EMsg (k : N) (m : option hs)
| EBan (a : N) | EUnban (a : N)
| EBlack (a : N) | EUnblack (a : N)      (* AddToBlacklist(ip, 1h or permanent) / RemoveFromBlacklist(ip) *)
| EBlackC (a : N) | EUnblackC (a : N)    (* the same for a CIDR entry covering a *)
| ERestart (lapsed : option N)           (* the server process is restarted over the same storage; lapsed = Some a: just before,
                                            a short-lived blacklist entry for a was added (replacing a's exact entry) and expired *)
| EExpire (x : N) | EDelete (x : N) | EDelAnon (x : N) | ERekey (x : N) | ERegister
| ECorrupt (x : N) (empty : bool)        (* the stored credential of x becomes "" / an undecryptable string *)
| ERate (deny : bool)
| EClose (k : N) | EOpen (k a : N)
| ESetRecord (x : N) (e : bool) (m : N)  (* the record of x is rewritten: ExpiresAt past (e = true) / future or nil (e = false);
                                            UserID, Type and the other non-gate fields become m *)
| EBanLapse (a : N)                      (* a short temporary ban on a is requested and runs out.  banIP never weakens a ban in force,
                                            and an expired record does not ban: the set of banned addresses is unchanged *)
| EUnbanLands (a : N)
| EWhite (a : N) (cidr : bool) | EUnwhite (a : N) (cidr : bool)    (* AddToWhitelist / RemoveFromWhitelist of the exact or CIDR entry *)
| EBody (k : N) (m : hs)                (* the rest of a handshake on k that passed the gate checks (steps 1-3) EARLIER: handshakes of
                                            several connections overlap in the real server, the gates are evaluated first and other
                                            handshakes (failures, bans) may complete before this one does.  EMsg = gates + body at once;
                                            an EBody anywhere in a history over-approximates every such overlap *)
| EBanPerm (a : N)                       (* operator BanIP(a, 0): permanent *)
| ETempLapse (a : N)                     (* the period of a temporary ban on a is over (a permanent ban has no period) *)
| EBlackW (a : N) | EUnblackW (a : N)    (* blacklist add / remove of the wider range covering a *)
| EBlackLapse (a : N) (key : N)         (* a short-lived blacklist entry is put on the exact (0) / range (1) / wider range (2) key of a,
                                            replacing what was there, and runs out: that key no longer holds an in-force entry *)
| ECleanup (a : N).                      (* time passes — short of the end of any ban in force on a — and the periodic BruteForceProtector.cleanup
                                            runs: it deletes only records whose OWN deadline (ExpiresAt) has passed, never a ban in force,
                                            whatever its length relative to the configured BanDuration *)                   (* the asynchronous unbanIfExpired(a) spawned by IsBanned runs: it deletes only a record that
                                            is (still) expired under the lock, i.e. never a ban in force *)

(* what survives a restart of the server process: everything the code keeps in storage — client configs (and the id /
   secret / nonce numbering of the abstraction) and the IP blacklist and whitelist.  In process memory only, hence lost: connections and
   their ControlConnections (with pending challenges), the client registry, brute-force failure records AND bans
   (BruteForceProtector has no storage), rate-limiter buckets. *)
Definition restart (s : srv) : srv :=
  {| clients := clients s; next_id := next_id s; next_secret := next_secret s; next_nonce := next_nonce s;
     banned := fun _ => false; permb := fun _ => false; black := black s; white := white s; fails := fun _ => 0; rl_deny := false;
     conns := fun _ => None; index := fun _ => None |}.

Definition no_out := {| o_err := false; o_wire := WNone; o_auth := None |}.

(* SessionManager.CloseConnection *)
Definition close (s : srv) (k : N) : srv :=
  let s1 := evict s k in set_conns s1 (upd (conns s1) k None).

Definition step (v : variant) (s : srv) (e : ev) : srv * out :=
  match e with
  | EMsg k m => handle true v s k m
  | EBody k m => handle false v s k (Some m)
  | EBan a => (ban_req (v_ban_monotone v) false s a, no_out)
  | EBanPerm a => (ban_req (v_ban_monotone v) true s a, no_out)
  | EUnban a => (set_permb (set_banned s (upd (banned s) a false)) (upd (permb s) a false), no_out)
  | ETempLapse a => (if permb s a then s else set_banned s (upd (banned s) a false), no_out)
  | EBlackW a => (set_black s (upd (black s) (k_wide a) true), no_out)
  | EUnblackW a => (set_black s (upd (black s) (k_wide a) false), no_out)
  | EBlackLapse a key => (set_black s (upd (black s) (match key with 0 => k_ip a | 1 => k_cidr a | _ => k_wide a end) false), no_out)
  | EBlack a => (set_black s (upd (black s) (k_ip a) true), no_out)
  | EUnblack a => (set_black s (upd (black s) (k_ip a) false), no_out)
  | EBlackC a => (set_black s (upd (black s) (k_cidr a) true), no_out)
  | EUnblackC a => (set_black s (upd (black s) (k_cidr a) false), no_out)
  | ERestart lapsed => (restart (match lapsed with Some a => set_black s (upd (black s) (k_ip a) false) | None => s end), no_out)
  | EExpire x => (match clients s x with
                  | Some cl => set_clients s (upd (clients s) x (Some {| stored := stored cl; expired := true; meta := meta cl |}))
                  | None => s end, no_out)
  | ECorrupt x e => (match clients s x with
                     | Some cl => set_clients s (upd (clients s) x (Some {| stored := if e then CEmpty else CBroken; expired := expired cl; meta := meta cl |}))
                     | None => s end, no_out)
  | EDelete x => (set_clients s (upd (clients s) x None), no_out)
  | EDelAnon x => (if v_anon_delete v then set_clients s (upd (clients s) x None) else s, no_out)
  | ERekey x => (rekey s x, no_out)
  | ERegister => (register s, no_out)
  | ERate b => (set_rl s b, no_out)
  | EClose k => (close s k, no_out)
  | EOpen k a => let s1 := close s k in
                 (set_conns s1 (upd (conns s1) k (Some {| c_open := true; c_addr := a; c_cc := None |})), no_out)
  | ESetRecord x e m => (match clients s x with
                         | Some cl => set_clients s (upd (clients s) x (Some {| stored := stored cl; expired := e; meta := m |}))
                         | None => s end, no_out)
  | EBanLapse a => (if v_ban_monotone v then s
                    else set_permb (set_banned s (upd (banned s) a false)) (upd (permb s) a false), no_out)
  | EUnbanLands _ => (s, no_out)
  | ECleanup _ => (s, no_out)
  | EWhite a c => (set_white s (upd (white s) (if c then k_cidr a else k_ip a) true), no_out)
  | EUnwhite a c => (set_white s (upd (white s) (if c then k_cidr a else k_ip a) false), no_out)
  end.

Fixpoint run (v : variant) (s : srv) (es : list ev) : srv :=
  match es with [] => s | e :: es' => run v (fst (step v s e)) es' end.

(* states and outputs along a history, for the correspondence run *)
Fixpoint trace (v : variant) (s : srv) (es : list ev) : list (srv * out) :=
  match es with [] => [] | e :: es' => let so := step v s e in so :: trace v (fst so) es' end.

(* "connection k is authenticated as client x" — what the rest of the server trusts *)
Definition authed_as (s : srv) (k x : N) : Prop :=
  exists cn c, conns s k = Some cn /\ c_cc cn = Some c /\ authed c = true /\ ccid c = x.
Definition pending_of (s : srv) (k : N) : option N :=
  match conns s k with Some cn => match c_cc cn with Some c => pending c | None => None end | None => None end.
Definition addr_of (s : srv) (k : N) : option N :=
  match conns s k with Some cn => Some (c_addr cn) | None => None end.

(* the challenge a handshake message on connection k is verified against, if the handler gets as far as
   VerifyResponse (phase 2: not gated, not a first connection, client known and not expired, a response present,
   a challenge pending); that challenge is cleared by this very step whether or not the response is correct *)
Definition verif_target (chk : bool) (s : srv) (k : N) (m : hs) : option N :=
  match conns s k with
  | None => None
  | Some cn =>
    if gate_fail chk s (c_addr cn) m then None
    else if (h_cid m =? 0) && h_new m then None
    else match clients s (h_cid m) with
         | None => None
         | Some cl => if expired cl then None else
                      match h_resp m with
                      | None => None
                      | Some _ => match c_cc cn with Some c => pending c | None => None end
                      end
         end
  end.

(* all verification targets along a history *)
Fixpoint targets (v : variant) (s : srv) (es : list ev) : list N :=
  match es with
  | [] => []
  | e :: es' =>
    (match e with
     | EMsg k (Some m) => match verif_target true s k m with Some ch => [ch] | None => [] end
     | EBody k m => match verif_target false s k m with Some ch => [ch] | None => [] end
     | _ => []
     end) ++ targets v (fst (step v s e)) es'
  end.

(* the latest challenge the server issued on connection k along a history, read off the handler outcomes only:
   [note] updates it when an event is a handshake on k answered with a challenge *)
Definition note (k : N) (e : ev) (o : out) (acc : option N) : option N :=
  let upd_if k' := if k' =? k then match o_auth o with Some (AChallenge n) => Some n | _ => acc end else acc in
  match e with EMsg k' _ => upd_if k' | EBody k' _ => upd_if k' | _ => acc end.
Fixpoint last_issued (v : variant) (s : srv) (es : list ev) (k : N) (acc : option N) : option N :=
  match es with
  | [] => acc
  | e :: es' => let so := step v s e in last_issued v (fst so) es' k (note k e (snd so) acc)
  end.

End WithHmac.

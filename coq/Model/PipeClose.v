(* Model/PipeClose.v — C02: the order of actions inside Bridge.Close and what the ends can rely on.
   Transcribes internal/protocol/session/tunnel/bridge.go
     Bridge.Close   : 1. sourceForwarder.Close()  2. targetForwarder.Close() (+ tunnel conns, net conns, streams)
                      5. ManagerBase.Close() = cancel the context, then run the clean handlers synchronously
     Bridge.cleanup : the clean handler: reportTrafficStats() -> CloudControl.GetPortMapping / UpdatePortMappingStats,
                      a call into the stats backend that may answer arbitrarily late or never
   as a thread of Base/Threads.v next to a BACKEND thread whose only step is "the stats backend answers".  Schedules
   therefore range over every delay of the answer, including no answer at all.
     order    ConnsFirst    = the code (connections first, handlers last)
              HandlersFirst = Close with ManagerBase.Close() moved to the front (the seeded change C02-2)
     patience None          = cleanup waits for the report without bound (code before fixes/C02-cleanup-report-bounded.diff)
              Some k        = cleanup gives the report k polls (5 s in the code) and then returns
   Definitions only. *)
From TX Require Export Base.Threads.

Inductive corder := ConnsFirst | HandlersFirst.
Inductive cpc := CSrc | CTgt | CCancel | CReport | CDone.      (* CDone: Close has returned *)
Inductive cthread := TCloser (pc : cpc) (patience : option nat) | TBackend.

Record cshared := {
  x_src_closed : bool;      (* the source end observes closure *)
  x_tgt_closed : bool;      (* the target end observes closure *)
  x_cancelled : bool;       (* bridge context cancelled *)
  x_released : bool;        (* the stats backend has answered *)
  x_reported : bool }.      (* the final traffic report completed *)

Definition first_pc (o : corder) : cpc := match o with ConnsFirst => CSrc | HandlersFirst => CCancel end.
Definition next_pc (o : corder) (pc : cpc) : cpc :=
  match o, pc with
  | ConnsFirst, CSrc => CTgt | ConnsFirst, CTgt => CCancel | ConnsFirst, CCancel => CReport | ConnsFirst, CReport => CDone
  | HandlersFirst, CCancel => CReport | HandlersFirst, CReport => CSrc | HandlersFirst, CSrc => CTgt | HandlersFirst, CTgt => CDone
  | _, CDone => CDone
  end.

Definition cstep (o : corder) (t : cthread) (sh : cshared) : cthread * cshared :=
  match t with
  | TBackend => (TBackend, {| x_src_closed := x_src_closed sh; x_tgt_closed := x_tgt_closed sh; x_cancelled := x_cancelled sh;
                              x_released := true; x_reported := x_reported sh |})
  | TCloser pc pat =>
    match pc with
    | CSrc => (TCloser (next_pc o CSrc) pat,
               {| x_src_closed := true; x_tgt_closed := x_tgt_closed sh; x_cancelled := x_cancelled sh;
                  x_released := x_released sh; x_reported := x_reported sh |})
    | CTgt => (TCloser (next_pc o CTgt) pat,
               {| x_src_closed := x_src_closed sh; x_tgt_closed := true; x_cancelled := x_cancelled sh;
                  x_released := x_released sh; x_reported := x_reported sh |})
    | CCancel => (TCloser (next_pc o CCancel) pat,
               {| x_src_closed := x_src_closed sh; x_tgt_closed := x_tgt_closed sh; x_cancelled := true;
                  x_released := x_released sh; x_reported := x_reported sh |})
    | CReport =>
        if x_released sh
        then (TCloser (next_pc o CReport) pat,
              {| x_src_closed := x_src_closed sh; x_tgt_closed := x_tgt_closed sh; x_cancelled := x_cancelled sh;
                 x_released := true; x_reported := true |})
        else match pat with
             | None => (t, sh)                                              (* parked in the backend call *)
             | Some O => (TCloser (next_pc o CReport) pat, sh)              (* gave up waiting; the report goes on alone *)
             | Some (S k) => (TCloser CReport (Some k), sh)
             end
    | CDone => (t, sh)
    end
  end.

Definition csh0 : cshared :=
  {| x_src_closed := false; x_tgt_closed := false; x_cancelled := false; x_released := false; x_reported := false |}.
Definition close_init (o : corder) (pat : option nat) : cshared * list cthread := (csh0, [TCloser (first_pc o) pat; TBackend]).
(* thread 0 = the caller of Bridge.Close, thread 1 = the stats backend *)
Definition close_run (o : corder) (pat : option nat) (sched : list nat) : cshared * list cthread :=
  run _ _ (cstep o) (close_init o pat) sched.
Definition closer_pc (s : cshared * list cthread) : option cpc :=
  match nth_error (snd s) 0 with Some (TCloser pc _) => Some pc | _ => None end.

(* -------------------------------------------------------------------------------------------------
   The half-close relay (internal/utils/iocopy/copy.go Bidirectional): each direction copies until its Read ends — with
   io.EOF or with any other error — then half-closes the OTHER connection (tryCloseWrite), which is what tells that peer
   that the stream is over while the opposite direction is still parked in its Read.  A listening peer closes its own side
   only after it has seen that end of stream; Bidirectional returns when both directions are done.
     policy HalfCloseAlways     = the code
            HalfCloseOnEofOnly  = half-close only after a clean EOF (seeded change C02-9 / C12-8)
   Thread 0 = direction A->B (n chunks, then its Read ends with `kind`), thread 1 = direction B->A whose peer only listens. *)
Inductive endkind := EndEOF | EndErr.
Inductive hcpolicy := HalfCloseAlways | HalfCloseOnEofOnly.
Inductive hthread := HCopy (n : nat) (kind : endkind) | HHalfClose (kind : endkind) | HListen | HHalfCloseBack | HDone.
Record hshared := { h_peerB_sees_end : bool; h_peerA_sees_end : bool }.

Definition hstep (p : hcpolicy) (t : hthread) (sh : hshared) : hthread * hshared :=
  match t with
  | HCopy (S n) k => (HCopy n k, sh)
  | HCopy O k => (HHalfClose k, sh)                         (* Read returned EOF / an error: the loop is left *)
  | HHalfClose k =>
      match p, k with
      | HalfCloseOnEofOnly, EndErr => (HDone, sh)
      | _, _ => (HDone, {| h_peerB_sees_end := true; h_peerA_sees_end := h_peerA_sees_end sh |})
      end
  | HListen => if h_peerB_sees_end sh then (HHalfCloseBack, sh) else (t, sh)     (* B's peer closes only after it saw the end *)
  | HHalfCloseBack => (HDone, {| h_peerB_sees_end := h_peerB_sees_end sh; h_peerA_sees_end := true |})
  | HDone => (t, sh)
  end.

Definition relay_run (p : hcpolicy) (n : nat) (k : endkind) (sched : list nat) : hshared * list hthread :=
  run _ _ (hstep p) ({| h_peerB_sees_end := false; h_peerA_sees_end := false |}, [HCopy n k; HListen]) sched.
Definition relay_returned (s : hshared * list hthread) : bool :=
  match snd s with [HDone; HDone] => true | _ => false end.

(* -------------------------------------------------------------------------------------------------
   One direction's end must not truncate the other (request/response over a transport WITHOUT half-close):
   thread 0 = direction A->B: n chunks, then EOF, then tryCloseWrite(connB) -> readWriteCloser.CloseWrite, which on a
   transport without half-close does nothing (NoopOnNoCap, the code) or closes the whole stream (CloseOnNoCap, seeded C02-12);
   thread 1 = direction B->A: m chunks, each delivered only while the stream is open. *)
Inductive nocap_policy := NoopOnNoCap | CloseOnNoCap.
Inductive tthread := TReq (n : nat) | TReqHalfClose | TReqDone | TResp (m : nat) | TRespDone (truncated : bool).
Record tshared := { t_stream_closed : bool; t_delivered : nat }.
Definition tstep (p : nocap_policy) (t : tthread) (sh : tshared) : tthread * tshared :=
  match t with
  | TReq (S n) => (TReq n, sh)
  | TReq O => (TReqHalfClose, sh)
  | TReqHalfClose => (TReqDone, match p with NoopOnNoCap => sh | CloseOnNoCap => {| t_stream_closed := true; t_delivered := t_delivered sh |} end)
  | TReqDone => (t, sh)
  | TResp (S m) => if t_stream_closed sh then (TRespDone true, sh)
                   else (TResp m, {| t_stream_closed := false; t_delivered := S (t_delivered sh) |})
  | TResp O => (TRespDone false, sh)
  | TRespDone _ => (t, sh)
  end.
Definition reqresp_run (p : nocap_policy) (n m : nat) (sched : list nat) : tshared * list tthread :=
  run _ _ (tstep p) ({| t_stream_closed := false; t_delivered := 0 |}, [TReq n; TResp m]) sched.

(* -------------------------------------------------------------------------------------------------
   Histories of Close() calls and of the cancellation of the PARENT context (the context NewBridge was given: the
   SessionManager's).  The bridge context is a child: it is cancelled by Bridge.Close (ManagerBase.Close) AND by the parent.
   dispose runs no clean-up on cancellation, so a parent cancellation alone closes nothing: somebody still has to call Close,
   and that Close must run its close sequence.
     guard CloseAlways      = the code: every Close runs the (nil-checked, idempotent) close sequence
           SkipWhenCtxDone  = "if b.Ctx().Err() != nil { only ManagerBase.Close(); return }" (seeded C02-13) *)
Inductive cevent := EvClose | EvParentCancel.
Inductive close_guard := CloseAlways | SkipWhenCtxDone.
Record chstate := { ch_ctx_done : bool; ch_conns_closed : bool; ch_close_calls : nat }.
Definition ch_step (g : close_guard) (s : chstate) (e : cevent) : chstate :=
  match e with
  | EvParentCancel => {| ch_ctx_done := true; ch_conns_closed := ch_conns_closed s; ch_close_calls := ch_close_calls s |}
  | EvClose =>
      match g, ch_ctx_done s with
      | SkipWhenCtxDone, true => {| ch_ctx_done := true; ch_conns_closed := ch_conns_closed s; ch_close_calls := S (ch_close_calls s) |}
      | _, _ => {| ch_ctx_done := true; ch_conns_closed := true; ch_close_calls := S (ch_close_calls s) |}
      end
  end.
Definition ch_run (g : close_guard) (h : list cevent) : chstate :=
  fold_left (ch_step g) h {| ch_ctx_done := false; ch_conns_closed := false; ch_close_calls := 0 |}.

(* -------------------------------------------------------------------------------------------------
   Elapsed time and the remaining direction of the relay: a clock thread ticks; the remaining direction delivers m chunks.
   drain None = the code (iocopy.Bidirectional never sets a deadline on a connection a direction still reads);
   drain (Some d) = a read deadline d ticks after the first direction ended (seeded C02-15): a Read after it fails. *)
Inductive dthread := DResp (m : nat) | DRespDone (truncated : bool) | DClock.
Record dshared := { d_now : nat; d_got : nat }.
Definition dstep (drain : option nat) (t : dthread) (sh : dshared) : dthread * dshared :=
  match t with
  | DClock => (DClock, {| d_now := S (d_now sh); d_got := d_got sh |})
  | DResp (S m) =>
      match drain with
      | Some d => if Nat.ltb d (d_now sh) then (DRespDone true, sh) else (DResp m, {| d_now := d_now sh; d_got := S (d_got sh) |})
      | None => (DResp m, {| d_now := d_now sh; d_got := S (d_got sh) |})
      end
  | DResp O => (DRespDone false, sh)
  | DRespDone _ => (t, sh)
  end.
(* thread 0 = the remaining direction, thread 1 = the clock *)
Definition drain_run (drain : option nat) (m : nat) (sched : list nat) : dshared * list dthread :=
  run _ _ (dstep drain) ({| d_now := 0; d_got := 0 |}, [DResp m; DClock]) sched.

(* -------------------------------------------------------------------------------------------------
   The token wait of waitForTokens and the closure of the bridge: a direction that holds a chunk has w ticks of pacing left;
   the other side (thread 1) closes the bridge (cancels the bridge context) at some point.
     CancellableWait = rateLimiter.WaitN(b.Ctx(), k): a cancelled context ends the wait at the direction's next step
     SleepWait       = ReserveN + time.Sleep (seeded C02-18): the direction sleeps through every remaining tick *)
Inductive wait_policy := CancellableWait | SleepWait.
Inductive wthread := WWaiting (w : nat) | WExited | WCloser (fired : bool).
Definition wstep (p : wait_policy) (t : wthread) (cancelled : bool) : wthread * bool :=
  match t with
  | WCloser _ => (WCloser true, true)
  | WWaiting w =>
      match p, cancelled, w with
      | CancellableWait, true, _ => (WExited, cancelled)
      | _, _, O => (WExited, cancelled)
      | _, _, S k => (WWaiting k, cancelled)
      end
  | WExited => (t, cancelled)
  end.
Definition wait_run (p : wait_policy) (w : nat) (sched : list nat) : bool * list wthread :=
  run _ _ (wstep p) (false, [WWaiting w; WCloser false]) sched.

(* kept only to be refuted: a copy loop that, when a Write fails with a transient timeout, goes on with the NEXT read
   (seeded C02-16): what arrives is the concatenation of the chunks whose write did not fail *)
Fixpoint skip_failed_writes (chunks : list (list nat * bool)) : list nat :=
  match chunks with
  | [] => []
  | (d, failed) :: r => (if failed then [] else d) ++ skip_failed_writes r
  end.

(* -------------------------------------------------------------------------------------------------
   The copy loop and the stats backend: a direction copies m chunks; thread 1 is the stats backend, which may answer late or never.
     report_every None      = the code: no cloud-control call inside the loop (reports come from the 30 s ticker and from Close)
     report_every (Some b)  = a synchronous reportTrafficStats() after every b-th chunk (seeded C02-20): the loop goes on only
                              once the backend has answered *)
Inductive sthread := SCopy (m : nat) | SCopyDone | SBackend.
Record sshared := { s_answered : bool; s_copied : nat }.
Definition sstep (report_every : option nat) (t : sthread) (sh : sshared) : sthread * sshared :=
  match t with
  | SBackend => (SBackend, {| s_answered := true; s_copied := s_copied sh |})
  | SCopy (S m) =>
      match report_every with
      | Some b => if andb (Nat.ltb 0 (s_copied sh)) (andb (Nat.eqb (Nat.modulo (s_copied sh) b) 0) (negb (s_answered sh)))
                  then (t, sh)                                                   (* parked in the cloud-control call *)
                  else (SCopy m, {| s_answered := s_answered sh; s_copied := S (s_copied sh) |})
      | None => (SCopy m, {| s_answered := s_answered sh; s_copied := S (s_copied sh) |})
      end
  | SCopy O => (SCopyDone, sh)
  | SCopyDone => (t, sh)
  end.
Definition stats_run (report_every : option nat) (m : nat) (sched : list nat) : sshared * list sthread :=
  run _ _ (sstep report_every) ({| s_answered := false; s_copied := 0 |}, [SCopy m; SBackend]) sched.

(* -------------------------------------------------------------------------------------------------
   The teardown order of runBridgeLifecycle after bridge.Start() has returned (server_bridge.go):
     MapFirst     = the code: delete(s.tunnelBridges, id) first, then tunnelRouting.RemoveWaitingTunnel (a storage Delete
                    without context or timeout, which may answer arbitrarily late or never)
     RoutingFirst = the routing record is removed first (seeded C02-23)
   Histories of events: a step of the lifecycle goroutine, or the routing store answering. *)
Inductive td_order := MapFirst | RoutingFirst.
Inductive td_event := TdStep | TdStoreAnswers.
Inductive td_pc := TdMap | TdRouting | TdDone.
Record td_state := { td_at : td_pc; td_in_map : bool; td_answered : bool }.
Definition td_first (o : td_order) : td_pc := match o with MapFirst => TdMap | RoutingFirst => TdRouting end.
Definition td_next (o : td_order) (pc : td_pc) : td_pc :=
  match o, pc with
  | MapFirst, TdMap => TdRouting | MapFirst, TdRouting => TdDone
  | RoutingFirst, TdRouting => TdMap | RoutingFirst, TdMap => TdDone
  | _, TdDone => TdDone
  end.
Definition td_step (o : td_order) (s : td_state) (e : td_event) : td_state :=
  match e with
  | TdStoreAnswers => {| td_at := td_at s; td_in_map := td_in_map s; td_answered := true |}
  | TdStep =>
      match td_at s with
      | TdMap => {| td_at := td_next o TdMap; td_in_map := false; td_answered := td_answered s |}
      | TdRouting => if td_answered s then {| td_at := td_next o TdRouting; td_in_map := td_in_map s; td_answered := true |}
                     else s                                                  (* parked in the store's Delete *)
      | TdDone => s
      end
  end.
Definition td_run (o : td_order) (h : list td_event) : td_state :=
  fold_left (td_step o) h {| td_at := td_first o; td_in_map := true; td_answered := false |}.

(* -------------------------------------------------------------------------------------------------
   A connection joins an existing bridge (packet_handler_tunnel_bridge.go handleExistingBridge): the handler writes the
   TunnelOpenAck to the joining connection and attaches it to the bridge (SetTargetConnection wakes Bridge.Start, whose copy
   loop then writes the pending source bytes to the same connection, with no lock shared with the ack's WritePacket).
     AckThenAttach = the code; AttachThenAck = the ack moved behind the attach (seeded C02-25).
   Thread 0 = the handler, thread 1 = the copy loop with n pending chunks.  Wire items: true = the ack, false = a tunnel chunk. *)
Inductive join_order := AckThenAttach | AttachThenAck.
Inductive jthread := JHandler (todo : list bool) | JCopy (pending : nat).     (* todo: true = send ack, false = attach *)
Record jshared := { j_attached : bool; j_wire : list bool }.
Definition jstep (t : jthread) (sh : jshared) : jthread * jshared :=
  match t with
  | JHandler [] => (t, sh)
  | JHandler (true :: r) => (JHandler r, {| j_attached := j_attached sh; j_wire := j_wire sh ++ [true] |})
  | JHandler (false :: r) => (JHandler r, {| j_attached := true; j_wire := j_wire sh |})
  | JCopy O => (t, sh)
  | JCopy (S n) => if j_attached sh then (JCopy n, {| j_attached := true; j_wire := j_wire sh ++ [false] |}) else (t, sh)
  end.
Definition join_run (o : join_order) (n : nat) (sched : list nat) : jshared * list jthread :=
  run _ _ jstep ({| j_attached := false; j_wire := [] |},
                 [JHandler (match o with AckThenAttach => [true; false] | AttachThenAck => [false; true] end); JCopy n]) sched.

(* Model/RegistryMicro.v — C07 at the granularity of lock sections / I/O calls (definitions only).
   The multi-step methods of /repo/internal/protocol/session are cut where the real code releases its mutexes:
     packet_handler_handshake.go handleHandshake:
        A  get-or-create + authHandler.HandleHandshake + ReconcileIndex            (lines 40-94)
        W  sendHandshakeResponse: one WritePacket on the connection's stream         (95-110)   <- I/O call
        B1 clientRegistry.GetByClientID   B2 clientRegistry.Remove(old)   B3 clientRegistry.UpdateAuth   (112-137)
     connection_lifecycle.go CloseConnection:
        C1 delete from SessionManager.connMap (connLock)    C1b conn.Stream.Close()  <- I/O call
        C2 RemoveControlConnection (registry lock)          C3 RemoveTunnelConnection
     client_registry.go KickOldConnection:
        K1 index/connMap removal (registry lock)   then sendKickFn (WritePacket) and stream.Close() <- two I/O calls
   Two uses:
   (1) `step_inj`: an operation during whose k-th interleaving point (before/after an I/O call that is not made under
       the registry mutex) ANOTHER operation runs to completion — exactly what the Go harness does with its hooked
       PackageStreamer; used by Corr/C07.v for the differential run.
   (2) `mstep`: a Base/Threads.v thread program whose every step is one such section, with a ghost set `closing`
       (connections whose transport a CloseConnection has closed but whose registry section has not run yet);
       Proofs/RegistryMicro.v shows the invariant for every interleaving at this granularity. *)
From Coq Require Import List NArith Bool.
From TX Require Import Model.Registry.
Import ListNotations.
Open Scope N_scope.

(* ---- handleHandshake in pieces ---- *)
Definition hs_mutated (r : ctl) (kind x : N) : ctl :=
  if (kind =? 0) && (0 <? x) then {| c_cid := x; c_auth := true; c_seq := c_seq r; c_last := c_last r |} else r.

(* A: everything before the response is written; None = "connection not found" (no response is written) *)
Definition hs_phaseA (v : variant) (k : cfg) (c kind x : N) (s : st) : st * option ctl :=
  let found :=
    match get c (reg s) with
    | Some _ => Some s
    | None => if mem c (sess s) then Some (bump (registry_register k c (new_ctl s 0) s)) else None
    end in
  match found with
  | None => (s, None)
  | Some s1 =>
      match get c (reg s1) with
      | None => (s1, None)
      | Some r => let r' := hs_mutated r kind x in (reconcile v c (with_reg s1 (set c r' (reg s1))), Some r')
      end
  end.

Definition hs_rejected (kind x : N) : bool := negb ((kind =? 0) && (0 <? x)) && negb (kind =? 1).
Definition write_ok (c : N) (s : st) : bool := negb (mem c (closed s) || mem c (wfail s)).
Definition hs_block (kind x : N) (isCtl : bool) (r' : ctl) : bool := (kind =? 0) && (0 <? x) && isCtl && c_auth r' && (0 <? c_cid r').

(* B: old-connection cleanup and UpdateAuth, on whatever the registry contains by then *)
Definition hs_old (c X : N) (s : st) : option N :=
  match get X (idx s) with Some o => if o =? c then None else Some o | None => None end.
Definition hs_phaseB (v : variant) (c X : N) (s : st) : st :=
  update_auth v c X (match hs_old c X s with Some o => registry_remove o s | None => s end).

(* handleHandshake reassembled (Proofs/RegistryMicro.v: equal to Model/Registry.handshake) *)
Definition handshake_seq (v : variant) (k : cfg) (c kind x : N) (isCtl : bool) (s : st) : st * res :=
  match hs_phaseA v k c kind x s with
  | (s2, None) => (s2, (true, 0))
  | (s2, Some r') =>
      if hs_rejected kind x then (s2, (true, 0))
      else if negb (write_ok c s2) then (s2, (true, 0))
      else if hs_block kind x isCtl r' then (hs_phaseB v c (c_cid r') s2, (false, 0))
      else (s2, (false, 0))
  end.

(* ---- (1) one operation with another one injected at an interleaving point ---- *)
(* packets of the connection whose stream performs the I/O call are handled by the goroutine performing it *)
Definition inj_allowed (io : N) (j : op) : bool :=
  match j with
  | Handshake c _ _ _ => negb (c =? io)
  | Heartbeat c => negb (c =? io)
  | _ => true
  end.

Definition inject (v : variant) (k : cfg) (inj : option (N * op)) (pt io : N) (s : st) : st * bool :=
  match inj with
  | Some (at_, j) => if (at_ =? pt) && inj_allowed io j then (fst (step v k s j), true) else (s, false)
  | None => (s, false)
  end.

(* section A of the handshake when another operation runs between its two halves: the base connection record has been fetched
   (so c was a session connection without a control record), THEN the other operation ran, THEN the control record is registered —
   whether or not the base record still exists — and the auth handler and ReconcileIndex run *)
Definition hs_phaseA_late (v : variant) (k : cfg) (c kind x : N) (s : st) : st * option ctl :=
  let s1 := match get c (reg s) with
            | Some _ => s
            | None => bump (registry_register k c (new_ctl s 0) s)
            end in
  match get c (reg s1) with
  | None => (s1, None)
  | Some r => let r' := hs_mutated r kind x in (reconcile v c (with_reg s1 (set c r' (reg s1))), Some r')
  end.

Definition step_inj (v : variant) (k : cfg) (s : st) (o : op) (inj : option (N * op)) : st * res * bool :=
  match inj with
  | None => (step v k s o, false)
  | Some _ =>
    match o with
    | Handshake c kind x isCtl =>
      (* a control record without a session connection exists only when it was registered by the late path below after the base
         record had been closed: CloseConnection set the shared Stream to nil, so the response cannot even be attempted (no I/O call) *)
      if (match get c (reg s) with Some _ => negb (mem c (sess s)) | None => false end) then (step v k s o, false) else
        (* injection point 9: RemoteAddr(), reached only on the path that creates the control record *)
        let '(sJ, f9) := match get c (reg s) with
                         | None => if mem c (sess s) then inject v k inj 9 c s else (s, false)
                         | Some _ => (s, false)
                         end in
        match (if f9 then hs_phaseA_late v k c kind x sJ else hs_phaseA v k c kind x s) with
        | (s2, None) => (s2, (true, 0), f9)
        | (s2, Some r') =>
            let '(s3, f0) := inject v k inj 0 c s2 in          (* before WritePacket *)
            let wok := write_ok c s3 in
            let '(s4, f1) := inject v k inj 1 c s3 in          (* after WritePacket *)
            let f := f9 || f0 || f1 in
            if hs_rejected kind x then (s4, (true, 0), f)
            else if negb wok then (s4, (true, 0), f)
            else if hs_block kind x isCtl r' then (hs_phaseB v c (c_cid r') s4, (false, 0), f)
            else (s4, (false, 0), f)
        end
    | CloseConn c =>
        if mem c (sess s) then
          let s1 := with_sess s (rem c (sess s)) in
          let '(s2, f0) := inject v k inj 0 c s1 in            (* before Stream.Close *)
          let s3 := with_closed s2 (add c (closed s2)) in
          let '(s4, f1) := inject v k inj 1 c s3 in            (* after Stream.Close *)
          (tunnel_remove c (registry_remove c s4), (false, 0), f0 || f1)
        else (close_conn c s, (false, 0), false)
    | Kick x newc =>
        match get x (idx s) with
        | Some o =>
            if o =? newc then (s, (false, 0), false)
            else match get o (reg s) with
                 | Some r =>
                     let s1 := with_reg (with_idx s (unindex o r (idx s))) (del o (reg s)) in
                     let '(s2, f0) := inject v k inj 0 o s1 in   (* before / after the kick command is written *)
                     let '(s3, f1) := inject v k inj 1 o s2 in
                     let '(s4, f2) := inject v k inj 2 o s3 in   (* before / after Stream.Close *)
                     let s5 := with_closed s4 (add o (closed s4)) in
                     let '(s6, f3) := inject v k inj 3 o s5 in
                     (s6, (false, 0), f0 || f1 || f2 || f3)
                 | None => (kick x newc s, (false, 0), false)
                 end
        | None => (s, (false, 0), false)
        end
    | _ => (step v k s o, false)
    end
  end.

Fixpoint trace_inj (v : variant) (k : cfg) (s : st) (ops : list (op * option (N * op))) : list (st * res * bool) :=
  match ops with
  | [] => []
  | (o, inj) :: t => let r := step_inj v k s o inj in r :: trace_inj v k (fst (fst r)) t
  end.

(* ---- (2) thread programs whose steps are single lock sections ---- *)
Record gst := { g : st; closing : list N }.
Definition ginit : gst := {| g := init; closing := [] |}.

Inductive cont :=
| KW (c : N) (r' : ctl) (kind x : N) (isCtl : bool)   (* response being written *)
| KB1 (c X : N) | KB2 (c X o : N) | KB3 (c X : N)
| KC1b (c : N) | KC2 (c : N) | KC3 (c : N).

Definition lo := (option cont * list op)%type.

Definition mstep (k : cfg) (l : lo) (sh : gst) : lo * gst :=
  let prog := snd l in
  let same := {| g := g sh; closing := closing sh |} in
  match fst l with
  | Some (KW c r' kind x isCtl) =>
      if hs_rejected kind x || negb (write_ok c (g sh)) || negb (hs_block kind x isCtl r') then ((None, prog), same)
      else ((Some (KB1 c (c_cid r')), prog), same)
  | Some (KB1 c X) =>
      match hs_old c X (g sh) with
      | Some o => ((Some (KB2 c X o), prog), same)
      | None => ((Some (KB3 c X), prog), same)
      end
  | Some (KB2 c X o) => ((Some (KB3 c X), prog), {| g := registry_remove o (g sh); closing := closing sh |})
  | Some (KB3 c X) =>
      ((None, prog), {| g := if 0 <? X then update_auth Current c X (g sh) else g sh; closing := closing sh |})
  | Some (KC1b c) =>
      ((Some (KC2 c), prog), {| g := with_closed (g sh) (add c (closed (g sh))); closing := add c (closing sh) |})
  | Some (KC2 c) => ((Some (KC3 c), prog), {| g := registry_remove c (g sh); closing := rem c (closing sh) |})
  | Some (KC3 c) => ((None, prog), {| g := tunnel_remove c (g sh); closing := closing sh |})
  | None =>
      match prog with
      | [] => (l, same)
      | Handshake c kind x isCtl :: t =>
          (* a packet is dispatched only on a transport the server has not closed (the late-packet case is an atomic
             operation of Model/Registry.v and is covered by the sequential theorems) *)
          if mem c (closed (g sh)) then ((None, t), same)
          else match hs_phaseA Current k c kind x (g sh) with
               | (s2, None) => ((None, t), {| g := s2; closing := closing sh |})
               | (s2, Some r') => ((Some (KW c r' kind x isCtl), t), {| g := s2; closing := closing sh |})
               end
      | CloseConn c :: t =>
          if mem c (sess (g sh)) then ((Some (KC1b c), t), {| g := with_sess (g sh) (rem c (sess (g sh))); closing := closing sh |})
          else ((Some (KC2 c), t), same)
      | o :: t => ((None, t), {| g := fst (step Current k (g sh) o); closing := closing sh |})
      end
  end.
Close Scope N_scope.

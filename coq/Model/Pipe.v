(* Model/Pipe.v — C02: a tunnel is a transparent, ordered, loss-free byte pipe.
   Executable definitions only (no proofs).  Transcribes
     internal/protocol/session/tunnel/bridge_forward.go  Bridge.CopyWithControl, waitForTokens (the repair of
        fixes/C02-limiter-wait-in-burst-slices.diff; the pinned code called rateLimiter.WaitN(ctx, nr) directly),
        dynamicSourceWriter.Write, Bridge.Start (two copy goroutines + closeOnce)
     internal/protocol/session/tunnel/bridge.go          NewBridge (burst = 2*limit), Bridge.Close
     internal/protocol/session/server_bridge.go          startSourceBridge / runBridgeLifecycle (tunnelBridges map)
   A Read of the source end is one entry of a *read script* (chunk + what the Read returned with it), a Write to the
   destination end consumes one entry of a *write oracle* (how many bytes it accepts, whether it also returns an error),
   the limiter is x/time/rate's WaitN with its rule "n > burst -> error".
   Names are prefixed to stay clear of the OCaml driver's identifiers after extraction. *)
From TX Require Export Base.Bytes Base.Threads.
From Coq Require Import NArith List.
Open Scope N_scope.

(* pinned = the code before the repair (one WaitN(nr) per read); sliced = the repaired code *)
Inductive variant := Pinned | Sliced.
Definition current_variant : variant := Sliced.

(* what src.Read returned together with the bytes:
   RNone = nil error; RTimeout = an error with Timeout() && Temporary() (the loop continues);
   RFatal = io.EOF or any other error (the loop ends after writing the bytes that came with it) *)
Inductive rkind := RNone | RTimeout | RFatal.
Record rd := { r_data : list byte; r_end : rkind }.

(* one dst.Write: accepts min(w_max, len) bytes and returns an error iff w_err.
   An exhausted oracle means: every further write is complete and error-free. *)
Record wr := { w_max : N; w_err : bool }.

(* why a copy loop ended *)
Inductive xreason :=
| XReadEnd       (* Read returned EOF / a non-temporary error (after its bytes were written) *)
| XWriteErr      (* Write returned an error *)
| XShortWrite    (* nr != nw *)
| XLimiter       (* WaitN returned an error *)
| XCtx           (* periodic context check saw the bridge context cancelled *)
| XClosedRead    (* Read on an end the bridge has already closed *)
| XClosedWrite.  (* Write on an end the bridge has already closed (or sourceForwarder == nil) *)

Definition closed_kind (x : xreason) : bool :=
  match x with XClosedRead | XClosedWrite => true | _ => false end.


(* the retry decision of CopyWithControl on a read error that offers Timeout()/Temporary() (net.Error): only an error that is
   BOTH a timeout and temporary is retried; every other error (permanent timeout, temporary non-timeout, io.EOF,
   io.ErrUnexpectedEOF, net.ErrClosed, anything else) ends the loop.  Gen/C02.retry_table is the same decision probed on the
   real loop; Proofs/SideC02.v re-proves that the two agree. *)
Definition rkind_of_error (is_timeout is_temporary : bool) : rkind :=
  if is_timeout && is_temporary then RTimeout else RFatal.

(* bytes a reader hands out before its first fatal result: "what the end sent" *)
Fixpoint readable (rs : list rd) : list byte :=
  match rs with
  | [] => []
  | r :: rs' => r_data r ++ match r_end r with RFatal => [] | _ => readable rs' end
  end.

Section Params.
  Variable v : variant.
  Variable threshold : N.          (* constants.BatchUpdateThreshold *)
  Variable interval : N.           (* constants.ContextCheckInterval *)
  Variable lim : option N.         (* None: rateLimiter == nil; Some burst: rate.NewLimiter(limit, burst = 2*limit) *)

  (* the arguments of the successive rateLimiter.WaitN calls made for one read of n bytes.
     Sliced (waitForTokens): burst <= 0 -> a single WaitN(n); else  for n > 0 { k = min(n, burst); WaitN(k); n -= k } *)
  Definition wait_slices (burst n : N) : list N :=
    match v with
    | Pinned => [n]
    | Sliced =>
        if burst =? 0 then [n]
        else repeat burst (N.to_nat (n / burst)) ++ (if n mod burst =? 0 then [] else [n mod burst])
    end.

  (* rate.Limiter.WaitN(ctx, k): error if k > burst (limit is finite), error if ctx is already cancelled;
     otherwise it only delays *)
  Definition waitn_ok (cancelled : bool) (burst k : N) : bool := (k <=? burst) && negb cancelled.

  Definition limiter_ok (cancelled : bool) (n : N) : bool :=
    match lim with
    | None => true
    | Some burst => forallb (waitn_ok cancelled burst) (wait_slices burst n)
    end.

  (* total / batchCounter / *counter of CopyWithControl *)
  Record acct := { a_total : N; a_batch : N; a_counter : N }.
  Definition acct0 : acct := {| a_total := 0; a_batch := 0; a_counter := 0 |}.

  (* if nw > 0 { total += nw; batchCounter += nw; if batchCounter >= BatchUpdateThreshold { counter.Add(batchCounter); batchCounter = 0 } } *)
  Definition acct_add (a : acct) (nw : N) : acct :=
    if nw =? 0 then a else
    let b := a_batch a + nw in
    if threshold <=? b
    then {| a_total := a_total a + nw; a_batch := 0; a_counter := a_counter a + b |}
    else {| a_total := a_total a + nw; a_batch := b; a_counter := a_counter a |}.

  (* if batchCounter > 0 { counter.Add(batchCounter) }  (also the ctx-done exit: counter.Add(batchCounter); return) *)
  Definition acct_flush (a : acct) : acct :=
    {| a_total := a_total a; a_batch := 0; a_counter := a_counter a + a_batch a |}.

  Definition do_write (ws : list wr) (data : list byte) : N * bool * list wr :=
    match ws with
    | [] => (lenN data, false, [])
    | w :: ws' => (N.min (w_max w) (lenN data), w_err w, ws')
    end.

  (* ---------------------------------------------------------------------------------------------
     One CopyWithControl call, sequentially (the other direction does not interfere).
     cancelled: the bridge context is done for the whole call. *)
  Record cst := { c_out : list byte; c_acct : acct; c_ck : N;
                  c_nrd : N; c_nwr : N }.      (* number of Read / Write calls made so far (observables of the tie) *)
  Definition cst0 : cst := {| c_out := []; c_acct := acct0; c_ck := 0; c_nrd := 0; c_nwr := 0 |}.
  Definition cst_flush (s : cst) : cst :=
    {| c_out := c_out s; c_acct := acct_flush (c_acct s); c_ck := c_ck s; c_nrd := c_nrd s; c_nwr := c_nwr s |}.

  Inductive iter := ICont (s : cst) (ws : list wr) | IStop (x : xreason) (s : cst).

  (* the body of the for loop after the context check: nr, err := src.Read(buf); if nr > 0 {...}; if err != nil {...} *)
  Definition copy_iter (cancelled : bool) (r : rd) (ws : list wr) (s : cst) : iter :=
    match r_data r with
    | [] => match r_end r with RFatal => IStop XReadEnd s | _ => ICont s ws end
    | _ :: _ =>
      if negb (limiter_ok cancelled (lenN (r_data r))) then IStop XLimiter s else
      let '(nw, err, ws') := do_write ws (r_data r) in
      let s' := {| c_out := c_out s ++ firstn (N.to_nat nw) (r_data r);
                   c_acct := acct_add (c_acct s) nw; c_ck := c_ck s; c_nrd := c_nrd s; c_nwr := c_nwr s + 1 |} in
      if err then IStop XWriteErr s' else
      if negb (nw =? lenN (r_data r)) then IStop XShortWrite s' else
      match r_end r with RFatal => IStop XReadEnd s' | _ => ICont s' ws' end
    end.

  (* a script that is used up behaves like a reader at EOF *)
  Fixpoint copy_loop (cancelled : bool) (rs : list rd) (ws : list wr) (s : cst) : xreason * cst :=
    let ck1 := c_ck s + 1 in
    if (interval <=? ck1) && cancelled then (XCtx, cst_flush s) else
    let s1 := {| c_out := c_out s; c_acct := c_acct s; c_ck := if interval <=? ck1 then 0 else ck1;
                 c_nrd := c_nrd s + 1; c_nwr := c_nwr s |} in
    match rs with
    | [] => (XReadEnd, cst_flush s1)
    | r :: rs' =>
      match copy_iter cancelled r ws s1 with
      | ICont s2 ws' => copy_loop cancelled rs' ws' s2
      | IStop x s2 => (x, cst_flush s2)
      end
    end.

  (* ---------------------------------------------------------------------------------------------
     Bridge.Start: two copy goroutines over the two ends + closeOnce, as threads of Base/Threads.v.
     One atomic step = one Read (with the limiter wait that follows it), or one Write, or the deferred closeBridge().
     Direction false = source->target (bytes land at the target end), true = target->source. *)
  Inductive bpc :=
  | BRead
  | BWrite (data : list byte) (e : rkind)
  | BFinish (x : xreason)          (* loop left; deferred closeBridge() not yet run *)
  | BDone (x : xreason).

  Record bthread := { b_dir : bool; b_pc : bpc; b_rs : list rd; b_ws : list wr; b_acct : acct }.

  Record bshared := {
    s_closed : bool;               (* Bridge.Close() has run: both ends closed, forwarders nil, context cancelled *)
    s_closes : nat;                (* how many times closeOnce's function body ran *)
    s_out0 : list byte;            (* bytes accepted by the target end (written by direction false) *)
    s_out1 : list byte }.          (* bytes accepted by the source end (written by direction true) *)

  Definition sh_out (d : bool) (sh : bshared) : list byte := if d then s_out1 sh else s_out0 sh.
  Definition sh_deliver (d : bool) (bs : list byte) (sh : bshared) : bshared :=
    if d then {| s_closed := s_closed sh; s_closes := s_closes sh; s_out0 := s_out0 sh; s_out1 := s_out1 sh ++ bs |}
    else {| s_closed := s_closed sh; s_closes := s_closes sh; s_out0 := s_out0 sh ++ bs; s_out1 := s_out1 sh |}.

  Definition b_set (t : bthread) (pc : bpc) (rs : list rd) (ws : list wr) (a : acct) : bthread :=
    {| b_dir := b_dir t; b_pc := pc; b_rs := rs; b_ws := ws; b_acct := a |}.
  Definition b_finish (t : bthread) (x : xreason) (rs : list rd) (ws : list wr) (a : acct) : bthread :=
    b_set t (BFinish x) rs ws (acct_flush a).

  Definition bstep (t : bthread) (sh : bshared) : bthread * bshared :=
    match b_pc t with
    | BRead =>
      if s_closed sh then (b_finish t XClosedRead (b_rs t) (b_ws t) (b_acct t), sh) else
      match b_rs t with
      | [] => (b_finish t XReadEnd [] (b_ws t) (b_acct t), sh)
      | r :: rs' =>
        match r_data r with
        | [] => match r_end r with
                | RFatal => (b_finish t XReadEnd rs' (b_ws t) (b_acct t), sh)
                | _ => (b_set t BRead rs' (b_ws t) (b_acct t), sh)
                end
        | _ :: _ =>
          if negb (limiter_ok false (lenN (r_data r)))
          then (b_finish t XLimiter rs' (b_ws t) (b_acct t), sh)
          else (b_set t (BWrite (r_data r) (r_end r)) rs' (b_ws t) (b_acct t), sh)
        end
      end
    | BWrite data e =>
      if s_closed sh then (b_finish t XClosedWrite (b_rs t) (b_ws t) (b_acct t), sh) else
      let '(nw, err, ws') := do_write (b_ws t) data in
      let sh' := sh_deliver (b_dir t) (firstn (N.to_nat nw) data) sh in
      let a' := acct_add (b_acct t) nw in
      if err then (b_finish t XWriteErr (b_rs t) ws' a', sh') else
      if negb (nw =? lenN data) then (b_finish t XShortWrite (b_rs t) ws' a', sh') else
      match e with
      | RFatal => (b_finish t XReadEnd (b_rs t) ws' a', sh')
      | _ => (b_set t BRead (b_rs t) ws' a', sh')
      end
    | BFinish x =>
      (b_set t (BDone x) (b_rs t) (b_ws t) (b_acct t),
       if s_closed sh then sh
       else {| s_closed := true; s_closes := S (s_closes sh); s_out0 := s_out0 sh; s_out1 := s_out1 sh |})
    | BDone _ => (t, sh)
    end.

  Definition b_init (d : bool) (rs : list rd) (ws : list wr) : bthread :=
    {| b_dir := d; b_pc := BRead; b_rs := rs; b_ws := ws; b_acct := acct0 |}.
  Definition sh_init : bshared := {| s_closed := false; s_closes := 0; s_out0 := []; s_out1 := [] |}.

  Definition bridge_init (rs0 : list rd) (ws0 : list wr) (rs1 : list rd) (ws1 : list wr) : bshared * list bthread :=
    (sh_init, [b_init false rs0 ws0; b_init true rs1 ws1]).

  Definition bridge_run (rs0 : list rd) (ws0 : list wr) (rs1 : list rd) (ws1 : list wr) (sched : list nat)
    : bshared * list bthread :=
    run _ _ bstep (bridge_init rs0 ws0 rs1 ws1) sched.

  Definition b_done (t : bthread) : option xreason := match b_pc t with BDone x => Some x | _ => None end.
End Params.

(* -------------------------------------------------------------------------------------------------
   startSourceBridge / runBridgeLifecycle over SessionManager.tunnelBridges, any number of callers.
   One step = one bridgeLock critical section (or one tick of the bridge's life between them).
     LStart     : NewTunnelBridge; lock; if exists -> AlreadyExists else tunnelBridges[id] = bridge; unlock
     LRunning k : bridge.Start() is running (k more ticks; arbitrary)
     LDelete    : lock; delete(tunnelBridges, id); unlock
   The registry maps a tunnel id to the tag of the thread whose bridge it holds. *)
Inductive lpc := LStart | LRunning (k : nat) | LDelete | LDone (registered : bool).
Record lthread := { l_id : N; l_tag : nat; l_pc : lpc }.
Definition registry := N -> option nat.
Definition reg_set (m : registry) (k : N) (x : option nat) : registry := fun j => if N.eqb j k then x else m j.
Definition reg_empty : registry := fun _ => None.

Definition lstep (t : lthread) (m : registry) : lthread * registry :=
  match l_pc t with
  | LStart =>
      match m (l_id t) with
      | Some _ => ({| l_id := l_id t; l_tag := l_tag t; l_pc := LDone false |}, m)
      | None => ({| l_id := l_id t; l_tag := l_tag t; l_pc := LRunning (l_tag t) |}, reg_set m (l_id t) (Some (l_tag t)))
      end
  | LRunning (S k) => ({| l_id := l_id t; l_tag := l_tag t; l_pc := LRunning k |}, m)
  | LRunning O => ({| l_id := l_id t; l_tag := l_tag t; l_pc := LDelete |}, m)
  | LDelete => ({| l_id := l_id t; l_tag := l_tag t; l_pc := LDone true |}, reg_set m (l_id t) None)
  | LDone _ => (t, m)
  end.

Definition l_active (t : lthread) : bool :=
  match l_pc t with LRunning _ | LDelete => true | _ => false end.
Definition l_finished (t : lthread) : bool :=
  match l_pc t with LDone _ => true | _ => false end.

(* callers i = 0,1,... each asking for tunnel id (nth ids i); the running time of thread i is i ticks
   (any positive number of steps works: the schedule decides how long each bridge lives) *)
Fixpoint l_init_from (i : nat) (ids : list N) : list lthread :=
  match ids with
  | [] => []
  | k :: r => {| l_id := k; l_tag := i; l_pc := LStart |} :: l_init_from (S i) r
  end.
Definition l_init (ids : list N) : list lthread := l_init_from 0 ids.
Definition lifecycle_run (ids : list N) (sched : list nat) : registry * list lthread :=
  run _ _ lstep (reg_empty, l_init ids) sched.

(* -------------------------------------------------------------------------------------------------
   Source re-attach on a live bridge (bridge_connection.go SetSourceConnection, called by handleExistingBridge when the
   source client reconnects; bridge_forward.go dynamicSourceWriter.Write).
   The target->source copy loop writes through dynamicSourceWriter, which fetches b.sourceForwarder on EVERY write;
   SetSourceConnection(new) replaces b.sourceForwarder by a forwarder over the new connection.
   Shared state: the bytes accepted by each source end so far, oldest end first; the LAST element is the end installed
   most recently (the one dynamicSourceWriter will fetch).  Threads: the target->source loop (read script of the target
   end, write oracle of the source side, no limiter) and an attacher that performs n re-attaches, interleaved by the
   schedule.  One step = one Read, one Write, or one SetSourceConnection. *)
Inductive qpc := QRead | QWrite (data : list byte) (e : rkind) | QDone (x : xreason).
Inductive qthread := QCopy (pc : qpc) (rs : list rd) (ws : list wr) | QAttach (n : nat).
Definition qshared := list (list byte).

Definition deliver_cur (ends : qshared) (bs : list byte) : qshared := removelast ends ++ [last ends [] ++ bs].

Definition qstep (t : qthread) (ends : qshared) : qthread * qshared :=
  match t with
  | QAttach O => (t, ends)
  | QAttach (S n) => (QAttach n, ends ++ [[]])       (* b.sourceForwarder = CreateDataForwarder(new conn) *)
  | QCopy pc rs ws =>
    match pc with
    | QRead =>
      match rs with
      | [] => (QCopy (QDone XReadEnd) [] ws, ends)
      | r :: rs' =>
        match r_data r with
        | [] => (match r_end r with RFatal => QCopy (QDone XReadEnd) rs' ws | _ => QCopy QRead rs' ws end, ends)
        | _ :: _ => (QCopy (QWrite (r_data r) (r_end r)) rs' ws, ends)
        end
      end
    | QWrite data e =>
      let '(nw, err, ws') := do_write ws data in
      let ends' := deliver_cur ends (firstn (N.to_nat nw) data) in      (* goes to the forwarder fetched NOW *)
      if err then (QCopy (QDone XWriteErr) rs ws', ends') else
      if negb (N.eqb nw (lenN data)) then (QCopy (QDone XShortWrite) rs ws', ends') else
      match e with
      | RFatal => (QCopy (QDone XReadEnd) rs ws', ends')
      | _ => (QCopy QRead rs ws', ends')
      end
    | QDone _ => (t, ends)
    end
  end.

(* thread 0 = the target->source loop, thread 1 = the attacher; one source end attached at the start *)
Definition reattach_init (rs : list rd) (ws : list wr) (n : nat) : qshared * list qthread :=
  ([[]], [QCopy QRead rs ws; QAttach n]).
Definition reattach_run (rs : list rd) (ws : list wr) (n : nat) (sched : list nat) : qshared * list qthread :=
  run _ _ qstep (reattach_init rs ws n) sched.

(* -------------------------------------------------------------------------------------------------
   A coupled variant, kept only to be refuted: a Write TO an end waits while the opposite direction is parked in its Read
   FROM that same end (what streamDataForwarderAdapter does if Write takes the mutex that Read holds across the blocking
   ReadAvailable — seeded change C02-7).  Direction i writes to the end the opposite direction reads from. *)
Definition at_read (t : bthread) : bool := match b_pc t with BRead => true | _ => false end.
Definition at_write (t : bthread) : bool := match b_pc t with BWrite _ _ => true | _ => false end.
Definition coupled_step (v : variant) (threshold : N) (lim : option N) (s : bshared * list bthread) (i : nat)
  : bshared * list bthread :=
  match nth_error (snd s) i, nth_error (snd s) (1 - i) with
  | Some t, Some u => if at_write t && at_read u then s else sys_step _ _ (bstep v threshold lim) s i
  | _, _ => sys_step _ _ (bstep v threshold lim) s i
  end.
Definition coupled_run (v : variant) (threshold : N) (lim : option N) (rs0 : list rd) (ws0 : list wr) (rs1 : list rd) (ws1 : list wr)
  (sched : list nat) : bshared * list bthread :=
  fold_left (coupled_step v threshold lim) sched (bridge_init rs0 ws0 rs1 ws1).

(* -------------------------------------------------------------------------------------------------
   Target attach (bridge_connection.go SetTargetConnection closes `ready`; bridge_forward.go Start blocks on `ready` before it
   spawns the two copy goroutines).  Thread index 2 is the attach event; until it has happened a step of a copy direction
   does nothing.  Schedules therefore range over every position of the attach among the steps of the two directions. *)
Definition attach_step (v : variant) (threshold : N) (lim : option N)
  (s : bool * (bshared * list bthread)) (i : nat) : bool * (bshared * list bthread) :=
  if fst s then (true, sys_step _ _ (bstep v threshold lim) (snd s) i)
  else if Nat.eqb i 2 then (true, snd s) else s.
Definition attach_run (v : variant) (threshold : N) (lim : option N) (rs0 : list rd) (ws0 : list wr) (rs1 : list rd) (ws1 : list wr)
  (sched : list nat) : bool * (bshared * list bthread) :=
  fold_left (attach_step v threshold lim) sched (false, bridge_init rs0 ws0 rs1 ws1).
(* the part of a schedule that comes after the first attach event *)
Fixpoint after_attach (sched : list nat) : list nat :=
  match sched with
  | [] => []
  | i :: r => if Nat.eqb i 2 then r else after_attach r
  end.
Close Scope N_scope.

(* Model/RoutingConc.v — the routing table under concurrency, at the granularity of STORAGE CALLS (property C09).
   Uses Base/Threads.v: any number of threads, any schedule; one [tstep] = one atomic action:

   * [XOp o]: one RoutingTable call.  On the repaired tree every RoutingTable call makes exactly ONE storage call
     (Register/RegisterNodeAddress: one Set; Lookup/GetNodeAddress: one Get; Remove: one Delete), so a RoutingTable call
     is atomic exactly when that storage call is.  For Set this is an obligation on the backend that the harness
     checks on the real code (stream "conc"): what ends up under the key is the encoding of the value handed to THAT
     call - redis.Storage.Set's json.Marshal + client.Set, memory.Storage.Set's critical section.
   * [XSweep loc]: the backend's sweep of one store (memory.Storage.CleanupExpired, also reached through
     hybrid.Storage.CleanupExpired and the StartCleanup ticker; Redis expires keys by itself).  On the tree as found it
     is ONE critical section (Storage.mu held from the expiry test to the delete): [two_phase = false].
     [two_phase = true] is the variant that collects the lapsed keys in one section and deletes them in a later one
     without re-testing; kept to show that the theorem really depends on the sweep's atomicity
     (Proofs/RoutingConc.v two_phase_sweep_refuted).

   Threads are nodes' goroutines: handlers registering / looking up / removing tunnels, the address refresh loop, the
   sweep ticker, and the passing of time ([XOp (OTick ..)]). *)
From TX Require Export Base.Threads.
From TX Require Export Model.Routing.
Open Scope N_scope.

Inductive xop :=
| XOp (o : op)
| XSweep (loc : option nat).      (* None: the shared store, Some n: node n's local store *)

Section Conc.
  Variable gstr : Type.
  Variable enc : waiting -> gstr.
  Variable dec : gstr -> option waiting.
  Variable decm : gstr -> option waiting.
  Variable of_addr : str -> gstr.
  Variable to_addr : gstr -> str.
  Variable keep : cell -> N -> bool.

  (* CleanupExpired: !Expiration.IsZero() && now.After(Expiration) *)
  Definition lapsed (e : entry gstr) (t : N) : bool :=
    match e_dl gstr e with Some d => d <? t | None => false end.

  Definition sweep_pred (s : state gstr) (loc : option nat) : cell -> bool :=
    fun x => loc_eqb (fst x) loc &&
             match mem gstr s x with Some e => lapsed e (clk gstr s x) | None => false end.

  Definition del_where (s : state gstr) (p : cell -> bool) : state gstr :=
    mkS gstr (now gstr s) (bnow gstr s) (fun x => if p x then None else mem gstr s x).

  Definition sweep (s : state gstr) (loc : option nat) : state gstr := del_where s (sweep_pred s loc).

  Record local := mkL { lo_prog : list xop;                    (* calls still to make *)
                        lo_pending : option (cell -> bool) }.  (* two-phase sweep: keys collected, delete phase due *)

  Variable two_phase : bool.
  Variable c : cfg.

  Definition tstep (lo : local) (sh : state gstr) : local * state gstr :=
    match lo_pending lo with
    | Some p => (mkL (lo_prog lo) None, del_where sh p)
    | None =>
        match lo_prog lo with
        | [] => (lo, sh)
        | XOp o :: rest => (mkL rest None, fst (step gstr enc dec decm of_addr to_addr keep c sh o))
        | XSweep loc :: rest =>
            if two_phase then (mkL rest (Some (sweep_pred sh loc)), sh) else (mkL rest None, sweep sh loc)
        end
    end.

  Definition crun (sh : state gstr) (ls : list local) (sched : list nat) : state gstr * list local :=
    Threads.run (state gstr) local tstep (sh, ls) sched.
End Conc.

(* the call names tunnel id t in a Register or a Remove *)
Definition xsets_tunnel (t : str) (x : xop) : Prop :=
  match x with
  | XOp (ORegister _ r) => w_tunnel r = t
  | XOp (ORemove _ t') => t' = t
  | _ => False
  end.

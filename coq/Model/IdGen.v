(* Model/IdGen.v — C15: id generation by random candidate + atomic set-if-absent, on one shared store.
   Transcribes internal/core/idgen/generator.go (StorageIDGenerator.Generate / tryMarkAsUsed / Release) and
   internal/core/node/node_id_allocator.go (AllocateNodeID = the same loop over the fixed candidate list
   node-0001..node-1000).  One thread step = ONE storage action (SetNX or Delete), the granularity the
   property names.  Candidate streams and storage faults are arbitrary (adversarial) inputs.
   Definitions only. *)
From TX Require Export Base.Threads.
From Coq Require Export NArith.

Definition id := N.
Definition markers := id -> bool.                         (* the store's view: key present *)
Definition mark (m : markers) (c : id) (v : bool) : markers := fun k => if N.eqb k c then v else m k.

Inductive gop := OpGen | OpRel.
Inductive gres := Got (i : id) | Exhausted | Released (i : id).

Record gen := {
  ops : list gop;          (* what this caller still wants to do *)
  cands : list id;         (* its remaining random candidates (adversarial; may collide with anything) *)
  faults : list bool;      (* per SetNX call: true = the storage call fails (tryMarkAsUsed returns an error) *)
  tries : nat;             (* attempts left in the current Generate *)
  held : list id;          (* ids returned to this caller and not yet released *)
  log : list gres }.       (* results in order, newest first *)

Section G.
  Variable MaxAttempts : nat.

  (* Release with nothing held makes no storage call: skipped without consuming a step *)
  Fixpoint skip_noops (o : list gop) (h : list id) : list gop :=
    match o, h with
    | OpRel :: r, [] => skip_noops r h
    | _, _ => o
    end.

  Definition next_fault (g : gen) : bool * list bool :=
    match faults g with [] => (false, []) | f :: fs => (f, fs) end.

  Definition gstep (g : gen) (m : markers) : gen * markers :=
    match skip_noops (ops g) (held g) with
    | [] => (g, m)
    | OpRel :: r =>
        match held g with
        | [] => (g, m)
        | h :: hs => ({| ops := r; cands := cands g; faults := faults g; tries := tries g; held := hs;
                         log := Released h :: log g |}, mark m h false)           (* storage.Delete *)
        end
    | OpGen :: r =>
        match cands g with
        | [] => ({| ops := r; cands := []; faults := faults g; tries := MaxAttempts; held := held g;
                    log := Exhausted :: log g |}, m)
        | c :: cs =>
            let '(f, fs) := next_fault g in
            if negb f && negb (m c)
            then ({| ops := r; cands := cs; faults := fs; tries := MaxAttempts; held := c :: held g;
                     log := Got c :: log g |}, mark m c true)                      (* SetNX succeeded *)
            else (* taken, or the call failed: retry with the next candidate, or give up cleanly *)
              match tries g with
              | 0 | 1 => ({| ops := r; cands := cs; faults := fs; tries := MaxAttempts; held := held g;
                             log := Exhausted :: log g |}, m)
              | S t => ({| ops := OpGen :: r; cands := cs; faults := fs; tries := t; held := held g;
                           log := log g |}, m)
              end
        end
    end.

  Definition init_gen (o : list gop) (c : list id) (f : list bool) : gen :=
    {| ops := o; cands := c; faults := f; tries := MaxAttempts; held := []; log := [] |}.

  Definition all_held (ls : list gen) : list id := flat_map held ls.

  Definition grun (pre : markers) (ts : list gen) (sched : list nat) : markers * list gen :=
    run _ _ gstep (pre, ts) sched.
End G.

(* ---- the non-atomic fallback of tryMarkAsUsed (store without SetNX): Exists, then Set, under a mutex
   that belongs to the GENERATOR INSTANCE.  Two steps per attempt; `inst` names the instance.  Either storage
   call may fail (f_faults, one entry per call of this caller, true = the call returns an error): the attempt is
   then abandoned without handing out the candidate (tryMarkAsUsed returns (false, err)).  `lenient = true` is
   the variant that treats a failing Exists as "not taken" and goes on to Set (the shape of seeded change C15-7). ---- *)
Inductive fpc := FIdle | FChecked (c : id) | FDone (c : id) | FTaken | FErr.
Record fgen := { f_inst : nat; f_cand : id; f_faults : list bool; f_pc : fpc }.
Record fshared := { f_marks : markers; f_locks : nat -> bool }.

Definition f_next_fault (g : fgen) : bool * list bool :=
  match f_faults g with [] => (false, []) | f :: fs => (f, fs) end.

Definition fstep_gen (lenient : bool) (g : fgen) (s : fshared) : fgen * fshared :=
  match f_pc g with
  | FIdle =>
      if f_locks s (f_inst g) then (g, s)                                  (* mutex held by a sibling: blocked *)
      else
        let '(f, fs) := f_next_fault g in
        let s' := {| f_marks := f_marks s; f_locks := fun k => if Nat.eqb k (f_inst g) then true else f_locks s k |} in
        if f && negb lenient
        then ({| f_inst := f_inst g; f_cand := f_cand g; f_faults := fs; f_pc := FErr |},
              {| f_marks := f_marks s; f_locks := f_locks s |})             (* Exists failed: unlock, report the error *)
        else if negb f && f_marks s (f_cand g)
        then ({| f_inst := f_inst g; f_cand := f_cand g; f_faults := fs; f_pc := FTaken |},
              {| f_marks := f_marks s; f_locks := f_locks s |})             (* Exists = true: unlock, report taken *)
        else ({| f_inst := f_inst g; f_cand := f_cand g; f_faults := fs; f_pc := FChecked (f_cand g) |}, s')
  | FChecked c =>
      let '(f, fs) := f_next_fault g in
      if f
      then ({| f_inst := f_inst g; f_cand := f_cand g; f_faults := fs; f_pc := FErr |},
            {| f_marks := f_marks s;
               f_locks := fun k => if Nat.eqb k (f_inst g) then false else f_locks s k |})   (* Set failed; unlock *)
      else ({| f_inst := f_inst g; f_cand := f_cand g; f_faults := fs; f_pc := FDone c |},
            {| f_marks := mark (f_marks s) c true;
               f_locks := fun k => if Nat.eqb k (f_inst g) then false else f_locks s k |})   (* Set; unlock *)
  | _ => (g, s)
  end.
Definition fstep := fstep_gen false.
Definition fstep_lenient := fstep_gen true.

(* ---- UUID-based generators (uuid_generator.go: connection, tunnel and mapping-instance ids; no store involved):
   an id is one entropy draw (uuid.NewV7); when that draw fails (None) the generator falls back to a second draw
   (uuid v4).  `shadow = true` is the variant whose fallback result is lost and the nil UUID (0) is returned (the
   shape of seeded change C15-9).  Two failing draws in a row: uuid.New() panics in the real code — the run stops. ---- *)
Fixpoint ugen (shadow : bool) (n : nat) (draws : list (option id)) : list id :=
  match n with
  | O => []
  | S k =>
      match draws with
      | [] => []
      | Some d :: r => d :: ugen shadow k r
      | None :: Some d :: r => (if shadow then 0%N else d) :: ugen shadow k r
      | None :: _ => []
      end
  end.
Definition somes (draws : list (option id)) : list id := flat_map (fun o => match o with Some d => [d] | None => [] end) draws.

(* ---- the node-id lease (node_id_allocator.go): the slot marker lives `ttl` seconds; while the holder is alive a heartbeat
   re-writes it every `p` seconds.  State = (now, time of the last write of the marker); one step = one second.
   `beat = false` is a holder whose heartbeat does not run (the shape of seeded change C15-14). ---- *)
Fixpoint lease (beat : bool) (p : nat) (n : nat) : nat * nat :=
  match n with
  | O => (O, O)
  | S k => let '(now, last) := lease beat p k in
           let now' := S now in
           if beat && Nat.eqb (now' - last) p then (now', now') else (now', last)
  end.
Definition marker_live (ttl : nat) (s : nat * nat) : bool := Nat.ltb (fst s) (snd s + ttl).

(* Model/Pending.v — C11: pending-request tables keyed by a client-chosen id (session/dns_handler.go DNSResolveManager /
   DNSQueryManager: RegisterRequest, HandleResponse, UnregisterRequest; ids are the requesters' CommandIds).
   Definitions only (proofs: Proofs/Pending.v).

   An entry is owned by (id, requester, responder connection): the request was forwarded to `responder`, and only an answer
   arriving on that connection is relayed to `requester`.  Events of any number of requests interleave freely:
     PReg id q s   RegisterRequest(id, fromConnID = s) by request q  — OVERWRITES an entry with the same id
     PResp id x t  HandleResponse(id, fromConnID = x, payload t)     — relayed iff the entry's responder is x (channel of size 1)
     PUnreg id     UnregisterRequest(id) (deferred: the request returned after its answer or its timeout) — deletes by id
   `shared = true` is the refuted variant (a seeded breaking change): RegisterRequest on a pending id re-uses the existing
   entry, the new requester waits on the same channel and inherits the first requester's responder. *)
From Coq Require Import NArith List Bool.
Import ListNotations.
Open Scope N_scope.

Inductive pev := PReg (id q s : N) | PResp (id x t : N) | PUnreg (id : N).

(* entry: id, waiting requests not yet served (oldest first), responder connection *)
Record pentry := { pe_id : N; pe_wait : list N; pe_resp : N }.
Record pstate := { p_tab : list pentry; p_deliv : list (N * N) }.    (* deliveries: (request, payload) in order *)

Fixpoint p_find (id : N) (l : list pentry) : option pentry :=
  match l with [] => None | e :: l' => if pe_id e =? id then Some e else p_find id l' end.
Fixpoint p_remove (id : N) (l : list pentry) : list pentry :=
  match l with [] => [] | e :: l' => if pe_id e =? id then p_remove id l' else e :: p_remove id l' end.

Definition p_step (shared : bool) (s : pstate) (e : pev) : pstate :=
  match e with
  | PReg id q r =>
      match (if shared then p_find id (p_tab s) else None) with
      | Some old => {| p_tab := {| pe_id := id; pe_wait := pe_wait old ++ [q]; pe_resp := pe_resp old |} :: p_remove id (p_tab s);
                       p_deliv := p_deliv s |}
      | None => {| p_tab := {| pe_id := id; pe_wait := [q]; pe_resp := r |} :: p_remove id (p_tab s); p_deliv := p_deliv s |}
      end
  | PResp id x t =>
      match p_find id (p_tab s) with
      | Some en =>
          match pe_wait en with
          | q :: rest => if pe_resp en =? x
                         then {| p_tab := {| pe_id := id; pe_wait := rest; pe_resp := pe_resp en |} :: p_remove id (p_tab s);
                                 p_deliv := p_deliv s ++ [(q, t)] |}
                         else s
          | [] => s           (* channel already used: "response channel full" *)
          end
      | None => s
      end
  | PUnreg id => {| p_tab := p_remove id (p_tab s); p_deliv := p_deliv s |}
  end.

Definition p_init : pstate := {| p_tab := []; p_deliv := [] |}.
Definition p_run (shared : bool) (evs : list pev) : pstate := fold_left (p_step shared) evs p_init.
Definition deliveries (shared : bool) (evs : list pev) : list (N * N) := p_deliv (p_run shared evs).
(* payloads request q received *)
Definition got (shared : bool) (evs : list pev) (q : N) : list N :=
  map snd (filter (fun d => fst d =? q) (deliveries shared evs)).
